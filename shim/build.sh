#!/bin/bash
# Builds the link inputs that stand in for libxcrypto + boost (DESIGN.md §2).
set -euo pipefail
cd "$(dirname "$0")/.."
OUT=build/lib
mkdir -p "$OUT" build/obj
CC=${CC:-gcc}
$CC -O2 -fPIC -Wall -Wno-unused-function -c shim/c/xcshim.c -o build/obj/xcshim.o
$CC -O2 -fPIC -Wall -c shim/c/xcshim_tlvstub.c -o build/obj/xcshim_tlvstub.o
rm -f "$OUT/libxcrypto.a"
ar rc "$OUT/libxcrypto.a" build/obj/xcshim.o build/obj/xcshim_tlvstub.o
echo 'static int verif_empty_archive_member;' > build/obj/empty.c
$CC -c build/obj/empty.c -o build/obj/empty.o
for b in system filesystem thread date_time regex chrono; do
  rm -f "$OUT/libboost_$b.a"
  ar rc "$OUT/libboost_$b.a" build/obj/empty.o
done
echo "shim libs built in $OUT"
