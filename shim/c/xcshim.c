/*
 * xcshim.c — link-time stand-in for libxcrypto (see /verif/DESIGN.md §2).
 *
 * Implements the *primitive* entry points of xcrypto.h with their real
 * algebraic meaning on top of libsodium's ed25519 group API. The TLV-level
 * entry points (tlv_*) are provided by the Go package shim/goshim through cgo
 * exports; weak abort() fallbacks for them live in xcshim_tlvstub.c so that
 * binaries which never reach RingCT code still link without goshim.
 *
 * NOT bit compatible with Monero (hash-to-point differs), NOT constant time,
 * NOT zero knowledge. Same group, same homomorphic commitments, binding ring
 * signatures: what the Go code's checks rely on.
 */
#include <stdint.h>
#include <stdlib.h>
#include <string.h>
#include <stdio.h>
#include <pthread.h>
#include <sodium.h>

typedef unsigned char u8;

/* ------------------------------------------------------------------ keccak */
static const uint64_t RC[24] = {
    0x0000000000000001ULL, 0x0000000000008082ULL, 0x800000000000808aULL, 0x8000000080008000ULL,
    0x000000000000808bULL, 0x0000000080000001ULL, 0x8000000080008081ULL, 0x8000000000008009ULL,
    0x000000000000008aULL, 0x0000000000000088ULL, 0x0000000080008009ULL, 0x000000008000000aULL,
    0x000000008000808bULL, 0x800000000000008bULL, 0x8000000000008089ULL, 0x8000000000008003ULL,
    0x8000000000008002ULL, 0x8000000000000080ULL, 0x000000000000800aULL, 0x800000008000000aULL,
    0x8000000080008081ULL, 0x8000000000008080ULL, 0x0000000080000001ULL, 0x8000000080008008ULL};
static const int ROTC[24] = {1, 3, 6, 10, 15, 21, 28, 36, 45, 55, 2, 14, 27, 41, 56, 8, 25, 43, 62, 18, 39, 61, 20, 44};
static const int PILN[24] = {10, 7, 11, 17, 18, 3, 5, 16, 8, 21, 24, 4, 15, 23, 19, 13, 12, 2, 20, 14, 22, 9, 6, 1};
#define ROL64(x, y) (((x) << (y)) | ((x) >> (64 - (y))))

static void keccakf(uint64_t st[25]) {
    uint64_t t, bc[5];
    for (int r = 0; r < 24; r++) {
        for (int i = 0; i < 5; i++) bc[i] = st[i] ^ st[i + 5] ^ st[i + 10] ^ st[i + 15] ^ st[i + 20];
        for (int i = 0; i < 5; i++) {
            t = bc[(i + 4) % 5] ^ ROL64(bc[(i + 1) % 5], 1);
            for (int j = 0; j < 25; j += 5) st[j + i] ^= t;
        }
        t = st[1];
        for (int i = 0; i < 24; i++) {
            int j = PILN[i];
            bc[0] = st[j];
            st[j] = ROL64(t, ROTC[i]);
            t = bc[0];
        }
        for (int j = 0; j < 25; j += 5) {
            for (int i = 0; i < 5; i++) bc[i] = st[j + i];
            for (int i = 0; i < 5; i++) st[j + i] ^= (~bc[(i + 1) % 5]) & bc[(i + 2) % 5];
        }
        st[0] ^= RC[r];
    }
}

/* Keccak-256 with the original 0x01 padding (what cn_fast_hash is). */
static void keccak256(const u8 *in, size_t inlen, u8 out[32]) {
    uint64_t st[25];
    u8 temp[136];
    const size_t rsiz = 136;
    memset(st, 0, sizeof(st));
    for (; inlen >= rsiz; inlen -= rsiz, in += rsiz) {
        for (size_t i = 0; i < rsiz / 8; i++) {
            uint64_t w;
            memcpy(&w, in + 8 * i, 8);
            st[i] ^= w;
        }
        keccakf(st);
    }
    memset(temp, 0, rsiz);
    if (inlen) memcpy(temp, in, inlen);
    temp[inlen] = 1;
    temp[rsiz - 1] |= 0x80;
    for (size_t i = 0; i < rsiz / 8; i++) {
        uint64_t w;
        memcpy(&w, temp + 8 * i, 8);
        st[i] ^= w;
    }
    keccakf(st);
    memcpy(out, st, 32);
}

/* ------------------------------------------------------------------ rng */
static pthread_mutex_t rng_mu = PTHREAD_MUTEX_INITIALIZER;
static u8 rng_state[32];
static int rng_init = 0;
static uint64_t rng_ctr = 0;

/* xcshim_seed: make every "random" scalar of the shim a deterministic function
 * of the seed (used by replays). Without it the state comes from the OS. */
void xcshim_seed(const unsigned char *seed, int len) {
    pthread_mutex_lock(&rng_mu);
    keccak256(seed, (size_t)len, rng_state);
    rng_ctr = 0;
    rng_init = 1;
    pthread_mutex_unlock(&rng_mu);
}

static void rng_bytes32(u8 out[32]) {
    u8 buf[40];
    pthread_mutex_lock(&rng_mu);
    if (!rng_init) {
        if (sodium_init() < 0) abort();
        randombytes_buf(rng_state, 32);
        rng_init = 1;
    }
    memcpy(buf, rng_state, 32);
    rng_ctr++;
    memcpy(buf + 32, &rng_ctr, 8);
    keccak256(buf, 40, out);
    /* ratchet */
    buf[39] ^= 0xA5;
    keccak256(buf, 40, rng_state);
    pthread_mutex_unlock(&rng_mu);
}

/* ------------------------------------------------------------------ group helpers */
static const u8 ID_PT[32] = {1};
static const u8 H_PT[32] = {0x8b, 0x65, 0x59, 0x70, 0x15, 0x37, 0x99, 0xaf, 0x2a, 0xea, 0xdc, 0x9f, 0xf1, 0xad, 0xd0, 0xea,
                            0x6c, 0x72, 0x51, 0xd5, 0x41, 0x54, 0xcf, 0xa9, 0x2c, 0x17, 0x3a, 0x0d, 0xd3, 0x9c, 0x1f, 0x94};
static const u8 L_SC[32] = {0xed, 0xd3, 0xf5, 0x5c, 0x1a, 0x63, 0x12, 0x58, 0xd6, 0x9c, 0xf7, 0xa2, 0xde, 0xf9, 0xde, 0x14,
                            0, 0, 0, 0, 0, 0, 0, 0, 0, 0, 0, 0, 0, 0, 0, 0x10};

static int is_identity(const u8 *p) { return memcmp(p, ID_PT, 32) == 0; }
static int is_zero32(const u8 *p) {
    u8 a = 0;
    for (int i = 0; i < 32; i++) a |= p[i];
    return a == 0;
}
/* usable point: identity, or a canonical point of the prime-order subgroup */
static int pt_ok(const u8 *p) { return is_identity(p) || crypto_core_ed25519_is_valid_point(p) == 1; }

/* scalar < L ? (canonical) */
static int sc_canonical(const u8 *s) {
    for (int i = 31; i >= 0; i--) {
        if (s[i] < L_SC[i]) return 1;
        if (s[i] > L_SC[i]) return 0;
    }
    return 0;
}
static void sc_reduce32(u8 out[32], const u8 in[32]) {
    u8 w[64];
    memset(w, 0, 64);
    memcpy(w, in, 32);
    crypto_core_ed25519_scalar_reduce(out, w);
}

/* out = n*P. returns 0 ok (out may be the identity), -1 invalid point (out = 0) */
static int pt_mul(u8 out[32], const u8 n[32], const u8 P[32]) {
    u8 nn[32], q[32];
    if (!pt_ok(P)) {
        memset(out, 0, 32);
        return -1;
    }
    /* the curve order itself is used by the key-image subgroup test; every
     * other scalar is reduced (libsodium masks bit 255 and nothing else). */
    if (memcmp(n, L_SC, 32) == 0) {
        memcpy(out, ID_PT, 32); /* P is in the prime subgroup (checked above) */
        return 0;
    }
    sc_reduce32(nn, n);
    if (is_identity(P) || is_zero32(nn)) {
        memcpy(out, ID_PT, 32);
        return 0;
    }
    if (crypto_scalarmult_ed25519_noclamp(q, nn, P) != 0) {
        if (is_identity(q)) {
            memcpy(out, ID_PT, 32);
            return 0;
        }
        memset(out, 0, 32);
        return -1;
    }
    memcpy(out, q, 32);
    return 0;
}
static void pt_mul_base(u8 out[32], const u8 n[32]) {
    u8 nn[32];
    sc_reduce32(nn, n);
    if (is_zero32(nn)) {
        memcpy(out, ID_PT, 32);
        return;
    }
    if (crypto_scalarmult_ed25519_base_noclamp(out, nn) != 0) memcpy(out, ID_PT, 32);
}
static int pt_add(u8 out[32], const u8 a[32], const u8 b[32]) {
    u8 r[32];
    if (!pt_ok(a) || !pt_ok(b) || crypto_core_ed25519_add(r, a, b) != 0) {
        memset(out, 0, 32);
        return -1;
    }
    memcpy(out, r, 32);
    return 0;
}
static int pt_sub(u8 out[32], const u8 a[32], const u8 b[32]) {
    u8 r[32];
    if (!pt_ok(a) || !pt_ok(b) || crypto_core_ed25519_sub(r, a, b) != 0) {
        memset(out, 0, 32);
        return -1;
    }
    memcpy(out, r, 32);
    return 0;
}
static void hash_to_scalar_raw(const u8 *data, size_t len, u8 out[32]) {
    u8 h[32];
    keccak256(data, len, h);
    sc_reduce32(out, h);
}
static void hash_to_point(const u8 P[32], u8 out[32]) {
    u8 h[32];
    keccak256(P, 32, h);
    crypto_core_ed25519_from_uniform(out, h);
}
static void amount_to_scalar(unsigned long long amount, u8 out[32]) {
    memset(out, 0, 32);
    for (int i = 0; i < 8; i++) out[i] = (u8)(amount >> (8 * i));
}
static size_t varint(u8 *dst, size_t v) {
    size_t n = 0;
    while (v >= 0x80) {
        dst[n++] = (u8)(v & 0x7f) | 0x80;
        v >>= 7;
    }
    dst[n++] = (u8)v;
    return n;
}

/* exported for the Go layer (same primitives, avoids re-implementing) */
void xcshim_keccak256(const unsigned char *in, int len, unsigned char *out) { keccak256(in, (size_t)len, out); }
void xcshim_hash_to_scalar(const unsigned char *in, int len, unsigned char *out) { hash_to_scalar_raw(in, (size_t)len, out); }
void xcshim_hash_to_point(const unsigned char *P, unsigned char *out) { hash_to_point(P, out); }
int xcshim_pt_mul(unsigned char *out, const unsigned char *n, const unsigned char *P) { return pt_mul(out, n, P); }
int xcshim_pt_add(unsigned char *out, const unsigned char *a, const unsigned char *b) { return pt_add(out, a, b); }
int xcshim_pt_sub(unsigned char *out, const unsigned char *a, const unsigned char *b) { return pt_sub(out, a, b); }
void xcshim_sc_mul(unsigned char *out, const unsigned char *a, const unsigned char *b) {
    u8 x[32], y[32];
    sc_reduce32(x, a);
    sc_reduce32(y, b);
    crypto_core_ed25519_scalar_mul(out, x, y);
}
int xcshim_sc_canonical(const unsigned char *s) { return sc_canonical(s); }
int xcshim_pt_ok(const unsigned char *p) { return pt_ok(p); }
void xcshim_random_scalar(unsigned char *out) {
    u8 r[32];
    do {
        rng_bytes32(r);
        sc_reduce32(out, r);
    } while (is_zero32(out));
}

/* ------------------------------------------------------------------ xcrypto.h primitives */
typedef struct rct_keyV {
    char **v;
    int nums;
} rct_keyV_t;
typedef struct signature {
    char c[32];
    char r[32];
} signature_t;
typedef struct rct_ecdhTuple {
    char *mask;
    char *amount;
} rct_ecdhTuple_t;

void x_scalarmultBase(char *aG, char *a) { pt_mul_base((u8 *)aG, (u8 *)a); }
void x_scalarmultKey(char *aP, char *P, char *a) { pt_mul((u8 *)aP, (u8 *)a, (u8 *)P); }
void x_scalarmultH(char *aH, char *a) { pt_mul((u8 *)aH, (u8 *)a, H_PT); }
void x_scalarmult8(char *p, char *ret) {
    u8 e[32] = {8};
    pt_mul((u8 *)ret, e, (u8 *)p);
}
void x_addKeys(char *ab, char *a, char *b) { pt_add((u8 *)ab, (u8 *)a, (u8 *)b); }
void x_addKeys2(char *aGbB, char *a, char *b, char *B) {
    u8 t1[32], t2[32];
    pt_mul_base(t1, (u8 *)a);
    if (pt_mul(t2, (u8 *)b, (u8 *)B) != 0) {
        memset(aGbB, 0, 32);
        return;
    }
    pt_add((u8 *)aGbB, t1, t2);
}
void x_skGen(char *key) { xcshim_random_scalar((u8 *)key); }
void x_skpkGen(char *sk, char *pk) {
    xcshim_random_scalar((u8 *)sk);
    pt_mul_base((u8 *)pk, (u8 *)sk);
}
int x_checkKey(char *pk) { return crypto_core_ed25519_is_valid_point((u8 *)pk) == 1 ? 0 : -1; }
void x_genC(char *c, char *a, unsigned long long amount) {
    u8 am[32], t1[32], t2[32];
    amount_to_scalar(amount, am);
    pt_mul_base(t1, (u8 *)a);
    pt_mul(t2, am, H_PT);
    pt_add((u8 *)c, t1, t2);
}
void x_zeroCommit(char *ret, unsigned long long amount) {
    u8 one[32] = {1};
    x_genC(ret, (char *)one, amount);
}
void x_sc_add(char *s, char *a, char *b) {
    u8 x[32], y[32];
    sc_reduce32(x, (u8 *)a);
    sc_reduce32(y, (u8 *)b);
    crypto_core_ed25519_scalar_add((u8 *)s, x, y);
}
void x_sc_sub(char *s, char *a, char *b) {
    u8 x[32], y[32];
    sc_reduce32(x, (u8 *)a);
    sc_reduce32(y, (u8 *)b);
    crypto_core_ed25519_scalar_sub((u8 *)s, x, y);
}
void x_sc_secret_add(void *r, void *a, void *b) { x_sc_add((char *)r, (char *)a, (char *)b); }

void x_generate_keys(void *pub, void *sec, void *recover_key) {
    sc_reduce32((u8 *)sec, (u8 *)recover_key);
    if (is_zero32((u8 *)sec)) ((u8 *)sec)[0] = 1;
    pt_mul_base((u8 *)pub, (u8 *)sec);
}
int x_secret_key_to_public_key(void *sec, void *pub) {
    if (!sc_canonical((u8 *)sec)) return -1;
    pt_mul_base((u8 *)pub, (u8 *)sec);
    return 0;
}
int x_generate_key_derivation(void *key1, void *key2, void *derivation) {
    u8 t[32], e[32] = {8};
    if (crypto_core_ed25519_is_valid_point((u8 *)key1) != 1) return -1;
    if (pt_mul(t, (u8 *)key2, (u8 *)key1) != 0) return -1;
    if (pt_mul((u8 *)derivation, e, t) != 0) return -1;
    return 0;
}
int x_derivation_to_scalar(void *derivation, size_t output_index, void *res) {
    u8 buf[32 + 12];
    memcpy(buf, derivation, 32);
    size_t n = varint(buf + 32, output_index);
    hash_to_scalar_raw(buf, 32 + n, (u8 *)res);
    return 0;
}
int x_derive_public_key(void *derivation, size_t output_index, void *pub, void *derived_pub) {
    u8 s[32], sG[32];
    if (!pt_ok((u8 *)pub)) return -1;
    x_derivation_to_scalar(derivation, output_index, s);
    pt_mul_base(sG, s);
    return pt_add((u8 *)derived_pub, sG, (u8 *)pub);
}
int x_derive_secret_key(void *derivation, size_t output_index, void *sec, void *derived_sec) {
    u8 s[32];
    x_derivation_to_scalar(derivation, output_index, s);
    x_sc_add((char *)derived_sec, (char *)s, (char *)sec);
    return 0;
}
int x_derive_subaddress_public_key(void *pub, void *derivation, size_t output_index, void *derived_pub) {
    u8 s[32], sG[32];
    if (!pt_ok((u8 *)pub)) return -1;
    x_derivation_to_scalar(derivation, output_index, s);
    pt_mul_base(sG, s);
    return pt_sub((u8 *)derived_pub, (u8 *)pub, sG);
}
void x_get_subaddress_secret_key(void *sec, uint32_t index, void *sub_sec) {
    u8 buf[8 + 32 + 8];
    uint32_t major = 0;
    memcpy(buf, "SubAddr\0", 8);
    memcpy(buf + 8, sec, 32);
    memcpy(buf + 40, &major, 4);
    memcpy(buf + 44, &index, 4);
    hash_to_scalar_raw(buf, sizeof(buf), (u8 *)sub_sec);
}
int x_generate_key_image(void *pub, void *sec, void *image) {
    u8 hp[32];
    if (crypto_core_ed25519_is_valid_point((u8 *)pub) != 1) return -1;
    hash_to_point((u8 *)pub, hp);
    return pt_mul((u8 *)image, (u8 *)sec, hp);
}

/* CryptoNote ring signature. The Go wrapper passes exactly one signature_t, so
 * only rings of one member can be produced/checked through it (that is the
 * only way the repository uses it: SHORT_RING_MEMBER_NUM == 1). */
static void ring_hash(const u8 *prefix, const u8 *Ls, const u8 *Rs, int n, u8 out[32]) {
    size_t len = 32 + (size_t)n * 64;
    u8 *buf = malloc(len);
    memcpy(buf, prefix, 32);
    for (int i = 0; i < n; i++) {
        memcpy(buf + 32 + 64 * i, Ls + 32 * i, 32);
        memcpy(buf + 64 + 64 * i, Rs + 32 * i, 32);
    }
    hash_to_scalar_raw(buf, len, out);
    free(buf);
}
int x_generate_ring_signature(char *prefix_hash, char *image, rct_keyV_t *pubs, char *sec, size_t sec_index, signature_t *sig) {
    if (pubs == NULL || pubs->nums != 1 || sec_index != 0) return -1;
    u8 *P = (u8 *)pubs->v[0];
    u8 k[32], Lp[32], Rp[32], hp[32], h[32], cx[32];
    if (crypto_core_ed25519_is_valid_point(P) != 1) return -1;
    xcshim_random_scalar(k);
    pt_mul_base(Lp, k);
    hash_to_point(P, hp);
    if (pt_mul(Rp, k, hp) != 0) return -1;
    ring_hash((u8 *)prefix_hash, Lp, Rp, 1, h);
    memcpy(sig->c, h, 32); /* c = h - 0 */
    xcshim_sc_mul(cx, h, (u8 *)sec);
    crypto_core_ed25519_scalar_sub((u8 *)sig->r, k, cx);
    (void)image;
    return 0;
}
int x_check_ring_signature(char *prefix_hash, char *image, rct_keyV_t *pubs, signature_t *sig) {
    if (pubs == NULL || pubs->nums != 1) return -1;
    u8 *P = (u8 *)pubs->v[0];
    u8 t1[32], t2[32], Lp[32], Rp[32], hp[32], h[32];
    if (crypto_core_ed25519_is_valid_point(P) != 1) return -1;
    if (crypto_core_ed25519_is_valid_point((u8 *)image) != 1) return -1;
    if (!sc_canonical((u8 *)sig->c) || !sc_canonical((u8 *)sig->r)) return -1;
    /* L = rG + cP ; R = r*Hp(P) + c*I */
    pt_mul_base(t1, (u8 *)sig->r);
    if (pt_mul(t2, (u8 *)sig->c, P) != 0) return -1;
    if (pt_add(Lp, t1, t2) != 0) return -1;
    hash_to_point(P, hp);
    if (pt_mul(t1, (u8 *)sig->r, hp) != 0) return -1;
    if (pt_mul(t2, (u8 *)sig->c, (u8 *)image) != 0) return -1;
    if (pt_add(Rp, t1, t2) != 0) return -1;
    ring_hash((u8 *)prefix_hash, Lp, Rp, 1, h);
    return memcmp(h, sig->c, 32) == 0 ? 0 : -1;
}

/* ecdh: v1 (mask += Hs(k), amount += Hs(Hs(k))) and v2 short amount */
static void ecdh_short_mask(const u8 *k, u8 out[32]) {
    u8 buf[6 + 32];
    memcpy(buf, "amount", 6);
    memcpy(buf + 6, k, 32);
    keccak256(buf, sizeof(buf), out);
}
int x_ecdh_encode(rct_ecdhTuple_t *t, char *sharedSec, int short_amount) {
    u8 s1[32], s2[32];
    if (short_amount) {
        ecdh_short_mask((u8 *)sharedSec, s1);
        memset(t->mask, 0, 32);
        for (int i = 0; i < 8; i++) t->amount[i] ^= (char)s1[i];
        memset(t->amount + 8, 0, 24);
        return 0;
    }
    hash_to_scalar_raw((u8 *)sharedSec, 32, s1);
    hash_to_scalar_raw(s1, 32, s2);
    x_sc_add(t->mask, t->mask, (char *)s1);
    x_sc_add(t->amount, t->amount, (char *)s2);
    return 0;
}
int x_ecdh_decode(rct_ecdhTuple_t *t, char *sharedSec, int short_amount) {
    u8 s1[32], s2[32];
    if (short_amount) {
        ecdh_short_mask((u8 *)sharedSec, s1);
        for (int i = 0; i < 8; i++) t->amount[i] ^= (char)s1[i];
        memset(t->amount + 8, 0, 24);
        return 0;
    }
    hash_to_scalar_raw((u8 *)sharedSec, 32, s1);
    hash_to_scalar_raw(s1, 32, s2);
    x_sc_sub(t->mask, t->mask, (char *)s1);
    x_sc_sub(t->amount, t->amount, (char *)s2);
    return 0;
}

/* mnemonic helpers: never reached by the node or by the harness */
int x_words_to_bytes(char *words, void *dst) {
    (void)words;
    (void)dst;
    fprintf(stderr, "xcshim: x_words_to_bytes is not implemented\n");
    abort();
}
int x_bytes_to_words(void *src, char **words, char *language_name) {
    (void)src;
    (void)words;
    (void)language_name;
    fprintf(stderr, "xcshim: x_bytes_to_words is not implemented\n");
    abort();
}
