/* Weak fallbacks for the TLV-level entry points. The real stand-ins are the
 * cgo-exported Go functions of shim/goshim; a binary that does not import
 * goshim (and therefore must never reach RingCT prove/verify) links against
 * these and aborts loudly if it does reach them. */
#include <stdio.h>
#include <stdlib.h>
#include <stdint.h>
#define STUB(name, ...)                                                        \
    __attribute__((weak)) int name(__VA_ARGS__) {                              \
        fprintf(stderr, "xcshim: " #name " needs shim/goshim linked in\n");    \
        abort();                                                               \
    }
STUB(tlv_verRctNotSemanticsSimple, unsigned char *raw, int in_len)
STUB(tlv_verRctSimple, unsigned char *raw, int in_len)
STUB(tlv_ecdhEncode, unsigned char *raw, int in_len, unsigned char **out)
STUB(tlv_proveRangeBulletproof, unsigned char *raw, int in_len, unsigned char **out)
STUB(tlv_proveRangeBulletproof128, unsigned char *raw, int in_len, unsigned char **out)
STUB(tlv_proveRctMGSimple, char *mscout, unsigned int index, unsigned char *raw, int in_len, unsigned char **out)
STUB(tlv_get_pre_mlsag_hash, char *key, unsigned char *raw, int in_len)
STUB(tlv_addKeyV, char *sum, unsigned char *raw, int in_len)
STUB(tlv_verBulletproof, unsigned char *raw, int in_len)
STUB(tlv_verBulletproof128, unsigned char *raw, int in_len)
STUB(tlv_get_subaddress, uint32_t index, unsigned char *raw, int in_len, unsigned char **out)
STUB(test_tlv_keyV, unsigned char *keyv_in, int keyv_in_len, unsigned char **keyv_out)
STUB(test_tlv_rctsig, unsigned char *raw, int in_len, unsigned char **out)
