package goshim

/*
#include <stdlib.h>
#include <string.h>
#include <stdint.h>
*/
import "C"

import (
	"unsafe"

	lt "github.com/lianxiangcloud/linkchain/libs/cryptonote/types"
	"github.com/lianxiangcloud/linkchain/libs/cryptonote/xcrypto"
)

func inBytes(raw *C.uchar, n C.int) []byte {
	if raw == nil || n <= 0 {
		return nil
	}
	return C.GoBytes(unsafe.Pointer(raw), n)
}

func outBytes(out **C.uchar, s lt.Serializable) C.int {
	n := s.TlvSize()
	buf := make([]byte, n)
	w, err := s.TlvEncode(buf)
	if err != nil {
		return -1
	}
	buf = buf[:w]
	if len(buf) == 0 {
		*out = (*C.uchar)(C.malloc(1))
		return 0
	}
	p := C.malloc(C.size_t(len(buf)))
	C.memcpy(p, unsafe.Pointer(&buf[0]), C.size_t(len(buf)))
	*out = (*C.uchar)(p)
	return C.int(len(buf))
}

func decodeRctSig(raw *C.uchar, n C.int) (rv *lt.RctSig, ok bool) {
	defer func() {
		if recover() != nil {
			rv, ok = nil, false
		}
	}()
	rv = &lt.RctSig{}
	if err := rv.TlvDecode(inBytes(raw, n)); err != nil {
		return nil, false
	}
	return rv, true
}

//export tlv_verRctNotSemanticsSimple
func tlv_verRctNotSemanticsSimple(raw *C.uchar, inLen C.int) (ret C.int) {
	defer func() {
		if recover() != nil {
			ret = -1
		}
	}()
	rv, ok := decodeRctSig(raw, inLen)
	if !ok {
		return -1
	}
	if !verNonSemantics(rv) {
		return -1
	}
	return 1
}

//export tlv_verRctSimple
func tlv_verRctSimple(raw *C.uchar, inLen C.int) (ret C.int) {
	defer func() {
		if recover() != nil {
			ret = -1
		}
	}()
	rv, ok := decodeRctSig(raw, inLen)
	if !ok {
		return -1
	}
	if !verSemantics(rv) || !verNonSemantics(rv) {
		return 0
	}
	return 1
}

func proveRange(raw *C.uchar, inLen C.int, out **C.uchar) (ret C.int) {
	defer func() {
		if recover() != nil {
			ret = -1
		}
	}()
	var amounts, sk lt.KeyV
	tms := lt.NewTlvMapSerializerWith(&amounts, &sk)
	if err := tms.TlvDecode(inBytes(raw, inLen)); err != nil {
		return -1
	}
	bp, cs, masks, ok := bpProve(amounts, sk)
	if !ok {
		return -1
	}
	res := lt.NewTlvMapSerializerWith(&cs, &masks, bp)
	return outBytes(out, res)
}

//export tlv_proveRangeBulletproof
func tlv_proveRangeBulletproof(raw *C.uchar, inLen C.int, out **C.uchar) C.int {
	return proveRange(raw, inLen, out)
}

//export tlv_proveRangeBulletproof128
func tlv_proveRangeBulletproof128(raw *C.uchar, inLen C.int, out **C.uchar) C.int {
	return proveRange(raw, inLen, out)
}

func verRange(raw *C.uchar, inLen C.int) (ret C.int) {
	defer func() {
		if recover() != nil {
			ret = -1
		}
	}()
	bp := &lt.Bulletproof{}
	if err := bp.TlvDecode(inBytes(raw, inLen)); err != nil {
		return -1
	}
	if bpVerify(bp) {
		return 1
	}
	return 0
}

//export tlv_verBulletproof
func tlv_verBulletproof(raw *C.uchar, inLen C.int) C.int { return verRange(raw, inLen) }

//export tlv_verBulletproof128
func tlv_verBulletproof128(raw *C.uchar, inLen C.int) C.int { return verRange(raw, inLen) }

//export tlv_proveRctMGSimple
func tlv_proveRctMGSimple(mscout *C.char, index C.uint, raw *C.uchar, inLen C.int, out **C.uchar) (ret C.int) {
	defer func() {
		if recover() != nil {
			ret = -1
		}
	}()
	var (
		message, a, cout lt.Key
		pubs             lt.CtkeyV
		inSk             lt.Ctkey
		klrki            lt.MultisigKLRki
	)
	tms := lt.NewTlvMapSerializerWith(&message, &pubs, &inSk, &a, &cout)
	tms.SetTagAndSerializer(6, &klrki)
	if err := tms.TlvDecode(inBytes(raw, inLen)); err != nil {
		return -1
	}
	sig, ok := mlsagProve(message, pubs, inSk, a, cout, int(index))
	if !ok {
		return -1
	}
	return outBytes(out, sig)
}

//export tlv_get_pre_mlsag_hash
func tlv_get_pre_mlsag_hash(key *C.char, raw *C.uchar, inLen C.int) (ret C.int) {
	defer func() {
		if recover() != nil {
			ret = -1
		}
	}()
	rv, ok := decodeRctSig(raw, inLen)
	if !ok {
		return -1
	}
	h := preMlsagHash(rv)
	C.memcpy(unsafe.Pointer(key), unsafe.Pointer(&h[0]), 32)
	return 0
}

//export tlv_addKeyV
func tlv_addKeyV(sum *C.char, raw *C.uchar, inLen C.int) (ret C.int) {
	defer func() {
		if recover() != nil {
			ret = -1
		}
	}()
	var kv lt.KeyV
	if err := kv.TlvDecode(inBytes(raw, inLen)); err != nil {
		return -1
	}
	acc := keyIdent
	for _, k := range kv {
		var ok bool
		acc, ok = PtAdd(acc, k)
		if !ok {
			acc = lt.Key{}
			C.memcpy(unsafe.Pointer(sum), unsafe.Pointer(&acc[0]), 32)
			return -1
		}
	}
	C.memcpy(unsafe.Pointer(sum), unsafe.Pointer(&acc[0]), 32)
	return 0
}

//export tlv_get_subaddress
func tlv_get_subaddress(index C.uint32_t, raw *C.uchar, inLen C.int, out **C.uchar) (ret C.int) {
	defer func() {
		if recover() != nil {
			ret = -1
		}
	}()
	keys := &lt.AccountKey{}
	if err := keys.TlvDecode(inBytes(raw, inLen)); err != nil {
		return -1
	}
	addr := keys.Addr
	if index != 0 {
		m := xcrypto.GetSubaddressSecretKey(keys.ViewSKey, uint32(index))
		d, ok := PtAdd(lt.Key(keys.Addr.SpendPublicKey), MulBase(lt.Key(m)))
		if !ok {
			return -1
		}
		c, ok := PtMul(lt.Key(keys.ViewSKey), d)
		if !ok {
			return -1
		}
		addr = lt.AccountAddress{SpendPublicKey: lt.PublicKey(d), ViewPublicKey: lt.PublicKey(c)}
	}
	return outBytes(out, &addr)
}

//export test_tlv_keyV
func test_tlv_keyV(raw *C.uchar, inLen C.int, out **C.uchar) (ret C.int) {
	defer func() {
		if recover() != nil {
			ret = -1
		}
	}()
	var kv lt.KeyV
	if err := kv.TlvDecode(inBytes(raw, inLen)); err != nil {
		return -1
	}
	return outBytes(out, &kv)
}

//export test_tlv_rctsig
func test_tlv_rctsig(raw *C.uchar, inLen C.int, out **C.uchar) (ret C.int) {
	defer func() {
		if recover() != nil {
			ret = -1
		}
	}()
	rv, ok := decodeRctSig(raw, inLen)
	if !ok {
		return -1
	}
	return outBytes(out, rv)
}
