// Package goshim provides the TLV-level entry points of libxcrypto as cgo
// exports (see /verif/DESIGN.md §2). Import it for its side effect:
//
//	import _ "verif/shim/goshim"
//
// It reuses the repository's own TLV codec to parse and emit the byte strings
// and the C primitives of shim/c/xcshim.c for the group arithmetic.
package goshim

/*
#cgo LDFLAGS: -lxcrypto -lsodium
#include <stdlib.h>
#include <string.h>
#include <stdint.h>

void xcshim_keccak256(const unsigned char *in, int len, unsigned char *out);
void xcshim_hash_to_scalar(const unsigned char *in, int len, unsigned char *out);
void xcshim_hash_to_point(const unsigned char *P, unsigned char *out);
int xcshim_pt_mul(unsigned char *out, const unsigned char *n, const unsigned char *P);
int xcshim_pt_add(unsigned char *out, const unsigned char *a, const unsigned char *b);
int xcshim_pt_sub(unsigned char *out, const unsigned char *a, const unsigned char *b);
void xcshim_sc_mul(unsigned char *out, const unsigned char *a, const unsigned char *b);
int xcshim_sc_canonical(const unsigned char *s);
int xcshim_pt_ok(const unsigned char *p);
void xcshim_random_scalar(unsigned char *out);
void xcshim_seed(const unsigned char *seed, int len);
*/
import "C"

import (
	"encoding/binary"
	"unsafe"

	lt "github.com/lianxiangcloud/linkchain/libs/cryptonote/types"
	"github.com/lianxiangcloud/linkchain/libs/cryptonote/xcrypto"
)

type Key = lt.Key

var (
	keyH       = Key{0x8b, 0x65, 0x59, 0x70, 0x15, 0x37, 0x99, 0xaf, 0x2a, 0xea, 0xdc, 0x9f, 0xf1, 0xad, 0xd0, 0xea, 0x6c, 0x72, 0x51, 0xd5, 0x41, 0x54, 0xcf, 0xa9, 0x2c, 0x17, 0x3a, 0x0d, 0xd3, 0x9c, 0x1f, 0x94}
	keyInv8    = Key{0x79, 0x2f, 0xdc, 0xe2, 0x29, 0xe5, 0x06, 0x61, 0xd0, 0xda, 0x1c, 0x7d, 0xb3, 0x9d, 0xd3, 0x07, 0x00, 0x00, 0x00, 0x00, 0x00, 0x00, 0x00, 0x00, 0x00, 0x00, 0x00, 0x00, 0x00, 0x00, 0x00, 0x06}
	keyEight   = Key{8}
	keyIdent   = Key{1}
	keyZero    = Key{}
	bpChecksum = []byte("xcshim-range-proof-v1")
)

func up(k *Key) *C.uchar { return (*C.uchar)(unsafe.Pointer(&k[0])) }

// Seed makes every random scalar drawn by the stand-in (transaction keys,
// masks, signature nonces) a deterministic function of seed.
func Seed(seed []byte) {
	if len(seed) == 0 {
		seed = []byte{0}
	}
	C.xcshim_seed((*C.uchar)(unsafe.Pointer(&seed[0])), C.int(len(seed)))
}

func Keccak(parts ...[]byte) Key {
	var buf []byte
	for _, p := range parts {
		buf = append(buf, p...)
	}
	var out Key
	if len(buf) == 0 {
		buf = []byte{0}
		C.xcshim_keccak256((*C.uchar)(unsafe.Pointer(&buf[0])), 0, up(&out))
		return out
	}
	C.xcshim_keccak256((*C.uchar)(unsafe.Pointer(&buf[0])), C.int(len(buf)), up(&out))
	return out
}

func HashToScalar(parts ...[]byte) Key {
	var buf []byte
	for _, p := range parts {
		buf = append(buf, p...)
	}
	var out Key
	C.xcshim_hash_to_scalar((*C.uchar)(unsafe.Pointer(&buf[0])), C.int(len(buf)), up(&out))
	return out
}

func HashToPoint(p Key) Key {
	var out Key
	C.xcshim_hash_to_point(up(&p), up(&out))
	return out
}

func PtMul(n, p Key) (Key, bool) {
	var out Key
	r := C.xcshim_pt_mul(up(&out), up(&n), up(&p))
	return out, r == 0
}
func PtAdd(a, b Key) (Key, bool) {
	var out Key
	r := C.xcshim_pt_add(up(&out), up(&a), up(&b))
	return out, r == 0
}
func PtSub(a, b Key) (Key, bool) {
	var out Key
	r := C.xcshim_pt_sub(up(&out), up(&a), up(&b))
	return out, r == 0
}
func MulBase(n Key) Key { return xcrypto.ScalarmultBase(n) }
func ScMul(a, b Key) Key {
	var out Key
	C.xcshim_sc_mul(up(&out), up(&a), up(&b))
	return out
}
func ScAdd(a, b Key) Key { return xcrypto.ScAdd(lt.EcScalar(a), lt.EcScalar(b)) }
func ScSub(a, b Key) Key { return xcrypto.ScSub(lt.EcScalar(a), lt.EcScalar(b)) }
func ScCanonical(a Key) bool {
	return C.xcshim_sc_canonical(up(&a)) == 1
}
func PtOK(a Key) bool { return C.xcshim_pt_ok(up(&a)) == 1 }
func RandomScalar() Key {
	var out Key
	C.xcshim_random_scalar(up(&out))
	return out
}

// Commit returns mask*G + amount*H.
func Commit(mask Key, amount uint64) Key {
	var am Key
	binary.LittleEndian.PutUint64(am[:8], amount)
	aH, _ := PtMul(am, keyH)
	r, _ := PtAdd(MulBase(mask), aH)
	return r
}

// ---------------------------------------------------------------- MLSAG (2 rows)

func mlsagChallenge(msg Key, p0, l0, r0, p1, l1 Key) Key {
	return HashToScalar(msg[:], p0[:], l0[:], r0[:], p1[:], l1[:])
}

// ringMatrix returns M[i] = (P_i, C_i - Cout).
func ringMatrix(pubs lt.CtkeyV, cout Key) ([][2]Key, bool) {
	m := make([][2]Key, len(pubs))
	for i := range pubs {
		if !PtOK(pubs[i].Dest) || pubs[i].Dest == keyIdent {
			return nil, false
		}
		d, ok := PtSub(pubs[i].Mask, cout)
		if !ok {
			return nil, false
		}
		m[i] = [2]Key{pubs[i].Dest, d}
	}
	return m, true
}

func mlsagColumn(msg Key, col [2]Key, ss [2]Key, c Key, ki Key) (Key, bool) {
	cP, ok1 := PtMul(c, col[0])
	l0, ok2 := PtAdd(MulBase(ss[0]), cP)
	hp := HashToPoint(col[0])
	sHp, ok3 := PtMul(ss[0], hp)
	cI, ok4 := PtMul(c, ki)
	r0, ok5 := PtAdd(sHp, cI)
	cD, ok6 := PtMul(c, col[1])
	l1, ok7 := PtAdd(MulBase(ss[1]), cD)
	if !(ok1 && ok2 && ok3 && ok4 && ok5 && ok6 && ok7) {
		return Key{}, false
	}
	return mlsagChallenge(msg, col[0], l0, r0, col[1], l1), true
}

func mlsagProve(msg Key, pubs lt.CtkeyV, inSk lt.Ctkey, a, cout Key, index int) (*lt.MgSig, bool) {
	n := len(pubs)
	if n == 0 || index < 0 || index >= n {
		return nil, false
	}
	m, ok := ringMatrix(pubs, cout)
	if !ok {
		return nil, false
	}
	sk := [2]Key{inSk.Dest, ScSub(inSk.Mask, a)}
	hpI := HashToPoint(m[index][0])
	ki, ok := PtMul(sk[0], hpI)
	if !ok {
		return nil, false
	}
	alpha := [2]Key{RandomScalar(), RandomScalar()}
	aHp, _ := PtMul(alpha[0], hpI)
	c := mlsagChallenge(msg, m[index][0], MulBase(alpha[0]), aHp, m[index][1], MulBase(alpha[1]))
	sig := &lt.MgSig{Ss: make(lt.KeyM, n), II: lt.KeyV{ki}}
	for i := range sig.Ss {
		sig.Ss[i] = make(lt.KeyV, 2)
	}
	i := (index + 1) % n
	if i == 0 {
		sig.Cc = c
	}
	for i != index {
		ss := [2]Key{RandomScalar(), RandomScalar()}
		sig.Ss[i][0], sig.Ss[i][1] = ss[0], ss[1]
		cn, ok := mlsagColumn(msg, m[i], ss, c, ki)
		if !ok {
			return nil, false
		}
		c = cn
		i = (i + 1) % n
		if i == 0 {
			sig.Cc = c
		}
	}
	sig.Ss[index][0] = ScSub(alpha[0], ScMul(c, sk[0]))
	sig.Ss[index][1] = ScSub(alpha[1], ScMul(c, sk[1]))
	return sig, true
}

func mlsagVerify(msg Key, pubs lt.CtkeyV, cout Key, sig *lt.MgSig) bool {
	n := len(pubs)
	if n == 0 || len(sig.Ss) != n || len(sig.II) != 1 {
		return false
	}
	ki := sig.II[0]
	if !PtOK(ki) || ki == keyIdent {
		return false
	}
	if !ScCanonical(sig.Cc) {
		return false
	}
	m, ok := ringMatrix(pubs, cout)
	if !ok {
		return false
	}
	c := sig.Cc
	for i := 0; i < n; i++ {
		if len(sig.Ss[i]) != 2 || !ScCanonical(sig.Ss[i][0]) || !ScCanonical(sig.Ss[i][1]) {
			return false
		}
		cn, ok := mlsagColumn(msg, m[i], [2]Key{sig.Ss[i][0], sig.Ss[i][1]}, c, ki)
		if !ok {
			return false
		}
		c = cn
	}
	return c == sig.Cc
}

// ---------------------------------------------------------------- range proof stand-in

func lgCeil(m int) int {
	l := 0
	for (1 << uint(l)) < m {
		l++
	}
	return l
}

// maskSlot returns a pointer to the field of bp that carries mask i.
func maskSlot(bp *lt.Bulletproof, i int) *Key {
	n := len(bp.L)
	switch {
	case i < n:
		return &bp.L[i]
	case i < 2*n:
		return &bp.R[i-n]
	}
	switch i - 2*n {
	case 0:
		return &bp.Taux
	case 1:
		return &bp.Mu
	case 2:
		return &bp.Aa
	case 3:
		return &bp.B
	}
	return nil
}
func maskSlots(bp *lt.Bulletproof) int { return 2*len(bp.L) + 4 }

func amountSlot(bp *lt.Bulletproof, i int) []byte {
	var k *Key
	switch i / 4 {
	case 0:
		k = &bp.A
	case 1:
		k = &bp.S
	case 2:
		k = &bp.T1
	case 3:
		k = &bp.T2
	default:
		return nil
	}
	return k[(i%4)*8 : (i%4)*8+8]
}

func bpChecksumOf(bp *lt.Bulletproof, m int) Key {
	parts := [][]byte{bpChecksum, bp.A[:], bp.S[:], bp.T1[:], bp.T2[:], bp.Taux[:], bp.Mu[:]}
	for i := range bp.L {
		parts = append(parts, bp.L[i][:])
	}
	for i := range bp.R {
		parts = append(parts, bp.R[i][:])
	}
	parts = append(parts, bp.Aa[:], bp.B[:], []byte{byte(m), byte(len(bp.L)), byte(len(bp.R))})
	return HashToScalar(parts...)
}

func bpProve(amounts, sk lt.KeyV) (*lt.Bulletproof, lt.KeyV, lt.KeyV, bool) {
	m := len(amounts)
	if m == 0 || m > 16 {
		return nil, nil, nil, false
	}
	n := 6 + lgCeil(m)
	bp := &lt.Bulletproof{L: make(lt.KeyV, n), R: make(lt.KeyV, n), V: make(lt.KeyV, m)}
	masks := make(lt.KeyV, m)
	for i := 0; i < m; i++ {
		for j := 8; j < 32; j++ {
			if amounts[i][j] != 0 {
				return nil, nil, nil, false // not a 64-bit amount: cannot be proven
			}
		}
		// as in Monero's genCommitmentMask: the mask is a deterministic function of the per-output
		// shared secret, so the receiver can recompute the commitment (the repository's wallet does)
		if i < len(sk) {
			masks[i] = HashToScalar([]byte("commitment_mask"), sk[i][:])
		} else {
			masks[i] = RandomScalar()
		}
		copy(amountSlot(bp, i), amounts[i][:8])
		*maskSlot(bp, i) = masks[i]
		c := Commit(masks[i], binary.LittleEndian.Uint64(amounts[i][:8]))
		v, ok := PtMul(keyInv8, c)
		if !ok {
			return nil, nil, nil, false
		}
		bp.V[i] = v
	}
	bp.T = bpChecksumOf(bp, m)
	cs := make(lt.KeyV, m)
	copy(cs, bp.V)
	return bp, cs, masks, true
}

func bpVerify(bp *lt.Bulletproof) bool {
	m := len(bp.V)
	n := len(bp.L)
	if m == 0 || m > 16 || n < 6 || len(bp.R) != n || n != 6+lgCeil(m) {
		return false
	}
	if bp.T != bpChecksumOf(bp, m) {
		return false
	}
	for i := 0; i < 16; i++ {
		if i >= m {
			for _, b := range amountSlot(bp, i) {
				if b != 0 {
					return false
				}
			}
		}
	}
	for i := m; i < maskSlots(bp); i++ {
		if *maskSlot(bp, i) != keyZero {
			return false
		}
	}
	for i := 0; i < m; i++ {
		mask := *maskSlot(bp, i)
		if !ScCanonical(mask) {
			return false
		}
		amount := binary.LittleEndian.Uint64(amountSlot(bp, i)) // < 2^64 by construction
		c := Commit(mask, amount)
		v8, ok := PtMul(keyEight, bp.V[i])
		if !ok || v8 != c {
			return false
		}
	}
	return true
}

// ---------------------------------------------------------------- pre-MLSAG hash

func preMlsagHash(rv *lt.RctSig) Key {
	var base []byte
	base = append(base, rv.Type)
	var fee [8]byte
	binary.LittleEndian.PutUint64(fee[:], uint64(rv.TxnFee))
	base = append(base, fee[:]...)
	for i := range rv.EcdhInfo {
		base = append(base, rv.EcdhInfo[i].Mask[:]...)
		base = append(base, rv.EcdhInfo[i].Amount[:]...)
	}
	for i := range rv.OutPk {
		base = append(base, rv.OutPk[i].Mask[:]...)
	}
	h1 := Keccak(base)
	var bpb []byte
	for i := range rv.P.Bulletproofs {
		p := &rv.P.Bulletproofs[i]
		bpb = append(bpb, p.A[:]...)
		bpb = append(bpb, p.S[:]...)
		bpb = append(bpb, p.T1[:]...)
		bpb = append(bpb, p.T2[:]...)
		bpb = append(bpb, p.Taux[:]...)
		bpb = append(bpb, p.Mu[:]...)
		for j := range p.L {
			bpb = append(bpb, p.L[j][:]...)
		}
		for j := range p.R {
			bpb = append(bpb, p.R[j][:]...)
		}
		bpb = append(bpb, p.Aa[:]...)
		bpb = append(bpb, p.B[:]...)
		bpb = append(bpb, p.T[:]...)
	}
	h2 := Keccak(bpb)
	return Keccak(rv.Message[:], h1[:], h2[:])
}

func verNonSemantics(rv *lt.RctSig) bool {
	n := len(rv.MixRing)
	if n == 0 || len(rv.P.MGs) != n || len(rv.P.PseudoOuts) != n {
		return false
	}
	msg := preMlsagHash(rv)
	for i := 0; i < n; i++ {
		if !mlsagVerify(msg, rv.MixRing[i], rv.P.PseudoOuts[i], &rv.P.MGs[i]) {
			return false
		}
	}
	return true
}

func verSemantics(rv *lt.RctSig) bool {
	if len(rv.P.Bulletproofs) != 1 || len(rv.P.PseudoOuts) == 0 {
		return false
	}
	sumIn := keyIdent
	ok := true
	for _, p := range rv.P.PseudoOuts {
		sumIn, ok = PtAdd(sumIn, p)
		if !ok {
			return false
		}
	}
	sumOut := keyIdent
	for _, o := range rv.OutPk {
		sumOut, ok = PtAdd(sumOut, o.Mask)
		if !ok {
			return false
		}
	}
	var fee Key
	binary.LittleEndian.PutUint64(fee[:8], uint64(rv.TxnFee))
	fH, _ := PtMul(fee, keyH)
	sumOut, ok = PtAdd(sumOut, fH)
	if !ok || sumIn != sumOut {
		return false
	}
	bp := rv.P.Bulletproofs[0]
	bp.V = make(lt.KeyV, len(rv.OutPk))
	for i := range rv.OutPk {
		bp.V[i], ok = PtMul(keyInv8, rv.OutPk[i].Mask)
		if !ok {
			return false
		}
	}
	return bpVerify(&bp)
}
