// Package c17sim is the in-simulation lane of C17 (id "C17S"): correct nodes that reach a round by
// walking round by round and nodes that skip rounds must agree on the proposer of that round.
package c17sim

import (
	"fmt"

	"verif/h/internal/core"
	"verif/h/internal/detsim"
)

func init() {
	core.Register(&core.Check{
		ID:        "C17S",
		Level:     "exploration",
		Technique: "deterministic consensus simulation with lossy schedules that force round skips; oracle compares every correct node's view of the proposer per (height, round)",
		Rule: "case = one lossy schedule over 4-7 real consensus state machines with unequal powers; whenever a correct node votes at (H,R) its RoundState proposer is compared with the view of the other correct nodes at the same (H,R); " +
			"non-trivial = views were compared at a round > 0; distinct by counters of the schedule",
		Assumptions: []string{"same simulator and assumptions as C01"},
		Cases: func(tier string) int {
			if tier == "thorough" {
				return 8000
			}
			return 160
		},
		Run:  run,
		Init: core.QuietLogs,
		Floors: func(tier string) map[string]int64 {
			// about half of the minimum observed over VERIF_SEED=1..7 at quick (1940)
			return map[string]int64{"proposer_views_compared": 1400, "proposer_views_observed_round_gt0": 1000}
		},
	})
}

func run(c *core.Ctx) {
	r := c.Rng
	n := []int{4, 5, 7}[r.Intn(3)]
	powers := make([]int64, n)
	byz := make([]bool, n)
	for i := range powers {
		powers[i] = int64(1 + r.Intn(9))
	}
	sim, err := detsim.New(r.Split(), detsim.Config{Powers: powers, Byz: byz, Heights: 3, MaxSteps: 1200,
		Loss: []float64{0.1, 0.25, 0.4}[r.Intn(3)], Eager: []float64{0.05, 0.2}[r.Intn(2)], StaleTO: 0.05, DupProb: 0.05, ByzRate: 0, Scratch: c.Scratch})
	if err != nil {
		c.Inconclusive("simulator setup failed: " + err.Error())
		return
	}
	sim.Run()
	for k, v := range sim.Mon.Counters {
		c.Count(k, v)
	}
	for _, v := range sim.Mon.ProposerMismatch {
		c.Violation(v.Key, v.Detail, map[string]interface{}{"powers": powers, "steps": sim.Steps})
	}
	if sim.Mon.Counters["proposer_views_observed_round_gt0"] > 0 && sim.Mon.Counters["proposer_views_compared"] > 0 {
		c.Nontrivial(fmt.Sprintf("%d-%d-%d", sim.Steps, sim.Delivered, sim.Mon.Counters["votes_checked"]))
	}
	if c.Index%40 == 0 {
		c.Sample(map[string]interface{}{"powers": powers, "steps": sim.Steps, "views_compared": sim.Mon.Counters["proposer_views_compared"]})
	}
	for _, n := range sim.Nodes {
		n.CS.Stop()
	}
}
