// Package c17sim is the in-simulation lane of C17 (id "C17S"): correct nodes that reach a round by
// walking round by round and nodes that skip rounds must agree on the proposer of that round.
package c17sim

import (
	"bytes"
	"fmt"
	"strings"

	cs "github.com/lianxiangcloud/linkchain/consensus"

	"verif/h/internal/core"
	"verif/h/internal/detsim"
)

func init() {
	core.Register(&core.Check{
		ID:        "C17S",
		Level:     "exploration",
		Technique: "deterministic consensus simulation with lossy schedules that force round skips; oracle compares every correct node's view of the proposer per (height, round)",
		Rule: "case = one lossy schedule over 4-7 real consensus state machines with unequal powers; whenever a correct node votes at (H,R) its RoundState proposer is compared with the view of the other correct nodes at the same (H,R); " +
			"non-trivial = views were compared at a round > 0; distinct by counters of the schedule",
		Assumptions: []string{"same simulator and assumptions as C01"},
		Cases: func(tier string) int {
			if tier == "thorough" {
				return 8000
			}
			return 160
		},
		Run:  run,
		Init: core.QuietLogs,
		Floors: func(tier string) map[string]int64 {
			// about half of the minimum observed over VERIF_SEED=1..7 at quick (1940)
			return map[string]int64{"proposer_views_compared": 1400, "proposer_views_observed_round_gt0": 1000, "split_commit_round_cases_achieved": 8}
		},
	})
}

func run(c *core.Ctx) {
	r := c.Rng
	n := []int{4, 5, 7}[r.Intn(3)]
	if c.Index%2 == 1 {
		n = 4
	}
	powers := make([]int64, n)
	byz := make([]bool, n)
	for i := range powers {
		powers[i] = int64(1 + r.Intn(9))
		if c.Index%2 == 1 {
			powers[i] = 10 // the scripted split below is written for four equal validators
		}
	}
	conf := detsim.Config{Powers: powers, Byz: byz, Heights: 3, MaxSteps: 1200,
		Loss: []float64{0.1, 0.25, 0.4}[r.Intn(3)], Eager: []float64{0.05, 0.2}[r.Intn(2)], StaleTO: 0.05, DupProb: 0.05, ByzRate: 0, Scratch: c.Scratch}
	if c.Index%2 == 1 {
		// the scripted split below is the only loss: everything else arrives, so that heights are reached
		conf.Loss, conf.Eager, conf.MaxSteps, conf.Heights = 0, 0.03, 3000, 4
	}
	sim, err := detsim.New(r.Split(), conf)
	if err != nil {
		c.Inconclusive("simulator setup failed: " + err.Error())
		return
	}
	split := c.Index%2 == 1
	if split {
		// scripted split of the commit round: at one height the round-0 precommits reach only one node, which
		// commits in round 0 and moves on; the others time out and commit the same block in a later round. Both
		// commits are valid. The next proposal carries one of them and every node has to judge the record about
		// the previous height's proposer (fault-validator evidence) by the commit the block carries, not by the
		// round it happened to see itself.
		// (one node misses the round-0 proposal and precommits nil, the lucky node's own precommit reaches nobody
		// else: the lucky node sees +2/3 for the block, the others see +2/3 of anything, time out and go on)
		lucky := sim.Nodes[r.Intn(len(sim.Nodes))].ID
		unlucky := sim.Nodes[r.Intn(len(sim.Nodes))].ID
		for unlucky == lucky {
			unlucky = sim.Nodes[r.Intn(len(sim.Nodes))].ID
		}
		luckyAddr := sim.Vals[lucky].Priv.PubKey().Address()
		hS := uint64(1 + r.Intn(2))
		sim.DropFilter = func(pm *detsim.PoolMsg, n *detsim.Node) bool {
			if pm.Height != hS || pm.Round != 0 {
				return false
			}
			switch pm.Kind {
			case "proposal", "part":
				return n.ID == unlucky
			case "precommit":
				if vm, ok := pm.Msg.(*cs.VoteMessage); ok && vm.Vote != nil && bytes.Equal(vm.Vote.ValidatorAddress, luckyAddr) {
					return n.ID != lucky
				}
			}
			return false
		}
		c.Count("split_commit_round_cases", 1)
	}
	sim.Run()
	for k, v := range sim.Mon.Counters {
		c.Count(k, v)
	}
	if split && c.Verbose {
		for _, n := range sim.Nodes {
			rs := n.CS.GetRoundState()
			c.Logf("node v%d: height %d round %d step %v locked=%v; steps=%d timeouts=%d delivered=%d catchups=%d", n.ID, rs.Height, rs.Round, rs.Step, rs.LockedBlock != nil, sim.Steps, sim.TimeoutsFired, sim.Delivered, sim.CatchUps)
		}
	}
	if split && sim.Mon.Counters["heights_committed_in_different_rounds_by_different_nodes"] > 0 {
		c.Count("split_commit_round_cases_achieved", 1)
		for _, v := range sim.Mon.Violations {
			if strings.HasPrefix(v.Key, "halt/") {
				c.Violation("commit-round-path-dependence/"+v.Key, "nodes hold valid commits of the same block from different rounds; afterwards: "+v.Detail, map[string]interface{}{"powers": powers, "steps": sim.Steps})
			}
		}
	}
	for _, v := range sim.Mon.ProposerMismatch {
		c.Violation(v.Key, v.Detail, map[string]interface{}{"powers": powers, "steps": sim.Steps})
	}
	if sim.Mon.Counters["proposer_views_observed_round_gt0"] > 0 && sim.Mon.Counters["proposer_views_compared"] > 0 {
		c.Nontrivial(fmt.Sprintf("%d-%d-%d", sim.Steps, sim.Delivered, sim.Mon.Counters["votes_checked"]))
	}
	if c.Index%40 == 0 {
		c.Sample(map[string]interface{}{"powers": powers, "steps": sim.Steps, "views_compared": sim.Mon.Counters["proposer_views_compared"]})
	}
	for _, n := range sim.Nodes {
		n.CS.Stop()
	}
}
