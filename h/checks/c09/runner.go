package c09

import (
	"fmt"

	"github.com/lianxiangcloud/linkchain/libs/common"
	"github.com/lianxiangcloud/linkchain/state"
)

type snapRec struct {
	ref     int
	obs     []string
	spanPos int
	opIdx   int
}

type sobj struct {
	id, parent, gen int
	st              *state.StateDB
	alive           bool
	snapIDs         map[int]int // program serial -> id returned by Snapshot()
	snaps           []snapRec   // stack of valid snapshots, outermost first
	last            []string    // observation after the last step (of anyone)
	span            []string    // kinds of the mutators applied since the last boundary
	tainted         bool        // another state's operation was seen in this one
	mutated         int         // mutators applied since this state was created/copied
	parentMutAtCopy int
	revertBroken    bool // a revert of this state did not restore its observables
	roots           []string
}

type viol struct {
	Key, Detail string
	OpIdx       int
	X, Y        int
}

type runner struct {
	be    *backend
	u     *universe
	objs  map[int]*sobj
	order []int
	log   []op // applied operations, in order
	viols []viol
	seen  map[string]bool
	cnt   map[string]int64
	// commits by anything but state 0 in a flat-kv backend end the twin comparison
	origRetired bool
}

func newRunner(mode int, dir, name string, u *universe) (*runner, error) {
	be, err := newBackend(mode, dir, name)
	if err != nil {
		return nil, err
	}
	st, err := state.New(common.EmptyHash, be.db)
	if err != nil {
		be.close()
		return nil, err
	}
	r := &runner{be: be, u: u, objs: map[int]*sobj{}, seen: map[string]bool{}, cnt: map[string]int64{}}
	o := &sobj{id: 0, parent: -1, st: st, alive: true, snapIDs: map[int]int{}}
	o.last = observe(st, u)
	r.objs[0] = o
	r.order = []int{0}
	return r, nil
}

func (r *runner) close() { r.be.close() }

func (r *runner) live() []int {
	var ids []int
	for _, id := range r.order {
		if r.objs[id].alive {
			ids = append(ids, id)
		}
	}
	return ids
}

func (r *runner) relation(x, y *sobj) string {
	anc := func(a, b *sobj) bool { // a is an ancestor of b
		for p := b.parent; p >= 0; p = r.objs[p].parent {
			if p == a.id {
				return true
			}
		}
		return false
	}
	switch {
	case anc(y, x):
		return "copy->ancestor"
	case anc(x, y):
		return "ancestor->copy"
	}
	return "sibling"
}

// report records a violation once per key. Keys are "<oracle>/<observable class>", with the suffix
// "@flat-kv" when the case ran on the flat key-value backend (its committed state is a single
// mutable store, so its defects are its own and must not hide or be hidden by trie-backend ones).
func (r *runner) report(key, detail string, opIdx, x, y int) {
	if isKV(r.be.mode) {
		key += "@flat-kv"
	}
	if r.seen[key] {
		return
	}
	r.seen[key] = true
	r.viols = append(r.viols, viol{key, detail, opIdx, x, y})
}

func isMutator(k string) bool {
	switch k {
	case "addbal", "subbal", "setbal", "addtok", "subtok", "settok", "nonce", "credits", "code", "store", "create", "suicide", "log", "refund+", "refund-", "preimage":
		return true
	}
	return false
}

// step applies one operation and evaluates the oracles. It returns false when the operation is not
// applicable (unknown/dead state, illegal in the current state) and was skipped.
func (r *runner) step(o op) (applied bool) {
	X := r.objs[o.Obj]
	if X == nil || !X.alive {
		return false
	}
	idx := len(r.log)
	mname := modeName[r.be.mode]
	switch o.K {
	case "drop":
		if X.id == 0 {
			return false
		}
		X.alive = false
		r.log = append(r.log, o)
		r.cnt["states_dropped"]++
		return true
	case "copy":
		if _, dup := r.objs[o.New]; dup || o.New <= 0 {
			return false
		}
		Z := &sobj{id: o.New, parent: X.id, gen: X.gen + 1, alive: true, snapIDs: map[int]int{}, parentMutAtCopy: X.mutated}
		// Copy() can crash (seen: an address left in stateObjectsDirty without an object after a reverted
		// touch of the RIPEMD address followed by Commit without Finalise). The property does not promise
		// "no crash", so this is counted as a diagnostic, and the program goes on without that copy.
		var cp interface{}
		func() {
			defer func() { cp = recover() }()
			Z.st = X.st.Copy()
		}()
		if cp != nil || Z.st == nil {
			r.cnt["diag_copy_panics"]++
			return false
		}
		r.objs[Z.id] = Z
		r.order = append(r.order, Z.id)
		r.log = append(r.log, o)
		r.cnt["copies"]++
		if Z.gen >= 2 {
			r.cnt["copies_of_copies"]++
		}
		if len(X.snaps) > 0 {
			r.cnt["copies_inside_open_snapshot"]++
		}
		r.afterStep(X, o, idx)
		Z.last = observe(Z.st, r.u)
		// a copy starts as a copy: every observable reads the same in the fresh copy and in its source
		// (storage values compared as numbers, see firstDiffCanon). Not judged for a source that already
		// failed an oracle (its own cache may hold the wrong account).
		if i, _ := firstDiff(X.last, Z.last); i >= 0 {
			r.cnt["diag_copy_initial_raw_diffs"]++
		}
		if X.tainted || X.revertBroken {
			r.cnt["copy_initial_checks_skipped_source_broken"]++
		} else {
			r.cnt["copy_initial_checks"]++
			if i, n := firstDiffCanon(X.last, Z.last); i >= 0 {
				r.report("copy-initial/"+classes[obsClass[i]], fmt.Sprintf("op#%d %v: right after Copy() %s reads %s in the source (state %d) but %s in the copy (state %d) (%d observables differ) [%s]",
					idx, o, obsLabel[i], show(i, X.last[i]), X.id, show(i, Z.last[i]), Z.id, n, mname), idx, X.id, Z.id)
			}
		}
		return true
	case "snap":
		if len(X.snaps) >= maxDepth {
			return false
		}
	case "commit", "commitreset":
		if isKV(r.be.mode) {
			// The flat key-value backend has ONE committed state per database: Commit writes it in place, and
			// every other StateDB over the same database reads it lazily. The application replaces all its other
			// states after a Commit (app.CommitBlock); the harness retires them (they are not observed any more).
			for _, id := range r.order {
				if Y := r.objs[id]; Y.alive && Y != X {
					Y.alive = false
					r.cnt["states_retired_by_kv_commit"]++
					if id == 0 {
						r.origRetired = true
					}
				}
			}
		}
	}
	var tokHold int
	if o.K == "suicide" {
		for t := 0; t < nTokens; t++ {
			if X.st.GetTokenBalance(r.u.Accts[o.A], r.u.Tokens[t]).Sign() > 0 {
				tokHold++
			}
		}
	}
	var root string
	var pv interface{}
	func() {
		if o.K == "revert" {
			defer func() { pv = recover() }()
		}
		root, applied = applyOp(X.st, r.u, &o, X.snapIDs)
	}()
	if pv != nil {
		r.report("revert/panic", fmt.Sprintf("op#%d %v panicked: %v [%s]", idx, o, pv, mname), idx, X.id, X.id)
		X.alive = false
		return true
	}
	if !applied {
		return false
	}
	r.log = append(r.log, o)
	r.cnt["ops"]++
	if root != "" && X.id == 0 {
		X.roots = append(X.roots, root)
	}
	var reverted *snapRec
	switch {
	case isMutator(o.K):
		X.mutated++
		kind := o.K
		switch o.K {
		case "addtok", "subtok", "settok":
			kind = "tokwrite"
			r.cnt["token_writes"]++
		case "addbal", "subbal", "setbal":
			kind = "balwrite"
		case "suicide":
			r.cnt["suicides"]++
			if tokHold >= 2 {
				kind = "suicide-multitoken"
				r.cnt["suicides_holding_2plus_tokens"]++
			}
		case "log":
			r.cnt["logs_added"]++
		case "refund+", "refund-":
			kind = "refund"
		}
		X.span = append(X.span, kind)
	case o.K == "snap":
		X.snaps = append(X.snaps, snapRec{ref: o.Ref, spanPos: len(X.span), opIdx: idx})
		r.cnt["snapshots"]++
		if int64(len(X.snaps)) > r.cnt["max:snapshot_depth"] {
			r.cnt["max:snapshot_depth"] = int64(len(X.snaps))
		}
	case o.K == "revert":
		for k := len(X.snaps) - 1; k >= 0; k-- {
			if X.snaps[k].ref == o.Ref {
				s := X.snaps[k]
				reverted = &s
				r.cnt["reverts"]++
				if k < len(X.snaps)-1 {
					r.cnt["reverts_skipping_inner_snapshots"]++
				}
				if k > 0 {
					r.cnt["reverts_nested"]++
				}
				for _, kind := range X.span[s.spanPos:] {
					r.cnt["reverted/"+kind]++
				}
				if len(X.span) == s.spanPos {
					r.cnt["reverts_empty_span"]++
				} else {
					r.cnt["reverts_nonempty"]++
					if X.id != 0 {
						r.cnt["reverts_nonempty_on_copies"]++
					}
				}
				X.span = X.span[:s.spanPos]
				X.snaps = X.snaps[:k]
				break
			}
		}
	case isBoundary(o.K):
		X.snaps = nil
		X.span = nil
		r.cnt["boundary/"+o.K]++
		if X.id != 0 {
			r.cnt["boundaries_on_copies"]++
		}
	}
	r.afterStep(X, o, idx)
	if o.K == "snap" {
		X.snaps[len(X.snaps)-1].obs = X.last
	}
	if reverted != nil && X.tainted {
		// a foreign write was already reported for this state; its reverts cannot be judged any more
		r.cnt["revert_checks_skipped_after_independence_violation"]++
	} else if reverted != nil {
		r.cnt["revert_observables_compared"] += int64(len(X.last))
		if i, n := firstDiff(reverted.obs, X.last); i >= 0 {
			key := "revert/" + classes[obsClass[i]]
			X.revertBroken = true
			r.report(key, fmt.Sprintf("op#%d %v: %s was %s at snapshot (op#%d), is %s after the revert (%d observables differ) [%s]",
				idx, o, obsLabel[i], show(i, reverted.obs[i]), reverted.opIdx, show(i, X.last[i]), n, mname), idx, X.id, X.id)
		}
	}
	return true
}

// afterStep: an operation on X must not change any observable of any other live state.
func (r *runner) afterStep(X *sobj, o op, idx int) {
	for _, id := range r.order {
		Y := r.objs[id]
		if !Y.alive || Y == X || Y.last == nil {
			continue
		}
		cur := observe(Y.st, r.u)
		r.cnt["independence_checks"]++
		if i, n := firstDiff(Y.last, cur); i >= 0 {
			Y.tainted = true
			key := "independence/" + classes[obsClass[i]]
			r.report(key, fmt.Sprintf("op#%d %v on state %d changed %s of state %d (%s): %s -> %s (%d observables differ) [%s]",
				idx, o, X.id, obsLabel[i], Y.id, r.relation(X, Y), show(i, Y.last[i]), show(i, cur[i]), n, modeName[r.be.mode]), idx, X.id, Y.id)
		}
		Y.last = cur
	}
	X.last = observe(X.st, r.u)
}

func (r *runner) hasKey(key string) bool { return r.seen[key] }

// own returns the operations applied to state id (without copy/drop, which a twin never performs).
func (r *runner) own(id int) []op {
	var out []op
	for _, o := range r.log {
		if o.Obj == id && o.K != "copy" && o.K != "drop" {
			out = append(out, o)
		}
	}
	return out
}
