// Package c09: snapshots revert exactly; copies are independent (DESIGN.md §5 C09).
//
// One case = one random program over a small universe (12 accounts, 3 tokens + the native coin
// addressed as a token, 8 storage slots, 4 transaction hashes) executed on real state.StateDB objects:
// an original and up to 3 live copies (copies of copies included), on one of the four ways the
// repository itself builds a state.Database (plain trie, wrapped trie = full node, flat key-value in
// memory, flat key-value on goleveldb with its WAL file = non-full node).
//
// Oracles (none of them models what an operation should do; all read through the public getters):
//
//	revert/<class>               at Snapshot() every observable the property lists is recorded for every
//	                             account of the universe; after RevertToSnapshot the same reading must be equal.
//	revert-continuation/<class>  at the end, the original must read like a twin that never issued the
//	                             reverted operations (hidden state a revert forgets, e.g. the log index counter).
//	independence/<class>         after EVERY operation on state X the full reading of every other live
//	                             state Y must equal Y's previous reading.
//	copy-initial/<class>         right after Copy() the copy reads like its source.
//	twin/root-differs            the operations applied to the original, replayed without any Copy on a
//	                             fresh database, compute the same roots (IntermediateRoot/Commit) and, in the
//	                             flat in-memory mode, the same final store.
//
// <class> = exist | self-destruct-mark | balance | token-balance | nonce | credits | code | storage |
// committed-storage | empty | refund | logs; keys of cases on the flat backend carry the suffix "@flat-kv".
// Diagnostic only (never decides): roots of the twin that omits the reverted spans (revert_root_diffs,
// DESIGN §6-S5b), a panic inside Copy() (diag_copy_panics).
//
// Contract of the code that the workload respects (and nothing more):
//   - snapshots never span Finalise/IntermediateRoot/Commit/Reset: Finalise clears the journal
//     ("reverting across transactions is not allowed") and RevertToSnapshot panics on a stale id;
//     every boundary drops the state's open snapshots. Snapshot ids of a state are never used on its copy
//     ("Snapshots of the copied state cannot be applied to the copy").
//   - deleteEmptyObjects is one constant per case (a chain parameter; the application hard-codes false).
//   - CreateAccount is followed by SetNonce, as in evm.create (see applyOp).
//   - (token) balances never go below zero and SubRefund never exceeds the counter.
//   - flat key-value backend: Commit rewrites the single committed state of the shared database in
//     place, so the other states over that database are retired at that moment (what app.CommitBlock
//     does); in the trie backends every state may commit at any time.
package c09

import (
	"crypto/sha256"
	"fmt"
	"math/big"
	"sort"
	"strings"

	"verif/h/internal/core"
	"verif/h/internal/rng"
)

func init() {
	core.Register(&core.Check{
		ID:        "C09",
		Level:     "exploration",
		Technique: "runtime monitoring of real StateDB executions: recorded-observation oracle for snapshot/revert, per-operation cross-state observation oracle for Copy, differential twins (never-copied twin for roots, revert-free twin for final readings)",
		Rule: "case = random program (25..90 steps) of balance/token/nonce/credits/code/storage writes, create, self-destruct, logs, refunds, nested Snapshot/RevertToSnapshot (depth<=6, also to outer snapshots), " +
			"Copy / copy-of-copy with independent continuations, IntermediateRoot/Finalise/Commit/Commit+Reset in the middle, on one of 4 storage backends. " +
			"non-trivial = >=1 revert of a non-empty span that was nested or skipped inner snapshots, >=1 token write, and >=1 copy after which both the copy and its source were mutated; distinct by hash of the applied operation list",
		Assumptions: []string{
			"observables = what the public getters return (the property's list); map-ordered getters (GetTokenBalances, Logs) are compared as sets/sorted",
			"snapshots are taken and reverted inside one segment between Finalise/IntermediateRoot/Commit/Reset calls (the code's own rule); snapshot ids are never carried to a copy",
			"flat key-value backend: a Commit retires every other state over the same database (single committed state per database by design); trie backends: no such restriction",
			"deleteEmptyObjects is constant within a case; CreateAccount is followed by SetNonce as in evm.create; balances stay non-negative",
			"copy-initial compares storage values as numbers (a reloaded committed slot reads without leading zero bytes); revert-continuation is not judged in universes holding the RIPEMD address (its touch stays dirty across reverts on purpose)",
			"single goroutine; concurrent use of one StateDB is outside this property",
		},
		Cases: func(tier string) int {
			if tier == "thorough" {
				return 120000
			}
			return 2000
		},
		// the flat backend's WAL file handle cannot be closed from outside (unexported field): keep the number
		// of on-disk cases per child process small
		Batch: func(tier string) int {
			if tier == "thorough" {
				return 500
			}
			return 0
		},
		Run:    run,
		Floors: floors,
		Init:   core.QuietLogs,
	})
}

// floors: about half of the minimum measured over VERIF_SEED=1..5 (quick); thorough runs 60x the cases.
func floors(tier string) map[string]int64 {
	f := map[string]int64{
		"reverts_nonempty": 1400, "reverts_nested": 650, "reverts_skipping_inner_snapshots": 150, "reverts_nonempty_on_copies": 250,
		"reverted/tokwrite": 1000, "reverted/suicide": 240, "reverted/suicide-multitoken": 30, "reverted/log": 230, "reverted/refund": 230,
		"reverted/create": 200, "reverted/code": 240, "reverted/store": 600, "reverted/nonce": 260, "reverted/credits": 100, "reverted/balwrite": 700,
		"copies": 2400, "copies_of_copies": 500, "independence_checks": 55000, "token_writes": 9500,
		"twin_compared_with_copies_taken": 600, "twin_roots_compared": 4500, "copy_initial_checks": 2000, "revert_continuations_compared": 380,
		"boundary/commit": 3000, "boundary/iroot": 3500, "boundaries_on_copies": 1300,
		"mode/plain-trie": 330, "mode/wrapped-trie": 260, "mode/kv-mem": 290, "mode/kv-disk": 65,
	}
	if tier == "thorough" {
		for k := range f {
			f[k] *= 50
		}
	}
	f["max:snapshot_depth"] = 5
	return f
}

// ------------------------------------------------------------------ generator

type gen struct {
	r        *rng.R
	run      *runner
	nextSnap int
	nextObj  int
	created  int
	setup    int
	bScale   float64
	sScale   float64
	cScale   float64
	step     int
	height   map[int]uint64
	delEmpty bool // deleteEmptyObjects: a chain-configuration constant (the application hard-codes false)
	// hot: per state object, the (account, slot) of its last storage write. Storage writes return to it
	// often, so that one slot goes through write / flush / clear / snapshot / rewrite / revert sequences.
	hot map[int][2]int
}

func (g *gen) pickAcct(X *sobj, want func(a int) bool) int {
	r := g.r
	pick := func() int {
		if r.Chance(0.6) {
			return r.Intn(5) // hot accounts: several changes per account and segment
		}
		return r.Intn(nAccts)
	}
	a := pick()
	if want != nil {
		for try := 0; try < 6 && !want(a); try++ {
			a = pick()
		}
	}
	return a
}

func (g *gen) amount() string {
	r := g.r
	switch r.Intn(12) {
	case 0:
		return "0"
	case 1:
		return new(big.Int).Lsh(big.NewInt(int64(r.Range(1, 255))), uint(r.Range(60, 200))).String()
	}
	return fmt.Sprintf("%d", r.Range(1, 1000))
}

func (g *gen) below(cur *big.Int) string {
	r := g.r
	if cur.Sign() <= 0 {
		return "0"
	}
	switch r.Intn(4) {
	case 0:
		return cur.String() // everything
	case 1:
		return "1"
	case 2:
		return new(big.Int).Rsh(cur, 1).String()
	}
	return new(big.Int).Mod(new(big.Int).SetUint64(g.r.Uint64()), new(big.Int).Add(cur, big.NewInt(1))).String()
}

func (g *gen) value() string {
	r := g.r
	switch r.Intn(7) {
	case 0:
		return "" // delete
	case 1, 2: // EVM word with leading zeros
		b := make([]byte, 32)
		copy(b[32-r.Range(1, 8):], r.Bytes(8))
		return fmt.Sprintf("%x", b)
	case 3:
		return fmt.Sprintf("%x", r.Bytes(32))
	case 4:
		return fmt.Sprintf("%x", r.Bytes(r.Range(33, 80)))
	}
	return fmt.Sprintf("%x", r.Bytes(r.Range(1, 8)))
}

func (g *gen) mutator(X *sobj) op {
	r := g.r
	st, u := X.st, g.run.u
	exists := func(a int) bool { return st.Exist(u.Accts[a]) }
	o := op{Obj: X.id}
	x := r.Intn(100)
	switch {
	case x < 9:
		o.K, o.A, o.V = "addbal", g.pickAcct(X, nil), g.amount()
	case x < 14:
		o.K = "subbal"
		o.A = g.pickAcct(X, func(a int) bool { return st.GetBalance(u.Accts[a]).Sign() > 0 })
		o.V = g.below(st.GetBalance(u.Accts[o.A]))
	case x < 18:
		o.K, o.A, o.V = "setbal", g.pickAcct(X, nil), g.amount()
	case x < 32:
		o.K, o.A, o.T, o.V = "addtok", g.pickAcct(X, nil), r.Intn(nTokens), g.amount()
		if r.Chance(0.06) {
			o.T = nTokens
		}
	case x < 38:
		o.K, o.T = "subtok", r.Intn(nTokens)
		o.A = g.pickAcct(X, func(a int) bool { return st.GetTokenBalance(u.Accts[a], u.Tokens[o.T]).Sign() > 0 })
		o.V = g.below(st.GetTokenBalance(u.Accts[o.A], u.Tokens[o.T]))
	case x < 44:
		o.K, o.A, o.T, o.V = "settok", g.pickAcct(X, nil), r.Intn(nTokens), g.amount()
		if r.Chance(0.06) {
			o.T = nTokens
		}
	case x < 51:
		o.K, o.A, o.N = "nonce", g.pickAcct(X, nil), uint64(r.Intn(5))
	case x < 54:
		o.K, o.A, o.N = "credits", g.pickAcct(X, nil), uint64(r.Intn(50))
	case x < 60:
		o.K, o.A = "code", g.pickAcct(X, nil)
		if !r.Chance(0.12) {
			o.V = fmt.Sprintf("%x", r.Bytes(r.Range(1, 64)))
		}
	case x < 75:
		o.K, o.A, o.S, o.V = "store", g.pickAcct(X, nil), r.Intn(nSlots), g.value()
		if h, ok := g.hot[X.id]; ok && r.Chance(0.4) {
			o.A, o.S = h[0], h[1]
			if cur := st.GetState(u.Accts[o.A], u.Slots[o.S]); len(cur) > 0 && r.Chance(0.4) {
				o.V = "" // clear a slot that holds something
			}
		}
		if g.hot == nil {
			g.hot = map[int][2]int{}
		}
		g.hot[X.id] = [2]int{o.A, o.S}
	case x < 80:
		o.K, o.N = "create", uint64(r.Intn(3))
		if r.Chance(0.6) {
			o.A = g.pickAcct(X, exists) // over an existing account: reset-object path
		} else {
			o.A = g.pickAcct(X, nil)
		}
	case x < 87:
		o.K = "suicide"
		o.A = g.pickAcct(X, func(a int) bool {
			n := 0
			for t := 0; t < nTokens; t++ {
				if st.GetTokenBalance(u.Accts[a], u.Tokens[t]).Sign() > 0 {
					n++
				}
			}
			return n >= 2
		})
	case x < 93:
		o.K, o.A, o.N, o.S = "log", g.pickAcct(X, nil), uint64(r.Intn(4)), r.Intn(nSlots)
		o.V = fmt.Sprintf("%x", r.Bytes(r.Intn(40)))
	case x < 97:
		o.K, o.N = "refund+", uint64(r.Range(1, 20000))
	case x < 99:
		o.K = "refund-"
		if cur := st.GetRefund(); cur > 0 {
			o.N = uint64(r.Intn(int(cur%1000000)+1)) % (cur + 1)
		}
	default:
		o.K, o.V = "preimage", fmt.Sprintf("%x", r.Bytes(r.Range(1, 40)))
	}
	return o
}

func (g *gen) boundary(X *sobj) op {
	r := g.r
	o := op{Obj: X.id, B: g.delEmpty}
	x := r.Intn(100)
	switch {
	case x < 45:
		o.K = "iroot"
	case x < 60:
		o.K = "finalise"
	case x < 88:
		o.K = "commit"
	default:
		o.K = "commitreset"
	}
	if (o.K == "commit" || o.K == "commitreset") && isKV(g.run.be.mode) && X.id != 0 && !r.Chance(0.2) {
		o.K = "iroot" // a copy committing in the flat backend retires the original (no twin comparison): keep it rare
	}
	if o.K == "commit" || o.K == "commitreset" {
		g.height[X.id]++
		o.N = g.height[X.id]
	}
	if r.Chance(0.7) {
		o.P, o.N2 = 1+r.Intn(nTxs), r.Intn(6)
	}
	return o
}

func (g *gen) next() op {
	r := g.r
	g.step++
	live := g.run.live()
	X := g.run.objs[live[r.Intn(len(live))]]
	if g.run.objs[0].alive && r.Chance(0.35) {
		X = g.run.objs[0]
	}
	if g.step <= g.setup {
		return g.mutator(g.run.objs[0])
	}
	if g.step == g.setup+1 {
		o := g.boundary(g.run.objs[0])
		if r.Chance(0.7) {
			o.K = "commit"
			g.height[0]++
			o.N = g.height[0]
		}
		return o
	}
	pSnap, pRev, pCopy, pB := 0.10*g.sScale, 0.09*g.sScale, 0.07*g.cScale, 0.11*g.bScale
	p := float64(r.Uint64()>>11) / float64(1<<53)
	switch {
	case p < pSnap:
		if len(X.snaps) < maxDepth {
			g.nextSnap++
			return op{K: "snap", Obj: X.id, Ref: g.nextSnap}
		}
	case p < pSnap+pRev:
		if n := len(X.snaps); n > 0 {
			k := n - 1
			if r.Chance(0.35) {
				k = r.Intn(n) // an outer snapshot: the inner ones are skipped
			}
			return op{K: "revert", Obj: X.id, Ref: X.snaps[k].ref}
		}
		if len(X.snaps) < maxDepth {
			g.nextSnap++
			return op{K: "snap", Obj: X.id, Ref: g.nextSnap}
		}
	case p < pSnap+pRev+pCopy:
		if len(live) < maxLive && g.created < maxObjs {
			g.nextObj++
			g.created++
			return op{K: "copy", Obj: X.id, New: g.nextObj}
		}
	case p < pSnap+pRev+pCopy+pB:
		return g.boundary(X)
	case p < pSnap+pRev+pCopy+pB+0.012:
		if X.id != 0 && len(live) > 1 {
			return op{K: "drop", Obj: X.id}
		}
	}
	return g.mutator(X)
}

// ------------------------------------------------------------------ case

func sameRoots(a, b []string) (int, bool) {
	if len(a) != len(b) {
		n := len(a)
		if len(b) < n {
			n = len(b)
		}
		return n, false
	}
	for i := range a {
		if a[i] != b[i] {
			return i, false
		}
	}
	return -1, true
}

func sameDump(a, b map[string]string) (string, bool) {
	keys := map[string]bool{}
	for k := range a {
		keys[k] = true
	}
	for k := range b {
		keys[k] = true
	}
	var ks []string
	for k := range keys {
		ks = append(ks, k)
	}
	sort.Strings(ks)
	for _, k := range ks {
		if a[k] != b[k] {
			return fmt.Sprintf("key %x: %x vs %x", k, a[k], b[k]), false
		}
	}
	return "", true
}

var minimisedInProcess = map[string]bool{}

var dirSeq int // unique scratch names (on-disk backend)

// minimise shrinks an operation list to a (1-minimal within budget) list that still triggers key.
func minimise(mode int, dir string, u *universe, ops []op, key string, budget int) []op {
	n := 0
	test := func(cand []op) bool {
		n++
		dirSeq++
		run, err := newRunner(mode, dir, fmt.Sprintf("min%d", dirSeq), u)
		if err != nil {
			return false
		}
		defer run.close()
		for _, o := range cand {
			run.step(o)
			if run.hasKey(key) {
				return true
			}
		}
		if strings.HasPrefix(key, "twin/") || strings.HasPrefix(key, "revert-continuation/") {
			run.twinCheck(dir, fmt.Sprintf("min%d-", dirSeq))
			return run.hasKey(key)
		}
		return false
	}
	cur := ops
	if !test(cur) {
		return ops
	}
	chunk := len(cur) / 2
	if chunk < 1 {
		chunk = 1
	}
	for n < budget {
		removed := false
		for start := 0; start < len(cur) && n < budget; {
			end := start + chunk
			if end > len(cur) {
				end = len(cur)
			}
			cand := append(append([]op{}, cur[:start]...), cur[end:]...)
			if test(cand) {
				cur = cand
				removed = true
			} else {
				start = end
			}
		}
		if chunk > 1 {
			chunk /= 2
		} else if !removed {
			break
		}
	}
	return cur
}

func opStrings(ops []op) []string {
	out := make([]string, len(ops))
	for i, o := range ops {
		out[i] = o.String()
	}
	return out
}

func run(c *core.Ctx) {
	r := c.Rng
	mode := modePlain
	switch x := r.Intn(100); {
	case x < 34:
		mode = modePlain
	case x < 62:
		mode = modeWTrie
	case x < 93:
		mode = modeKV
	default:
		mode = modeKVDisk
	}
	u := newUniverse(r)
	rn, err := newRunner(mode, c.Scratch, "orig", u)
	if err != nil {
		c.Inconclusive("backend: " + err.Error())
		return
	}
	defer rn.close()
	g := &gen{r: r, run: rn, height: map[int]uint64{}, setup: r.Range(3, 18), delEmpty: r.Chance(0.35),
		bScale: []float64{0.4, 1, 1, 1.8}[r.Intn(4)], sScale: []float64{1, 1, 1.7}[r.Intn(3)], cScale: []float64{0.6, 1, 1.6}[r.Intn(3)]}
	nsteps := r.Range(25, 90)
	for i := 0; i < nsteps && len(rn.live()) > 0; i++ {
		rn.step(g.next())
	}
	orig := rn.objs[0]
	if orig.alive {
		// close the original's last segment the way a block ends
		rn.step(op{K: "iroot", Obj: 0, B: g.delEmpty})
		g.height[0]++
		rn.step(op{K: "commit", Obj: 0, B: g.delEmpty, N: g.height[0]})
	}
	c.Count("mode/"+modeName[mode], 1)

	rn.twinCheck(c.Scratch, "")

	for k, v := range rn.cnt {
		if len(k) > 4 && k[:4] == "max:" {
			c.Max(k[4:], v)
		} else {
			c.Count(k, v)
		}
	}

	// violations
	for _, v := range rn.viols {
		w := map[string]interface{}{"mode": modeName[mode], "state_x": v.X, "state_y": v.Y, "op_index": v.OpIdx}
		upto := v.OpIdx + 1
		if upto > len(rn.log) {
			upto = len(rn.log)
		}
		ops := rn.log[:upto]
		if strings.HasPrefix(v.Key, "twin/") || strings.HasPrefix(v.Key, "revert-continuation/") {
			w["original_roots"] = orig.roots
		}
		{
			// shrinking costs up to `budget` re-executions: once per key and at most 4 times per child
			// process; --replay always shrinks (and prints the result)
			if c.Verbose || (!minimisedInProcess[v.Key] && len(minimisedInProcess) < 4) {
				minimisedInProcess[v.Key] = true
				budget := 80
				if mode == modeKVDisk {
					budget = 30
				}
				if c.Verbose {
					budget = 300
				}
				min := minimise(mode, c.Scratch, u, ops, v.Key, budget)
				w["minimised_ops"] = min
				w["minimised_readable"] = opStrings(min)
				c.Logf("minimised witness for %s: %v", v.Key, opStrings(min))
			}
			if len(ops) > 120 {
				ops = ops[len(ops)-120:]
			}
			w["ops"] = opStrings(ops)
		}
		c.Violation(v.Key, v.Detail, w)
	}

	// non-triviality
	bothSides := false
	for _, id := range rn.order {
		z := rn.objs[id]
		if z.parent >= 0 && z.mutated > 0 && rn.objs[z.parent].mutated > z.parentMutAtCopy {
			bothSides = true
		}
	}
	realReverts := rn.cnt["reverts"] - rn.cnt["reverts_empty_span"]
	if realReverts > 0 && (rn.cnt["reverts_nested"] > 0 || rn.cnt["reverts_skipping_inner_snapshots"] > 0) && rn.cnt["token_writes"] > 0 && bothSides {
		h := sha256.Sum256([]byte(fmt.Sprintf("%d %v", mode, rn.log)))
		c.Nontrivial(fmt.Sprintf("%x", h[:8]))
	}
	if c.Index%250 == 0 {
		s := opStrings(rn.log)
		if len(s) > 16 {
			s = s[:16]
		}
		c.Sample(map[string]interface{}{"backend": modeName[mode], "steps": len(rn.log), "states": len(rn.order), "ops_prefix": s, "original_roots": len(orig.roots)})
	}
}

func hasOwnRevert(own []op) bool {
	for _, o := range own {
		if o.K == "revert" {
			return true
		}
	}
	return false
}

func dumpOf(rn *runner) map[string]string {
	if mem, ok := rn.be.raw.(interface {
		Keys() [][]byte
		Get([]byte) []byte
	}); ok {
		out := map[string]string{}
		for _, k := range mem.Keys() {
			out[string(k)] = string(mem.Get(k))
		}
		return out
	}
	return nil
}

// twinCheck: the operations applied to the original, replayed without any Copy on a fresh database,
// must compute the same roots (and, in the flat in-memory mode, the same store).
func (rn *runner) twinCheck(dir, prefix string) {
	orig := rn.objs[0]
	mode := rn.be.mode
	switch {
	case !orig.alive:
		rn.cnt["twin_skipped_original_retired"]++
		return
	case orig.tainted:
		rn.cnt["twin_skipped_after_independence_violation"]++
		return
	case orig.revertBroken:
		// the original's own revert already failed the property; getters of the harness (which the twin does
		// not call) may then cache the wrongly restored account and the roots diverge for that reason
		rn.cnt["twin_skipped_after_revert_violation"]++
		return
	}
	own := rn.own(0)
	roots, dump, _, skipped, err := replay(mode, dir, prefix+"twin", rn.u, own)
	if err != nil {
		rn.cnt["twin_backend_errors"]++
		return
	}
	rn.cnt["twin_compared"]++
	rn.cnt["twin_roots_compared"] += int64(len(orig.roots))
	if rn.cnt["copies"] > 0 {
		rn.cnt["twin_compared_with_copies_taken"]++
	}
	if i, ok := sameRoots(orig.roots, roots); !ok || skipped > 0 {
		a, b := "-", "-"
		if i >= 0 && i < len(orig.roots) {
			a = orig.roots[i]
		}
		if i >= 0 && i < len(roots) {
			b = roots[i]
		}
		rn.report("twin/root-differs", fmt.Sprintf("root #%d computed by the original (%s) differs from the never-copied twin (%s) that ran the same %d operations (%d/%d roots, twin skipped %d ops) [%s]",
			i, a, b, len(own), len(orig.roots), len(roots), skipped, modeName[mode]), len(rn.log), 0, 0)
	} else if dump != nil {
		rn.cnt["twin_kv_stores_compared"]++
		if d, ok := sameDump(dumpOf(rn), dump); !ok {
			rn.report("twin/root-differs", "all roots equal, but the final flat store of the original differs from the never-copied twin's: "+d+" ["+modeName[mode]+"]", len(rn.log), 0, 0)
		}
	}
	// A twin that never issued the reverted operations ("revert exactly" = as if they had not happened):
	//  - its final READINGS (the property's observables) must equal the original's: this catches hidden state
	//    that a revert fails to restore and that only shows in later operations (e.g. the log index counter);
	//  - its ROOTS are compared as a diagnostic only (DESIGN 6-S5b: the account encoding is not a listed observable).
	if hasOwnRevert(own) {
		eroots, edump, eobs, _, err := replay(mode, dir, prefix+"omit", rn.u, effective(own))
		if err == nil {
			// not judged when the universe holds the RIPEMD address: touching it stays "dirty" across a revert by
			// design (journal.dirty, inherited consensus exception), i.e. that revert is inexact on purpose
			if rn.u.Ripemd {
				rn.cnt["revert_continuations_skipped_ripemd_universe"]++
			} else if i, n := firstDiff(eobs, orig.last); i >= 0 {
				rn.cnt["revert_continuations_compared"]++
				rn.report("revert-continuation/"+classes[obsClass[i]], fmt.Sprintf("at the end of the program %s is %s in the state that executed and reverted %d span(s), but %s in a twin that never issued the reverted operations (%d observables differ) [%s]",
					obsLabel[i], show(i, orig.last[i]), countReverts(own), show(i, eobs[i]), n, modeName[mode]), len(rn.log), 0, 0)
			} else {
				rn.cnt["revert_continuations_compared"]++
			}
			rn.cnt["revert_root_compared"]++
			if _, ok := sameRoots(orig.roots, eroots); !ok {
				rn.cnt["revert_root_diffs"]++
			} else if edump != nil {
				if _, ok := sameDump(dumpOf(rn), edump); !ok {
					rn.cnt["revert_kvstore_diffs"]++
				}
			}
		}
	}
}

func countReverts(own []op) int {
	n := 0
	for _, o := range own {
		if o.K == "revert" {
			n++
		}
	}
	return n
}
