// Package c09: snapshots revert exactly; copies are independent (DESIGN.md §5 C09).
//
// One case = one random program over a small universe (12 accounts, 3 tokens + the native coin
// addressed as a token, 8 storage slots, 4 transaction hashes) executed on real state.StateDB objects:
// an original and up to 3 live copies (copies of copies included), in one of the four ways the
// repository itself builds a state.Database (plain trie, wrapped trie, flat key-value in memory,
// flat key-value on goleveldb with its WAL file).
//
// Oracles (none of them models what an operation should do):
//   revert        at Snapshot() the harness records every observable the property lists, for every
//                 account of the universe, through the public getters; after RevertToSnapshot the same
//                 reading must be equal to the record.
//   independence  after EVERY operation on state X the full reading of every other live state Y must be
//                 equal to Y's previous reading.
//   twin          the operations applied to the original are replayed, without any Copy, on a fresh
//                 database; every root the original computed (IntermediateRoot / Commit) and, in the
//                 flat in-memory mode, the final content of the store must be equal.
// Diagnostics (never decide): root of a twin that omits the reverted spans (§6-S5b), and whether a
// fresh copy reads equal to its source.
//
// Contract of the code that the workload respects (and nothing more):
//   * snapshots never span Finalise/IntermediateRoot/Commit/Reset: Finalise clears the journal
//     ("reverting across transactions is not allowed") and RevertToSnapshot panics on a stale id;
//     every boundary drops the state's open snapshots. Snapshot ids of a state are never used on its copy
//     ("Snapshots of the copied state cannot be applied to the copy").
//   * (token) balances never go below zero and SubRefund never exceeds the counter.
//   * flat key-value backend: Commit rewrites the single committed state of the shared database in
//     place, so the other states over that database are retired at that moment (what app.CommitBlock
//     does); in the trie backends every state may commit at any time.
package c09

import (
	"crypto/sha256"
	"fmt"
	"math/big"
	"sort"

	"verif/h/internal/core"
	"verif/h/internal/rng"
)

func init() {
	core.Register(&core.Check{
		ID:        "C09",
		Level:     "exploration",
		Technique: "runtime monitoring of real StateDB executions: recorded-observation oracle for snapshot/revert, per-operation cross-state observation oracle for Copy, differential untouched twin for roots",
		Rule: "case = random program (25..90 steps) of balance/token/nonce/credits/code/storage writes, create, self-destruct, logs, refunds, nested Snapshot/RevertToSnapshot (depth<=6, also to outer snapshots), " +
			"Copy / copy-of-copy with independent continuations, IntermediateRoot/Finalise/Commit/Commit+Reset in the middle, on one of 4 storage backends. " +
			"non-trivial = >=1 revert of a non-empty span that was nested or skipped inner snapshots, >=1 token write, and >=1 copy after which both the copy and its source were mutated; distinct by hash of the applied operation list",
		Assumptions: []string{
			"observables = what the public getters return (the property's list); map-ordered getters (GetTokenBalances, Logs) are compared as sets/sorted",
			"snapshots are taken and reverted inside one segment between Finalise/IntermediateRoot/Commit/Reset calls (the code's own rule); snapshot ids are never carried to a copy",
			"flat key-value backend: a Commit retires every other state over the same database (single committed state per database by design); trie backends: no such restriction",
			"single goroutine; concurrent use of one StateDB is outside this property",
		},
		Cases: func(tier string) int {
			if tier == "thorough" {
				return 120000
			}
			return 2000
		},
		Run:    run,
		Floors: floors,
		Init:   core.QuietLogs,
	})
}

func floors(tier string) map[string]int64 {
	return map[string]int64{}
}

// ------------------------------------------------------------------ generator

type gen struct {
	r        *rng.R
	run      *runner
	nextSnap int
	nextObj  int
	created  int
	setup    int
	bScale   float64
	sScale   float64
	cScale   float64
	step     int
	height   map[int]uint64
}

func (g *gen) pickAcct(X *sobj, want func(a int) bool) int {
	r := g.r
	pick := func() int {
		if r.Chance(0.6) {
			return r.Intn(5) // hot accounts: several changes per account and segment
		}
		return r.Intn(nAccts)
	}
	a := pick()
	if want != nil {
		for try := 0; try < 6 && !want(a); try++ {
			a = pick()
		}
	}
	return a
}

func (g *gen) amount() string {
	r := g.r
	switch r.Intn(12) {
	case 0:
		return "0"
	case 1:
		return new(big.Int).Lsh(big.NewInt(int64(r.Range(1, 255))), uint(r.Range(60, 200))).String()
	}
	return fmt.Sprintf("%d", r.Range(1, 1000))
}

func (g *gen) below(cur *big.Int) string {
	r := g.r
	if cur.Sign() <= 0 {
		return "0"
	}
	switch r.Intn(4) {
	case 0:
		return cur.String() // everything
	case 1:
		return "1"
	case 2:
		return new(big.Int).Rsh(cur, 1).String()
	}
	return new(big.Int).Mod(new(big.Int).SetUint64(g.r.Uint64()), new(big.Int).Add(cur, big.NewInt(1))).String()
}

func (g *gen) value() string {
	r := g.r
	switch r.Intn(7) {
	case 0:
		return "" // delete
	case 1, 2: // EVM word with leading zeros
		b := make([]byte, 32)
		copy(b[32-r.Range(1, 8):], r.Bytes(8))
		return fmt.Sprintf("%x", b)
	case 3:
		return fmt.Sprintf("%x", r.Bytes(32))
	case 4:
		return fmt.Sprintf("%x", r.Bytes(r.Range(33, 80)))
	}
	return fmt.Sprintf("%x", r.Bytes(r.Range(1, 8)))
}

func (g *gen) mutator(X *sobj) op {
	r := g.r
	st, u := X.st, g.run.u
	exists := func(a int) bool { return st.Exist(u.Accts[a]) }
	o := op{Obj: X.id}
	x := r.Intn(100)
	switch {
	case x < 9:
		o.K, o.A, o.V = "addbal", g.pickAcct(X, nil), g.amount()
	case x < 14:
		o.K = "subbal"
		o.A = g.pickAcct(X, func(a int) bool { return st.GetBalance(u.Accts[a]).Sign() > 0 })
		o.V = g.below(st.GetBalance(u.Accts[o.A]))
	case x < 18:
		o.K, o.A, o.V = "setbal", g.pickAcct(X, nil), g.amount()
	case x < 32:
		o.K, o.A, o.T, o.V = "addtok", g.pickAcct(X, nil), r.Intn(nTokens), g.amount()
		if r.Chance(0.06) {
			o.T = nTokens
		}
	case x < 38:
		o.K, o.T = "subtok", r.Intn(nTokens)
		o.A = g.pickAcct(X, func(a int) bool { return st.GetTokenBalance(u.Accts[a], u.Tokens[o.T]).Sign() > 0 })
		o.V = g.below(st.GetTokenBalance(u.Accts[o.A], u.Tokens[o.T]))
	case x < 44:
		o.K, o.A, o.T, o.V = "settok", g.pickAcct(X, nil), r.Intn(nTokens), g.amount()
		if r.Chance(0.06) {
			o.T = nTokens
		}
	case x < 51:
		o.K, o.A, o.N = "nonce", g.pickAcct(X, nil), uint64(r.Intn(5))
	case x < 54:
		o.K, o.A, o.N = "credits", g.pickAcct(X, nil), uint64(r.Intn(50))
	case x < 60:
		o.K, o.A = "code", g.pickAcct(X, nil)
		if !r.Chance(0.12) {
			o.V = fmt.Sprintf("%x", r.Bytes(r.Range(1, 64)))
		}
	case x < 75:
		o.K, o.A, o.S, o.V = "store", g.pickAcct(X, nil), r.Intn(nSlots), g.value()
	case x < 80:
		o.K = "create"
		if r.Chance(0.6) {
			o.A = g.pickAcct(X, exists) // over an existing account: reset-object path
		} else {
			o.A = g.pickAcct(X, nil)
		}
	case x < 87:
		o.K = "suicide"
		o.A = g.pickAcct(X, func(a int) bool {
			n := 0
			for t := 0; t < nTokens; t++ {
				if st.GetTokenBalance(u.Accts[a], u.Tokens[t]).Sign() > 0 {
					n++
				}
			}
			return n >= 2
		})
	case x < 93:
		o.K, o.A, o.N, o.S = "log", g.pickAcct(X, nil), uint64(r.Intn(4)), r.Intn(nSlots)
		o.V = fmt.Sprintf("%x", r.Bytes(r.Intn(40)))
	case x < 97:
		o.K, o.N = "refund+", uint64(r.Range(1, 20000))
	case x < 99:
		o.K = "refund-"
		if cur := st.GetRefund(); cur > 0 {
			o.N = uint64(r.Intn(int(cur%1000000)+1)) % (cur + 1)
		}
	default:
		o.K, o.V = "preimage", fmt.Sprintf("%x", r.Bytes(r.Range(1, 40)))
	}
	return o
}

func (g *gen) boundary(X *sobj) op {
	r := g.r
	o := op{Obj: X.id, B: r.Chance(0.3)}
	x := r.Intn(100)
	switch {
	case x < 45:
		o.K = "iroot"
	case x < 60:
		o.K = "finalise"
	case x < 88:
		o.K = "commit"
	default:
		o.K = "commitreset"
	}
	if (o.K == "commit" || o.K == "commitreset") && isKV(g.run.be.mode) && X.id != 0 && !r.Chance(0.2) {
		o.K = "iroot" // a copy committing in the flat backend retires the original (no twin comparison): keep it rare
	}
	if o.K == "commit" || o.K == "commitreset" {
		g.height[X.id]++
		o.N = g.height[X.id]
	}
	if r.Chance(0.7) {
		o.P, o.N2 = 1+r.Intn(nTxs), r.Intn(6)
	}
	return o
}

func (g *gen) next() op {
	r := g.r
	g.step++
	live := g.run.live()
	X := g.run.objs[live[r.Intn(len(live))]]
	if g.run.objs[0].alive && r.Chance(0.35) {
		X = g.run.objs[0]
	}
	if g.step <= g.setup {
		return g.mutator(g.run.objs[0])
	}
	if g.step == g.setup+1 {
		o := g.boundary(g.run.objs[0])
		if r.Chance(0.7) {
			o.K = "commit"
			g.height[0]++
			o.N = g.height[0]
		}
		return o
	}
	pSnap, pRev, pCopy, pB := 0.10*g.sScale, 0.09*g.sScale, 0.07*g.cScale, 0.11*g.bScale
	p := float64(r.Uint64()>>11) / float64(1<<53)
	switch {
	case p < pSnap:
		if len(X.snaps) < maxDepth {
			g.nextSnap++
			return op{K: "snap", Obj: X.id, Ref: g.nextSnap}
		}
	case p < pSnap+pRev:
		if n := len(X.snaps); n > 0 {
			k := n - 1
			if r.Chance(0.35) {
				k = r.Intn(n) // an outer snapshot: the inner ones are skipped
			}
			return op{K: "revert", Obj: X.id, Ref: X.snaps[k].ref}
		}
		if len(X.snaps) < maxDepth {
			g.nextSnap++
			return op{K: "snap", Obj: X.id, Ref: g.nextSnap}
		}
	case p < pSnap+pRev+pCopy:
		if len(live) < maxLive && g.created < maxObjs {
			g.nextObj++
			g.created++
			return op{K: "copy", Obj: X.id, New: g.nextObj}
		}
	case p < pSnap+pRev+pCopy+pB:
		return g.boundary(X)
	case p < pSnap+pRev+pCopy+pB+0.012:
		if X.id != 0 && len(live) > 1 {
			return op{K: "drop", Obj: X.id}
		}
	}
	return g.mutator(X)
}

// ------------------------------------------------------------------ case

func sameRoots(a, b []string) (int, bool) {
	if len(a) != len(b) {
		n := len(a)
		if len(b) < n {
			n = len(b)
		}
		return n, false
	}
	for i := range a {
		if a[i] != b[i] {
			return i, false
		}
	}
	return -1, true
}

func sameDump(a, b map[string]string) (string, bool) {
	keys := map[string]bool{}
	for k := range a {
		keys[k] = true
	}
	for k := range b {
		keys[k] = true
	}
	var ks []string
	for k := range keys {
		ks = append(ks, k)
	}
	sort.Strings(ks)
	for _, k := range ks {
		if a[k] != b[k] {
			return fmt.Sprintf("key %x: %x vs %x", k, a[k], b[k]), false
		}
	}
	return "", true
}

var minimisedInProcess = map[string]bool{}

// minimise shrinks an operation list to a (1-minimal within budget) list that still triggers key.
func minimise(mode int, dir string, u *universe, ops []op, key string, budget int) []op {
	n := 0
	test := func(cand []op) bool {
		n++
		run, err := newRunner(mode, dir, fmt.Sprintf("min%d", n), u)
		if err != nil {
			return false
		}
		defer run.close()
		for _, o := range cand {
			run.step(o)
			if run.hasKey(key) {
				return true
			}
		}
		return false
	}
	cur := ops
	if !test(cur) {
		return ops
	}
	chunk := len(cur) / 2
	if chunk < 1 {
		chunk = 1
	}
	for n < budget {
		removed := false
		for start := 0; start < len(cur) && n < budget; {
			end := start + chunk
			if end > len(cur) {
				end = len(cur)
			}
			cand := append(append([]op{}, cur[:start]...), cur[end:]...)
			if test(cand) {
				cur = cand
				removed = true
			} else {
				start = end
			}
		}
		if chunk > 1 {
			chunk /= 2
		} else if !removed {
			break
		}
	}
	return cur
}

func opStrings(ops []op) []string {
	out := make([]string, len(ops))
	for i, o := range ops {
		out[i] = o.String()
	}
	return out
}

func run(c *core.Ctx) {
	r := c.Rng
	mode := modePlain
	switch x := r.Intn(100); {
	case x < 34:
		mode = modePlain
	case x < 62:
		mode = modeWTrie
	case x < 93:
		mode = modeKV
	default:
		mode = modeKVDisk
	}
	u := newUniverse(r)
	rn, err := newRunner(mode, c.Scratch, "orig", u)
	if err != nil {
		c.Inconclusive("backend: " + err.Error())
		return
	}
	defer rn.close()
	g := &gen{r: r, run: rn, height: map[int]uint64{}, setup: r.Range(3, 18),
		bScale: []float64{0.4, 1, 1, 1.8}[r.Intn(4)], sScale: []float64{1, 1, 1.7}[r.Intn(3)], cScale: []float64{0.6, 1, 1.6}[r.Intn(3)]}
	nsteps := r.Range(25, 90)
	for i := 0; i < nsteps && len(rn.live()) > 0; i++ {
		rn.step(g.next())
	}
	orig := rn.objs[0]
	if orig.alive {
		// close the original's last segment the way a block ends
		rn.step(op{K: "iroot", Obj: 0})
		g.height[0]++
		rn.step(op{K: "commit", Obj: 0, N: g.height[0]})
	}
	c.Count("mode/"+modeName[mode], 1)

	// twin of the original
	switch {
	case !orig.alive:
		c.Count("twin_skipped_original_retired", 1)
	case orig.tainted:
		c.Count("twin_skipped_after_independence_violation", 1)
	default:
		own := rn.own(0)
		roots, dump, skipped, err := replay(mode, c.Scratch, "twin", u, own)
		if err != nil {
			c.Inconclusive("twin backend: " + err.Error())
			return
		}
		c.Count("twin_compared", 1)
		c.Count("twin_roots_compared", int64(len(orig.roots)))
		if rn.cnt["copies"] > 0 {
			c.Count("twin_compared_with_copies_taken", 1)
		}
		if i, ok := sameRoots(orig.roots, roots); !ok || skipped > 0 {
			rn.report("twin/root-differs", fmt.Sprintf("root #%d computed by the original differs from the never-copied twin that ran the same %d operations (%d/%d roots, twin skipped %d ops) [%s]",
				i, len(own), len(orig.roots), len(roots), skipped, modeName[mode]), len(rn.log), 0, 0)
		} else if dump != nil {
			c.Count("twin_kv_stores_compared", 1)
			if d, ok := sameDump(dumpOf(rn), dump); !ok {
				rn.report("twin/kv-store-differs", "final flat store of the original differs from the twin's: "+d, len(rn.log), 0, 0)
			}
		}
		// diagnostic (§6-S5b): a twin that never issued the reverted operations
		if hasOwnRevert(own) {
			eroots, edump, _, err := replay(mode, c.Scratch, "omit", u, effective(own))
			if err == nil {
				c.Count("diag_revert_root_compared", 1)
				if _, ok := sameRoots(orig.roots, eroots); !ok {
					c.Count("diag_revert_root_diffs", 1)
				} else if edump != nil {
					if _, ok := sameDump(dumpOf(rn), edump); !ok {
						c.Count("diag_revert_kvstore_diffs", 1)
					}
				}
			}
		}
	}

	for k, v := range rn.cnt {
		if len(k) > 4 && k[:4] == "max:" {
			c.Max(k[4:], v)
		} else {
			c.Count(k, v)
		}
	}

	// violations
	for _, v := range rn.viols {
		w := map[string]interface{}{"mode": modeName[mode], "state_x": v.X, "state_y": v.Y, "op_index": v.OpIdx}
		upto := v.OpIdx + 1
		if upto > len(rn.log) {
			upto = len(rn.log)
		}
		ops := rn.log[:upto]
		if len(v.Key) > 5 && v.Key[:5] == "twin/" {
			w["original_ops"] = opStrings(rn.own(0))
			w["all_ops"] = rn.log
			w["original_roots"] = orig.roots
		} else {
			if c.Verbose || !minimisedInProcess[v.Key] {
				minimisedInProcess[v.Key] = true
				budget := 160
				if mode == modeKVDisk {
					budget = 40
				}
				min := minimise(mode, c.Scratch, u, ops, v.Key, budget)
				w["minimised_ops"] = min
				w["minimised_readable"] = opStrings(min)
				c.Logf("minimised witness for %s: %v", v.Key, opStrings(min))
			}
			if len(ops) > 120 {
				ops = ops[len(ops)-120:]
			}
			w["ops"] = opStrings(ops)
		}
		c.Violation(v.Key, v.Detail, w)
	}

	// non-triviality
	bothSides := false
	for _, id := range rn.order {
		z := rn.objs[id]
		if z.parent >= 0 && z.mutated > 0 && rn.objs[z.parent].mutated > z.parentMutAtCopy {
			bothSides = true
		}
	}
	realReverts := rn.cnt["reverts"] - rn.cnt["reverts_empty_span"]
	if realReverts > 0 && (rn.cnt["reverts_nested"] > 0 || rn.cnt["reverts_skipping_inner_snapshots"] > 0) && rn.cnt["token_writes"] > 0 && bothSides {
		h := sha256.Sum256([]byte(fmt.Sprintf("%d %v", mode, rn.log)))
		c.Nontrivial(fmt.Sprintf("%x", h[:8]))
	}
	if c.Index%250 == 0 {
		s := opStrings(rn.log)
		if len(s) > 16 {
			s = s[:16]
		}
		c.Sample(map[string]interface{}{"backend": modeName[mode], "steps": len(rn.log), "states": len(rn.order), "ops_prefix": s, "original_roots": len(orig.roots)})
	}
}

func hasOwnRevert(own []op) bool {
	for _, o := range own {
		if o.K == "revert" {
			return true
		}
	}
	return false
}

func dumpOf(rn *runner) map[string]string {
	if mem, ok := rn.be.raw.(interface {
		Keys() [][]byte
		Get([]byte) []byte
	}); ok {
		out := map[string]string{}
		for _, k := range mem.Keys() {
			out[string(k)] = string(mem.Get(k))
		}
		return out
	}
	return nil
}
