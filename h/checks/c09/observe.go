package c09

import (
	"fmt"
	"sort"
	"strings"

	"github.com/lianxiangcloud/linkchain/state"
	"github.com/lianxiangcloud/linkchain/types"
)

// Observable classes = the observables the property lists. The order is the
// priority with which a difference is classified (an account that wrongly
// exists also differs in balance etc.; it is reported as "exist").
var classes = []string{
	"exist", "self-destruct-mark", "balance", "token-balance", "nonce", "credits", "code",
	"storage", "committed-storage", "empty", "refund", "logs",
}

const (
	clExist = iota
	clSuicided
	clBalance
	clToken
	clNonce
	clCredits
	clCode
	clStorage
	clCommitted
	clEmpty
	clRefund
	clLogs
)

const perAcct = 15 + 2*nSlots

var (
	obsClass []int
	obsLabel []string
)

func init() {
	for a := 0; a < nAccts; a++ {
		add := func(cl int, what string) {
			obsClass = append(obsClass, cl)
			obsLabel = append(obsLabel, fmt.Sprintf("%s(acct%d)", what, a))
		}
		add(clExist, "Exist")
		add(clEmpty, "Empty")
		add(clSuicided, "HasSuicided")
		add(clBalance, "GetBalance")
		for t := 0; t < nTokens; t++ {
			add(clToken, fmt.Sprintf("GetTokenBalance[tok%d]", t))
		}
		add(clBalance, "GetTokenBalance[native]")
		add(clToken, "GetTokenBalances")
		add(clNonce, "GetNonce")
		add(clCredits, "GetCredits")
		add(clCode, "GetCode")
		add(clCode, "GetCodeHash")
		add(clCode, "GetCodeSize")
		add(clCode, "IsContract")
		for s := 0; s < nSlots; s++ {
			add(clStorage, fmt.Sprintf("GetState[slot%d]", s))
		}
		for s := 0; s < nSlots; s++ {
			add(clCommitted, fmt.Sprintf("GetCommittedState[slot%d]", s))
		}
	}
	obsClass = append(obsClass, clRefund)
	obsLabel = append(obsLabel, "GetRefund")
	for t := 0; t < nTxs; t++ {
		obsClass = append(obsClass, clLogs)
		obsLabel = append(obsLabel, fmt.Sprintf("GetLogs(tx%d)", t))
	}
	obsClass = append(obsClass, clLogs)
	obsLabel = append(obsLabel, "Logs()")
}

func bstr(b bool) string {
	if b {
		return "1"
	}
	return "0"
}

func renderLog(l *types.Log) string {
	var sb strings.Builder
	fmt.Fprintf(&sb, "%x|%x|tx=%x|b=%x|ti=%d|i=%d|bn=%d|", l.Address[:4], l.Data, l.TxHash[:4], l.BlockHash[:4], l.TxIndex, l.Index, l.BlockNumber)
	for _, t := range l.Topics {
		fmt.Fprintf(&sb, "%x,", t[:4])
	}
	return sb.String()
}

// observe reads every observable the property lists, through the public getters only.
// Values are copied into strings, so later in-place changes inside the state cannot alter a record.
func observe(st *state.StateDB, u *universe) []string {
	v := make([]string, 0, len(obsLabel))
	for a := 0; a < nAccts; a++ {
		addr := u.Accts[a]
		v = append(v, bstr(st.Exist(addr)), bstr(st.Empty(addr)), bstr(st.HasSuicided(addr)), st.GetBalance(addr).String())
		for t := 0; t < nTokens; t++ {
			v = append(v, st.GetTokenBalance(addr, u.Tokens[t]).String())
		}
		v = append(v, st.GetTokenBalance(addr, u.Tokens[nTokens]).String())
		tv := st.GetTokenBalances(addr)
		parts := make([]string, 0, len(tv))
		for _, x := range tv {
			parts = append(parts, fmt.Sprintf("%x=%s", x.TokenAddr[:4], x.Value.String()))
		}
		sort.Strings(parts) // the getter iterates a map; the property is about content, not order
		v = append(v, strings.Join(parts, ","))
		v = append(v, fmt.Sprintf("%d", st.GetNonce(addr)), fmt.Sprintf("%d", st.GetCredits(addr)))
		ch := st.GetCodeHash(addr)
		v = append(v, string(st.GetCode(addr)), string(ch[:]), fmt.Sprintf("%d", st.GetCodeSize(addr)), bstr(st.IsContract(addr)))
		for s := 0; s < nSlots; s++ {
			v = append(v, string(st.GetState(addr, u.Slots[s])))
		}
		for s := 0; s < nSlots; s++ {
			v = append(v, string(st.GetCommittedState(addr, u.Slots[s])))
		}
	}
	v = append(v, fmt.Sprintf("%d", st.GetRefund()))
	for t := 0; t < nTxs; t++ {
		ls := st.GetLogs(u.Txs[t])
		parts := make([]string, 0, len(ls))
		for _, l := range ls {
			parts = append(parts, renderLog(l))
		}
		v = append(v, strings.Join(parts, ";")) // order inside one transaction is observable
	}
	all := st.Logs()
	parts := make([]string, 0, len(all))
	for _, l := range all {
		parts = append(parts, renderLog(l))
	}
	sort.Strings(parts) // Logs() concatenates a map's values
	v = append(v, strings.Join(parts, ";"))
	return v
}

// firstDiff returns the index of the differing observable with the highest-priority class, or -1.
func firstDiff(a, b []string) (idx int, n int) {
	idx = -1
	for i := range a {
		if a[i] != b[i] {
			n++
			if idx < 0 || obsClass[i] < obsClass[idx] {
				idx = i
			}
		}
	}
	return idx, n
}

func show(i int, s string) string {
	switch obsClass[i] {
	case clCode, clStorage, clCommitted:
		if len(s) > 40 {
			return fmt.Sprintf("0x%x..(%dB)", s[:40], len(s))
		}
		return fmt.Sprintf("0x%x", s)
	}
	if len(s) > 300 {
		return s[:300] + "..."
	}
	return s
}

// firstDiffCanon is firstDiff with storage values compared as numbers (leading zero bytes ignored):
// the storage trie stores values without leading zeros, a state's cache keeps what was written, so
// a state that reloads a committed slot reads the canonical form of the same value.
func firstDiffCanon(a, b []string) (idx int, n int) {
	idx = -1
	for i := range a {
		if a[i] == b[i] {
			continue
		}
		if c := obsClass[i]; (c == clStorage || c == clCommitted) && strings.TrimLeft(a[i], "\x00") == strings.TrimLeft(b[i], "\x00") {
			continue
		}
		n++
		if idx < 0 || obsClass[i] < obsClass[idx] {
			idx = i
		}
	}
	return idx, n
}
