package c09

import (
	"encoding/hex"
	"fmt"
	"math/big"
	"path/filepath"

	"github.com/lianxiangcloud/linkchain/libs/common"
	dbm "github.com/lianxiangcloud/linkchain/libs/db"
	"github.com/lianxiangcloud/linkchain/state"
	"github.com/lianxiangcloud/linkchain/types"

	"verif/h/internal/rng"
)

const (
	nAccts   = 12
	nTokens  = 3
	nSlots   = 8
	nTxs     = 4
	maxDepth = 6 // nested snapshots per state
	maxLive  = 4 // original + live copies
	maxObjs  = 8 // states ever created in one case
)

// storage modes: every way the repository itself builds a state.Database
const (
	modePlain  = iota // state.NewDatabase(memdb)                      (vm/runtime, tools)
	modeWTrie         // state.NewKeyValueDBWithCache(memdb,128,true)  (app, full node)
	modeKV            // state.NewKeyValueDBWithCache(memdb,0,false)   (rpc context / init: flat kv, no WAL)
	modeKVDisk        // state.NewKeyValueDBWithCache(goleveldb,128,false) (app, non-full node: flat kv + WAL file)
)

var modeName = []string{"plain-trie", "wrapped-trie", "kv-mem", "kv-disk"}

func isKV(mode int) bool { return mode == modeKV || mode == modeKVDisk }

type universe struct {
	Accts  []common.Address
	Tokens []common.Address // Tokens[nTokens] == EmptyAddress (the native coin addressed as a token)
	Slots  []common.Hash
	Txs    []common.Hash
	BHash  common.Hash
	Ripemd bool // Accts[0] is the address whose touch stays dirty across a revert on purpose (journal.dirty hack)
}

func newUniverse(r *rng.R) *universe {
	u := &universe{}
	for i := 0; i < nAccts; i++ {
		u.Accts = append(u.Accts, common.BytesToAddress(r.Bytes(20)))
	}
	if r.Chance(0.3) {
		// the address with the touch/dirty special case in the journal
		u.Accts[0] = common.HexToAddress("0000000000000000000000000000000000000003")
		u.Ripemd = true
	}
	for i := 0; i < nTokens; i++ {
		u.Tokens = append(u.Tokens, common.BytesToAddress(r.Bytes(20)))
	}
	u.Tokens = append(u.Tokens, common.EmptyAddress)
	for i := 0; i < nSlots; i++ {
		u.Slots = append(u.Slots, common.BytesToHash(r.Bytes(32)))
	}
	u.Txs = append(u.Txs, common.EmptyHash)
	for i := 1; i < nTxs; i++ {
		u.Txs = append(u.Txs, common.BytesToHash(r.Bytes(32)))
	}
	u.BHash = common.BytesToHash(r.Bytes(32))
	return u
}

// op is one step of a program. Obj is the state it is applied to.
type op struct {
	K   string `json:"k"`
	Obj int    `json:"on"`
	A   int    `json:"a,omitempty"`   // account index
	T   int    `json:"t,omitempty"`   // token index (nTokens = native)
	S   int    `json:"s,omitempty"`   // slot index / tx index
	V   string `json:"v,omitempty"`   // decimal amount or hex bytes
	N   uint64 `json:"n,omitempty"`   // nonce / credits / gas / height / topic count
	B   bool   `json:"b,omitempty"`   // deleteEmptyObjects
	Ref int    `json:"ref,omitempty"` // snapshot serial
	New int    `json:"new,omitempty"` // id of the state created by copy
	P   int    `json:"p,omitempty"`   // after a boundary: Prepare(Txs[P-1], bhash, N2)
	N2  int    `json:"n2,omitempty"`
}

func (o op) String() string {
	switch o.K {
	case "addbal", "subbal", "setbal":
		return fmt.Sprintf("%s(acct%d,%s)@%d", o.K, o.A, o.V, o.Obj)
	case "addtok", "subtok", "settok":
		return fmt.Sprintf("%s(acct%d,tok%d,%s)@%d", o.K, o.A, o.T, o.V, o.Obj)
	case "nonce", "credits":
		return fmt.Sprintf("%s(acct%d,%d)@%d", o.K, o.A, o.N, o.Obj)
	case "code":
		return fmt.Sprintf("code(acct%d,%dB)@%d", o.A, len(o.V)/2, o.Obj)
	case "store":
		return fmt.Sprintf("store(acct%d,slot%d,%s)@%d", o.A, o.S, o.V, o.Obj)
	case "create":
		return fmt.Sprintf("create+nonce(acct%d,%d)@%d", o.A, o.N, o.Obj)
	case "suicide":
		return fmt.Sprintf("%s(acct%d)@%d", o.K, o.A, o.Obj)
	case "log":
		return fmt.Sprintf("log(acct%d,%dtopics)@%d", o.A, o.N, o.Obj)
	case "refund+", "refund-":
		return fmt.Sprintf("%s(%d)@%d", o.K, o.N, o.Obj)
	case "snap", "revert":
		return fmt.Sprintf("%s(#%d)@%d", o.K, o.Ref, o.Obj)
	case "copy":
		return fmt.Sprintf("copy(%d->%d)", o.Obj, o.New)
	case "iroot", "finalise":
		return fmt.Sprintf("%s(del=%v)@%d", o.K, o.B, o.Obj)
	case "commit", "commitreset":
		return fmt.Sprintf("%s(del=%v,h=%d)@%d", o.K, o.B, o.N, o.Obj)
	}
	return fmt.Sprintf("%s@%d", o.K, o.Obj)
}

func isBoundary(k string) bool {
	return k == "iroot" || k == "finalise" || k == "commit" || k == "commitreset"
}

func bigOf(s string) *big.Int {
	v, ok := new(big.Int).SetString(s, 10)
	if !ok {
		return new(big.Int)
	}
	return v
}

func bytesOf(s string) []byte {
	b, _ := hex.DecodeString(s)
	return b
}

// applyOp performs a state-level operation through the public API of StateDB.
// It returns applied=false (and does nothing) when the op is not legal in the
// current state of st (so that shrunk programs stay inside the code's contract):
//   - Sub* never takes a (token) balance below zero (the account encoder rejects negative numbers),
//   - SubRefund never exceeds the counter (documented panic),
//   - RevertToSnapshot only names a snapshot that is still valid.
//
// snaps maps the program's snapshot serial to the id returned by Snapshot().
func applyOp(st *state.StateDB, u *universe, o *op, snaps map[int]int) (root string, applied bool) {
	var addr common.Address
	if o.A >= 0 && o.A < len(u.Accts) {
		addr = u.Accts[o.A]
	}
	switch o.K {
	case "addbal":
		st.AddBalance(addr, bigOf(o.V))
	case "subbal":
		v := bigOf(o.V)
		if st.GetBalance(addr).Cmp(v) < 0 {
			return "", false
		}
		st.SubBalance(addr, v)
	case "setbal":
		st.SetBalance(addr, bigOf(o.V))
	case "addtok":
		st.AddTokenBalance(addr, u.Tokens[o.T], bigOf(o.V))
	case "subtok":
		v := bigOf(o.V)
		if st.GetTokenBalance(addr, u.Tokens[o.T]).Cmp(v) < 0 {
			return "", false
		}
		st.SubTokenBalance(addr, u.Tokens[o.T], v)
	case "settok":
		st.SetTokenBalance(addr, u.Tokens[o.T], bigOf(o.V))
	case "nonce":
		st.SetNonce(addr, o.N)
	case "credits":
		st.SetCredits(addr, o.N)
	case "code":
		st.SetCode(addr, bytesOf(o.V))
	case "store":
		st.SetState(addr, u.Slots[o.S], bytesOf(o.V))
	case "create":
		// as evm.create does: CreateAccount is followed by SetNonce. (A bare CreateAccount over an existing,
		// unmodified account journals only resetObjectChange, whose dirtied() is nil as in go-ethereum of that
		// time: the new object is then neither written at commit nor carried into copies. That API-level quirk
		// is not what this property is about and is kept out of the workload.)
		st.CreateAccount(addr)
		st.SetNonce(addr, o.N)
	case "suicide":
		st.Suicide(addr)
	case "log":
		l := &types.Log{Address: addr, Data: bytesOf(o.V), BlockNumber: 7}
		for i := 0; i < int(o.N) && i < nSlots; i++ {
			l.Topics = append(l.Topics, u.Slots[(o.S+i)%nSlots])
		}
		st.AddLog(l)
	case "refund+":
		st.AddRefund(o.N)
	case "refund-":
		if st.GetRefund() < o.N {
			return "", false
		}
		st.SubRefund(o.N)
	case "preimage":
		b := bytesOf(o.V)
		st.AddPreimage(common.BytesToHash(b), b)
	case "snap":
		if _, dup := snaps[o.Ref]; dup {
			return "", false
		}
		snaps[o.Ref] = st.Snapshot()
	case "revert":
		id, ok := snaps[o.Ref]
		if !ok {
			return "", false
		}
		st.RevertToSnapshot(id)
		// the snapshot and everything taken after it are invalid now
		for k, v := range snaps {
			if v >= id {
				delete(snaps, k)
			}
		}
	case "iroot":
		root = st.IntermediateRoot(o.B).Hex()
	case "finalise":
		st.Finalise(o.B)
	case "commit", "commitreset":
		h, err := st.Commit(o.B, o.N)
		if err != nil {
			root = "commit-error:" + err.Error()
		} else {
			root = h.Hex()
		}
		if o.K == "commitreset" && err == nil {
			// what app.CommitBlock does after Commit
			st.Database().TrieDB().Commit(h, false)
			if rerr := st.Reset(h); rerr != nil {
				root += " reset-error:" + rerr.Error()
			}
		}
	default:
		return "", false
	}
	if isBoundary(o.K) {
		// Finalise clears the journal: "reverting across transactions is not allowed"
		for k := range snaps {
			delete(snaps, k)
		}
		if o.P > 0 {
			st.Prepare(u.Txs[(o.P-1)%nTxs], u.BHash, o.N2)
		}
	}
	return root, true
}

type backend struct {
	mode  int
	db    state.Database
	raw   dbm.DB
	close func()
}

func newBackend(mode int, dir, name string) (*backend, error) {
	b := &backend{mode: mode, close: func() {}}
	switch mode {
	case modePlain:
		b.raw = dbm.NewMemDB()
		b.db = state.NewDatabase(b.raw)
	case modeWTrie:
		b.raw = dbm.NewMemDB()
		b.db = state.NewKeyValueDBWithCache(b.raw, 128, true, 0)
	case modeKV:
		b.raw = dbm.NewMemDB()
		b.db = state.NewKeyValueDBWithCache(b.raw, 0, false, 0)
	case modeKVDisk:
		ldb, err := dbm.NewGoLevelDB(name, filepath.Join(dir, name), 1)
		if err != nil {
			return nil, err
		}
		b.raw = ldb
		b.db = state.NewKeyValueDBWithCache(ldb, 128, false, 0)
		b.close = func() { ldb.Close() }
	}
	return b, nil
}

// replay executes ops (all on one state, no Copy) on a fresh backend and returns every root the
// program computed (IntermediateRoot / Commit results, in order), for the flat in-memory mode the
// final content of the key-value store, and the final reading of all observables.
func replay(mode int, dir, name string, u *universe, ops []op) (roots []string, dump map[string]string, final []string, skipped int, err error) {
	be, err := newBackend(mode, dir, name)
	if err != nil {
		return nil, nil, nil, 0, err
	}
	defer be.close()
	st, err := state.New(common.EmptyHash, be.db)
	if err != nil {
		return nil, nil, nil, 0, err
	}
	snaps := map[int]int{}
	for i := range ops {
		root, ok := applyOp(st, u, &ops[i], snaps)
		if !ok {
			skipped++
			continue
		}
		if root != "" {
			roots = append(roots, root)
		}
	}
	if mem, ok := be.raw.(*dbm.MemDB); ok && mode == modeKV {
		dump = dumpMem(mem)
	}
	return roots, dump, observe(st, u), skipped, nil
}

func dumpMem(m *dbm.MemDB) map[string]string {
	out := map[string]string{}
	for _, k := range m.Keys() {
		out[string(k)] = string(m.Get(k))
	}
	return out
}

// effective removes reverted spans: the program a state would have run had the reverted
// operations never been issued (diagnostic twin of DESIGN §6-S5b).
func effective(own []op) []op {
	type mark struct{ ref, pos int }
	var eff []op
	var stack []mark
	for _, o := range own {
		switch {
		case o.K == "snap":
			stack = append(stack, mark{o.Ref, len(eff)})
		case o.K == "revert":
			for k := len(stack) - 1; k >= 0; k-- {
				if stack[k].ref == o.Ref {
					eff = eff[:stack[k].pos]
					stack = stack[:k]
					break
				}
			}
		default:
			if isBoundary(o.K) {
				stack = stack[:0]
			}
			eff = append(eff, o)
		}
	}
	return eff
}
