package c20

// Workload generator: worlds (accounts, contracts, tokens) and EVM programs.
// Everything is a pure function of the case RNG.

import (
	"encoding/binary"
	"encoding/hex"
	"math/big"
	"strings"

	"github.com/lianxiangcloud/linkchain/libs/common"
	"github.com/lianxiangcloud/linkchain/vm/evm"

	"verif/h/internal/rng"
)

// ---------------------------------------------------------------- assembler

type fixup struct{ at, label int }
type blob struct {
	label int
	data  []byte
}

type asm struct {
	b      []byte
	fixups []fixup
	pos    map[int]int
	nlab   int
	blobs  []blob
	tail   []byte
}

func newAsm() *asm { return &asm{pos: map[int]int{}} }

func (a *asm) op(ops ...evm.OpCode) {
	for _, o := range ops {
		a.b = append(a.b, byte(o))
	}
}
func (a *asm) raw(b ...byte) { a.b = append(a.b, b...) }

func (a *asm) pushBytes(v []byte) {
	i := 0
	for i < len(v)-1 && v[i] == 0 {
		i++
	}
	v = v[i:]
	if len(v) == 0 {
		v = []byte{0}
	}
	if len(v) > 32 {
		v = v[len(v)-32:]
	}
	a.b = append(a.b, byte(int(evm.PUSH1)+len(v)-1))
	a.b = append(a.b, v...)
}
func (a *asm) pushU(x uint64) {
	var buf [8]byte
	binary.BigEndian.PutUint64(buf[:], x)
	a.pushBytes(buf[:])
}
func (a *asm) pushBig(x *big.Int)        { a.pushBytes(x.Bytes()) }
func (a *asm) pushAddr(x common.Address) { a.pushBytes(x[:]) }
func (a *asm) newLabel() int             { a.nlab++; return a.nlab }
func (a *asm) place(l int)               { a.pos[l] = len(a.b) }
func (a *asm) dest(l int)                { a.place(l); a.op(evm.JUMPDEST) }
func (a *asm) pushLabel(l int) {
	a.b = append(a.b, byte(evm.PUSH2), 0, 0)
	a.fixups = append(a.fixups, fixup{len(a.b) - 2, l})
}
func (a *asm) addBlob(data []byte) int {
	l := a.newLabel()
	a.blobs = append(a.blobs, blob{l, data})
	return l
}
func (a *asm) bytes() []byte {
	out := append([]byte{}, a.b...)
	for _, bl := range a.blobs {
		a.pos[bl.label] = len(out)
		out = append(out, bl.data...)
	}
	out = append(out, a.tail...)
	for _, f := range a.fixups {
		p := a.pos[f.label] // unplaced labels resolve to 0 (an invalid or accidental destination)
		out[f.at] = byte(p >> 8)
		out[f.at+1] = byte(p)
	}
	return out
}

// ---------------------------------------------------------------- world

type tokenBal struct {
	Token  common.Address `json:"token"`
	Amount string         `json:"amount"`
}
type slotVal struct {
	Key string `json:"key"`
	Val string `json:"val"`
}
type account struct {
	Addr    common.Address `json:"addr"`
	Role    string         `json:"role"`
	Balance string         `json:"balance"`
	Nonce   uint64         `json:"nonce"`
	Code    string         `json:"code,omitempty"` // hex
	Tokens  []tokenBal     `json:"tokens,omitempty"`
	Storage []slotVal      `json:"storage,omitempty"`
}

type world struct {
	Shape    string         `json:"shape"` // uniform | opsoup | structured | mutated | deep
	Kind     string         `json:"kind"`  // execute | call | create | tokencall
	Accounts []account      `json:"accounts"`
	Origin   common.Address `json:"origin"`
	Coinbase common.Address `json:"coinbase"`
	Target   common.Address `json:"target"`
	Code     string         `json:"code,omitempty"` // hex: code for execute / init code for create
	Input    string         `json:"input"`          // hex
	Gas      uint64         `json:"gas"`
	Value    string         `json:"value"`
	Token    common.Address `json:"token"`
	Reopen   bool           `json:"reopen"` // commit the prepared state and reopen it from the trie
	Number   uint64         `json:"number"`
	Time     uint64         `json:"time"`

	// pools used by the generator and as the fixed probe set of the monitor (not serialised twice)
	contracts []common.Address
	eoas      []common.Address
	tokens    []common.Address
	slots     []common.Hash
}

var (
	executeAddr = common.BytesToAddress([]byte("contract")) // the address runtime.Execute installs the code at
	originAddr  = common.HexToAddress("0xa0a0000000000000000000000000000000000001")
	coinbase    = common.HexToAddress("0xcb00000000000000000000000000000000000001")
	tokenT1     = common.HexToAddress("0x70ce000000000000000000000000000000000001")
	tokenT2     = common.HexToAddress("0x70ce000000000000000000000000000000000002")
)

func contractAddr(i int) common.Address {
	return common.HexToAddress("0xc0de00000000000000000000000000000000000" + string("0123456789abcdef"[i+1]))
}
func eoaAddr(i int) common.Address {
	return common.HexToAddress("0xe0a000000000000000000000000000000000000" + string("0123456789abcdef"[i+1]))
}

func pick(r *rng.R, vals ...uint64) uint64 { return vals[r.Intn(len(vals))] }

func u(x uint64) string { return new(big.Int).SetUint64(x).String() }

func bigOf(s string) *big.Int {
	v, ok := new(big.Int).SetString(s, 10)
	if !ok {
		return new(big.Int)
	}
	return v
}

func genWorld(r *rng.R) *world {
	w := &world{Origin: originAddr, Coinbase: coinbase, Number: 1000, Time: 1600000000}
	nc := r.Range(2, 4)
	for i := 0; i < nc; i++ {
		w.contracts = append(w.contracts, contractAddr(i))
	}
	for i := 0; i < 4; i++ {
		w.eoas = append(w.eoas, eoaAddr(i))
	}
	w.tokens = []common.Address{tokenT1, tokenT2}
	for i := 0; i < 4; i++ {
		var h common.Hash
		switch i {
		case 0: // slot 0
		case 1:
			h[31] = 1
		case 2:
			h[0] = 0xff
			h[31] = 0xff
		default:
			copy(h[:], r.Bytes(32))
		}
		w.slots = append(w.slots, h)
	}
	w.Reopen = r.Chance(0.7)

	// shape
	p := r.Intn(100)
	switch {
	case p < 12:
		w.Shape = "uniform"
	case p < 25:
		w.Shape = "opsoup"
	case p < 90:
		w.Shape = "structured"
	case p < 97:
		w.Shape = "mutated"
	default:
		w.Shape = "deep"
	}

	// origin and helper accounts
	ob := pick(r, 0, 1, 1000000, 1000000000000000000, 1000000000000000000)
	org := account{Addr: originAddr, Role: "origin", Balance: u(ob), Nonce: uint64(r.Intn(3))}
	if r.Chance(0.6) {
		org.Tokens = append(org.Tokens, tokenBal{tokenT1, u(pick(r, 1, 500, 1000000000))})
	}
	if r.Chance(0.3) {
		org.Tokens = append(org.Tokens, tokenBal{tokenT2, u(pick(r, 1, 77))})
	}
	w.Accounts = append(w.Accounts, org)
	w.Accounts = append(w.Accounts, account{Addr: w.eoas[0], Role: "eoa-funded", Balance: u(1000000000), Nonce: 3})
	w.Accounts = append(w.Accounts, account{Addr: w.eoas[1], Role: "eoa-empty", Balance: "0"}) // exists but is empty (EIP-161)
	// eoas[2], eoas[3] do not exist

	g := &gen{r: r, w: w}
	if w.Shape == "deep" {
		g.deepWorld()
		return w
	}

	// installed contracts
	for i, ca := range w.contracts {
		g.self = ca
		acc := account{Addr: ca, Role: "contract", Balance: u(pick(r, 0, 1, 1000, 1000000000000000, 1000000000000000000)), Nonce: pick(r, 0, 1, 1, 5)}
		acc.Code = hex.EncodeToString(g.contractCode(i))
		if r.Chance(0.6) {
			acc.Tokens = append(acc.Tokens, tokenBal{tokenT1, u(pick(r, 1, 10, 100000))})
		}
		if r.Chance(0.4) {
			acc.Tokens = append(acc.Tokens, tokenBal{ca, u(pick(r, 1, 1000))}) // own token (what ISSUE mints)
		}
		if r.Chance(0.3) {
			acc.Tokens = append(acc.Tokens, tokenBal{tokenT2, u(pick(r, 5, 50))})
		}
		for _, s := range w.slots {
			if r.Chance(0.4) {
				acc.Storage = append(acc.Storage, slotVal{hex.EncodeToString(s[:]), hex.EncodeToString(r.Bytes(r.Range(1, 32)))})
			}
		}
		w.Accounts = append(w.Accounts, acc)
	}

	// entry
	k := r.Intn(100)
	switch {
	case k < 35:
		w.Kind = "execute"
	case k < 70:
		w.Kind = "call"
	case k < 85:
		w.Kind = "create"
	default:
		w.Kind = "tokencall"
	}
	switch w.Kind {
	case "execute":
		g.self = executeAddr
		w.Code = hex.EncodeToString(g.mainCode(false))
		w.Target = executeAddr
	case "create":
		g.self = common.Address{} // unknown until creation; ADDRESS is used instead of literals
		w.Code = hex.EncodeToString(g.mainCode(true))
	default:
		if r.Chance(0.9) {
			w.Target = w.contracts[r.Intn(len(w.contracts))]
		} else {
			w.Target = g.anyAddress()
		}
	}
	if w.Kind == "tokencall" {
		w.Token = []common.Address{tokenT1, tokenT1, tokenT2, w.contracts[0]}[r.Intn(4)]
	}
	// input
	switch r.Intn(5) {
	case 0:
		w.Input = ""
	case 1:
		w.Input = hex.EncodeToString(rateSelector())
	default:
		w.Input = hex.EncodeToString(r.Bytes(r.Range(1, 100)))
	}
	// gas and value
	w.Gas = []uint64{0, 1, 2300, 21000, 100000, 100000, 1000000, 1000000, 3000000, 3000000, 3000000, 10000000, 10000000, 10000000, 30000000, 30000000}[r.Intn(16)]
	bal := bigOf(org.Balance)
	if w.Kind == "tokencall" {
		bal = new(big.Int)
		for _, t := range org.Tokens {
			if t.Token == w.Token {
				bal = bigOf(t.Amount)
			}
		}
	}
	switch r.Intn(8) {
	case 0, 1, 2, 3:
		w.Value = "0"
	case 4:
		w.Value = "1"
	case 5, 6:
		w.Value = bal.String()
	default:
		w.Value = new(big.Int).Add(bal, big.NewInt(1)).String()
	}
	return w
}

// ---------------------------------------------------------------- programs

type gen struct {
	r      *rng.R
	w      *world
	self   common.Address
	level  int  // nesting of generated sub-programs (init code, runtime code)
	budget int  // statements left in this program
	noLoop bool // no unbounded loops (huge-gas cases)
}

func rateSelector() []byte {
	// the call data of the chain's "decimals()" probe that follows a successful ISSUE
	return append([]byte{}, rateData...)
}

func (g *gen) anyAddress() common.Address {
	r := g.r
	switch p := r.Intn(100); {
	case p < 35:
		return g.w.contracts[r.Intn(len(g.w.contracts))]
	case p < 55:
		return common.BytesToAddress([]byte{byte(r.Range(1, 9))})
	case p < 75:
		return g.w.eoas[r.Intn(len(g.w.eoas))]
	case p < 80:
		return originAddr
	case p < 84:
		return common.Address{}
	case p < 88:
		return coinbase
	case p < 92:
		return executeAddr
	default:
		return common.BytesToAddress(r.Bytes(20))
	}
}

var interesting = []string{
	"0", "1", "2", "1f", "20", "21", "40", "ff", "100", "ffff", "10000", "7fffffff", "ffffffff", "100000000",
	"ffffffffe0", "ffffffffe1", "ffffffffff", "7fffffffffffffff", "8000000000000000", "ffffffffffffffff", "10000000000000000",
	"ffffffffffffffffffffffffffffffff", "8000000000000000000000000000000000000000000000000000000000000000",
	"7fffffffffffffffffffffffffffffffffffffffffffffffffffffffffffffff",
	"ffffffffffffffffffffffffffffffffffffffffffffffffffffffffffffffff",
	"ffffffffffffffffffffffffffffffffffffffffffffffffffffffffffffffe0",
}

func hexBytes(s string) []byte {
	if len(s)%2 == 1 {
		s = "0" + s
	}
	b, _ := hex.DecodeString(s)
	return b
}

func (g *gen) constant(a *asm) {
	r := g.r
	switch p := r.Intn(100); {
	case p < 30:
		a.pushU(uint64(r.Intn(70)))
	case p < 60:
		a.pushBytes(hexBytes(interesting[r.Intn(len(interesting))]))
	case p < 75:
		a.pushBytes(r.Bytes(r.Range(1, 32)))
	case p < 88:
		a.pushAddr(g.anyAddress())
	default:
		s := g.w.slots[r.Intn(len(g.w.slots))]
		a.pushBytes(s[:])
	}
}

var envOps = []evm.OpCode{evm.ADDRESS, evm.ORIGIN, evm.CALLER, evm.CALLVALUE, evm.CALLDATASIZE, evm.CODESIZE, evm.GASPRICE,
	evm.COINBASE, evm.TIMESTAMP, evm.NUMBER, evm.DIFFICULTY, evm.GASLIMIT, evm.PC, evm.MSIZE, evm.GAS, evm.RETURNDATASIZE,
	evm.CALLTOKENADDRESS, evm.CALLTOKENVALUE}
var unOps = []evm.OpCode{evm.ISZERO, evm.NOT, evm.BALANCE, evm.EXTCODESIZE, evm.EXTCODEHASH, evm.BLOCKHASH, evm.CALLDATALOAD, evm.SLOAD}
var binOps = []evm.OpCode{evm.ADD, evm.MUL, evm.SUB, evm.DIV, evm.SDIV, evm.MOD, evm.SMOD, evm.EXP, evm.SIGNEXTEND, evm.LT, evm.GT, evm.SLT,
	evm.SGT, evm.EQ, evm.AND, evm.OR, evm.XOR, evm.BYTE, evm.SHL, evm.SHR, evm.SAR}

// expr emits code that pushes exactly one word.
func (g *gen) expr(a *asm, d int) {
	r := g.r
	p := r.Intn(100)
	if d <= 0 && p >= 45 {
		p = r.Intn(45)
	}
	switch {
	case p < 30:
		g.constant(a)
	case p < 45:
		a.op(envOps[r.Intn(len(envOps))])
	case p < 60:
		g.expr(a, d-1)
		a.op(unOps[r.Intn(len(unOps))])
	case p < 82:
		g.expr(a, d-1)
		g.expr(a, d-1)
		if r.Chance(0.15) {
			a.op(evm.SWAP1)
		}
		a.op(binOps[r.Intn(len(binOps))])
	case p < 86:
		g.expr(a, d-1)
		g.expr(a, d-1)
		g.expr(a, d-1)
		a.op([]evm.OpCode{evm.ADDMOD, evm.MULMOD}[r.Intn(2)])
	case p < 90: // MLOAD
		g.memOff(a)
		a.op(evm.MLOAD)
	case p < 94: // SHA3(off,size)
		g.memSize(a)
		g.memOff(a)
		a.op(evm.SHA3)
	case p < 97: // BALANCETOKEN(token, addr): pops token, then addr
		g.addrExpr(a)
		g.tokenExpr(a)
		a.op(evm.BALANCETOKEN)
	default:
		g.expr(a, d-1)
		a.op(evm.DUP1)
		a.op(binOps[r.Intn(len(binOps))])
	}
}

func (g *gen) memOff(a *asm) {
	r := g.r
	switch p := r.Intn(100); {
	case p < 78:
		a.pushU(uint64(r.Intn(8) * 32))
	case p < 88:
		a.pushU(uint64(r.Intn(3000)))
	case p < 93:
		a.pushU(uint64(r.Intn(1 << 16)))
	case p < 95:
		a.pushU(uint64(1<<20) + uint64(r.Intn(1<<26)))
	case p < 98:
		a.pushBytes(hexBytes(interesting[6+r.Intn(len(interesting)-6)]))
	default:
		g.expr(a, 1)
	}
}

// dataOff pushes a source offset for the *COPY family: mostly small, sometimes just below 2^64 (so that
// offset+length wraps in 64-bit arithmetic while each operand fits), sometimes a boundary constant or an expression.
func (g *gen) dataOff(a *asm) {
	r := g.r
	switch p := r.Intn(100); {
	case p < 45:
		a.pushU(pick(r, 0, 0, 1, 31, 32, 33, 64))
	case p < 70:
		a.pushU(^uint64(0) - pick(r, 0, 1, 15, 16, 31, 32, 47, 63, 64, 99))
	case p < 85:
		a.pushBytes(hexBytes(interesting[6+r.Intn(len(interesting)-6)]))
	default:
		g.expr(a, 1)
	}
}

func (g *gen) memSize(a *asm) {
	r := g.r
	switch p := r.Intn(100); {
	case p < 64:
		a.pushU(pick(r, 0, 1, 4, 32, 32, 64, 100))
	case p < 88:
		a.pushU(uint64(r.Intn(600)))
	case p < 93:
		a.pushU(uint64(r.Intn(1 << 15)))
	case p < 97:
		a.pushBytes(hexBytes(interesting[6+r.Intn(len(interesting)-6)]))
	default:
		g.expr(a, 1)
	}
}

func (g *gen) addrExpr(a *asm) {
	r := g.r
	switch p := r.Intn(100); {
	case p < 22:
		a.op(evm.ADDRESS)
	case p < 27:
		a.op(evm.CALLER)
	case p < 30:
		a.op(evm.ORIGIN)
	case p < 96:
		a.pushAddr(g.anyAddress())
	default: // 32 bytes of garbage: the EVM truncates to 20 bytes
		a.pushBytes(r.Bytes(32))
	}
}

func (g *gen) tokenExpr(a *asm) {
	r := g.r
	switch p := r.Intn(100); {
	case p < 25:
		a.pushU(0)
	case p < 60:
		a.pushAddr(g.w.tokens[r.Intn(len(g.w.tokens))])
	case p < 82:
		a.op(evm.ADDRESS)
	case p < 94:
		a.pushAddr(g.w.contracts[r.Intn(len(g.w.contracts))])
	case p < 97:
		a.op(evm.CALLTOKENADDRESS)
	default:
		a.pushBytes(r.Bytes(20))
	}
}

func (g *gen) valueExpr(a *asm) {
	r := g.r
	switch p := r.Intn(100); {
	case p < 66:
		a.pushU(0)
	case p < 74:
		a.pushU(1)
	case p < 80: // own balance
		a.op(evm.ADDRESS, evm.BALANCE)
	case p < 86: // own balance + 1
		a.op(evm.ADDRESS, evm.BALANCE)
		a.pushU(1)
		a.op(evm.ADD)
	case p < 91:
		a.op(evm.CALLVALUE)
	case p < 95:
		a.pushBytes(hexBytes(interesting[len(interesting)-1-r.Intn(4)]))
	default:
		a.pushU(uint64(r.Intn(5000)))
	}
}

func (g *gen) gasExpr(a *asm) {
	r := g.r
	switch p := r.Intn(100); {
	case p < 35:
		a.op(evm.GAS)
	case p < 85:
		a.pushU(pick(r, 0, 1, 700, 2300, 10000, 100000, 100000, 600000, 1000000, 5000000))
	case p < 93:
		a.pushBytes(hexBytes(interesting[len(interesting)-1-r.Intn(8)]))
	default: // half of what is left
		a.pushU(2)
		a.op(evm.GAS, evm.DIV)
	}
}

// fill writes a few words to low memory so that call data / init code / return data are not all zero.
func (g *gen) fill(a *asm) {
	r := g.r
	n := r.Intn(3)
	for i := 0; i < n; i++ {
		if r.Chance(0.3) {
			a.pushBytes(append(rateSelector(), r.Bytes(28)...))
		} else {
			g.constant(a)
		}
		a.pushU(uint64(r.Intn(4) * 32))
		a.op(evm.MSTORE)
	}
}

// callStmt emits a CALL/CALLCODE/DELEGATECALL/STATICCALL and what is done with its result.
func (g *gen) callStmt(a *asm, d int) {
	r := g.r
	g.fill(a)
	kind := []evm.OpCode{evm.CALL, evm.CALL, evm.CALL, evm.CALLCODE, evm.DELEGATECALL, evm.STATICCALL}[r.Intn(6)]
	// stack (top first): gas, addr, [value], inOff, inSize, retOff, retSize
	g.memSize(a) // retSize
	g.memOff(a)  // retOff
	g.memSize(a) // inSize
	g.memOff(a)  // inOff
	if kind == evm.CALL || kind == evm.CALLCODE {
		g.valueExpr(a)
	}
	g.addrExpr(a)
	g.gasExpr(a)
	a.op(kind)
	g.useFlag(a, d)
}

// useFlag consumes the success flag / created address on top of the stack.
func (g *gen) useFlag(a *asm, d int) {
	r := g.r
	switch p := r.Intn(100); {
	case p < 55:
		a.op(evm.POP)
	case p < 75: // fail (or stop) depending on the flag
		if r.Bool() {
			a.op(evm.ISZERO)
		}
		l := a.newLabel()
		a.pushLabel(l)
		a.op(evm.JUMPI)
		g.terminal(a)
		a.dest(l)
	case p < 90: // remember it in storage
		s := g.w.slots[r.Intn(len(g.w.slots))]
		a.pushBytes(s[:])
		a.op(evm.SSTORE)
	default: // copy the return data, then drop the flag
		if r.Chance(0.6) {
			a.op(evm.RETURNDATASIZE)
			a.pushU(0)
		} else {
			g.memSize(a)
			g.dataOff(a)
		}
		a.pushU(uint64(r.Intn(3) * 32))
		a.op(evm.RETURNDATACOPY, evm.POP)
	}
}

func (g *gen) createStmt(a *asm, d int) {
	g.createOne(a, d)
	for g.r.Chance(0.3) { // factories deploy several children
		g.createOne(a, d)
	}
}

func (g *gen) createOne(a *asm, d int) {
	r := g.r
	two := r.Chance(0.4)
	var initLen uint64
	memAt := uint64(r.Intn(4) * 32)
	if g.level < 2 && r.Chance(0.85) {
		sub := &gen{r: r, w: g.w, self: common.Address{}, level: g.level + 1, noLoop: g.noLoop}
		code := sub.initCode()
		initLen = uint64(len(code))
		bl := a.addBlob(code)
		a.pushU(initLen)
		a.pushLabel(bl)
		a.pushU(memAt)
		a.op(evm.CODECOPY)
	} else {
		g.fill(a)
		initLen = uint64(r.Intn(80))
	}
	if r.Chance(0.1) {
		initLen = pick(r, 0, 1, initLen+7, 1<<20, 1<<40)
	}
	if two {
		a.pushU(uint64(r.Intn(3))) // salt: few values so that collisions happen
	}
	a.pushU(initLen) // size
	if r.Chance(0.05) {
		g.memOff(a)
	} else {
		a.pushU(memAt)
	}
	if r.Chance(0.6) {
		a.pushU(0)
	} else {
		g.valueExpr(a)
	}
	if two {
		a.op(evm.CREATE2)
	} else {
		a.op(evm.CREATE)
	}
	if r.Chance(0.45) { // call what was created: stack [addr]
		g.memSize(a)
		g.memOff(a)
		g.memSize(a)
		g.memOff(a)
		g.valueExpr(a)
		a.op(evm.DUP6)
		g.gasExpr(a)
		a.op(evm.CALL, evm.POP, evm.POP)
		return
	}
	g.useFlag(a, d)
}

func (g *gen) amountExpr(a *asm) {
	r := g.r
	switch p := r.Intn(100); {
	case p < 10:
		a.pushU(0)
	case p < 32:
		a.pushU(1)
	case p < 60:
		a.pushU(uint64(r.Intn(2000)))
	case p < 72: // own LKC balance
		a.op(evm.ADDRESS, evm.BALANCE)
	case p < 80: // own balance of token T1 (+1)
		a.op(evm.ADDRESS)
		a.pushAddr(tokenT1)
		a.op(evm.BALANCETOKEN)
		if r.Bool() {
			a.pushU(1)
			a.op(evm.ADD)
		}
	case p < 88:
		a.pushBytes(hexBytes(interesting[len(interesting)-1-r.Intn(6)]))
	default:
		a.pushBytes(r.Bytes(r.Range(1, 12)))
	}
}

func (g *gen) slotExpr(a *asm) {
	r := g.r
	if r.Chance(0.9) {
		s := g.w.slots[r.Intn(len(g.w.slots))]
		a.pushBytes(s[:])
	} else {
		g.expr(a, 1)
	}
}

// stmt emits code with net stack effect zero (when it does not fail).
func (g *gen) stmt(a *asm, d int) {
	r := g.r
	g.budget--
	p := r.Intn(1000)
	switch {
	case p < 90:
		g.expr(a, 3)
		g.sink(a)
	case p < 160: // MSTORE / MSTORE8
		g.expr(a, 2)
		g.memOff(a)
		if r.Chance(0.25) {
			a.op(evm.MSTORE8)
		} else {
			a.op(evm.MSTORE)
		}
	case p < 280: // SSTORE(slot, val): pops slot then val
		switch r.Intn(4) {
		case 0:
			a.pushU(0)
		case 1:
			a.pushU(uint64(r.Intn(1000)) + 1)
		default:
			g.expr(a, 2)
		}
		g.slotExpr(a)
		a.op(evm.SSTORE)
	case p < 320: // LOGn(off, size, topics...)
		n := r.Intn(5)
		for i := 0; i < n; i++ {
			g.constant(a)
		}
		g.memSize(a)
		g.memOff(a)
		a.op(evm.OpCode(int(evm.LOG0) + n))
	case p < 370: // copies
		switch r.Intn(4) {
		case 0:
			g.memSize(a)
			g.dataOff(a)
			g.memOff(a)
			a.op(evm.CALLDATACOPY)
		case 1:
			g.memSize(a)
			g.dataOff(a)
			g.memOff(a)
			a.op(evm.CODECOPY)
		case 2:
			g.memSize(a)
			g.dataOff(a)
			g.memOff(a)
			g.addrExpr(a)
			a.op(evm.EXTCODECOPY)
		default:
			if r.Chance(0.7) {
				a.op(evm.RETURNDATASIZE)
			} else {
				g.memSize(a)
			}
			if r.Bool() {
				a.pushU(uint64(r.Intn(2)))
			} else {
				g.dataOff(a)
			}
			g.memOff(a)
			a.op(evm.RETURNDATACOPY)
		}
	case p < 590:
		g.callStmt(a, d)
	case p < 660:
		g.createStmt(a, d)
	case p < 700: // ISSUE(amount)
		g.amountExpr(a)
		a.op(evm.ISSUE)
	case p < 760: // TRANSFERTOKEN: pops amount, token, to
		g.addrExpr(a)
		g.tokenExpr(a)
		g.amountExpr(a)
		a.op(evm.TRANSFERTOKEN)
	case p < 840: // if (cond) skip a block
		if d <= 0 {
			g.expr(a, 2)
			a.op(evm.POP)
			return
		}
		g.cond(a)
		l := a.newLabel()
		a.pushLabel(l)
		a.op(evm.JUMPI)
		n := r.Range(1, 3)
		for i := 0; i < n && g.budget > 0; i++ {
			g.stmt(a, d-1)
		}
		a.dest(l)
	case p < 865:
		g.expr(a, 2)
		g.sink(a)
	case p < 920: // unless (cond) terminate here
		g.cond(a)
		l := a.newLabel()
		a.pushLabel(l)
		a.op(evm.JUMPI)
		g.terminal(a)
		a.dest(l)
	case p < 950: // bounded counter loop
		if d <= 0 {
			a.op(evm.JUMPDEST)
			return
		}
		a.pushU(uint64(r.Range(1, 12)))
		l := a.newLabel()
		a.dest(l)
		n := r.Range(1, 2)
		for i := 0; i < n && g.budget > 0; i++ {
			g.stmt(a, 0)
		}
		a.pushU(1)
		a.op(evm.SWAP1, evm.SUB, evm.DUP1)
		a.pushLabel(l)
		a.op(evm.JUMPI, evm.POP)
	case p < 965: // loop while plenty of gas is left
		if g.noLoop {
			a.op(evm.JUMPDEST)
			return
		}
		l := a.newLabel()
		a.dest(l)
		if r.Bool() {
			g.stmt(a, 0)
		}
		a.pushU(pick(r, 5000, 50000, 400000))
		a.op(evm.GAS, evm.GT)
		a.pushLabel(l)
		a.op(evm.JUMPI)
	case p < 971: // junk bytes
		a.raw(r.Bytes(r.Range(1, 3))...)
	case p < 983:
		g.jumpOver(a)
	case p < 993: // DUPn / SWAPn on a possibly too shallow stack
		n := r.Intn(16)
		if r.Bool() {
			a.op(evm.OpCode(int(evm.DUP1)+n), evm.POP)
		} else {
			a.op(evm.OpCode(int(evm.SWAP1) + n))
		}
	default: // fill the stack until the limit
		if g.noLoop {
			a.op(evm.JUMPDEST)
			return
		}
		l := a.newLabel()
		a.dest(l)
		a.op(evm.PC)
		if r.Bool() {
			a.op(evm.DUP1)
		}
		a.pushLabel(l)
		a.op(evm.JUMP)
	}
}

// cond pushes a word used as a branch condition; biased towards values that differ between
// the entry call, inner calls and the chain's own internal calls (call data, caller, gas, value).
func (g *gen) cond(a *asm) {
	r := g.r
	switch p := r.Intn(100); {
	case p < 14:
		a.op(evm.CALLDATASIZE)
	case p < 22:
		a.op(evm.CALLDATASIZE, evm.ISZERO)
	case p < 30:
		a.op(evm.CALLER)
	case p < 36:
		a.op(evm.CALLER, evm.ISZERO)
	case p < 44:
		a.op(evm.CALLVALUE)
	case p < 52:
		a.pushU(pick(r, 3000, 50000, 500000, 40000000))
		a.op(evm.GAS, evm.LT)
	case p < 60:
		a.op(evm.ADDRESS, evm.CALLER, evm.EQ)
	case p < 68:
		g.slotExpr(a)
		a.op(evm.SLOAD)
	case p < 74: // first four bytes of the call data == decimals() selector
		a.pushU(0)
		a.op(evm.CALLDATALOAD)
		a.pushU(224)
		a.op(evm.SHR)
		a.pushBytes(rateSelector())
		a.op(evm.EQ)
		if r.Bool() {
			a.op(evm.ISZERO)
		}
	case p < 80:
		a.pushU(uint64(r.Intn(2)))
	default:
		g.expr(a, 2)
	}
}

func (g *gen) terminal(a *asm) {
	r := g.r
	switch p := r.Intn(100); {
	case p < 16:
		a.op(evm.STOP)
	case p < 32:
		g.memSize(a)
		g.memOff(a)
		a.op(evm.RETURN)
	case p < 48:
		g.memSize(a)
		g.memOff(a)
		a.op(evm.REVERT)
	case p < 54:
		a.raw(0xfe)
	case p < 58: // undefined opcode
		a.raw([]byte{0x0c, 0x1e, 0x21, 0x4f, 0xa5, 0xb0, 0xe5, 0xf6, 0xfb, 0xef}[r.Intn(10)])
	case p < 74:
		g.addrExpr(a)
		a.op(evm.SELFDESTRUCT)
	case p < 82: // burn all gas
		if g.noLoop {
			a.raw(0xfe)
			return
		}
		l := a.newLabel()
		a.dest(l)
		if r.Chance(0.3) {
			a.op(evm.GAS, evm.POP)
		}
		a.pushLabel(l)
		a.op(evm.JUMP)
	case p < 90: // bad jump: into push data, to a non-JUMPDEST, past the end, huge
		switch r.Intn(4) {
		case 0:
			a.pushU(uint64(len(a.b)) + 1) // lands in this PUSH's own data or next to it
		case 1:
			a.pushU(uint64(r.Intn(len(a.b) + 1)))
		case 2:
			a.pushU(0xffff)
		default:
			a.pushBytes(hexBytes(interesting[14+r.Intn(len(interesting)-14)]))
		}
		if r.Chance(0.3) {
			a.pushU(1)
			a.op(evm.SWAP1, evm.JUMPI)
		} else {
			a.op(evm.JUMP)
		}
	case p < 96: // stack underflow
		a.op([]evm.OpCode{evm.POP, evm.ADD, evm.MSTORE, evm.SSTORE, evm.CALL, evm.DUP3, evm.SWAP2, evm.LOG2, evm.CREATE2, evm.TRANSFERTOKEN}[r.Intn(10)])
	default: // huge memory
		a.pushU(1)
		a.pushBytes(hexBytes(interesting[10+r.Intn(len(interesting)-10)]))
		a.op(evm.MLOAD)
	}
}

// sink consumes a computed word: dropped, kept in low memory (what RETURN/REVERT/LOG/CALL read) or stored.
func (g *gen) sink(a *asm) {
	switch p := g.r.Intn(100); {
	case p < 40:
		a.op(evm.POP)
	case p < 80:
		a.pushU(uint64(g.r.Intn(4) * 32))
		a.op(evm.MSTORE)
	default:
		s := g.w.slots[g.r.Intn(len(g.w.slots))]
		a.pushBytes(s[:])
		a.op(evm.SSTORE)
	}
}

// jumpOver: an unconditional forward jump over a few bytes of embedded data.
func (g *gen) jumpOver(a *asm) {
	l := a.newLabel()
	a.pushLabel(l)
	a.op(evm.JUMP)
	a.raw(g.r.Bytes(g.r.Intn(6))...)
	a.dest(l)
}

func (g *gen) body(a *asm, n int) {
	g.budget = n
	if g.r.Chance(0.4) { // dispatcher-like prologue
		if g.r.Chance(0.6) {
			g.jumpOver(a)
		} else {
			g.cond(a)
			l := a.newLabel()
			a.pushLabel(l)
			a.op(evm.JUMPI)
			g.terminal(a)
			a.dest(l)
		}
	}
	for g.budget > 0 {
		g.stmt(a, 2)
	}
}

// finish ends a program: terminal, data blobs, and sometimes a truncated PUSH at the very end of the code.
func (g *gen) finish(a *asm) []byte {
	r := g.r
	switch p := r.Intn(100); {
	case p < 70:
		g.terminal(a)
	case p < 82: // jump over the blobs to a PUSHn whose data is cut off by the end of the code
		l := a.newLabel()
		a.pushLabel(l)
		a.op(evm.JUMP)
		n := r.Range(2, 32)
		a.tail = append([]byte{byte(evm.JUMPDEST), byte(int(evm.PUSH1) + n - 1)}, r.Bytes(r.Intn(n))...)
		code := a.bytes()
		// patch l by hand: the tail starts after the blobs
		tailPos := len(code) - len(a.tail)
		for _, f := range a.fixups {
			if f.label == l {
				code[f.at] = byte(tailPos >> 8)
				code[f.at+1] = byte(tailPos)
			}
		}
		return code
	default: // fall off the end (into the blobs, if any)
	}
	return a.bytes()
}

// contractCode: code of an installed contract.
func (g *gen) contractCode(i int) []byte {
	r := g.r
	switch g.w.Shape {
	case "uniform":
		return r.Bytes(r.Range(0, 120))
	case "opsoup":
		return g.opSoup(r.Range(5, 80))
	}
	if r.Chance(0.06) {
		return nil // an account without code
	}
	a := newAsm()
	g.level = 0
	g.body(a, r.Range(2, 9))
	return g.finish(a)
}

func (g *gen) mainCode(isInit bool) []byte {
	r := g.r
	switch g.w.Shape {
	case "uniform":
		return r.Bytes(r.Range(1, 300))
	case "opsoup":
		return g.opSoup(r.Range(10, 200))
	}
	var code []byte
	if isInit {
		g.level = 0
		code = g.initCode()
	} else {
		a := newAsm()
		g.level = 0
		g.body(a, r.Range(4, 24))
		code = g.finish(a)
	}
	if g.w.Shape == "mutated" {
		code = mutate(r, code)
	}
	return code
}

// initCode: statements, then (usually) return a generated runtime program.
func (g *gen) initCode() []byte {
	r := g.r
	a := newAsm()
	n := r.Range(0, 6)
	if g.level == 0 {
		n = r.Range(2, 14)
	}
	g.body(a, n)
	if r.Chance(0.7) {
		var rt []byte
		switch {
		case g.level >= 2 || r.Chance(0.2):
			rt = r.Bytes(r.Range(0, 40))
		default:
			sub := &gen{r: r, w: g.w, level: g.level + 1, noLoop: g.noLoop}
			ra := newAsm()
			sub.body(ra, r.Range(1, 5))
			rt = sub.finish(ra)
		}
		bl := a.addBlob(rt)
		a.pushU(uint64(len(rt)))
		a.pushLabel(bl)
		a.pushU(0)
		a.op(evm.CODECOPY)
		sz := uint64(len(rt))
		if r.Chance(0.08) {
			sz = pick(r, 24576, 24577, 30000) // around the maximum code size
		}
		a.pushU(sz)
		a.pushU(0)
		a.op(evm.RETURN)
		return a.bytes()
	}
	return g.finish(a)
}

// opSoup: random sequence of *valid* opcodes with their immediates (no stack discipline).
func (g *gen) opSoup(n int) []byte {
	r := g.r
	var out []byte
	for i := 0; i < n; i++ {
		switch p := r.Intn(100); {
		case p < 45: // pushes keep the stack non-empty
			k := r.Range(1, 32)
			if r.Chance(0.7) {
				k = r.Range(1, 3)
			}
			out = append(out, byte(int(evm.PUSH1)+k-1))
			out = append(out, r.Bytes(k)...)
		case p < 55:
			out = append(out, byte(int(evm.DUP1)+r.Intn(4)))
		default:
			out = append(out, validOps[r.Intn(len(validOps))])
		}
	}
	return out
}

var validOps = func() []byte {
	var v []byte
	for i := 0; i < 256; i++ {
		if !strings.HasPrefix(evm.OpCode(i).String(), "Missing") {
			v = append(v, byte(i))
		}
	}
	return v
}()

func mutate(r *rng.R, code []byte) []byte {
	out := append([]byte{}, code...)
	n := r.Range(1, 4)
	for i := 0; i < n && len(out) > 0; i++ {
		at := r.Intn(len(out))
		switch r.Intn(4) {
		case 0:
			out[at] = byte(r.Intn(256))
		case 1:
			out[at] ^= 1 << uint(r.Intn(8))
		case 2:
			out = append(out[:at], out[at+1:]...)
		default:
			out = append(out[:at], append([]byte{byte(r.Intn(256))}, out[at:]...)...)
		}
	}
	return out
}

// ---------------------------------------------------------------- deep recursion template

// deepWorld: contract 0 calls itself (or creates a copy of itself) with all the gas it has, once per
// frame, so that the recursion reaches the depth limit; what happens before the call, after it and at
// the bottom is random.
func (g *gen) deepWorld() {
	r, w := g.r, g.w
	g.noLoop = true
	self := w.contracts[0]
	g.self = self
	a := newAsm()
	// state change before descending
	pre := r.Intn(6)
	g.deepSide(a, pre)
	mode := r.Intn(6)
	switch mode {
	case 0, 1, 2, 3:
		kind := []evm.OpCode{evm.CALL, evm.CALLCODE, evm.DELEGATECALL, evm.STATICCALL}[mode]
		a.pushU(uint64(r.Intn(2) * 32))
		a.pushU(0)
		a.pushU(uint64(r.Intn(2) * 4))
		a.pushU(0)
		if kind == evm.CALL || kind == evm.CALLCODE {
			a.pushU(pick(r, 0, 0, 0, 1))
		}
		a.op(evm.ADDRESS, evm.GAS, kind)
	default: // CREATE / CREATE2 of a copy of the running code
		a.op(evm.CODESIZE)
		a.pushU(0)
		a.pushU(0)
		a.op(evm.CODECOPY)
		if mode == 5 {
			a.op(evm.GAS) // salt
		}
		a.op(evm.CODESIZE)
		a.pushU(0)
		a.pushU(pick(r, 0, 0, 1))
		if mode == 5 {
			a.op(evm.CREATE2)
		} else {
			a.op(evm.CREATE)
		}
	}
	// after the return
	switch r.Intn(4) {
	case 0:
		a.op(evm.POP)
	case 1: // propagate the failure
		l := a.newLabel()
		a.pushLabel(l)
		a.op(evm.JUMPI)
		g.deepEnd(a, r.Intn(3)+1)
		a.dest(l)
	case 2: // fail when the inner call worked
		a.op(evm.ISZERO)
		l := a.newLabel()
		a.pushLabel(l)
		a.op(evm.JUMPI)
		g.deepEnd(a, r.Intn(3)+1)
		a.dest(l)
	default:
		a.pushU(1)
		a.op(evm.SSTORE)
	}
	g.deepSide(a, r.Intn(6))
	g.deepEnd(a, r.Intn(4))
	code := a.bytes()

	acc := account{Addr: self, Role: "contract", Balance: u(pick(r, 0, 5000, 1000000000000000000)), Nonce: 1, Code: hex.EncodeToString(code)}
	acc.Tokens = append(acc.Tokens, tokenBal{tokenT1, u(100000)})
	w.Accounts = append(w.Accounts, acc)
	for _, ca := range w.contracts[1:] {
		w.Accounts = append(w.Accounts, account{Addr: ca, Role: "contract", Balance: "7", Nonce: 1, Code: "00"})
	}
	w.Kind = "call"
	w.Target = self
	w.Gas = pick(r, 1000000000000, 1000000000000, 100000000000000, 30000000)
	w.Value = "0"
	if r.Chance(0.2) {
		w.Input = hex.EncodeToString(rateSelector())
	}
}

func (g *gen) deepSide(a *asm, k int) {
	switch k {
	case 0:
		a.op(evm.GAS)
		a.pushU(0)
		a.op(evm.SSTORE)
	case 1:
		a.pushU(1)
		a.op(evm.ISSUE)
	case 2:
		a.pushAddr(g.w.eoas[2])
		a.pushAddr(tokenT1)
		a.pushU(1)
		a.op(evm.TRANSFERTOKEN)
	case 3:
		a.op(evm.GAS)
		a.pushU(0)
		a.pushU(0)
		a.op(evm.LOG1)
	default:
	}
}

func (g *gen) deepEnd(a *asm, k int) {
	switch k {
	case 0:
		a.op(evm.STOP)
	case 1:
		a.pushU(0)
		a.pushU(0)
		a.op(evm.REVERT)
	case 2:
		a.raw(0xfe)
	default:
		a.pushU(32)
		a.pushU(0)
		a.op(evm.RETURN)
	}
}
