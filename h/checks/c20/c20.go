// Package c20: contract execution is metered, atomic and crash-free for arbitrary
// programs (DESIGN.md §5 C20).
package c20

import (
	"crypto/sha256"
	"encoding/hex"
	"encoding/json"
	"fmt"
	"math/big"
	"regexp"
	"runtime/debug"
	"strings"
	"syscall"

	"github.com/lianxiangcloud/linkchain/libs/common"
	dbm "github.com/lianxiangcloud/linkchain/libs/db"
	"github.com/lianxiangcloud/linkchain/state"
	"github.com/lianxiangcloud/linkchain/types"
	"github.com/lianxiangcloud/linkchain/vm/evm"
	vmrt "github.com/lianxiangcloud/linkchain/vm/runtime"

	"verif/h/internal/core"
)

func init() {
	core.Register(&core.Check{
		ID:        "C20",
		Level:     "exploration",
		Technique: "real EVM executions of generated hostile programs through vm/runtime under a Tracer-based frame monitor; differential second run from an independently rebuilt state",
		Rule: "case = generated world (origin, 2-4 installed contracts with balances/token balances/storage, EOAs) + entry (runtime.Execute/Call/Create/TokenCall) with gas in {0,1,2300,21000,1e5..3e7} " +
			"(deep-recursion template: up to 1e14) and value in {0,1,balance,balance+1}; program shapes: uniform bytes, valid-opcode soup, structured grammar (stack-valid statements: memory ops with offsets up to 2^256-1, " +
			"SSTORE churn, LOGn, CALL-family to self/contracts/precompiles/EOAs, CREATE/CREATE2 with generated init code, SELFDESTRUCT, REVERT, ISSUE/TRANSFERTOKEN/BALANCETOKEN/CALLTOKEN*, loops, bad jumps, truncated PUSH), byte-mutated structured programs. " +
			"oracles: no panic/fatal; leftOverGas <= gas; gas never increases inside a frame; steps <= max(1e7,100*gas) (interpreter steps, never time); for every inner CALL*/CREATE* that pushed 0 the getter-level snapshot " +
			"(existence, balance, token balances, nonce, credits, code, suicided, storage slots, refund, log count over probe set + touched addresses) equals the one before the call (creator nonce excepted); same for a failed top-level call; " +
			"two runs from independently built identical states agree on return data, left-over gas, error class, step count, trace hash, logs, state root and snapshot. " +
			"non-trivial = >= 20 interpreter steps and >= 1 CALL-family/CREATE executed; distinct by hash of (entry, code, input, gas, value)",
		Assumptions: []string{
			"state is observed through the StateDB getters (C09's observables); encoding-only differences of an account are out of scope",
			"the nonce of the creating account consumed by a failed CREATE/CREATE2 belongs to the calling frame (Ethereum semantics), not to the failed frame",
			"keccak, secp256k1 and bn256 are black boxes; WASM contracts (vm/wasm) are not generated (no toolchain)",
		},
		Cases: func(tier string) int {
			if tier == "thorough" {
				return 600000
			}
			return 20000
		},
		Batch: func(tier string) int { return 50 },
		Run:   run,
		Floors: func(tier string) map[string]int64 {
			f := map[string]int64{}
			for k, v := range floors {
				if tier == "thorough" {
					v *= 20 // 30x the cases
				}
				f[k] = v
			}
			return f
		},
		PanicIsViolation: true,
		Init:             initChild,
	})
}

// roughly half of the minimum observed over VERIF_SEED=1..5 (quick tier, 20000 cases)
var floors = map[string]int64{
	"steps":                                   350000000,
	"second_runs_compared":                    9900,
	"frames_failed_checked":                   190000,
	"frames_failed_checked_after_writes":      110000,
	"frames_failed_checked_with_value":        19000,
	"frames_succeeded":                        100000,
	"top_level_failures_checked_after_writes": 5000,
	"top_ok":                     1500,
	"cases_reaching_depth_limit": 100,
	"gas_zero_cases":             590,
	"shape_uniform":              1150,
	"op_CALL":                    140000,
	"op_CALLCODE":                90000,
	"op_DELEGATECALL":            99000,
	"op_STATICCALL":              39000,
	"op_CREATE":                  38000,
	"op_CREATE2":                 25000,
	"op_SELFDESTRUCT":            1600,
	"op_SSTORE":                  170000,
	"op_LOG":                     74000,
	"op_ISSUE":                   84000,
	"op_TRANSFERTOKEN":           40000,
	"op_BALANCETOKEN":            5600,
}

func initChild() {
	core.QuietLogs()
	// a runaway allocation (memory expansion not bounded by gas) must kill this child, not the machine
	lim := &syscall.Rlimit{Cur: 6 << 30, Max: 6 << 30}
	syscall.Setrlimit(syscall.RLIMIT_AS, lim)
	// recursion to the depth limit (1025 frames) needs 1-2 MiB of goroutine stack; with 32 MiB instead of
	// Go's 1 GiB an unbounded recursion overflows after ~20k frames, i.e. inside the per-case work cap
	debug.SetMaxStack(32 << 20)
}

// ---------------------------------------------------------------- state construction

func buildState(w *world) (*state.StateDB, error) {
	db := state.NewDatabase(dbm.NewMemDB())
	st, err := state.New(common.EmptyHash, db)
	if err != nil {
		return nil, err
	}
	for _, a := range w.Accounts {
		st.CreateAccount(a.Addr)
		st.SetBalance(a.Addr, bigOf(a.Balance))
		st.SetNonce(a.Addr, a.Nonce)
		if a.Code != "" {
			code, _ := hex.DecodeString(a.Code)
			st.SetCode(a.Addr, code)
		}
		for _, t := range a.Tokens {
			st.SetTokenBalance(a.Addr, t.Token, bigOf(t.Amount))
		}
		for _, s := range a.Storage {
			k, _ := hex.DecodeString(s.Key)
			v, _ := hex.DecodeString(s.Val)
			st.SetState(a.Addr, common.BytesToHash(k), v)
		}
	}
	if w.Reopen {
		root, err := st.Commit(false, 1)
		if err != nil {
			return nil, err
		}
		st, err = state.New(root, db)
		if err != nil {
			return nil, err
		}
	}
	if w.Kind == "execute" {
		// what runtime.Execute does before the call; doing it here as well makes the state before the
		// call observable (Execute repeats both steps, which is idempotent for a fresh account)
		code, _ := hex.DecodeString(w.Code)
		st.CreateAccount(executeAddr)
		st.SetCode(executeAddr, code)
	}
	return st, nil
}

// ---------------------------------------------------------------- one execution

type outcome struct {
	Ret       string `json:"ret"`
	Left      uint64 `json:"left_over_gas"`
	LeftKnown bool   `json:"left_known"`
	Err       string `json:"err"`
	Created   string `json:"created,omitempty"`
	Steps     uint64 `json:"steps"`
	Trace     uint64 `json:"trace_hash"`
	Root      string `json:"root"`
	Snap      uint64 `json:"snapshot_hash"`
	Logs      string `json:"logs_hash"`
	Refund    uint64 `json:"refund"`
	panicked  bool
	aborted   bool // cancelled because of a finding
	truncated bool // cancelled by the harness' work cap
	mon       *monitor
	err       error
}

var numRe = regexp.MustCompile(`0x[0-9a-fA-F]+|[0-9]+`)
var hexRe = regexp.MustCompile(`(0x)?[0-9a-fA-F]{8,}`)

func errClass(err error) string {
	switch err {
	case nil:
		return "ok"
	case types.ExecutionReverted:
		return "reverted"
	case evm.ErrOutOfGas:
		return "out-of-gas"
	case evm.ErrDepth:
		return "depth"
	case evm.ErrInsufficientBalance:
		return "insufficient-balance"
	case evm.ErrContractAddressCollision:
		return "address-collision"
	case evm.ErrCodeStoreOutOfGas:
		return "code-store-out-of-gas"
	}
	s := numRe.ReplaceAllString(err.Error(), "N")
	if i := strings.Index(s, "("); i > 0 {
		s = s[:i]
	}
	s = strings.TrimSpace(s)
	if len(s) > 40 {
		s = s[:40]
	}
	return strings.Replace(s, " ", "-", -1)
}

var repoFrameRe = regexp.MustCompile(`(?m)^github\.com/lianxiangcloud/linkchain/([^\s(]+(?:\([^)]*\))?[^\s(]*)\(`)

func panicKey(r interface{}, stack string) string {
	msg := numRe.ReplaceAllString(hexRe.ReplaceAllString(fmt.Sprint(r), "H"), "N")
	if len(msg) > 70 {
		msg = msg[:70]
	}
	msg = strings.Join(strings.Fields(msg), "_")
	fr := "unknown"
	// the first repository frame below the panic call
	if i := strings.Index(stack, "panic("); i >= 0 {
		stack = stack[i:]
	}
	for _, mm := range repoFrameRe.FindAllStringSubmatch(stack, -1) {
		fr = mm[1]
		break
	}
	return "panic/" + fr + "/" + msg
}

func execute(c *core.Ctx, w *world, heavy bool) *outcome {
	o := &outcome{}
	st, err := buildState(w)
	if err != nil {
		c.Inconclusive("state construction failed: " + err.Error())
		o.err = err
		return o
	}
	mon := newMonitor(st, w, heavy)
	o.mon = mon
	cfg := &vmrt.Config{
		Difficulty:  big.NewInt(131072),
		Origin:      w.Origin,
		Coinbase:    w.Coinbase,
		BlockNumber: new(big.Int).SetUint64(w.Number),
		Time:        new(big.Int).SetUint64(w.Time),
		GasLimit:    w.Gas,
		GasPrice:    big.NewInt(100000000000),
		Value:       bigOf(w.Value),
		State:       st,
		EVMConfig:   evm.Config{Debug: true, Tracer: mon},
	}
	code, _ := hex.DecodeString(w.Code)
	input, _ := hex.DecodeString(w.Input)

	var pre *snapshot
	if heavy {
		pre = takeSnapshot(st, mon.set)
	}

	var ret []byte
	var runErr error
	func() {
		defer func() {
			if r := recover(); r != nil {
				o.panicked = true
				stk := string(debug.Stack())
				key := panicKey(r, stk)
				if len(stk) > 3000 {
					stk = stk[:3000]
				}
				c.Violation(key, fmt.Sprintf("panic escaped the EVM (%s entry, shape %s, gas %d): %v", w.Kind, w.Shape, w.Gas, r),
					map[string]interface{}{"world": w, "panic": fmt.Sprint(r), "stack": stk, "trace_tail": mon.tailSteps()})
			}
		}()
		if w.Gas == 0 {
			// runtime's setDefaults turns GasLimit 0 into 2^64-1; a zero gas limit is supplied by making the
			// same calls on the EVM that runtime.NewEnv builds
			env := vmrt.NewEnv(cfg)
			switch w.Kind {
			case "create":
				var addr common.Address
				ret, addr, o.Left, runErr = env.Create(evm.AccountRef(w.Origin), code, 0, cfg.Value)
				o.Created = addr.String()
			default:
				env.Token = w.Token
				ret, o.Left, _, runErr = env.Call(evm.AccountRef(w.Origin), w.Target, w.Token, input, 0, cfg.Value)
			}
			o.LeftKnown = true
			return
		}
		switch w.Kind {
		case "execute":
			ret, _, runErr = vmrt.Execute(code, input, cfg)
		case "call":
			ret, o.Left, runErr = vmrt.Call(w.Target, input, cfg)
			o.LeftKnown = true
		case "create":
			var addr common.Address
			ret, addr, o.Left, runErr = vmrt.Create(code, cfg)
			o.Created = addr.String()
			o.LeftKnown = true
		case "tokencall":
			ret, o.Left, runErr = vmrt.TokenCall(w.Target, input, cfg, w.Token)
			o.LeftKnown = true
		}
	}()
	if o.panicked {
		return o
	}
	o.aborted = mon.aborted && !mon.truncated
	o.truncated = mon.truncated
	o.err = runErr
	o.Err = errClass(runErr)
	o.Steps = mon.steps
	o.Trace = mon.thash
	if len(ret) > 64 {
		h := sha256.Sum256(ret)
		o.Ret = fmt.Sprintf("len=%d sha256=%x", len(ret), h[:8])
	} else {
		o.Ret = hex.EncodeToString(ret)
	}
	if !o.LeftKnown && mon.ended && mon.endGasUsed <= w.Gas {
		o.Left = w.Gas - mon.endGasUsed
	}

	if heavy && !mon.aborted {
		// gas law at the top level
		if o.LeftKnown && o.Left > w.Gas {
			c.Violation("gas/left-over-gas-exceeds-supplied", fmt.Sprintf("%s entry: supplied %d gas, %d returned (err=%v)", w.Kind, w.Gas, o.Left, runErr), map[string]interface{}{"world": w})
		}
		if mon.ended && mon.endGasUsed > w.Gas {
			c.Violation("gas/gas-used-exceeds-supplied", fmt.Sprintf("%s entry: supplied %d gas, tracer was told %d were used (err=%v)", w.Kind, w.Gas, mon.endGasUsed, runErr), map[string]interface{}{"world": w})
		}
		// gas consumed by the uncharged decimals() probes counts as consumed by this execution
		if unch := mon.uncharged + mon.probeCur; unch > 0 && (o.LeftKnown || mon.ended) && o.Left <= w.Gas && (w.Gas-o.Left)+unch > w.Gas {
			c.Violation(keyProbe, fmt.Sprintf("%d gas supplied, %d charged, and %d more consumed without charge by the decimals() static call(s) that follow a successful ISSUE (GetUTXOChangeRate)", w.Gas, w.Gas-o.Left, unch),
				map[string]interface{}{"world": w, "trace_tail": mon.tailSteps()})
		}
		// a failed top-level frame leaves nothing behind
		post := takeSnapshot(st, mon.set)
		if runErr != nil {
			if d := diffSnapshots(mon.set, pre, post); len(d) > 0 {
				kind := map[string]bool{}
				for _, x := range d {
					f := x.Field
					if i := strings.IndexByte(f, ':'); i >= 0 {
						f = f[:i]
					}
					kind[f] = true
				}
				c.Violation("frame-atomicity/failed-top-level-frame-left-state-behind/"+joinKinds(kind),
					fmt.Sprintf("top-level %s returned %q but %d observed fields differ from the state before the call", w.Kind, o.Err, len(d)),
					map[string]interface{}{"world": w, "diff": d, "trace_tail": mon.tailSteps()})
			}
		}
	}
	if !o.aborted {
		fin := takeSnapshot(st, newProbeSet(w)) // the fixed probe set: identical in both runs
		o.Snap = fin.hash()
		o.Refund = st.GetRefund()
		lh := sha256.New()
		for _, l := range st.Logs() {
			lh.Write(l.Address[:])
			for _, t := range l.Topics {
				lh.Write(t[:])
			}
			fmt.Fprintf(lh, "|%d|%d|", len(l.Data), l.Index)
			lh.Write(l.Data)
		}
		o.Logs = hex.EncodeToString(lh.Sum(nil)[:8])
		func() {
			defer func() {
				if r := recover(); r != nil {
					o.panicked = true
					c.Violation(panicKey(r, string(debug.Stack())), fmt.Sprintf("panic while finalising the post-state: %v", r), map[string]interface{}{"world": w})
				}
			}()
			o.Root = st.IntermediateRoot(false).String()
		}()
	}
	return o
}

// ---------------------------------------------------------------- the case

func run(c *core.Ctx) {
	w := genWorld(c.Rng)
	c.Count("shape_"+w.Shape, 1)
	c.Count("entry_"+w.Kind, 1)
	if w.Gas == 0 {
		c.Count("gas_zero_cases", 1)
	}
	if c.Verbose {
		wj, _ := json.MarshalIndent(w, "  ", " ")
		c.Logf("case: %s", wj)
	}

	o1 := execute(c, w, true)
	if o1.mon == nil {
		return
	}
	m := o1.mon
	// what the monitor saw
	c.Count("steps", int64(m.steps))
	c.Count("frames_failed", int64(m.framesFailed))
	c.Count("frames_failed_checked", int64(m.framesFailedCk))
	c.Count("frames_failed_unchecked", int64(m.framesSkipped))
	c.Count("frames_succeeded", int64(m.framesOK))
	c.Count("snapshots", int64(m.snapshots))
	c.Count("decimals_probe_frames", int64(m.probes))
	c.Count("decimals_probe_frames_uncharged", int64(m.probesUncharged))
	c.Count("decimals_probe_frames_uncharged_nested", int64(m.probesNested))
	c.Count("decimals_probe_steps_uncharged", int64(m.probeSteps))
	c.Max("depth", int64(m.maxDepth))
	if m.maxDepth >= 1025 {
		c.Count("cases_reaching_depth_limit", 1)
	}
	c.Count("frames_failed_checked_after_writes", int64(m.failedAfterWrites))
	c.Count("frames_failed_checked_with_value", int64(m.failedWithValue))
	c.Count("calls_and_creates_with_value", int64(m.valueCalls))
	c.Count("frames", int64(m.nframes))
	if m.truncated {
		c.Count("cases_truncated_by_work_cap", 1)
	}
	var calls, creates, sstores, selfdestructs, logs int64
	for _, op := range []evm.OpCode{evm.CALL, evm.CALLCODE, evm.DELEGATECALL, evm.STATICCALL} {
		calls += int64(m.ops[byte(op)])
		c.Count("op_"+op.String(), int64(m.ops[byte(op)]))
	}
	creates = int64(m.ops[byte(evm.CREATE)]) + int64(m.ops[byte(evm.CREATE2)])
	c.Count("op_CREATE", int64(m.ops[byte(evm.CREATE)]))
	c.Count("op_CREATE2", int64(m.ops[byte(evm.CREATE2)]))
	for _, op := range []evm.OpCode{evm.ISSUE, evm.TRANSFERTOKEN, evm.BALANCETOKEN, evm.CALLTOKENADDRESS, evm.CALLTOKENVALUE} {
		c.Count("op_"+op.String(), int64(m.ops[byte(op)]))
	}
	sstores = int64(m.ops[byte(evm.SSTORE)])
	selfdestructs = int64(m.ops[byte(evm.SELFDESTRUCT)])
	for i := 0; i < 5; i++ {
		logs += int64(m.ops[int(evm.LOG0)+i])
	}
	c.Count("op_SSTORE", sstores)
	c.Count("op_SELFDESTRUCT", selfdestructs)
	c.Count("op_LOG", logs)
	c.Count("op_REVERT", int64(m.ops[byte(evm.REVERT)]))
	if !o1.panicked {
		c.Count("top_"+o1.Err, 1)
		if o1.err != nil && !o1.truncated {
			c.Count("top_level_failures_checked", 1)
			if m.writes > 0 || w.Value != "0" {
				c.Count("top_level_failures_checked_after_writes", 1)
			}
		}
	} else {
		c.Count("panics", 1)
	}
	if m.steps >= 20 && calls+creates > 0 {
		h := sha256.Sum256([]byte(w.Kind + "|" + w.Code + "|" + w.Input + "|" + w.Value + "|" + fmt.Sprint(w.Gas) + "|" + w.Target.String() + "|" + accountsKey(w)))
		c.Nontrivial(hex.EncodeToString(h[:6]))
	}
	if c.Index%997 == 0 {
		code := w.Code
		if len(code) > 160 {
			code = code[:160] + "..."
		}
		c.Sample(map[string]interface{}{"shape": w.Shape, "entry": w.Kind, "gas": w.Gas, "value": w.Value, "code": code, "input": w.Input,
			"result": o1.Err, "steps": m.steps, "max_depth": m.maxDepth, "inner_frames_failed": m.framesFailed, "inner_frames_ok": m.framesOK})
	}

	for _, f := range m.findings {
		wit := map[string]interface{}{"world": w, "trace_tail": m.tailSteps()}
		if f.extra != nil {
			wit["diff"] = f.extra
		}
		c.Violation(f.key, f.detail, wit)
	}
	if o1.panicked || o1.aborted {
		return
	}

	// second run: independently rebuilt state, light tracer
	o2 := execute(c, w, false)
	if o2.mon == nil || o2.panicked {
		if o2.panicked {
			c.Violation("determinism/second-run-panicked", "the first run of the same case did not panic", map[string]interface{}{"world": w})
		}
		return
	}
	for _, f := range o2.mon.findings {
		c.Violation(f.key, f.detail+" (second run)", map[string]interface{}{"world": w})
	}
	c.Count("second_runs_compared", 1)
	// most significant observable first: it names the class of the violation
	var diff []string
	cmp := func(name string, a, b interface{}) {
		if a != b {
			diff = append(diff, name)
		}
	}
	cmp("error", o1.Err, o2.Err)
	cmp("return-data", o1.Ret, o2.Ret)
	cmp("left-over-gas", o1.Left, o2.Left)
	cmp("created-address", o1.Created, o2.Created)
	cmp("state-root", o1.Root, o2.Root)
	cmp("state-getters", o1.Snap, o2.Snap)
	cmp("logs", o1.Logs, o2.Logs)
	cmp("refund", o1.Refund, o2.Refund)
	cmp("steps", o1.Steps, o2.Steps)
	cmp("trace", o1.Trace, o2.Trace)
	if len(diff) > 0 {
		c.Violation("determinism/"+diff[0], "two executions of the same (state, code, input, gas, value) differ in: "+strings.Join(diff, ", "),
			map[string]interface{}{"world": w, "run1": o1, "run2": o2})
	}
}

func accountsKey(w *world) string {
	var sb strings.Builder
	for _, a := range w.Accounts {
		sb.WriteString(a.Code)
		sb.WriteString(a.Balance)
		sb.WriteByte('|')
	}
	return sb.String()
}
