package c20

// The frame monitor: an evm.Tracer that counts interpreter steps, hashes the trace,
// checks per-frame gas monotonicity and, for every inner frame that failed, compares a
// getter-level snapshot of the world state taken before the call with one taken after it.

import (
	"bytes"
	"fmt"
	"hash/fnv"
	"math/big"
	"time"

	"github.com/lianxiangcloud/linkchain/libs/common"
	"github.com/lianxiangcloud/linkchain/libs/crypto"
	"github.com/lianxiangcloud/linkchain/state"
	"github.com/lianxiangcloud/linkchain/types"
	"github.com/lianxiangcloud/linkchain/vm/evm"
)

var rateData = types.UTXOChangeRateDataEVM()

const keyProbe = "metering/unmetered-decimals-probe-after-issue"

// ---------------------------------------------------------------- probe set and snapshots

const (
	maxAddrs   = 48
	maxTokens  = 10
	maxSlots   = 16
	baseFields = 7 // exist, empty, balance, nonce, credits, codehash, suicided
)

var baseNames = [baseFields]string{"exist", "empty", "balance", "nonce", "credits", "code", "suicided"}

type probeSet struct {
	addrs  []common.Address
	tokens []common.Address
	slots  []common.Hash
	inA    map[common.Address]bool
	inT    map[common.Address]bool
	inS    map[common.Hash]bool
}

func newProbeSet(w *world) *probeSet {
	p := &probeSet{inA: map[common.Address]bool{}, inT: map[common.Address]bool{}, inS: map[common.Hash]bool{}}
	p.addAddr(w.Origin)
	p.addAddr(w.Coinbase)
	p.addAddr(common.Address{})
	p.addAddr(executeAddr)
	for _, a := range w.contracts {
		p.addAddr(a)
		p.addToken(a)
	}
	for _, a := range w.eoas {
		p.addAddr(a)
	}
	for i := 1; i <= 9; i++ {
		p.addAddr(common.BytesToAddress([]byte{byte(i)}))
	}
	for _, a := range w.Accounts {
		p.addAddr(a.Addr)
	}
	if w.Target != (common.Address{}) {
		p.addAddr(w.Target)
	}
	for _, t := range w.tokens {
		p.addToken(t)
	}
	if w.Token != (common.Address{}) {
		p.addToken(w.Token)
	}
	for _, s := range w.slots {
		p.addSlot(s)
	}
	return p
}

func (p *probeSet) addAddr(a common.Address) {
	if !p.inA[a] && len(p.addrs) < maxAddrs {
		p.inA[a] = true
		p.addrs = append(p.addrs, a)
	}
}
func (p *probeSet) addToken(a common.Address) {
	if a != (common.Address{}) && !p.inT[a] && len(p.tokens) < maxTokens {
		p.inT[a] = true
		p.tokens = append(p.tokens, a)
	}
}
func (p *probeSet) addSlot(s common.Hash) {
	if !p.inS[s] && len(p.slots) < maxSlots {
		p.inS[s] = true
		p.slots = append(p.slots, s)
	}
}

// snapshot: one uint64 per observed field. Small non-negative numbers are stored as
// themselves (readable in witnesses), everything else as a 63-bit hash with the top bit set.
type snapshot struct {
	nA, nT, nS int
	vals       []uint64 // nA * (baseFields+nT+nS)
	refund     uint64
	logs       int
}

func encBig(v *big.Int) uint64 {
	if v == nil {
		return 0
	}
	if v.Sign() >= 0 && v.BitLen() <= 62 {
		return v.Uint64()
	}
	h := fnv.New64a()
	if v.Sign() < 0 {
		h.Write([]byte{'-'})
	}
	h.Write(v.Bytes())
	return h.Sum64() | 1<<63
}
func encBytes(b []byte) uint64 {
	if len(b) == 0 {
		return 0
	}
	if len(b) <= 7 {
		var x uint64
		for _, c := range b {
			x = x<<8 | uint64(c)
		}
		return x | uint64(len(b))<<56
	}
	h := fnv.New64a()
	h.Write(b)
	return h.Sum64() | 1<<63
}
func b2u(b bool) uint64 {
	if b {
		return 1
	}
	return 0
}

func takeSnapshot(st *state.StateDB, p *probeSet) *snapshot {
	s := &snapshot{nA: len(p.addrs), nT: len(p.tokens), nS: len(p.slots)}
	stride := baseFields + s.nT + s.nS
	s.vals = make([]uint64, s.nA*stride)
	for i, a := range p.addrs {
		v := s.vals[i*stride : (i+1)*stride]
		ex := st.Exist(a)
		v[0] = b2u(ex)
		if !ex {
			continue // every getter returns the zero value for a missing account
		}
		v[1] = b2u(st.Empty(a))
		v[2] = encBig(st.GetBalance(a))
		v[3] = st.GetNonce(a)
		v[4] = st.GetCredits(a)
		ch := st.GetCodeHash(a)
		v[5] = encBytes(ch[:])
		v[6] = b2u(st.HasSuicided(a))
		for j, t := range p.tokens {
			v[baseFields+j] = encBig(st.GetTokenBalance(a, t))
		}
		if ch != emptyCodeHash || a == executeAddr {
			for j, k := range p.slots {
				v[baseFields+s.nT+j] = encBytes(st.GetState(a, k))
			}
		}
	}
	s.refund = st.GetRefund()
	s.logs = len(st.Logs())
	return s
}

var emptyCodeHash = crypto.Keccak256Hash(nil)

type fieldDiff struct {
	Addr   string `json:"addr"`
	Field  string `json:"field"`
	Before uint64 `json:"before"`
	After  uint64 `json:"after"`
}

// diff compares post against pre over the fields pre knows about.
func diffSnapshots(p *probeSet, pre, post *snapshot) []fieldDiff {
	var out []fieldDiff
	sp := baseFields + pre.nT + pre.nS
	sq := baseFields + post.nT + post.nS
	for i := 0; i < pre.nA && i < post.nA; i++ {
		a := pre.vals[i*sp : (i+1)*sp]
		b := post.vals[i*sq : (i+1)*sq]
		for f := 0; f < baseFields; f++ {
			if a[f] != b[f] {
				out = append(out, fieldDiff{p.addrs[i].String(), baseNames[f], a[f], b[f]})
			}
		}
		for j := 0; j < pre.nT; j++ {
			if a[baseFields+j] != b[baseFields+j] {
				out = append(out, fieldDiff{p.addrs[i].String(), "token:" + p.tokens[j].String(), a[baseFields+j], b[baseFields+j]})
			}
		}
		for j := 0; j < pre.nS; j++ {
			if a[baseFields+pre.nT+j] != b[baseFields+post.nT+j] {
				out = append(out, fieldDiff{p.addrs[i].String(), "storage:" + p.slots[j].String(), a[baseFields+pre.nT+j], b[baseFields+post.nT+j]})
			}
		}
	}
	if pre.refund != post.refund {
		out = append(out, fieldDiff{"-", "refund", pre.refund, post.refund})
	}
	if pre.logs != post.logs {
		out = append(out, fieldDiff{"-", "logs", uint64(pre.logs), uint64(post.logs)})
	}
	return out
}

func (s *snapshot) hash() uint64 {
	h := fnv.New64a()
	var b [8]byte
	put := func(x uint64) {
		for i := 0; i < 8; i++ {
			b[i] = byte(x >> (8 * uint(i)))
		}
		h.Write(b[:])
	}
	for _, v := range s.vals {
		put(v)
	}
	put(s.refund)
	put(uint64(s.logs))
	return h.Sum64()
}

// ---------------------------------------------------------------- tracer

type site struct {
	depth     int
	contract  *evm.Contract
	op        evm.OpCode
	pc        uint64
	caller    common.Address
	target    common.Address
	value     string
	gasBefore uint64
	cost      uint64
	pre       *snapshot
	writes0   uint64
}

type frameInfo struct {
	c        *evm.Contract
	lastGas  uint64 // gas before the frame's current instruction
	lastCost uint64 // what that instruction is charged (for a CALL*: including the gas handed to the callee)
	lastOp   evm.OpCode
	memLen   int    // size of the frame's memory, which already includes the expansion of the current instruction
	memDelta uint64 // gas the current instruction pays for that expansion (consumed, never handed to a callee)
}

func memGas(bytes int) uint64 {
	w := uint64(bytes+31) / 32
	return w*3 + w*w/512
}

type traceStep struct {
	Depth int    `json:"d"`
	PC    uint64 `json:"pc"`
	Op    string `json:"op"`
	Gas   uint64 `json:"gas"`
	Err   string `json:"err,omitempty"`
	op    evm.OpCode
	err   error
}

type finding struct {
	key, detail string
	extra       interface{}
}

type monitor struct {
	st        *state.StateDB
	heavy     bool
	set       *probeSet
	gas       uint64
	stepLimit uint64

	steps      uint64
	probeSteps uint64
	thash      uint64
	aborted    bool // monitoring has stopped and the EVM was cancelled (violation or truncation)
	truncated  bool // stopped by the harness' own work cap: not a finding, the prefix was fully checked
	work       uint64
	workCap    uint64
	nframes    uint64

	lastDepth       int
	frames          []frameInfo
	pending         []*site
	probeDepth      int // depth of the running decimals() probe frame, 0 = none
	probes          int
	probesUncharged int
	probesNested    int
	probeGas0       uint64 // gas the running probe frame started with
	probeCur        uint64 // gas the running probe frame has consumed so far
	uncharged       uint64 // gas consumed by finished probe frames (nobody is charged for it)

	snapshots      int
	snapshotBudget int

	maxDepth                                       int
	writes                                         uint64 // state-changing instructions executed so far
	failedAfterWrites, failedWithValue, valueCalls int
	framesFailed                                   int
	framesFailedCk                                 int
	framesOK                                       int
	framesSkipped                                  int
	ops                                            [256]uint32

	started, ended bool
	endGasUsed     uint64
	endErr         error

	findings []finding
	tail     [24]traceStep
	tailN    int
}

func newMonitor(st *state.StateDB, w *world, heavy bool) *monitor {
	m := &monitor{st: st, heavy: heavy, gas: w.Gas, thash: 1469598103934665603, snapshotBudget: 2400, workCap: 3000000}
	m.stepLimit = 10000000
	if w.Gas > m.stepLimit/100 {
		if w.Gas > (1<<63)/100 {
			m.stepLimit = 1 << 63
		} else {
			m.stepLimit = 100 * w.Gas
		}
	}
	if m.stepLimit == 10000000 {
		// small gas: nothing legitimate comes near 1e7 steps, so the harness cap must not hide the step oracle
		m.workCap = 1 << 62
	}
	m.frames = make([]frameInfo, 64)
	if heavy {
		m.set = newProbeSet(w)
	}
	return m
}

func (m *monitor) find(key, detail string, extra interface{}) {
	if len(m.findings) < 8 {
		m.findings = append(m.findings, finding{key, detail, extra})
	}
}

func (m *monitor) tailSteps() []traceStep {
	n := m.tailN
	if n > len(m.tail) {
		n = len(m.tail)
	}
	out := make([]traceStep, 0, n)
	for i := m.tailN - n; i < m.tailN; i++ {
		t := m.tail[i%len(m.tail)]
		t.Op = t.op.String()
		if t.err != nil {
			t.Err = t.err.Error()
		}
		out = append(out, t)
	}
	return out
}

func (m *monitor) CaptureStart(from common.Address, to common.Address, call bool, input []byte, gas uint64, value *big.Int) error {
	m.started = true
	return nil
}

func (m *monitor) CaptureEnd(output []byte, gasUsed uint64, t time.Duration, err error) error {
	m.ended = true
	m.endGasUsed = gasUsed
	m.endErr = err
	return nil
}

func (m *monitor) CaptureState(env *evm.EVM, pc uint64, op evm.OpCode, gas, cost uint64, memory *evm.Memory, stack *evm.Stack, contract *evm.Contract, depth int, err error) error {
	m.step(env, pc, op, gas, cost, memory, stack, contract, depth, err, false)
	return nil
}

func (m *monitor) CaptureFault(env *evm.EVM, pc uint64, op evm.OpCode, gas, cost uint64, memory *evm.Memory, stack *evm.Stack, contract *evm.Contract, depth int, err error) error {
	m.step(env, pc, op, gas, cost, memory, stack, contract, depth, err, true)
	return nil
}

func (m *monitor) mix(x uint64) {
	m.thash = (m.thash ^ x) * 1099511628211
}

func (m *monitor) step(env *evm.EVM, pc uint64, op evm.OpCode, gas, cost uint64, memory *evm.Memory, stack *evm.Stack, contract *evm.Contract, depth int, err error, fault bool) {
	if m.aborted {
		return
	}
	if !fault {
		m.steps++
		m.work++
		m.ops[byte(op)]++
	}
	m.mix(pc<<20 ^ uint64(op)<<8 ^ uint64(depth)<<40)
	m.mix(gas)
	if err != nil {
		m.mix(0xe44)
	}
	if sd := stack.Data(); len(sd) > 0 {
		// what the previous instruction produced (low 64 bits and size of the top word)
		t := sd[len(sd)-1]
		m.mix(t.Uint64() ^ uint64(t.BitLen())<<56 ^ uint64(len(sd))<<44)
	}
	ts := &m.tail[m.tailN%len(m.tail)]
	ts.Depth, ts.PC, ts.op, ts.Gas, ts.err = depth, pc, op, gas, err
	m.tailN++

	if depth > m.maxDepth {
		m.maxDepth = depth
	}
	if depth >= len(m.frames) {
		nf := make([]frameInfo, depth*2)
		copy(nf, m.frames)
		m.frames = nf
	}
	fr := &m.frames[depth]
	newFrame := depth > m.lastDepth || fr.c != contract
	if m.probeDepth != 0 && (depth < m.probeDepth || (depth == m.probeDepth && newFrame)) {
		m.probeDepth = 0
		m.uncharged += m.probeCur
		m.probeCur = 0
	}
	if newFrame {
		// how much gas could legitimately have been handed to this frame
		var ref uint64
		haveRef := false
		if depth <= m.lastDepth && fr.c != nil {
			// it follows a frame of the same depth without any instruction of a caller in between:
			// a call made by the EVM itself in that frame's epilogue
			ref, haveRef = fr.lastGas, true
		} else if depth >= 2 && m.frames[depth-1].c != nil {
			// entered from the caller's last instruction: a CALL* hands over at most what it is charged
			// (+ the stipend), a CREATE* at most what the creator has left after the charge
			cf := &m.frames[depth-1]
			switch cf.lastOp {
			case evm.CREATE, evm.CREATE2:
				if cf.lastGas > cf.lastCost {
					ref = cf.lastGas - cf.lastCost
				}
			default:
				ref = cf.lastCost + 2300
			}
			haveRef = true
		}
		fr.c = contract
		fr.lastGas = gas
		fr.memLen = 0
		m.nframes++
		m.work += 40 // a frame costs the harness far more than a step
		isProbe := contract.CallerAddress == (common.Address{}) && bytes.Equal(contract.Input, rateData)
		if isProbe {
			// the chain's own decimals() static call in the epilogue of the first frame that ends after an
			// ISSUE (GetUTXOChangeRate); its caller is the zero address
			m.probes++
		}
		if haveRef && gas > ref && isProbe && m.probeDepth != 0 && depth > m.probeDepth {
			// an uncharged probe inside an uncharged probe (DelegateCall/Call/CallCode/create do not look at the
			// value they take from evm.Issued): it brings its own fresh gas; account for the outer one so far
			m.uncharged += m.probeCur
			m.probeCur = 0
			m.probeDepth = depth
			m.probeGas0 = gas
			m.probesUncharged++
			m.probesNested++
		} else if haveRef && gas > ref && m.probeDepth == 0 {
			if isProbe {
				// it starts with more gas than the frame it is made from had left: nobody pays for it
				m.probeDepth = depth
				m.probeGas0 = gas
				m.probesUncharged++
			} else {
				m.find("gas/frame-started-with-more-gas-than-it-was-handed", fmt.Sprintf("frame at depth %d starts with %d gas, the instruction or frame it was entered from could hand over at most %d", depth, gas, ref), nil)
			}
		}
	} else {
		if gas > fr.lastGas {
			m.find("gas/frame-gas-increased", fmt.Sprintf("depth %d pc %d op %v: gas %d after %d in the same frame", depth, pc, op, gas, fr.lastGas), nil)
		}
		fr.lastGas = gas
	}
	m.lastDepth = depth
	fr.lastCost, fr.lastOp = cost, op
	fr.memDelta = 0
	if n := memory.Len(); n > fr.memLen {
		fr.memDelta = memGas(n) - memGas(fr.memLen)
		fr.memLen = n
	}
	if m.probeDepth != 0 {
		if !fault {
			m.probeSteps++
		}
		// gas the probe has consumed so far: what it started with minus what the frames it consists of still
		// hold (suspended callers: gas before their call instruction minus its full charge; the running frame:
		// gas before its current instruction, an over-estimate) - a lower bound of what was consumed
		if d := depth - m.probeDepth; d <= 8 || m.steps&255 == 0 {
			held := m.frames[depth].lastGas
			if held >= fr.memDelta && err == nil {
				held -= fr.memDelta
			}
			for k := m.probeDepth; k < depth; k++ {
				if f := &m.frames[k]; f.lastGas > f.lastCost {
					held += f.lastGas - f.lastCost
				}
			}
			if held <= m.probeGas0 && m.probeGas0-held > m.probeCur {
				m.probeCur = m.probeGas0 - held
			}
		}
		if m.uncharged+m.probeCur > m.gas {
			// the uncharged work alone already exceeds everything the execution was given
			m.aborted = true
			env.Cancel()
			m.find(keyProbe, fmt.Sprintf("%d gas supplied, but the decimals() static calls that evm.Call/Create make after a successful ISSUE (GetUTXOChangeRate, 1e10 gas each, charged to nobody) have already consumed %d gas in %d interpreter steps",
				m.gas, m.uncharged+m.probeCur, m.probeSteps), nil)
			return
		}
	}

	if m.steps > m.stepLimit {
		m.aborted = true
		env.Cancel()
		if m.probeDepth != 0 {
			m.find(keyProbe,
				fmt.Sprintf("more than max(1e7,100*gas)=%d interpreter steps for %d supplied gas; %d of them inside the uncharged decimals() static call that evm.Call/Create make after a successful ISSUE (GetUTXOChangeRate, 1e10 gas)", m.stepLimit, m.gas, m.probeSteps), nil)
		} else {
			m.find("metering/steps-exceed-gas-budget", fmt.Sprintf("more than max(1e7,100*gas)=%d interpreter steps for %d supplied gas (steps inside decimals() probes: %d)", m.stepLimit, m.gas, m.probeSteps), nil)
		}
		return
	}
	if m.work > m.workCap {
		// bound the cost of one case; everything up to here has been checked, the rest is not looked at
		m.aborted, m.truncated = true, true
		env.Cancel()
		return
	}
	if !m.heavy {
		return
	}

	// resolve call sites whose callee has returned
	for n := len(m.pending); n > 0 && m.pending[n-1].depth >= depth; n = len(m.pending) {
		s := m.pending[n-1]
		m.pending = m.pending[:n-1]
		if s.depth == depth && s.contract == contract && !(fault && s.pc == pc) {
			m.resolve(s, op, gas, stack)
		}
	}

	if fault || err != nil {
		return
	}
	// observe addresses / tokens / slots before the op changes anything
	sd := stack.Data()
	top := func(i int) *big.Int { return sd[len(sd)-1-i] }
	switch op {
	case evm.SSTORE, evm.SELFDESTRUCT, evm.ISSUE, evm.TRANSFERTOKEN, evm.LOG0, evm.LOG1, evm.LOG2, evm.LOG3, evm.LOG4:
		m.writes++
	}
	switch op {
	case evm.SSTORE:
		m.set.addSlot(common.BigToHash(top(0)))
		m.set.addAddr(contract.Address())
	case evm.SELFDESTRUCT:
		m.set.addAddr(contract.Address())
		m.set.addAddr(common.BigToAddress(top(0)))
	case evm.ISSUE:
		if contract.CodeAddr != nil {
			m.set.addAddr(*contract.CodeAddr)
			m.set.addToken(*contract.CodeAddr)
		}
	case evm.TRANSFERTOKEN:
		m.set.addAddr(contract.Address())
		m.set.addAddr(common.BigToAddress(top(2)))
		m.set.addToken(common.BigToAddress(top(1)))
	case evm.CALL, evm.CALLCODE, evm.DELEGATECALL, evm.STATICCALL, evm.CREATE, evm.CREATE2:
		s := &site{depth: depth, contract: contract, op: op, pc: pc, caller: contract.Address(), gasBefore: gas, cost: cost}
		m.set.addAddr(s.caller)
		switch op {
		case evm.CALL, evm.CALLCODE:
			s.target = common.BigToAddress(top(1))
			s.value = top(2).String()
		case evm.DELEGATECALL, evm.STATICCALL:
			s.target = common.BigToAddress(top(1))
		case evm.CREATE, evm.CREATE2:
			s.value = top(0).String()
			off, size := top(1), top(2)
			var code []byte
			if size.Sign() > 0 && off.IsUint64() && size.IsUint64() && off.Uint64()+size.Uint64() <= uint64(memory.Len()) {
				code = memory.Data()[off.Uint64() : off.Uint64()+size.Uint64()]
			}
			if op == evm.CREATE {
				s.target = crypto.CreateAddress(s.caller, m.st.GetNonce(s.caller), code)
			} else {
				s.target = crypto.CreateAddress2(s.caller, common.BigToHash(top(3)), crypto.Keccak256(code))
			}
			m.set.addToken(s.target)
		}
		m.set.addAddr(s.target)
		if s.value != "" && s.value != "0" {
			m.valueCalls++
			m.writes++
		}
		if op == evm.CREATE || op == evm.CREATE2 {
			m.writes++
		}
		s.writes0 = m.writes
		if m.snapshots < m.snapshotBudget {
			m.snapshots++
			s.pre = takeSnapshot(m.st, m.set)
		}
		m.pending = append(m.pending, s)
	}
}

func (m *monitor) resolve(s *site, nextOp evm.OpCode, gasNow uint64, stack *evm.Stack) {
	sd := stack.Data()
	if len(sd) == 0 {
		return
	}
	flag := sd[len(sd)-1]
	if flag.Sign() != 0 {
		m.framesOK++
		return
	}
	m.framesFailed++
	if s.pre == nil {
		m.framesSkipped++
		return
	}
	m.framesFailedCk++
	if m.writes > s.writes0 || (s.value != "" && s.value != "0") || s.op == evm.CREATE || s.op == evm.CREATE2 {
		m.failedAfterWrites++ // something had to be undone (or must not have happened)
	}
	if s.value != "" && s.value != "0" {
		m.failedWithValue++
	}
	m.snapshots++
	post := takeSnapshot(m.st, m.set)
	diffs := diffSnapshots(m.set, s.pre, post)
	var bad []fieldDiff
	for _, d := range diffs {
		if d.Field == "nonce" && (s.op == evm.CREATE || s.op == evm.CREATE2) && d.Addr == s.caller.String() && d.After == d.Before+1 {
			continue // the creator's nonce is consumed by the CREATE instruction of the *calling* frame
		}
		if d.Field == "refund" && (nextOp == evm.SSTORE || nextOp == evm.SELFDESTRUCT) {
			continue // the gas function of the caller's next instruction has already run
		}
		bad = append(bad, d)
	}
	if len(bad) == 0 {
		return
	}
	kind := map[string]bool{}
	valueLost := false
	for _, d := range bad {
		f := d.Field
		if i := bytes.IndexByte([]byte(f), ':'); i >= 0 {
			f = f[:i]
		}
		kind[f] = true
		if (d.Field == "balance" || f == "token") && d.Addr == s.caller.String() && d.After < d.Before {
			valueLost = true
		}
	}
	key := "frame-atomicity/failed-" + opClass(s.op) + "-left-state-behind/" + joinKinds(kind)
	if valueLost {
		key = "frame-atomicity/value-of-failed-" + opClass(s.op) + "-not-back-with-caller"
	}
	m.find(key, fmt.Sprintf("%v at depth %d pc %d by %s to %s (value %s) pushed 0, but %d observed fields differ from before the call", s.op, s.depth, s.pc, s.caller.String(), s.target.String(), s.value, len(bad)), bad)
}

func opClass(op evm.OpCode) string {
	switch op {
	case evm.CREATE, evm.CREATE2:
		return "create"
	}
	return "call"
}

// joinKinds names the most significant kind of field that differs (one stable class per kind).
func joinKinds(k map[string]bool) string {
	for _, n := range []string{"storage", "balance", "token", "nonce", "code", "exist", "suicided", "logs", "refund", "credits", "empty"} {
		if k[n] {
			return n
		}
	}
	return "other"
}
