package c16

import (
	"fmt"
	"net"
	"runtime/debug"
	"sync/atomic"
	"time"

	cs "github.com/lianxiangcloud/linkchain/consensus"
	"github.com/lianxiangcloud/linkchain/libs/log"
	"github.com/lianxiangcloud/linkchain/libs/p2p/conn"
	"github.com/lianxiangcloud/linkchain/libs/ser"
	"github.com/lianxiangcloud/linkchain/types"

	"verif/h/internal/core"
	"verif/h/internal/detsim"
)

// Lane C16M: the hostile bytes travel over a REAL MConnection into the real reactor, so the per-connection
// panic containment (recvRoutine/_recover, DESIGN §5 C16 "allowed" panics) is itself part of what is observed:
// a panic that escapes the connection's goroutine kills the whole process, which the runner reports as a
// process death in this case (PanicIsViolation).
func init() {
	core.Register(&core.Check{
		ID:        "C16M",
		Level:     "exploration",
		Technique: "hostile consensus messages sent in bursts over a real MConnection (net.Pipe) into the real ConsensusReactor; the oracle is survival of the process and of the state machine",
		Rule: "case = a victim node in a random consensus state; a real MConnection delivers a burst of 2-5 messages from one peer (undecodable bytes that make the reactor stop the peer, messages that panic inside Receive such as nil Part/Vote/Proposal, boundary-valued well-typed messages, valid messages) written back to back so that several sit in one buffered read; " +
			"violation = the process dies or the state machine panics; non-trivial = at least one message of the burst reached Receive after an earlier one had stopped the peer or panicked; distinct by burst shape",
		Assumptions: []string{"the switch's StopPeerForError is modelled by stopping the MConnection (what Switch.stopAndRemovePeer does)"},
		Cases: func(tier string) int {
			if tier == "thorough" {
				return 12000
			}
			return 240
		},
		Run:              runMconn,
		Init:             core.QuietLogs,
		PanicIsViolation: true,
		Floors: func(tier string) map[string]int64 {
			return map[string]int64{"bursts": 200, "messages_after_stop_or_panic": 20, "receive_panics_contained": 20, "peer_stopped_by_reactor": 25}
		},
	})
}

func runMconn(c *core.Ctx) {
	r := c.Rng
	sim, err := detsim.New(r.Split(), detsim.Config{Powers: []int64{10, 10, 10, 10}, Byz: []bool{false, false, false, false}, Heights: 1000, MaxSteps: r.Intn(100), Scratch: c.Scratch})
	if err != nil {
		c.Inconclusive("simulator setup failed: " + err.Error())
		return
	}
	defer func() {
		for _, n := range sim.Nodes {
			n.CS.Stop()
		}
	}()
	sim.Run()
	victim := sim.Nodes[r.Intn(len(sim.Nodes))]
	rh, err := sim.AttachReactor(victim)
	if err != nil {
		c.Inconclusive("reactor setup failed: " + err.Error())
		return
	}
	rs := victim.CS.GetRoundState()
	// burst
	nmsg := 2 + r.Intn(4)
	type bmsg struct {
		ch   byte
		b    []byte
		kind string
	}
	var burst []bmsg
	shape := ""
	enc := func(m cs.ConsensusMessage) []byte { b, _ := ser.EncodeToBytesWithType(m); return b }
	for i := 0; i < nmsg; i++ {
		switch r.Intn(5) {
		case 0:
			burst = append(burst, bmsg{[]byte{cs.StateChannel, cs.DataChannel, cs.VoteChannel, cs.VoteSetBitsChannel}[r.Intn(4)], r.Bytes(1 + r.Intn(40)), "undecodable"})
			shape += "U"
		case 1:
			burst = append(burst, bmsg{cs.DataChannel, enc(&cs.BlockPartMessage{Height: rs.Height, Round: rs.Round, Part: nil}), "nil-part"})
			shape += "P"
		case 2:
			burst = append(burst, bmsg{cs.VoteChannel, enc(&cs.VoteMessage{Vote: nil}), "nil-vote"})
			shape += "V"
		case 3:
			burst = append(burst, bmsg{cs.DataChannel, enc(&cs.ProposalMessage{Proposal: nil}), "nil-proposal"})
			shape += "R"
		default:
			burst = append(burst, bmsg{cs.StateChannel, enc(&cs.NewRoundStepMessage{Height: rs.Height, Round: rs.Round, Step: rs.Step}), "valid"})
			shape += "v"
		}
	}
	// real MConnection pair over a pipe
	cliConn, srvConn := net.Pipe()
	var server *conn.MConnection
	var received, afterTrouble, panicsContained int32
	var trouble int32
	errored := make(chan struct{}, 4)
	peer := detsim.NewStubPeer("burst-peer")
	peer.Set(types.PeerStateKey, cs.NewPeerState(peer))
	rh.SW.OnStopPeer = func() {
		atomic.StoreInt32(&trouble, 1)
		c.Count("peer_stopped_by_reactor", 1)
		go func() {
			server.Stop()                     // Switch.StopPeerForError stops the peer's connection
			time.Sleep(50 * time.Millisecond) // let recvRoutine drain what is already buffered (observation window, not a verdict)
			select {
			case errored <- struct{}{}:
			default:
			}
		}()
	}
	chDescs := rh.R.GetChannels()
	onReceive := func(ch byte, b []byte) {
		atomic.AddInt32(&received, 1)
		if atomic.LoadInt32(&trouble) == 1 {
			atomic.AddInt32(&afterTrouble, 1)
		}
		defer func() {
			if p := recover(); p != nil {
				atomic.StoreInt32(&trouble, 1)
				atomic.AddInt32(&panicsContained, 1)
				c.Count("receive_panic:"+detsim.PanicClass(p), 1)
				if c.Verbose {
					c.Logf("panic in Receive: %v\n%s", p, debug.Stack())
				}
				panic(p) // re-raise: containing it is the connection's job (_recover), not the harness's
			}
		}()
		rh.R.Receive(ch, peer, b)
	}
	onError := func(interface{}) {
		select {
		case errored <- struct{}{}:
		default:
		}
	}
	cfg := conn.DefaultMConnConfig()
	cfg.FlushThrottle = time.Millisecond
	server = conn.NewMConnectionWithConfig(srvConn, chDescs, onReceive, onError, cfg)
	server.SetLogger(log.NewNopLogger())
	client := conn.NewMConnectionWithConfig(cliConn, chDescs, func(byte, []byte) {}, func(interface{}) {}, cfg)
	client.SetLogger(log.NewNopLogger())
	if err := server.Start(); err != nil {
		c.Inconclusive("mconn start: " + err.Error())
		return
	}
	client.Start()
	for _, m := range burst {
		client.Send(m.ch, m.b)
	}
	c.Count("bursts", 1)
	// barrier: the server side reports an error (peer stopped by the reactor, panic contained, or EOF after
	// the client closed); the watchdog only guards against a hang (inconclusive)
	gotErr := false
	select {
	case <-errored:
		gotErr = true
	case <-time.After(300 * time.Millisecond):
		// nothing in the burst disturbed the connection: closing the client ends the run with EOF
	}
	client.Stop()
	cliConn.Close()
	if !gotErr {
		select {
		case <-errored:
		case <-time.After(20 * time.Second):
			c.Inconclusive("watchdog: the server side never finished reading the burst")
		}
	}
	server.Stop()
	srvConn.Close()
	// no goroutine of the harness holds the state mutex now (the connection is stopped): a held mutex was leaked
	// by a message handler and halts the node
	if !victim.CS.VerifStateLockFree() {
		// a leaked lock stays held for ever: the probe is patient (up to 15 s) so that a goroutine descheduled on a
		// loaded machine while it holds the lock is not taken for a leak
		free := false
		for i := 0; i < 300 && !free; i++ {
			time.Sleep(50 * time.Millisecond)
			free = victim.CS.VerifStateLockFree()
		}
		if !free {
			c.Violation("state-lock-leaked/burst", fmt.Sprintf("after burst %s over a real MConnection the consensus state mutex stays held: the node is halted", shape), nil)
			return
		}
	}
	// what the reactor enqueued must not crash the state machine either
	n, p, stack := victim.CS.VerifDrainPeerQueue()
	c.Count("processed_by_state_machine", int64(n))
	if p != nil {
		c.Violation("state-machine-panic/burst/"+detsim.PanicClass(p), fmt.Sprintf("burst %s over a real MConnection made the state machine panic: %v", shape, p), map[string]interface{}{"stack": stack})
	}
	c.Logf("burst %s received=%d afterTrouble=%d stoppedBySwitch=%d", shape, received, afterTrouble, rh.SW.Stopped)
	c.Count("messages_received", int64(received))
	c.Count("messages_after_stop_or_panic", int64(afterTrouble))
	c.Count("receive_panics_contained", int64(panicsContained))
	if afterTrouble > 0 {
		c.Nontrivial(shape)
	}
	if c.Index%60 == 0 {
		c.Sample(map[string]interface{}{"burst": shape, "state": rs.Step.String(), "received": received, "after_trouble": afterTrouble})
	}
}
