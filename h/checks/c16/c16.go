// Package c16: no message from a single peer can halt a node's consensus (DESIGN.md §5 C16).
package c16

import (
	"bytes"
	"fmt"
	"io/ioutil"
	"runtime"
	"time"

	cs "github.com/lianxiangcloud/linkchain/consensus"
	cstypes "github.com/lianxiangcloud/linkchain/consensus/types"
	cmn "github.com/lianxiangcloud/linkchain/libs/common"
	"github.com/lianxiangcloud/linkchain/libs/crypto"
	"github.com/lianxiangcloud/linkchain/libs/crypto/merkle"
	"github.com/lianxiangcloud/linkchain/libs/ser"
	"github.com/lianxiangcloud/linkchain/types"

	"verif/h/internal/core"
	"verif/h/internal/detsim"
	"verif/h/internal/rng"
)

func init() {
	core.Register(&core.Check{
		ID:        "C16",
		Also:      []string{"C16M", "C16G"}, // bursts over a real MConnection (mconn.go)
		Level:     "exploration",
		Technique: "hostile-input monitoring of the real reactor + state machine in a deterministic simulation: every message goes through ConsensusReactor.Receive as bytes, then through the state machine's peer queue; oracles: no panic after the reactor accepted the message, bounded fault-free continuation commits the next block, per-message allocation bound",
		Rule: "case = a 4-node simulation driven to a random consensus state, then 10 hostile messages from one peer (role: outsider, validator with a valid key, or the current proposer with its key) to one victim: " +
			"well-typed consensus messages of all 10 kinds with boundary field values (negative/huge indices, rounds, heights, sizes, nil sub-objects, wrong-size bit arrays), re-signed when the sender owns a key, plus mutated and random bytes on all four channels. " +
			"non-trivial = at least one hostile message was accepted by the reactor and processed by the state machine; distinct by (state class, message kinds, mutated fields)",
		Assumptions: []string{
			"panics inside ConsensusReactor.Receive itself are recovered per connection in production (MConnection._recover) and only drop the peer: they are counted, not violations",
			"the light application is used (block execution is not the subject)",
			"address space of each child is capped at 6 GiB so that an allocation driven by a claimed size is observed as a process death",
		},
		Cases: func(tier string) int {
			if tier == "thorough" {
				return 60000
			}
			return 800
		},
		Run:              run,
		Init:             core.QuietLogs,
		PanicIsViolation: true,
		MemLimitMB:       6144,
		Floors: func(tier string) map[string]int64 {
			return map[string]int64{"hostile_messages": 4000, "accepted_by_reactor": 1500, "processed_by_state_machine": 1000, "continuations_committed": 300, "state:RoundStepPropose": 20, "state:RoundStepPrevote": 20, "state:RoundStepPrecommit": 20, "state:RoundStepCommit": 1, "role:proposer-key": 100}
		},
	})
}

var hostileInts = []int{-1 << 63, -1 << 31, -2, -1, 0, 1, 2, 3, 4, 5, 1 << 16, 1<<31 - 1, 1 << 31, 1 << 40, 1<<63 - 1}

func hInt(r *rng.R, around int) int {
	switch r.Intn(4) {
	case 0:
		return around + r.Intn(3) - 1
	default:
		return hostileInts[r.Intn(len(hostileInts))]
	}
}
func hHeight(r *rng.R, h uint64) uint64 {
	return []uint64{0, h - 1, h, h, h, h + 1, h + 2, 1 << 63, 1<<64 - 1}[r.Intn(9)]
}
func hBits(r *rng.R) *cmn.BitArray {
	switch r.Intn(6) {
	case 0:
		return nil
	case 1:
		return &cmn.BitArray{Bits: hInt(r, 4), Elems: nil}
	case 2:
		return &cmn.BitArray{Bits: 4, Elems: []uint64{r.Uint64()}}
	case 3:
		return &cmn.BitArray{Bits: hInt(r, 4), Elems: []uint64{r.Uint64(), r.Uint64()}}
	case 4:
		return &cmn.BitArray{Bits: 1 << 20, Elems: []uint64{1}}
	default:
		return &cmn.BitArray{Bits: 64, Elems: make([]uint64, r.Intn(4))}
	}
}
func hBlockID(r *rng.R, known []types.BlockID) types.BlockID {
	if len(known) > 0 && r.Chance(0.5) {
		b := known[r.Intn(len(known))]
		if r.Chance(0.3) {
			b.PartsHeader.Total = hInt(r, b.PartsHeader.Total)
		}
		return b
	}
	if r.Chance(0.3) {
		return types.BlockID{}
	}
	var b types.BlockID
	copy(b.Hash[:], r.Bytes(32))
	b.PartsHeader = types.PartSetHeader{Total: hInt(r, 1), Hash: r.Bytes([]int{0, 20, 32}[r.Intn(3)])}
	return b
}

type attacker struct {
	role string // outsider | validator-key | proposer-key
	key  crypto.PrivKeyEd25519
	id   int
}

type hostile struct {
	Kind   string `json:"kind"`
	Fields string `json:"fields"`
	ch     byte
	msg    cs.ConsensusMessage
	raw    []byte
	// more: follow-up messages of the same hostile unit (the parts of a hostile block), same channel
	more []cs.ConsensusMessage
}

// gen builds one hostile message for victim state rs.
func gen(r *rng.R, sim *detsim.Sim, rs *cstypes.RoundState, att attacker, known []types.BlockID) *hostile {
	h, round := rs.Height, rs.Round
	nvals := rs.Validators.Size()
	sign := func(b []byte) crypto.Signature {
		switch {
		case att.role == "outsider" || r.Chance(0.1):
			if r.Chance(0.3) {
				return nil
			}
			var s crypto.SignatureEd25519
			copy(s[:], r.Bytes(64))
			return s
		default:
			s, _ := att.key.Sign(b)
			return s
		}
	}
	attIdx, _ := rs.Validators.GetByAddress(att.key.PubKey().Address())
	if r.Chance(0.12) {
		// A CONSISTENT proposal: correctly signed (when the attacker holds the proposer's key), its part-set
		// header really is the Merkle root of the parts that follow - but the bytes the parts reassemble to are
		// not a well-formed block. They reach the decoder inside the state machine.
		var bz []byte
		f := ""
		var real []byte
		if rs.ProposalBlockParts != nil && rs.ProposalBlockParts.IsComplete() {
			real, _ = ioutil.ReadAll(rs.ProposalBlockParts.GetReader())
		}
		switch x := r.Intn(11); {
		case x >= 9:
			// the TWIN of the round's real proposal block: same header (hence the same block hash), a body that
			// differs in a byte no header field commits to (the BlockID recorded inside the last commit), hence
			// other part-set bytes. The victim may hold it when +2/3 precommit the real block.
			var real2 []byte
			tot, have := 0, map[int][]byte{}
			for _, pm := range sim.Pool {
				if bp, ok := pm.Msg.(*cs.BlockPartMessage); ok && bp.Height == h && bp.Round == round && bp.Part != nil && !pm.Byz {
					have[bp.Part.Index] = bp.Part.Bytes
					if bp.Part.Index+1 > tot {
						tot = bp.Part.Index + 1
					}
				}
			}
			for i := 0; i < tot; i++ {
				if have[i] == nil {
					real2 = nil
					break
				}
				real2 = append(real2, have[i]...)
			}
			if len(real2) == 0 {
				real2 = real
			}
			var tb *types.Block
			if len(real2) > 0 && ser.DecodeBytes(real2, &tb) == nil && tb != nil && tb.Header != nil && tb.LastCommit != nil {
				tb.LastCommit.BlockID.PartsHeader.Total += 1 + r.Intn(3)
				if b, err := ser.EncodeToBytes(tb); err == nil && !bytes.Equal(b, real2) {
					bz, f = b, "block=twin-same-header-other-body "
				}
			}
		case x == 0:
			bz, f = []byte{0xc0}, "block=empty-list "
		case x == 1:
			bz, f = []byte{0x80}, "block=empty-string "
		case x == 2:
			bz, f = r.Bytes(1+r.Intn(64)), "block=random-bytes "
		case x == 3 && len(real) > 2:
			bz, f = append([]byte{}, real[:1+r.Intn(len(real)-1)]...), "block=truncated-real "
		case x == 4 && len(real) > 2:
			bz = append([]byte{}, real...)
			bz[r.Intn(len(bz))] ^= byte(1 << uint(r.Intn(8)))
			f = "block=bitflipped-real "
		case x == 5:
			// a list of n empty lists / empty strings: every field of the block decodes to its zero value
			n := 1 + r.Intn(8)
			bz = []byte{byte(0xc0 + n)}
			for i := 0; i < n; i++ {
				bz = append(bz, []byte{0xc0, 0x80}[r.Intn(2)])
			}
			f = "block=list-of-empties "
		case x == 6:
			if b, err := ser.EncodeToBytes(&types.Block{}); err == nil {
				bz, f = b, "block=zero-value-struct "
			}
		case x == 7:
			if b, err := ser.EncodeToBytes(&types.Block{Header: &types.Header{Height: h, ChainID: sim.ChainID}}); err == nil {
				bz, f = b, "block=header-only "
			}
		default:
			if b, err := ser.EncodeToBytes(&types.Block{Header: &types.Header{Height: h, ChainID: sim.ChainID}, Data: &types.Data{}, Evidence: types.EvidenceData{}}); err == nil {
				bz, f = b, "block=no-last-commit "
			}
		}
		if len(bz) > 0 {
			psz := []int{1, 7, 64, 4096}[r.Intn(4)]
			ps := types.NewPartSetFromData(bz, psz)
			p := types.NewProposal(h, round, ps.Header(), -1, types.BlockID{})
			p.Timestamp = time.Unix(1569409200, 0).UTC()
			p.Type = types.ProposalTypeNormal
			p.Signature = sign(p.SignBytes(sim.ChainID))
			hm := &hostile{Kind: "ProposalOverHostileBlock", Fields: f, ch: cs.DataChannel, msg: &cs.ProposalMessage{Proposal: p}}
			for i := 0; i < ps.Total(); i++ {
				hm.more = append(hm.more, &cs.BlockPartMessage{Height: h, Round: round, Part: ps.GetPart(i)})
			}
			return hm
		}
	}
	switch k := r.Intn(13); {
	case k < 3: // vote
		v := &types.Vote{Height: h, Round: round, Type: types.VoteTypePrevote, ValidatorIndex: attIdx, ValidatorSize: nvals,
			ValidatorAddress: att.key.PubKey().Address(), Timestamp: time.Unix(1569409200, 0).UTC(), BlockID: hBlockID(r, known)}
		f := ""
		for n := 1 + r.Intn(3); n > 0; n-- {
			switch r.Intn(8) {
			case 0:
				v.Height = hHeight(r, h)
				f += "Height "
			case 1:
				v.Round = hInt(r, round)
				f += "Round "
			case 2:
				v.Type = []byte{0, 1, 2, 3, 0x20, 0xff}[r.Intn(6)]
				f += "Type "
			case 3:
				v.ValidatorIndex = hInt(r, nvals)
				f += "ValidatorIndex "
			case 4:
				v.ValidatorSize = hInt(r, nvals)
				f += "ValidatorSize "
			case 5:
				v.ValidatorAddress = [][]byte{nil, {}, r.Bytes(20), r.Bytes(3)}[r.Intn(4)]
				f += "ValidatorAddress "
			case 6:
				v.BlockID.PartsHeader.Total = hInt(r, 1)
				f += "PartsTotal "
			case 7:
				v.Type = types.VoteTypePrecommit
				f += "precommit "
			}
		}
		v.Signature = sign(v.SignBytes(sim.ChainID))
		return &hostile{Kind: "Vote", Fields: f, ch: cs.VoteChannel, msg: &cs.VoteMessage{Vote: v}}
	case k < 6: // proposal
		p := types.NewProposal(h, round, types.PartSetHeader{Total: 1, Hash: r.Bytes(20)}, -1, types.BlockID{})
		p.Timestamp = time.Unix(1569409200, 0).UTC()
		p.Type = types.ProposalTypeNormal
		f := ""
		for n := 1 + r.Intn(3); n > 0; n-- {
			switch r.Intn(7) {
			case 0:
				p.Height = hHeight(r, h)
				f += "Height "
			case 1:
				p.Round = hInt(r, round)
				f += "Round "
			case 2:
				p.BlockPartsHeader.Total = hInt(r, 1)
				f += "PartsTotal "
			case 3:
				p.BlockPartsHeader.Hash = [][]byte{nil, {}, r.Bytes(32)}[r.Intn(3)]
				f += "PartsHash "
			case 4:
				p.POLRound = hInt(r, round)
				f += "POLRound "
			case 5:
				p.POLBlockID = hBlockID(r, known)
				f += "POLBlockID "
			case 6:
				p.Type = []byte{0, types.ProposalTypeRecover, 0xff}[r.Intn(3)]
				f += "Type "
			}
		}
		p.Signature = sign(p.SignBytes(sim.ChainID))
		return &hostile{Kind: "Proposal", Fields: f, ch: cs.DataChannel, msg: &cs.ProposalMessage{Proposal: p}}
	case k < 9: // block part
		part := &types.Part{Index: 0, Bytes: r.Bytes(r.Intn(40) + 1)}
		// start from a real part when one is around
		for _, pm := range sim.Pool {
			if bp, ok := pm.Msg.(*cs.BlockPartMessage); ok && bp.Height == h && r.Chance(0.5) {
				cp := *bp.Part
				part = &types.Part{Index: cp.Index, Bytes: append([]byte{}, cp.Bytes...), Proof: merkle.SimpleProof{Aunts: append([][]byte{}, cp.Proof.Aunts...)}}
				break
			}
		}
		m := &cs.BlockPartMessage{Height: h, Round: round, Part: part}
		f := ""
		for n := 1 + r.Intn(2); n > 0; n-- {
			switch r.Intn(6) {
			case 0:
				m.Height = hHeight(r, h)
				f += "Height "
			case 1:
				m.Round = hInt(r, round)
				f += "Round "
			case 2:
				part.Index = hInt(r, 1)
				f += "Index "
			case 3:
				part.Bytes = r.Bytes([]int{0, 1, 1 << 16, 1 << 20}[r.Intn(4)])
				f += "Bytes "
			case 4:
				part.Proof.Aunts = [][]byte{r.Bytes(20), nil, r.Bytes(1)}[:r.Intn(4)]
				f += "Aunts "
			case 5:
				if r.Chance(0.3) {
					m.Part = nil
					f += "nilPart "
				}
			}
		}
		return &hostile{Kind: "BlockPart", Fields: f, ch: cs.DataChannel, msg: m}
	case k == 9:
		m := &cs.VoteSetMaj23Message{Height: hHeight(r, h), Round: hInt(r, round), Type: []byte{1, 2, 0, 0xff}[r.Intn(4)], BlockID: hBlockID(r, known)}
		return &hostile{Kind: "VoteSetMaj23", Fields: "all", ch: cs.StateChannel, msg: m}
	case k == 10:
		m := &cs.VoteSetBitsMessage{Height: hHeight(r, h), Round: hInt(r, round), Type: []byte{1, 2, 0}[r.Intn(3)], BlockID: hBlockID(r, known), Votes: hBits(r)}
		return &hostile{Kind: "VoteSetBits", Fields: "all", ch: cs.VoteSetBitsChannel, msg: m}
	case k == 11:
		var m cs.ConsensusMessage
		switch r.Intn(4) {
		case 0:
			m = &cs.NewRoundStepMessage{Height: hHeight(r, h), Round: hInt(r, round), Step: cstypes.RoundStepType(r.Intn(12)), SecondsSinceStartTime: hInt(r, 0), LastCommitRound: hInt(r, 0)}
		case 1:
			m = &cs.CommitStepMessage{Height: hHeight(r, h), BlockPartsHeader: types.PartSetHeader{Total: hInt(r, 1), Hash: r.Bytes(20)}, BlockParts: hBits(r)}
		case 2:
			m = &cs.HasVoteMessage{Height: hHeight(r, h), Round: hInt(r, round), Type: []byte{1, 2, 0}[r.Intn(3)], Index: hInt(r, nvals)}
		default:
			m = &cs.ProposalPOLMessage{Height: hHeight(r, h), ProposalPOLRound: hInt(r, round), ProposalPOL: hBits(r)}
		}
		ch := cs.StateChannel
		if _, ok := m.(*cs.ProposalPOLMessage); ok {
			ch = cs.DataChannel
		}
		return &hostile{Kind: fmt.Sprintf("%T", m)[len("*consensus."):], Fields: "all", ch: byte(ch), msg: m}
	default: // raw bytes: mutate a valid encoding or random
		var raw []byte
		if len(sim.Pool) > 0 && r.Chance(0.7) {
			b, err := ser.EncodeToBytesWithType(sim.Pool[r.Intn(len(sim.Pool))].Msg)
			if err == nil && len(b) > 0 {
				raw = b
				for n := 1 + r.Intn(3); n > 0; n-- {
					switch r.Intn(3) {
					case 0:
						raw[r.Intn(len(raw))] ^= byte(1 << uint(r.Intn(8)))
					case 1:
						raw = raw[:r.Intn(len(raw))+1]
					case 2:
						i := r.Intn(len(raw))
						raw = append(append(append([]byte{}, raw[:i]...), r.Bytes(1+r.Intn(4))...), raw[i:]...)
					}
				}
			}
		}
		if raw == nil {
			raw = r.Bytes(1 + r.Intn(200))
		}
		ch := []byte{cs.StateChannel, cs.DataChannel, cs.VoteChannel, cs.VoteSetBitsChannel}[r.Intn(4)]
		return &hostile{Kind: "raw", Fields: "bytes", ch: ch, raw: raw}
	}
}

func run(c *core.Ctx) {
	r := c.Rng
	powers := []int64{10, 10, 10, 10}
	if r.Chance(0.3) {
		powers = []int64{int64(5 + r.Intn(10)), int64(5 + r.Intn(10)), int64(5 + r.Intn(10)), int64(5 + r.Intn(10))}
	}
	sim, err := detsim.New(r.Split(), detsim.Config{Powers: powers, Byz: []bool{false, false, false, false}, Heights: 1000, MaxSteps: r.Intn(140),
		Loss: 0, Eager: []float64{0.0, 0.02, 0.1}[r.Intn(3)], Scratch: c.Scratch, KeepTrace: c.Verbose, PartSize: []int{0, 0, 64, 16}[r.Intn(4)]})
	if err != nil {
		c.Inconclusive("simulator setup failed: " + err.Error())
		return
	}
	defer func() {
		for _, n := range sim.Nodes {
			n.CS.Stop()
		}
	}()
	sim.Run() // drive to a random state
	if sim.Mon.Fatal() {
		for _, v := range sim.Mon.Violations {
			c.Violation("pre-attack/"+v.Key, v.Detail, nil)
		}
		return
	}
	victim := sim.Nodes[r.Intn(len(sim.Nodes))]
	rh, err := sim.AttachReactor(victim)
	if err != nil {
		c.Inconclusive("reactor setup failed: " + err.Error())
		return
	}
	var sent []hostile
	var history []*hostile
	hostileKeys := map[int]bool{} // validators whose keys signed hostile messages in this case: the Byzantine set
	fpKinds := ""
	processed := 0
	if r.Chance(0.7) {
		// a real peer first announces its round state; the reactor then tracks it as being at the victim's H/R
		rs := victim.CS.GetRoundState()
		if b, err := ser.EncodeToBytesWithType(&cs.NewRoundStepMessage{Height: rs.Height, Round: rs.Round, Step: rs.Step, LastCommitRound: 0}); err == nil {
			rh.Receive(cs.StateChannel, b)
			c.Count("peer_announced_matching_round_state", 1)
		}
	}
	for i := 0; i < 10 && !victim.Dead; i++ {
		rs := victim.CS.GetRoundState()
		// attacker role
		att := attacker{role: "outsider", key: crypto.GenPrivKeyEd25519FromSecret(r.Bytes(32)), id: -1}
		switch r.Intn(3) {
		case 1:
			others := []int{}
			for _, n := range sim.Nodes {
				if n.ID != victim.ID {
					others = append(others, n.ID)
				}
			}
			id := others[r.Intn(len(others))]
			att = attacker{role: "validator-key", key: sim.Vals[id].Priv, id: id}
		case 2:
			prop := rs.Validators.GetProposer()
			for id, v := range sim.Vals {
				if string(v.Priv.PubKey().Address()) == string(prop.Address) && id != victim.ID {
					att = attacker{role: "proposer-key", key: v.Priv, id: id}
				}
			}
		}
		var known []types.BlockID
		if rs.ProposalBlock != nil && rs.ProposalBlockParts != nil {
			known = append(known, types.BlockID{Hash: rs.ProposalBlock.Hash(), PartsHeader: rs.ProposalBlockParts.Header()})
		}
		// block ids that already have +2/3 at the victim (a conflicting vote FOR such a block is the one the vote
		// set accepts from an equivocating validator)
		if rs.Votes != nil {
			for _, vs := range []*types.VoteSet{rs.Votes.Prevotes(rs.Round), rs.Votes.Precommits(rs.Round)} {
				if vs != nil {
					if bid, ok := vs.TwoThirdsMajority(); ok {
						known = append(known, bid)
					}
				}
			}
		}
		hm := gen(r, sim, rs, att, known)
		if len(history) > 0 && r.Chance(0.2) {
			// the very same message again (same bytes, same timestamp, same signature)
			hm = history[r.Intn(len(history))]
			c.Count("hostile_messages_repeated_verbatim", 1)
		} else {
			history = append(history, hm)
		}
		raw := hm.raw
		if raw == nil {
			raw, err = ser.EncodeToBytesWithType(hm.msg)
			if err != nil {
				c.Count("unencodable_skipped", 1)
				continue
			}
		}
		c.Count("hostile_messages", 1)
		c.Count("kind:"+hm.Kind, 1)
		c.Count("role:"+att.role, 1)
		if att.role != "outsider" {
			hostileKeys[att.id] = true
		}
		c.Count("state:"+rs.Step.String(), 1)
		sent = append(sent, hostile{Kind: hm.Kind, Fields: hm.Fields + "role=" + att.role + " state=" + rs.Step.String()})
		fpKinds += hm.Kind[:2] + hm.Fields
		// a hostile message may be (or decode to) a correctly signed vote of a real validator: the victim counts
		// it, so the trace oracle of the continuation has to know it was delivered
		{
			dm := hm.msg
			if dm == nil {
				var x cs.ConsensusMessage
				func() {
					defer func() { recover() }()
					if err := ser.DecodeBytesWithType(raw, &x); err == nil {
						dm = x
					}
				}()
			}
			if vm, ok := dm.(*cs.VoteMessage); ok && vm != nil && vm.Vote != nil {
				func() {
					defer func() { recover() }()
					sim.Mon.NoteDelivered(victim, vm.Vote)
				}()
			}
		}
		var m0, m1 runtime.MemStats
		runtime.ReadMemStats(&m0)
		if p := rh.Receive(hm.ch, raw); p != nil {
			c.Count("reactor_panics_recovered_per_connection", 1)
			c.Count("reactor_panic:"+detsim.PanicClass(p), 1)
		} else {
			c.Count("accepted_by_reactor", 1)
		}
		if !victim.CS.VerifStateLockFree() {
			// nothing in this synchronous harness holds the state mutex: a message handler returned without
			// releasing it, and every later step of the node (messages, timeouts, RPC) blocks on it for ever
			victim.Dead = true
			c.Violation("state-lock-leaked/"+hm.Kind, fmt.Sprintf("victim v%d in %s at %d/%d: after a %s message (mutated: %s; sender role %s) was handled by the reactor, the consensus state mutex is still held: the node is halted", victim.ID, rs.Step, rs.Height, rs.Round, hm.Kind, hm.Fields, att.role),
				map[string]interface{}{"message": fmt.Sprintf("%v", hm.msg), "raw_hex": fmt.Sprintf("%x", raw), "sent_before": sent})
			break
		}
		n, p, stack := victim.CS.VerifDrainPeerQueue()
		for _, fm := range hm.more {
			if p != nil {
				break
			}
			fraw, err := ser.EncodeToBytesWithType(fm)
			if err != nil {
				continue
			}
			if pp := rh.Receive(hm.ch, fraw); pp != nil {
				c.Count("reactor_panics_recovered_per_connection", 1)
				c.Count("reactor_panic:"+detsim.PanicClass(pp), 1)
			}
			var n2 int
			n2, p, stack = victim.CS.VerifDrainPeerQueue()
			n += n2
			c.Count("hostile_block_parts_delivered", 1)
		}
		processed += n
		c.Count("processed_by_state_machine", int64(n))
		if p != nil {
			victim.Dead = true
			c.Violation("state-machine-panic/"+hm.Kind+"/"+detsim.PanicClass(p),
				fmt.Sprintf("victim v%d in %s at %d/%d: a %s message (mutated: %s; sender role %s) accepted by the reactor made the consensus state machine panic: %v", victim.ID, rs.Step, rs.Height, rs.Round, hm.Kind, hm.Fields, att.role, p),
				map[string]interface{}{"message": fmt.Sprintf("%v", hm.msg), "raw_hex": fmt.Sprintf("%x", raw), "stack": stack, "sent_before": sent})
			break
		}
		runtime.ReadMemStats(&m1)
		if d := m1.TotalAlloc - m0.TotalAlloc; d > 64<<20+uint64(64*len(raw)) {
			c.Violation("allocation/"+hm.Kind, fmt.Sprintf("one %d-byte %s message (mutated: %s) made the node allocate %d MiB", len(raw), hm.Kind, hm.Fields, d>>20),
				map[string]interface{}{"message": fmt.Sprintf("%v", hm.msg), "raw_hex": fmt.Sprintf("%x", raw)})
		}
		// the victim's own follow-up messages go out to the network as usual
		sim.Drain(victim)
		if victim.Dead {
			c.Violation("state-machine-panic-followup/"+hm.Kind+"/"+detsim.PanicClass(victim.Panic), fmt.Sprintf("victim panicked processing its own message after a hostile %s: %v", hm.Kind, victim.Panic), map[string]interface{}{"sent": sent})
			break
		}
	}
	if c.Violated() {
		return
	}
	// bounded fault-free continuation: everybody (incl. the victim) commits the next block
	var maxH uint64
	for _, n := range sim.Nodes {
		if h := n.App.Height(); h > maxH {
			maxH = h
		}
	}
	target := maxH + 1
	all := func() bool {
		for _, n := range sim.Nodes {
			if n.Dead || n.App.Height() < target {
				return false
			}
		}
		return true
	}
	steps := sim.RunFair(1200, all)
	c.Count("continuation_steps", int64(steps))
	for _, v := range sim.Mon.Violations {
		c.Violation("post-attack/"+v.Key, v.Detail, map[string]interface{}{"sent": sent})
	}
	if c.Verbose {
		for _, n := range sim.Nodes {
			rs := n.CS.GetRoundState()
			a, ok := sim.Armed(n)
			c.Logf("node v%d dead=%v at %d/%d/%s app=%d armed=%v %v locked=%v proposal=%v block=%v sched=%v", n.ID, n.Dead, rs.Height, rs.Round, rs.Step, n.App.Height(), ok, a, rs.LockedBlock != nil, rs.Proposal != nil, rs.ProposalBlock != nil, len(n.CS.VerifScheduled()))
		}
		for _, l := range sim.Trace[max(0, len(sim.Trace)-400):] {
			c.Logf("%s", l)
		}
	}
	if all() {
		c.Count("continuations_committed", 1)
	} else if byzPower := func() (p int64) {
		for id := range hostileKeys {
			p += sim.Vals[id].Power
		}
		return
	}(); 3*byzPower >= sim.TotalPower() {
		// The validators whose keys signed hostile messages are the Byzantine set of this case. With a third or
		// more of the power they can equivocate a node into two +2/3 majorities (e.g. a validly signed nil
		// precommit next to the real one): consensus promises nothing then, and a victim that cannot follow is
		// no violation of "a single peer cannot halt the node". Panic and allocation oracles still applied above.
		c.Count("continuations_not_judged_hostile_keys_hold_a_third_or_more", 1)
	} else if !c.Violated() {
		others := true
		for _, n := range sim.Nodes {
			if n.ID != victim.ID && n.App.Height() < target {
				others = false
			}
		}
		rs := victim.CS.GetRoundState()
		if others {
			c.Violation("wedge/victim-stuck", fmt.Sprintf("after the hostile messages the victim v%d stays at %d/%d/%s (app height %d) while the other nodes committed height %d in a fault-free continuation of %d steps", victim.ID, rs.Height, rs.Round, rs.Step, victim.App.Height(), target, steps),
				map[string]interface{}{"sent": sent})
		} else {
			c.Violation("progress/none-in-fault-free-continuation", fmt.Sprintf("no node committed height %d within %d fault-free steps after the hostile messages (victim at %d/%d/%s)", target, steps, rs.Height, rs.Round, rs.Step),
				map[string]interface{}{"sent": sent})
		}
	}
	if processed > 0 {
		c.Nontrivial(fmt.Sprintf("%x", crypto.Keccak256([]byte(fpKinds))[:8]))
	}
	if c.Index%200 == 0 {
		c.Sample(map[string]interface{}{"victim": victim.ID, "hostile_messages": sent})
	}
}

func max(a, b int) int {
	if a > b {
		return a
	}
	return b
}
