package c16

import (
	"fmt"
	"time"

	cs "github.com/lianxiangcloud/linkchain/consensus"
	cstypes "github.com/lianxiangcloud/linkchain/consensus/types"
	cmn "github.com/lianxiangcloud/linkchain/libs/common"
	"github.com/lianxiangcloud/linkchain/libs/ser"
	"github.com/lianxiangcloud/linkchain/types"

	"verif/h/internal/core"
	"verif/h/internal/detsim"
	"verif/h/internal/rng"
)

// Lane C16G: the reactor keeps per-peer state that the peer itself announces (round step, commit step with a
// parts bit array, proposal POL, has-vote, vote-set bits) and three goroutines per peer (gossipDataRoutine,
// gossipVotesRoutine, queryMaj23Routine) compute on it. Those goroutines have no panic handler: whatever a
// peer announces, they must survive it. Here the real reactor runs them for one hostile peer (AddPeer) while
// that peer feeds announcements that are consistent with the victim's real state (same height, round, parts
// header) but carry hostile indices, sizes and bit arrays. A panic in one of the goroutines kills the child
// process, which the runner reports as a violation; the sleeps only give the goroutines time to iterate
// (a missed iteration is a missed observation, never an alarm).
func init() {
	core.Register(&core.Check{
		ID:        "C16G",
		Level:     "exploration",
		Technique: "the real ConsensusReactor with its per-peer gossip goroutines running for one hostile peer; generated peer-state announcements consistent with the victim's state but with hostile indices / bit arrays; oracle: the process survives (goroutine panic = child process death = violation) and the state machine drains without panic",
		Rule: "case = one victim in a random consensus state (0-140 scheduler steps), 8-16 announcements (NewRoundStep, CommitStep, ProposalPOL, HasVote, VoteSetMaj23, VoteSetBits, and real Proposal / BlockPart / Vote messages from the pool that move the peer state) interleaved with 2-4 ms pauses while the three gossip goroutines iterate every millisecond. " +
			"non-trivial = >= 6 announcements were applied to the peer state at the victim's height and the goroutines sent >= 1 message to the peer; distinct by the announcement sequence",
		Assumptions:      []string{"the gossip goroutines are scheduled within the pauses (bounded wall-clock wait, used only to let them run)"},
		PanicIsViolation: true,
		Cases: func(tier string) int {
			if tier == "thorough" {
				return 6000
			}
			return 240
		},
		Batch: func(tier string) int { return 8 },
		Run:   runGossip,
		Init:  core.QuietLogs,
		Floors: func(tier string) map[string]int64 {
			f := map[string]int64{"announcements": 2000, "announcements_at_victim_height": 900, "messages_gossiped_to_hostile_peer": 300, "hostile_bitarrays_announced": 300}
			if tier == "thorough" {
				for k := range f {
					f[k] *= 20
				}
			}
			return f
		},
	})
}

// badBits: bit arrays whose declared size and backing words disagree, or that do not fit what they describe.
func badBits(r *rng.R, want int) *cmn.BitArray {
	switch r.Intn(8) {
	case 0:
		return nil
	case 1:
		return &cmn.BitArray{Bits: want, Elems: nil}
	case 2:
		return &cmn.BitArray{Bits: want + 64*(1+r.Intn(3)), Elems: []uint64{r.Uint64()}}
	case 3:
		return &cmn.BitArray{Bits: 1 << uint(10+r.Intn(20)), Elems: []uint64{r.Uint64()}}
	case 4:
		return &cmn.BitArray{Bits: -1 - r.Intn(5), Elems: []uint64{r.Uint64()}}
	case 5:
		return &cmn.BitArray{Bits: want, Elems: make([]uint64, (want+63)/64+1+r.Intn(3))}
	case 6:
		b := cmn.NewBitArray(want + 1 + r.Intn(70))
		if b != nil {
			for i := 0; i < b.Size(); i++ {
				b.SetIndex(i, r.Bool())
			}
		}
		return b
	default:
		b := cmn.NewBitArray(want)
		if b != nil {
			for i := 0; i < b.Size(); i++ {
				b.SetIndex(i, r.Bool())
			}
		}
		return b
	}
}

func runGossip(c *core.Ctx) {
	r := c.Rng
	sim, err := detsim.New(r.Split(), detsim.Config{Powers: []int64{10, 10, 10, 10}, Byz: []bool{false, false, false, false}, Heights: 1000, MaxSteps: r.Intn(140),
		PartSize: []int{64, 256, 4096}[r.Intn(3)], Scratch: c.Scratch, GossipSleepMs: 1})
	if err != nil {
		c.Inconclusive("simulator setup failed: " + err.Error())
		return
	}
	defer func() {
		for _, n := range sim.Nodes {
			n.CS.Stop()
		}
	}()
	sim.Run()
	victim := sim.Nodes[r.Intn(len(sim.Nodes))]
	rh, err := sim.AttachReactor(victim)
	if err != nil {
		c.Inconclusive("reactor setup failed: " + err.Error())
		return
	}
	peer := detsim.NewStubPeer("gossip-peer")
	if err := peer.Start(); err != nil {
		c.Inconclusive("peer start: " + err.Error())
		return
	}
	rh.R.AddPeer(peer) // creates the peer state and starts the three per-peer goroutines
	rh.Peer = peer
	defer func() {
		peer.Stop() // the goroutines leave their loops
		time.Sleep(5 * time.Millisecond)
	}()
	nvals := 4
	enc := func(m cs.ConsensusMessage) []byte { b, _ := ser.EncodeToBytesWithType(m); return b }
	seq := ""
	atHeight := 0
	n := 8 + r.Intn(9)
	lockLeaked := func(after string) bool {
		if victim.CS.VerifStateLockFree() {
			return false
		}
		// the gossip goroutines only take the lock for the duration of GetRoundState, but on a loaded machine a
		// goroutine can be descheduled while it holds it (seen once, thorough tier at seed 2 with a second thorough
		// run on the same machine; not reproducible): a leaked lock stays held for ever, so the probe is patient
		// (up to 15 s) and only a lock that is never free in that time is reported
		for i := 0; i < 300; i++ {
			time.Sleep(50 * time.Millisecond)
			if victim.CS.VerifStateLockFree() {
				return false
			}
		}
		c.Violation("state-lock-leaked/announcement", "after "+after+" the consensus state mutex stays held: the node is halted", map[string]interface{}{"sequence": seq})
		return true
	}
	for i := 0; i < n; i++ {
		if lockLeaked("the announcements so far") {
			return
		}
		rs := victim.CS.GetRoundState()
		h, round := rs.Height, rs.Round
		if r.Chance(0.15) {
			h = []uint64{h - 1, h + 1, 0, 1 << 63}[r.Intn(4)]
		}
		if r.Chance(0.2) {
			round = []int{round + 1, round - 1, -1, 1 << 30, 0}[r.Intn(5)]
		}
		total := 1
		var hdr types.PartSetHeader
		if rs.ProposalBlockParts != nil {
			hdr = rs.ProposalBlockParts.Header()
			total = hdr.Total
		} else {
			hdr = types.PartSetHeader{Total: 1 + r.Intn(4), Hash: r.Bytes(20)}
			total = hdr.Total
		}
		var m cs.ConsensusMessage
		ch := byte(cs.StateChannel)
		hostileBits := false
		switch r.Intn(9) {
		case 0, 1:
			m = &cs.NewRoundStepMessage{Height: h, Round: round, Step: cstypes.RoundStepType(1 + r.Intn(8)), SecondsSinceStartTime: r.Intn(10), LastCommitRound: []int{-1, 0, round, 1 << 20}[r.Intn(4)]}
			seq += "N"
		case 2, 3:
			m = &cs.CommitStepMessage{Height: h, BlockPartsHeader: hdr, BlockParts: badBits(r, total)}
			hostileBits = true
			seq += "C"
		case 4:
			m = &cs.ProposalPOLMessage{Height: h, ProposalPOLRound: []int{round, round - 1, 0, -1, 1 << 20}[r.Intn(5)], ProposalPOL: badBits(r, nvals)}
			ch = cs.DataChannel
			hostileBits = true
			seq += "L"
		case 5:
			m = &cs.HasVoteMessage{Height: h, Round: round, Type: []byte{types.VoteTypePrevote, types.VoteTypePrecommit, 0, 0xff}[r.Intn(4)], Index: []int{0, nvals - 1, nvals, -1, 1 << 30, 1 << 62}[r.Intn(6)]}
			seq += "H"
		case 6:
			bid := types.BlockID{}
			if rs.ProposalBlock != nil {
				bid = types.BlockID{Hash: rs.ProposalBlock.Hash(), PartsHeader: hdr}
			}
			m = &cs.VoteSetBitsMessage{Height: h, Round: round, Type: []byte{types.VoteTypePrevote, types.VoteTypePrecommit}[r.Intn(2)], BlockID: bid, Votes: badBits(r, nvals)}
			ch = cs.VoteSetBitsChannel
			hostileBits = true
			seq += "B"
		case 7:
			bid := types.BlockID{}
			if rs.ProposalBlock != nil {
				bid = types.BlockID{Hash: rs.ProposalBlock.Hash(), PartsHeader: hdr}
			}
			m = &cs.VoteSetMaj23Message{Height: h, Round: round, Type: []byte{types.VoteTypePrevote, types.VoteTypePrecommit}[r.Intn(2)], BlockID: bid}
			seq += "M"
		default:
			// a real message of the run: it moves the peer state the way an honest peer's traffic would
			if len(sim.Pool) == 0 {
				continue
			}
			pm := sim.Pool[r.Intn(len(sim.Pool))]
			m = pm.Msg
			switch pm.Kind {
			case "proposal", "part":
				ch = cs.DataChannel
			default:
				ch = cs.VoteChannel
			}
			seq += "r"
		}
		raw := enc(m)
		if len(raw) == 0 {
			continue
		}
		c.Count("announcements", 1)
		if hostileBits {
			c.Count("hostile_bitarrays_announced", 1)
		}
		if h == rs.Height {
			atHeight++
			c.Count("announcements_at_victim_height", 1)
		}
		if p := rh.Receive(ch, raw); p != nil {
			c.Count("reactor_panics_recovered_per_connection", 1)
			c.Count("reactor_panic:"+detsim.PanicClass(p), 1)
		}
		// what reached the state machine must not crash it either
		if _, p, stack := victim.CS.VerifDrainPeerQueue(); p != nil {
			c.Violation("state-machine-panic/announcement/"+detsim.PanicClass(p), fmt.Sprintf("a %T announcement made the consensus state machine panic: %v", m, p), map[string]interface{}{"sequence": seq, "stack": stack})
			return
		}
		time.Sleep(time.Duration(2+r.Intn(3)) * time.Millisecond) // the gossip goroutines iterate on the new peer state
	}
	time.Sleep(10 * time.Millisecond)
	c.Count("messages_gossiped_to_hostile_peer", int64(peer.Sent))
	if atHeight >= 6 && peer.Sent >= 1 {
		c.Nontrivial(fmt.Sprintf("%d/%s", c.Index, seq))
	}
	if c.Index%60 == 0 {
		c.Sample(map[string]interface{}{"announcements": seq, "victim_step": victim.CS.GetRoundState().Step.String(), "gossiped_to_peer": peer.Sent})
	}
}
