package c14

import (
	"fmt"
	"os"
	"testing"

	"verif/h/internal/core"
)

func TestDebugProf(t *testing.T) {
	core.Get("C14").Init()
	chk := core.Get("C14")
	dir, _ := os.MkdirTemp("", "c14dbg")
	defer os.RemoveAll(dir)
	res := core.RunCase(chk, "quick", 2, 36, dir, true)
	fmt.Println(res.Counters["trunc_variants_plain"], res.Panic)
}
