// Package c14: the consensus WAL replays what was written or reports corruption (DESIGN.md §5 C14).
//
// One case = one generated log: a plan of writes (all record kinds the node writes), flushes,
// head-size checks (rotation) and restarts is executed through the real baseWAL on a real
// autofile.Group; then the fault space of that log is enumerated:
//   - every truncation offset and single-byte corruptions, decoded with the real WALDecoder
//     over a plain reader (as replay_file.go / wal_fuzz.go do) and over the real GroupReader
//     on real files (as catchupReplay does);
//   - SearchForEndHeight through the real WAL on the undamaged group, on crash images (the
//     last file cut at every offset) and on corrupted files.
//
// Oracle: the written sequence kept by the generator. Every message read back is re-encoded
// with the real encoder and must be byte-identical to the next written record.
package c14

import (
	"bytes"
	"crypto/sha256"
	"fmt"
	"io/ioutil"
	"os"
	"path/filepath"
	"runtime/debug"
	"sort"
	"strings"
	"time"

	cs "github.com/lianxiangcloud/linkchain/consensus"
	auto "github.com/lianxiangcloud/linkchain/libs/autofile"

	"verif/h/internal/core"
	"verif/h/internal/rng"
)

func init() {
	core.Register(&core.Check{
		ID:        "C14",
		Level:     "fault_enumeration",
		Technique: "fault enumeration over real WAL files: generated logs written through the real baseWAL/autofile.Group, every truncation offset and single-byte corruptions read back with the real WALDecoder/GroupReader/SearchForEndHeight, judged against the written sequence",
		Rule: "case = generated plan of 3..60 records of all kinds the node writes (votes, proposals, block parts 1 B..64 KiB, timeouts, round-step events, end-height markers) interleaved with Flush, " +
			"head-size checks at limits {1 KiB, 4 KiB, 64 KiB, default} or 1 (rotate whenever the file is non-empty) and restarts, written through the real baseWAL; " +
			"fault space per log: all truncation offsets (plain reader; GroupReader on crash images for logs <= 8 KiB, record-boundary samples above), all single-byte corruptions x {^b,b+1,0x00,0xFF} for logs <= 4 KiB " +
			"(all header bytes + 3 payload bytes per record above), SearchForEndHeight for written and absent heights on the intact group, on crash images and on corrupted files. " +
			"non-trivial = >= 5 records of >= 3 kinds and >= 1 end-height marker written by the plan; distinct by hash of the plan",
		Assumptions: []string{
			"rotation is driven by an explicit replica of Group.checkHeadSizeLimit (Head.Size() >= limit => RotateFile(), through the exported API) at generated points instead of the 5 s ticker; the group's own limits are set to 0 (SetHeadSizeLimit/SetTotalSizeLimit) so the real ticker never acts; pruning by total size is not exercised",
			"record timestamps come from time.Now() inside baseWAL.Write and change record lengths by a few bytes between runs; offsets are re-derived from the files in every run and no oracle decision depends on the clock",
			"a crash image of a rotated group is: older files complete, the newest file cut (files on disk are a prefix of the byte stream)",
			"for logs > 8 KiB a truncated variant is decoded from at most two records before the cut (the decoder keeps no state between records; every 257th variant is decoded from the start)",
			"crc32c collisions (2^-32 per damaged record) are ignored",
		},
		Cases: func(tier string) int {
			if tier == "thorough" {
				return 4000
			}
			return 48
		},
		Batch: func(tier string) int {
			if tier == "thorough" {
				return 25
			}
			return 1
		},
		Run: run,
		Floors: func(tier string) map[string]int64 {
			return floors(tier)
		},
		// DESIGN.md §5 C14 lists "a panic or unbounded allocation in the decoder" as refuting; panics inside
		// Decode/SearchForEndHeight/the write path are recovered and keyed precisely, what remains is a child
		// killed by a fatal error (out of memory on a corrupted length) while reading a damaged log
		PanicIsViolation: true,
		Init: func() {
			core.QuietLogs()
			// the decoder allocates one buffer of the record's length per Decode; with the default
			// GC target the tiny live heap makes every few 64 KiB records a GC cycle
			debug.SetGCPercent(2000)
			debug.SetMemoryLimit(3 << 30)
		},
	})
}

// floors: about half of the minimum observed over VERIF_SEED=1..5 at quick (48 logs); thorough scales
// with the number of logs.
func floors(tier string) map[string]int64 {
	f := map[string]int64{
		"logs":                       44,
		"records_written":            450,
		"kind_vote":                  120,
		"kind_proposal":              30,
		"kind_part":                  90,
		"kind_timeout":               40,
		"kind_step":                  70,
		"kind_endheight":             80,
		"class_large":                2,
		"logs_rotated":               14,
		"rotations":                  35,
		"restarts":                   35,
		"logs_exhaustive_corruption": 8,
		"trunc_variants_plain":       600000,
		"trunc_variants_group":       18000,
		"corrupt_variants_plain":     70000,
		"corrupt_variants_group":     70000,
		"corrupt_field_crc":          7000,
		"corrupt_field_length":       4500,
		"corrupt_field_payload":      55000,
		"markers_searched_intact":    80,
		"search_calls":               55000,
		"search_found":               20000,
		"search_notfound":            30000,
		"search_on_crash_images":     27000,
		"search_on_corrupted_files":  9000,
		"cuts_inside_marker_record":  1300,
		"cuts_right_before_marker":   90,
		"cuts_right_after_marker":    90,
		"restart_variants":           160,
		// rotation between two Group.Write calls of the encoder, and layouts past file index 999
		"concurrent_rotation_cases":           8,
		"rotation_ticks_between_group_writes": 12,
		"cases_with_file_index_above_999":     1,
	}
	if tier == "thorough" {
		for k, v := range f {
			f[k] = v * 4000 / 48 * 8 / 10
		}
	}
	return f
}

type fileInfo struct {
	Name string `json:"name"`
	Size int    `json:"size"`
}

type witness struct {
	Class      string      `json:"class"`
	Limit      int64       `json:"head_size_limit"`
	Faithful   bool        `json:"node_sync_discipline"`
	Ops        []string    `json:"plan"`
	Files      []fileInfo  `json:"files,omitempty"`
	Records    []string    `json:"records,omitempty"`
	Misaligned []int       `json:"files_starting_mid_record,omitempty"`
	Damage     *damage     `json:"damage,omitempty"`
	Extra      interface{} `json:"extra,omitempty"`
	Shrunk     *witness    `json:"shrunk,omitempty"`
}

func mkWitness(p *plan, L *layout, d *damage, extra interface{}) *witness {
	w := &witness{Class: p.Class, Limit: p.Limit, Faithful: p.Faithful, Ops: p.describe(90), Damage: d, Extra: extra}
	if L != nil {
		for i, n := range L.Names {
			w.Files = append(w.Files, fileInfo{n, len(L.Files[i])})
		}
		for i, r := range L.Recs {
			if i >= 70 {
				w.Records = append(w.Records, fmt.Sprintf("... %d more", len(L.Recs)-i))
				break
			}
			s := fmt.Sprintf("#%d %s [%d,%d) file %d", i, r.Kind, r.Start, r.End, L.fileOf(r.Start))
			if r.IsMarker {
				s += fmt.Sprintf(" height=%d", r.Height)
			}
			if L.fileOf(r.End-1) != L.fileOf(r.Start) {
				s += fmt.Sprintf(" STRADDLES files %d..%d", L.fileOf(r.Start), L.fileOf(r.End-1))
			}
			w.Records = append(w.Records, s)
		}
		w.Misaligned = L.Misaligned
	}
	return w
}

type caseCtx struct {
	c    *core.Ctx
	p    *plan
	L    *layout
	r    *rng.R
	seen map[string]bool
	sub  int
	// noShrink is set on the contexts used inside shrink
	noShrink bool
	// stop: a decoder-level violation (wrong content, panic, unbounded allocation) was seen;
	// the remaining fault space of this log is not enumerated (every further variant would
	// repeat it, and an unbounded allocation costs seconds and gigabytes per variant)
	stop bool
}

func (k *caseCtx) violate(v *viol, d *damage) {
	if v == nil || k.seen[v.Key] {
		return
	}
	k.seen[v.Key] = true
	if strings.Contains(v.Key, "decode/") {
		k.stop = true
	}
	wit := mkWitness(k.p, k.L, d, v.Extra)
	if probeKeys[v.Key] && !k.noShrink {
		if sp, sL, detail := shrink(k, k.p, v.Key); sp != nil {
			wit.Shrunk = mkWitness(sp, sL, nil, detail)
		}
	}
	k.c.Violation(v.Key, v.Detail, wit)
}

// keys that probeNewerFileDamage can reproduce cheaply (used for witness shrinking only)
var probeKeys = map[string]bool{
	"search/written-marker-not-found/torn-record-in-newer-file":  true,
	"search/written-marker-not-found/corrupt-byte-in-newer-file": true,
}

// probeNewerFileDamage re-creates, for a layout, the two smallest damages of the newest
// non-empty file (last byte cut off; top length byte of its first record set to 0xFF) and
// searches for the last marker that lies in an older file. Only used while shrinking.
func probeNewerFileDamage(k *caseCtx, L *layout) (vs []viol) {
	if L == nil || L.Recs == nil || len(L.Misaligned) > 0 {
		return nil
	}
	fk := len(L.Files) - 1
	for fk >= 1 && len(L.Files[fk]) == 0 {
		fk--
	}
	if fk < 1 {
		return nil
	}
	first := L.completeBefore(L.Base[fk])
	mo := lastMarker(L, first, func(f int) bool { return f < fk })
	if mo < 0 || first >= len(L.Recs) {
		return nil
	}
	n := len(L.Log)
	dir := k.subdir("p")
	defer os.RemoveAll(filepath.Dir(dir))
	if copyGroup(L, dir, fk, true) != nil {
		return nil
	}
	path := filepath.Join(dir, walBase)
	bw, err := cs.NewWAL(path)
	if err != nil {
		return nil
	}
	defer func() { bw.Group().Close(); bw.Group().Head.Close() }()
	h := L.Recs[mo].Height
	// corrupt the most significant length byte of the first record of file fk
	o := L.Base[fk] + 4
	f, err := os.OpenFile(path, os.O_RDWR, 0600)
	if err != nil {
		return nil
	}
	defer f.Close()
	f.WriteAt([]byte{0xFF}, 4)
	info := searchInfo{Context: fmt.Sprintf("byte %d (length of record %d, first record of file %d) %#02x->0xff; marker record %d in file %d", o, first, fk, L.Log[o], mo, L.fileOf(L.Recs[mo].Start)), CutFile: fk, CutAt: o}
	if v := checkSearch(k, bw, L.Recs, first, h, true, true, "corrupt-byte-in-newer-file", info, n); v != nil {
		vs = append(vs, *v)
	}
	f.WriteAt([]byte{L.Log[o]}, 4)
	// cut the last byte of file fk
	x := len(L.Files[fk]) - 1
	if os.Truncate(path, int64(x)) != nil {
		return vs
	}
	o = L.Base[fk] + x
	kc := L.completeBefore(o)
	info = searchInfo{Context: fmt.Sprintf("crash image: files 0..%d, file %d cut at %d of %d bytes (log offset %d, %d complete records, torn record follows); marker record %d in file %d", fk, fk, x, x+1, o, kc, mo, L.fileOf(L.Recs[mo].Start)), CutFile: fk, CutAt: o}
	if v := checkSearch(k, bw, L.Recs, kc, h, true, true, "torn-record-in-newer-file", info, n); v != nil {
		vs = append(vs, *v)
	}
	return vs
}

func (k *caseCtx) subdir(name string) string {
	k.sub++
	return filepath.Join(k.c.Scratch, fmt.Sprintf("%s%d", name, k.sub), "cs.wal")
}

func run(c *core.Ctx) {
	p := genPlan(c.Rng.Split(), c.Tier)
	if c.Index%6 == 5 {
		// concurrent-rotation cases: no restarts / explicit ticks inside the write phase, a rotator goroutine instead
		var ops []op
		for _, o := range p.Ops {
			if o.K == "w" || o.K == "flush" {
				ops = append(ops, o)
			}
		}
		p.Ops = ops
		p.Rotator = c.Rng.Range(20, 300)
		if c.Index%12 == 11 {
			// the deterministic variant: the tick fires after chosen Group.Write calls, no second goroutine
			p.Rotator = 0
		}
		p.TickAfter = map[int]bool{}
		for i, n := 0, c.Rng.Range(3, 40); i < n; i++ {
			p.TickAfter[c.Rng.Range(1, 2*len(ops)+2)] = true
		}
		if c.Index%48 == 47 {
			// the file index passes three digits before the first record of the plan is written
			p.PreRotate = 1000 + c.Rng.Range(0, 40)
			p.Rotator = c.Rng.Range(5, 60)
		}
		c.Count("concurrent_rotation_cases", 1)
	}
	k := &caseCtx{c: c, p: p, r: c.Rng.Split(), seen: map[string]bool{}}
	w, L, vs := execPlan(p, k.subdir("w"))
	k.L = L
	if len(vs) == 0 && w != nil {
		vs = append(vs, searchLive(k, w, L)...)
	}
	if w != nil {
		closeWAL(w)
		w.Group().Head.Close() // harness hygiene: stop the AutoFile ticker of a finished WAL
	}
	if len(vs) > 0 {
		// write-phase / clean-log / intact-search violations: shrink the plan for the first key
		first := vs[0]
		sp, sL, sDetail := shrink(k, p, first.Key)
		for _, v := range vs {
			if k.seen[v.Key] {
				continue
			}
			k.seen[v.Key] = true
			wit := mkWitness(p, L, nil, v.Extra)
			if v.Key == first.Key && sp != nil {
				wit.Shrunk = mkWitness(sp, sL, nil, sDetail)
			}
			c.Violation(v.Key, v.Detail, wit)
		}
	}
	if w == nil || L == nil || L.Recs == nil {
		return
	}
	// the orderly Stop must not have changed the files
	if names, files, err := readDir(L.Dir); err != nil || len(files) != len(L.Files) || !sameFiles(files, L.Files) {
		k.violate(&viol{"clean/stop-changed-files", fmt.Sprintf("files after Stop differ from the files before (err=%v, names %v vs %v)", err, names, L.Names), nil}, nil)
		return
	}

	c.Count("logs", 1)
	c.Count("records_written", int64(len(L.Recs)))
	kinds := map[string]bool{}
	markers := 0
	for _, r := range L.Recs {
		c.Count("kind_"+r.Kind, 1)
		kinds[r.Kind] = true
	}
	for _, o := range p.Ops {
		if o.K == "w" && o.Kind == "endheight" {
			markers++
		}
	}
	c.Count("rotations", int64(L.Rotations))
	c.Count("rotation_ticks_between_group_writes", int64(L.TicksBetweenWrites))
	c.Count("restarts", int64(L.Restarts))
	c.Count("log_bytes", int64(len(L.Log)))
	c.Max("files", int64(len(L.Files)))
	c.Max("log_bytes", int64(len(L.Log)))
	if len(L.Files) > 1 {
		c.Count("logs_rotated", 1)
	}
	if len(L.Misaligned) > 0 {
		c.Count("logs_with_file_starting_mid_record", 1)
	}
	c.Count("class_"+p.Class, 1)
	if len(L.Log) <= 4096 {
		c.Count("logs_exhaustive_corruption", 1)
	}

	t0 := time.Now() // logging only (replay mode); no decision depends on it
	lap := func(name string) {
		c.Logf("lane %-14s %6.2fs (log %d bytes, %d records, %d files)", name, time.Since(t0).Seconds(), len(L.Log), len(L.Recs), len(L.Files))
		t0 = time.Now()
	}
	plainLane(k)
	lap("plain")
	// the damage lanes re-create the group once per damaged variant: with hundreds of (mostly empty) files of a
	// long concurrent-rotation case that is all file-system work and no new damage; those cases keep the clean
	// read-back and the marker search on the intact group (above), the plain lane and the restart lane
	many := len(L.Files) > 150
	if many {
		c.Count("cases_with_more_than_150_files", 1)
		if len(L.Files) > 1000 {
			c.Count("cases_with_file_index_above_999", 1)
		}
	}
	if !k.stop && !many {
		groupCorruptLane(k)
		lap("group-corrupt")
	}
	if !k.stop && !many {
		crashImageLane(k)
		lap("crash-image")
	}
	if !k.stop {
		restartLane(k)
		lap("restart")
	}

	if len(L.Recs) >= 5 && len(kinds) >= 3 && markers >= 1 {
		h := sha256.Sum256([]byte(fmt.Sprintf("%v|%v|%v|%v", p.Class, p.Limit, p.Faithful, p.describe(1000))))
		c.Nontrivial(fmt.Sprintf("%x", h[:8]))
	}
	if c.Index%12 == 0 {
		var sz []int
		for _, f := range L.Files {
			sz = append(sz, len(f))
		}
		c.Sample(map[string]interface{}{"class": p.Class, "head_size_limit": p.Limit, "node_sync_discipline": p.Faithful, "plan_prefix": p.describe(14),
			"records": len(L.Recs), "file_sizes": sz, "files_starting_mid_record": L.Misaligned, "log_bytes": len(L.Log)})
	}
}

func sameFiles(a, b [][]byte) bool {
	for i := range a {
		if !bytes.Equal(a[i], b[i]) {
			return false
		}
	}
	return true
}

// ------------------------------------------------------------------ marker search oracle

type searchInfo struct {
	Height   uint64 `json:"height"`
	Ignore   bool   `json:"ignore_data_corruption_errors"`
	Expect   bool   `json:"marker_completely_written"`
	Found    bool   `json:"found"`
	Err      string `json:"err,omitempty"`
	Marker   int    `json:"marker_record,omitempty"`
	Context  string `json:"context"`
	CutFile  int    `json:"cut_file,omitempty"`
	CutAt    int    `json:"cut_at_log_offset,omitempty"`
	Complete int    `json:"complete_records"`
}

// checkSearch calls SearchForEndHeight(h) on w and judges found / the returned reader.
// canon[:complete] are the records completely present (in order); tornTail tells whether bytes
// of an incomplete record follow them; damagedFrom (-1: none) is the log offset of a corrupted byte.
// strict=false: only "never find what was not written" and the continuation are judged.
func checkSearch(k *caseCtx, w walHandle, canon []record, complete int, h uint64, ignore bool, strict bool, missKey string, info searchInfo, logLen int) *viol {
	c := k.c
	var cands []int
	exists := -1
	for i := range canon {
		if canon[i].IsMarker && canon[i].Height == h {
			if i < complete {
				cands = append(cands, i)
			} else if exists < 0 {
				exists = i
			}
		}
	}
	info.Height, info.Ignore, info.Expect, info.Complete = h, ignore, len(cands) > 0, complete
	var gr *auto.GroupReader
	var found bool
	var err error
	var pv interface{}
	func() {
		defer func() {
			if r := recover(); r != nil {
				pv = r
			}
		}()
		gr, found, err = w.SearchForEndHeight(h, &cs.WALSearchOptions{IgnoreDataCorruptionErrors: ignore})
	}()
	c.Count("search_calls", 1)
	if pv != nil {
		return &viol{"search/panic", fmt.Sprintf("SearchForEndHeight(%d) panicked: %v (%s)", h, pv, info.Context), info}
	}
	info.Found = found
	if err != nil {
		info.Err = err.Error()
	}
	if gr != nil {
		defer gr.Close()
	}
	if found && len(cands) == 0 {
		if exists >= 0 {
			info.Marker = exists
			return &viol{"search/found-incomplete-marker", fmt.Sprintf("SearchForEndHeight(%d) found a marker whose record %d is not completely present (%s)", h, exists, info.Context), info}
		}
		return &viol{"search/found-unwritten-marker", fmt.Sprintf("SearchForEndHeight(%d) returned found although no such marker was written (%s)", h, info.Context), info}
	}
	if !found {
		if gr != nil {
			return &viol{"search/reader-without-found", fmt.Sprintf("SearchForEndHeight(%d): found=false with a non-nil reader", h), info}
		}
		if len(cands) > 0 && strict {
			info.Marker = cands[0]
			c.Count("search_missed_written_marker", 1)
			return &viol{"search/written-marker-not-found/" + missKey, fmt.Sprintf("SearchForEndHeight(%d, ignoreCorruption=%v) = found=false err=%q although the marker (record %d) was completely written and no byte of it or before it is damaged (%s)", h, ignore, info.Err, cands[0], info.Context), info}
		}
		c.Count("search_notfound", 1)
		return nil
	}
	c.Count("search_found", 1)
	if gr == nil {
		return &viol{"search/found-without-reader", fmt.Sprintf("SearchForEndHeight(%d): found=true with a nil reader", h), info}
	}
	// the reader must continue with exactly the records after (one of) the marker(s)
	if len(cands) == 1 {
		out := decodeRun(gr, canon, cands[0]+1, logLen)
		return judgeContinuation(out, canon, complete, cands[0], h, info, strict)
	}
	// several markers of this height (height 0 after restarts with an empty head): read the
	// continuation once and match it against each candidate
	rest, rerr := ioutil.ReadAll(&eofReader{gr})
	_ = rerr
	var last *viol
	for _, i := range cands {
		out := decodeRun(bytes.NewReader(rest), canon, i+1, logLen)
		v := judgeContinuation(out, canon, complete, i, h, info, strict)
		if v == nil {
			return nil
		}
		last = v
	}
	return last
}

// eofReader adapts GroupReader (which returns (n, EOF) on short reads) for ioutil.ReadAll.
type eofReader struct{ gr *auto.GroupReader }

func (e *eofReader) Read(p []byte) (int, error) { return e.gr.Read(p) }

func judgeContinuation(out runOut, canon []record, complete, marker int, h uint64, info searchInfo, strict bool) *viol {
	info.Marker = marker
	if out.Bad != nil {
		v := *out.Bad
		v.Key = "search/continuation/" + v.Key
		v.Detail = fmt.Sprintf("reader returned by SearchForEndHeight(%d): %s (%s)", h, v.Detail, info.Context)
		v.Extra = info
		return &v
	}
	need := complete - (marker + 1)
	if out.N < need && strict {
		return &viol{"search/continuation/short", fmt.Sprintf("reader returned by SearchForEndHeight(%d) yielded %d of the %d complete records written after the marker, then %s %q (%s)", h, out.N, need, out.ErrClass, out.Err, info.Context), info}
	}
	if strict && complete == len(canon) && info.CutAt == 0 && info.Context == "intact" && out.ErrClass != "eof" {
		return &viol{"search/continuation/error-on-intact-log", fmt.Sprintf("reader returned by SearchForEndHeight(%d) ended with %s %q on an undamaged log", h, out.ErrClass, out.Err), info}
	}
	return nil
}

// markerHeights returns the distinct marker heights among canon[:n], in order of appearance.
func markerHeights(canon []record, n int) []uint64 {
	var hs []uint64
	seen := map[uint64]bool{}
	for i := 0; i < n && i < len(canon); i++ {
		if canon[i].IsMarker && !seen[canon[i].Height] {
			seen[canon[i].Height] = true
			hs = append(hs, canon[i].Height)
		}
	}
	return hs
}

func absentHeights(canon []record) []uint64 {
	present := map[uint64]bool{}
	var max uint64
	for _, r := range canon {
		if r.IsMarker {
			present[r.Height] = true
			if r.Height > max {
				max = r.Height
			}
		}
	}
	out := []uint64{max + 1}
	for h := max; h > 0 && h+8 > max; h-- {
		if !present[h] {
			out = append(out, h)
			break
		}
	}
	return out
}

// searchLive is marker lane (a): the intact group, through the freshly restarted real WAL.
func searchLive(k *caseCtx, w walHandle, L *layout) (vs []viol) {
	if L.Recs == nil {
		return nil
	}
	hs := markerHeights(L.Recs, len(L.Recs))
	if len(hs) > 14 {
		hs = append(append([]uint64{}, hs[:4]...), hs[len(hs)-10:]...)
	}
	for i, j := 0, len(hs)-1; i < j; i, j = i+1, j-1 { // latest marker first (the one catchupReplay needs)
		hs[i], hs[j] = hs[j], hs[i]
	}
	missKey := "intact-log"
	if len(L.Misaligned) > 0 {
		missKey = "file-starts-mid-record"
	}
	seen := map[string]bool{}
	for _, ignore := range []bool{true, false} {
		for _, h := range hs {
			v := checkSearch(k, w, L.Recs, len(L.Recs), h, ignore, true, missKey, searchInfo{Context: "intact"}, len(L.Log))
			if v != nil && !seen[v.Key] {
				seen[v.Key] = true
				vs = append(vs, *v)
			}
		}
		for _, h := range absentHeights(L.Recs) {
			v := checkSearch(k, w, L.Recs, len(L.Recs), h, ignore, true, missKey, searchInfo{Context: "intact"}, len(L.Log))
			if v != nil && !seen[v.Key] {
				seen[v.Key] = true
				vs = append(vs, *v)
			}
		}
	}
	k.c.Count("markers_searched_intact", int64(len(hs)))
	return vs
}

// shrink removes plan steps one at a time while the violation key keeps firing in the
// write phase / intact search; it returns the reduced plan and its layout.
func shrink(k *caseCtx, p *plan, key string) (*plan, *layout, string) {
	cur := &plan{Class: p.Class, Limit: p.Limit, Faithful: p.Faithful, Ops: append([]op{}, p.Ops...)}
	var curL *layout
	curDetail := ""
	attempts := 0
	fires := func(q *plan) (*layout, string, bool) {
		attempts++
		dir := k.subdir("s")
		defer os.RemoveAll(filepath.Dir(dir))
		k2 := &caseCtx{c: k.c, p: q, r: k.r, seen: map[string]bool{}, noShrink: true, sub: k.sub + 1000*attempts}
		w, L, vs := execPlan(q, dir)
		k2.L = L
		if len(vs) == 0 && w != nil {
			vs = append(vs, searchLive(k2, w, L)...)
		}
		if w != nil {
			closeWAL(w)
			w.Group().Head.Close()
		}
		if len(vs) == 0 && probeKeys[key] {
			vs = append(vs, probeNewerFileDamage(k2, L)...)
		}
		for _, v := range vs {
			if v.Key == key {
				return L, v.Detail, true
			}
		}
		return L, "", false
	}
	const maxAttempts = 160
	// chunks of decreasing size first (ddmin style), single steps last
	for chunk := (len(cur.Ops) + 1) / 2; chunk >= 1 && attempts < maxAttempts; chunk /= 2 {
		changed := true
		for changed && attempts < maxAttempts {
			changed = false
			for end := len(cur.Ops); end > 0 && attempts < maxAttempts; end -= chunk {
				start := end - chunk
				if start < 0 {
					start = 0
				}
				q := &plan{Class: cur.Class, Limit: cur.Limit, Faithful: cur.Faithful}
				q.Ops = append(append([]op{}, cur.Ops[:start]...), cur.Ops[end:]...)
				if L, detail, ok := fires(q); ok {
					cur, curL, curDetail = q, L, detail
					changed = true
				}
			}
			if chunk > 1 {
				break
			}
		}
	}
	if curL == nil {
		return nil, nil, ""
	}
	return cur, curL, curDetail
}

// ------------------------------------------------------------------ damage lanes

func distinctVals(b byte) []byte {
	var out []byte
	for _, v := range []byte{^b, b + 1, 0x00, 0xFF} {
		dup := v == b
		for _, o := range out {
			if o == v {
				dup = true
			}
		}
		if !dup {
			out = append(out, v)
		}
	}
	return out
}

// corruptionOffsets: every offset for logs <= 4 KiB; otherwise all 8 header bytes of every
// record plus 3 payload offsets (first, last, one random).
func corruptionOffsets(L *layout, r *rng.R) []int {
	n := len(L.Log)
	var offs []int
	if n <= 4096 {
		for o := 0; o < n; o++ {
			offs = append(offs, o)
		}
		return offs
	}
	for _, rec := range L.Recs {
		for j := 0; j < 8; j++ {
			offs = append(offs, rec.Start+j)
		}
		pl := rec.End - rec.Start - 8
		offs = append(offs, rec.Start+8, rec.End-1, rec.Start+8+r.Intn(pl))
	}
	sort.Ints(offs)
	return offs
}

func maxi(a, b int) int {
	if a > b {
		return a
	}
	return b
}

// plainLane: the concatenated log through a plain reader (short reads at the end, like *os.File).
func plainLane(k *caseCtx) {
	c, L := k.c, k.L
	n := len(L.Log)
	// clean
	out := decodeRun(bytes.NewReader(L.Log), L.Recs, 0, n)
	if out.Bad != nil || out.N != len(L.Recs) || out.ErrClass != "eof" {
		d := damage{Lane: "plain", Kind: "none"}
		if out.Bad != nil {
			k.violate(out.Bad, &d)
		} else {
			k.violate(&viol{"clean/plain/readback", fmt.Sprintf("undamaged log: %d of %d records, then %s %q", out.N, len(L.Recs), out.ErrClass, out.Err), nil}, &d)
		}
		return
	}
	full := n <= 8192
	for o := 0; o < n; o++ {
		rk := L.recAt(o)
		s := 0
		if !full && o%257 != 0 {
			if o-L.Recs[rk].Start < 16 || L.Recs[rk].End-o < 16 {
				s = maxi(0, rk-2)
			} else {
				s = rk
			}
		}
		need := L.completeBefore(o) - s
		out := decodeRun(bytes.NewReader(L.Log[L.Recs[s].Start:o]), L.Recs, s, n)
		c.Count("trunc_variants_plain", 1)
		c.Count("end_plain_truncate_"+out.ErrClass, 1)
		d := damage{Lane: "plain", Kind: "truncate", Off: o, From: s}
		if v := judgeRun(out, d, need); v != nil {
			L.describe(&d)
			k.violate(v, &d)
			return
		}
		if out.N > need {
			c.Count("incomplete_tail_accepted_identical", 1)
		}
	}
	buf := append([]byte{}, L.Log...)
	for _, o := range corruptionOffsets(L, k.r) {
		b := buf[o]
		rk := L.recAt(o)
		s := 0
		if !full {
			s = maxi(0, rk-1)
		}
		for _, v := range distinctVals(b) {
			buf[o] = v
			out := decodeRun(bytes.NewReader(buf[L.Recs[s].Start:]), L.Recs, s, n)
			c.Count("corrupt_variants_plain", 1)
			c.Count("end_plain_corrupt_"+out.ErrClass, 1)
			d := damage{Lane: "plain", Kind: "corrupt", Off: o, Old: b, New: v, From: s}
			L.describe(&d)
			c.Count("corrupt_field_"+d.Field, 1)
			if vv := judgeRun(out, d, rk-s); vv != nil {
				k.violate(vv, &d)
				buf[o] = b
				return
			}
			if out.N > rk-s {
				c.Count("corrupted_record_accepted_identical", 1)
			}
		}
		buf[o] = b
	}
}

// copyGroup copies the group's files [0..upto] into dir; the last copied file becomes the head
// when asHead is set (crash image: that file was the head when the process died).
func copyGroup(L *layout, dir string, upto int, asHead bool) error {
	if err := os.MkdirAll(dir, 0755); err != nil {
		return err
	}
	for i := 0; i <= upto; i++ {
		name := L.Names[i]
		if i == upto && asHead {
			name = walBase
		}
		if err := ioutil.WriteFile(filepath.Join(dir, name), L.Files[i], 0600); err != nil {
			return err
		}
	}
	return nil
}

// lastMarkerBefore returns the index of the last marker among canon[:n] whose file index
// (by fileOf) satisfies pred, or -1.
func lastMarker(L *layout, n int, pred func(file int) bool) int {
	for i := n - 1; i >= 0; i-- {
		if L.Recs[i].IsMarker && L.Recs[i].Height > 0 && pred(L.fileOf(L.Recs[i].Start)) {
			return i
		}
	}
	return -1
}

// groupCorruptLane: single-byte corruptions written into real files, read back through the
// real GroupReader, plus SearchForEndHeight for the last marker wholly before the damage.
func groupCorruptLane(k *caseCtx) {
	c, L := k.c, k.L
	n := len(L.Log)
	dir := k.subdir("g")
	defer os.RemoveAll(filepath.Dir(dir))
	if err := copyGroup(L, dir, len(L.Files)-1, false); err != nil {
		c.Inconclusive("harness: " + err.Error())
		return
	}
	bw, err := cs.NewWAL(filepath.Join(dir, walBase))
	if err != nil {
		k.violate(&viol{"clean/group/open", err.Error(), nil}, nil)
		return
	}
	g := bw.Group()
	defer func() { g.Close(); g.Head.Close() }()
	read := func() runOut {
		gr, err := g.NewReader(g.MinIndex())
		if err != nil {
			return runOut{ErrClass: "other", Err: err.Error(), Bad: &viol{"group/new-reader", err.Error(), nil}}
		}
		defer gr.Close()
		return decodeRun(gr, L.Recs, 0, n)
	}
	out := read()
	if out.Bad != nil || out.N != len(L.Recs) || out.ErrClass != "eof" {
		d := damage{Lane: "group", Kind: "none"}
		if out.Bad != nil {
			k.violate(out.Bad, &d)
		} else {
			k.violate(&viol{"clean/group/readback", fmt.Sprintf("undamaged group read through GroupReader: %d of %d records, then %s %q", out.N, len(L.Recs), out.ErrClass, out.Err), nil}, &d)
		}
		return
	}
	fhs := make([]*os.File, len(L.Files))
	for i, name := range L.Names {
		f, err := os.OpenFile(filepath.Join(dir, name), os.O_RDWR, 0600)
		if err != nil {
			c.Inconclusive("harness: " + err.Error())
			return
		}
		defer f.Close()
		fhs[i] = f
	}
	absent := absentHeights(L.Recs)
	for vi, o := range corruptionOffsets(L, k.r) {
		b := L.Log[o]
		rk := L.recAt(o)
		fk := L.fileOf(o)
		x := int64(o - L.Base[fk])
		for _, v := range distinctVals(b) {
			if _, err := fhs[fk].WriteAt([]byte{v}, x); err != nil {
				c.Inconclusive("harness: " + err.Error())
				return
			}
			out := read()
			c.Count("corrupt_variants_group", 1)
			c.Count("end_group_corrupt_"+out.ErrClass, 1)
			d := damage{Lane: "group", Kind: "corrupt", Off: o, Old: b, New: v}
			L.describe(&d)
			vv := judgeRun(out, d, rk)
			// marker search over the corrupted files (header bytes and every 16th other variant)
			if vv == nil && (d.Field != "payload" || vi%16 == 0) {
				if mi := lastMarker(L, rk, func(int) bool { return true }); mi >= 0 {
					mf := L.fileOf(L.Recs[mi].Start)
					miss := "corrupt-byte-in-same-file-after-marker"
					if mf < fk {
						miss = "corrupt-byte-in-newer-file"
					}
					if len(L.Misaligned) > 0 {
						miss = "file-starts-mid-record"
					}
					info := searchInfo{Context: fmt.Sprintf("byte %d (%s of record %d, file %d) %#02x->%#02x; marker in file %d", o, d.Field, rk, fk, b, v, mf), CutFile: fk, CutAt: o}
					vv = checkSearch(k, bw, L.Recs, rk, L.Recs[mi].Height, true, true, miss, info, n)
					c.Count("search_on_corrupted_files", 1)
				}
				if vv == nil {
					info := searchInfo{Context: fmt.Sprintf("byte %d (%s of record %d) %#02x->%#02x; absent height", o, d.Field, rk, b, v), CutFile: fk, CutAt: o}
					vv = checkSearch(k, bw, L.Recs, rk, absent[0], vi%2 == 0, false, "", info, n)
				}
			}
			if _, err := fhs[fk].WriteAt([]byte{b}, x); err != nil {
				c.Inconclusive("harness: " + err.Error())
				return
			}
			if vv != nil {
				k.violate(vv, &d)
				if len(k.seen) > 6 || k.stop {
					return
				}
			}
		}
	}
}

// cutPoints returns the cut positions (bytes kept) of file fk, descending.
func cutPoints(L *layout, fk int) []int {
	size := len(L.Files[fk])
	var cuts []int
	if len(L.Log) <= 8192 {
		for x := size; x >= 0; x-- {
			cuts = append(cuts, x)
		}
		return cuts
	}
	set := map[int]bool{0: true, size: true}
	for _, rec := range L.Recs {
		for _, o := range []int{rec.Start, rec.Start + 1, rec.Start + 3, rec.Start + 4, rec.Start + 5, rec.Start + 7, rec.Start + 8, rec.Start + 9, (rec.Start + rec.End) / 2, rec.End - 1} {
			x := o - L.Base[fk]
			if x >= 0 && x <= size {
				set[x] = true
			}
		}
	}
	for x := range set {
		cuts = append(cuts, x)
	}
	sort.Sort(sort.Reverse(sort.IntSlice(cuts)))
	return cuts
}

// crashImageLane: for file fk of the group, the crash image "older files complete, fk was the
// head and is cut at x" for every x; read back through the real GroupReader and searched
// through a real (not started) baseWAL.
func crashImageLane(k *caseCtx) {
	c, L := k.c, k.L
	n := len(L.Log)
	nf := len(L.Files)
	var fks []int
	for fk := nf - 1; fk >= 0 && len(fks) < 8; fk-- {
		if len(L.Files[fk]) > 0 {
			fks = append(fks, fk)
		}
	}
	if nf > 10 { // also the oldest one
		fks = append(fks, 0)
	}
	absent := absentHeights(L.Recs)
	for _, fk := range fks {
		dir := k.subdir("t")
		if err := copyGroup(L, dir, fk, true); err != nil {
			c.Inconclusive("harness: " + err.Error())
			return
		}
		bw, err := cs.NewWAL(filepath.Join(dir, walBase))
		if err != nil {
			k.violate(&viol{"clean/group/open", err.Error(), nil}, nil)
			return
		}
		g := bw.Group()
		stop := false
		misalignedHere := false
		for _, m := range L.Misaligned {
			if m <= fk {
				misalignedHere = true
			}
		}
		for ci, x := range cutPoints(L, fk) {
			if err := os.Truncate(filepath.Join(dir, walBase), int64(x)); err != nil {
				c.Inconclusive("harness: " + err.Error())
				stop = true
				break
			}
			o := L.Base[fk] + x
			kc := L.completeBefore(o)
			torn := kc < len(L.Recs) && L.Recs[kc].Start < o
			d := damage{Lane: "group", Kind: "truncate", Off: o}
			L.describe(&d)
			gr, err := g.NewReader(g.MinIndex())
			if err != nil {
				k.violate(&viol{"group/new-reader", err.Error(), nil}, &d)
				stop = true
				break
			}
			out := decodeRun(gr, L.Recs, 0, n)
			gr.Close()
			c.Count("trunc_variants_group", 1)
			c.Count("end_group_truncate_"+out.ErrClass, 1)
			if v := judgeRun(out, d, kc); v != nil {
				k.violate(v, &d)
				stop = true
				break
			}
			if out.N > kc {
				// identical content although bytes are missing (zero tail): not a violation of the prefix
				// clause; for markers the search oracle below decides ("found iff completely written")
				c.Count("incomplete_tail_accepted_identical_group", 1)
			}
			// marker searches on this crash image
			if rk := L.recAt(o); rk >= 0 && L.Recs[rk].IsMarker {
				if o > L.Recs[rk].Start {
					c.Count("cuts_inside_marker_record", 1)
				} else {
					c.Count("cuts_right_before_marker", 1)
				}
			}
			if kc > 0 && L.Recs[kc-1].IsMarker && L.Recs[kc-1].End == o {
				c.Count("cuts_right_after_marker", 1)
			}
			ignore := ci%5 != 4
			type q struct {
				h      uint64
				strict bool
				miss   string
			}
			var qs []q
			tornWord := "cut-at-record-boundary"
			if torn {
				tornWord = "torn-record"
			}
			if mi := lastMarker(L, kc, func(int) bool { return true }); mi >= 0 {
				miss := tornWord + "-after-marker-in-same-file"
				if L.fileOf(L.Recs[mi].Start) < fk && x > 0 {
					miss = tornWord + "-in-newer-file"
				}
				if misalignedHere {
					miss = "file-starts-mid-record"
				}
				qs = append(qs, q{L.Recs[mi].Height, ignore, miss})
			}
			if mo := lastMarker(L, kc, func(f int) bool { return f < fk }); mo >= 0 && x > 0 && (len(qs) == 0 || qs[0].h != L.Recs[mo].Height) {
				miss := tornWord + "-in-newer-file"
				if misalignedHere {
					miss = "file-starts-mid-record"
				}
				qs = append(qs, q{L.Recs[mo].Height, ignore, miss})
			}
			for i := kc; i < len(L.Recs); i++ { // first marker not completely present
				if L.Recs[i].IsMarker && L.Recs[i].Height > 0 {
					qs = append(qs, q{L.Recs[i].Height, false, ""})
					break
				}
			}
			if ci%8 == 0 {
				qs = append(qs, q{absent[0], false, ""})
			}
			for _, qq := range qs {
				info := searchInfo{Context: fmt.Sprintf("crash image: files 0..%d, file %d cut at %d of %d bytes (log offset %d, %d complete records, torn record follows: %v)", fk, fk, x, len(L.Files[fk]), o, kc, torn), CutFile: fk, CutAt: o}
				c.Count("search_on_crash_images", 1)
				if v := checkSearch(k, bw, L.Recs, kc, qq.h, ignore, qq.strict, qq.miss, info, n); v != nil {
					k.violate(v, &d)
				}
			}
			if len(k.seen) > 6 || k.stop {
				stop = true
				break
			}
		}
		g.Close()
		g.Head.Close()
		os.RemoveAll(filepath.Dir(dir))
		if stop {
			return
		}
	}
}

// restartLane: a few crash images around end-height markers are opened the way a node does
// (NewWAL + Start, which appends EndHeightMessage{0} when the head is empty) and searched.
func restartLane(k *caseCtx) {
	c, L := k.c, k.L
	n := len(L.Log)
	var ms []int
	for i := len(L.Recs) - 1; i >= 0 && len(ms) < 3; i-- {
		if L.Recs[i].IsMarker && L.Recs[i].Height > 0 {
			ms = append(ms, i)
		}
	}
	for _, mi := range ms {
		rec := L.Recs[mi]
		for _, o := range []int{rec.Start, rec.Start + 5, rec.End - 1, rec.End} {
			fk := L.fileOf(o)
			if o == len(L.Log) {
				fk = len(L.Files) - 1
			} else if o == L.Base[fk] && fk > 0 && o == rec.End {
				fk-- // cut right after the marker: the marker's file was the head
			}
			x := o - L.Base[fk]
			dir := k.subdir("r")
			if err := copyGroup(L, dir, fk, true); err != nil {
				c.Inconclusive("harness: " + err.Error())
				return
			}
			path := filepath.Join(dir, walBase)
			if err := os.Truncate(path, int64(x)); err != nil {
				c.Inconclusive("harness: " + err.Error())
				return
			}
			w, app, err := openWAL(path)
			if err != nil {
				k.violate(&viol{"restart/open-error", err.Error(), nil}, nil)
				return
			}
			kc := L.completeBefore(o)
			canon := L.Recs
			complete := kc
			if len(app) > 0 {
				// Start appended a record (EndHeightMessage{0} into an empty head): it is part of the written sequence now
				if m, v := initialRecord(app); v != nil {
					k.violate(v, nil)
				} else {
					canon = append(append([]record{}, L.Recs[:kc]...), record{Start: o, End: o + len(app), Bytes: app, Kind: "endheight", IsMarker: true, Height: m.(cs.EndHeightMessage).Height})
					complete = kc + 1
				}
			}
			torn := kc < len(L.Recs) && L.Recs[kc].Start < o
			misalignedHere := false
			for _, m := range L.Misaligned {
				if m <= fk {
					misalignedHere = true
				}
			}
			miss := "restart-after-cut"
			if misalignedHere {
				miss = "file-starts-mid-record"
			} else if torn && mi < kc && L.fileOf(L.Recs[mi].Start) < fk {
				miss = "torn-record-in-newer-file"
			}
			d := damage{Lane: "group", Kind: "truncate", Off: o}
			L.describe(&d)
			info := searchInfo{Context: fmt.Sprintf("restart (NewWAL+Start) on crash image: files 0..%d, file %d cut at %d (log offset %d), marker record [%d,%d)", fk, fk, x, o, rec.Start, rec.End), CutFile: fk, CutAt: o}
			c.Count("restart_variants", 1)
			if v := checkSearch(k, w, canon, complete, rec.Height, true, true, miss, info, n); v != nil {
				k.violate(v, &d)
			}
			closeWAL(w)
			w.Group().Head.Close()
			os.RemoveAll(filepath.Dir(dir))
		}
	}
}
