package c14

import (
	"bytes"
	"fmt"
	"io"
	"runtime/debug"
	"runtime/metrics"
	"strings"

	cs "github.com/lianxiangcloud/linkchain/consensus"
)

const allocSlack = 64 << 20 // a single decode run may never allocate more than this plus a multiple of the log size

var allocSample = []metrics.Sample{{Name: "/gc/heap/allocs:bytes"}}

func allocBytes() uint64 {
	metrics.Read(allocSample)
	if allocSample[0].Value.Kind() != metrics.KindUint64 {
		return 0
	}
	return allocSample[0].Value.Uint64()
}

func safeDecode(dec *cs.WALDecoder) (m *cs.TimedWALMessage, err error, pv interface{}, stack string) {
	defer func() {
		if r := recover(); r != nil {
			pv = r
			stack = trim(string(debug.Stack()), 3000)
		}
	}()
	m, err = dec.Decode()
	return
}

func trim(s string, n int) string {
	if len(s) > n {
		return s[:n]
	}
	return s
}

func errClass(err error) string {
	switch {
	case err == nil:
		return "none"
	case err == io.EOF:
		return "eof"
	case cs.IsDataCorruptionError(err):
		return "corruption"
	}
	return "other"
}

// runOut is what one decode run (decode until the first error / EOF) observed.
type runOut struct {
	N        int    // messages returned, each equal to the next written one
	ErrClass string // eof | corruption | other
	Err      string
	Bad      *viol // content / order / panic / allocation violation
}

// decodeRun decodes rd with the real WALDecoder until the first error. The reader is
// positioned at the first byte of canon[s]. Every returned message is re-encoded with the
// real encoder and must be byte-identical to the next written record.
func decodeRun(rd io.Reader, canon []record, s int, logLen int) (out runOut) {
	a0 := allocBytes()
	dec := cs.NewWALDecoder(rd)
	var buf bytes.Buffer
	enc := cs.NewWALEncoder(&buf)
	for j := s; ; j++ {
		m, err, pv, stack := safeDecode(dec)
		if pv != nil {
			out.Bad = &viol{"decode/panic", fmt.Sprintf("WALDecoder.Decode panicked at record %d: %v", j, pv), stack}
			out.ErrClass = "panic"
			return
		}
		if err != nil {
			out.ErrClass, out.Err = errClass(err), err.Error()
			if m != nil {
				out.Bad = &viol{"decode/message-with-error", fmt.Sprintf("Decode returned a message together with error %v at record %d", err, j), nil}
			}
			break
		}
		if m == nil {
			out.Bad = &viol{"decode/nil-without-error", fmt.Sprintf("Decode returned (nil, nil) at record %d", j), nil}
			return
		}
		buf.Reset()
		if e := func() (e error) {
			defer func() {
				if r := recover(); r != nil {
					e = fmt.Errorf("re-encode panicked: %v", r)
				}
			}()
			return enc.Encode(m)
		}(); e != nil {
			out.Bad = &viol{"decode/unencodable-message", fmt.Sprintf("record %d decoded to a message the encoder cannot encode: %v", j, e), nil}
			return
		}
		if j >= len(canon) {
			out.Bad = &viol{"decode/invented-message", fmt.Sprintf("a message (%s) was returned after the last written record (%d written)", cs.VerifWALDescribe(m.Msg), len(canon)), nil}
			return
		}
		if !bytes.Equal(buf.Bytes(), canon[j].Bytes) {
			for q := range canon {
				if bytes.Equal(buf.Bytes(), canon[q].Bytes) {
					out.Bad = &viol{"decode/duplicate-or-reordered", fmt.Sprintf("position %d of the read-back sequence is written record %d (%s)", j, q, canon[q].Kind), nil}
					return
				}
			}
			out.Bad = &viol{"decode/wrong-content", fmt.Sprintf("position %d: returned %s, which is not written record %d (%s) nor any other written record", j, cs.VerifWALDescribe(m.Msg), j, canon[j].Kind), nil}
			return
		}
		out.N++
	}
	if d := allocBytes() - a0; d > allocSlack+uint64(32*logLen) {
		out.Bad = &viol{"decode/unbounded-allocation", fmt.Sprintf("decoding a %d byte log allocated %d bytes", logLen, d), nil}
	}
	return
}

// damage describes one damaged variant for messages and witnesses.
type damage struct {
	Lane   string `json:"lane"`   // plain | group
	Kind   string `json:"kind"`   // truncate | corrupt
	Off    int    `json:"offset"` // offset in the concatenated log
	Old    byte   `json:"old_byte,omitempty"`
	New    byte   `json:"new_byte,omitempty"`
	Rec    int    `json:"record"`          // record containing the offset (-1: none)
	Field  string `json:"field,omitempty"` // crc | length | payload
	RecOff int    `json:"offset_in_record"`
	From   int    `json:"decode_started_at_record"`
}

func (L *layout) describe(d *damage) {
	d.Rec = L.recAt(d.Off)
	if d.Rec >= 0 {
		d.RecOff = d.Off - L.Recs[d.Rec].Start
		switch {
		case d.RecOff < 4:
			d.Field = "crc"
		case d.RecOff < 8:
			d.Field = "length"
		default:
			d.Field = "payload"
		}
	}
}

// judgeRun applies the prefix oracle to a decode run over a damaged variant.
// need = number of records (from d.From) that lie wholly before the damage and therefore
// must be returned intact.
func judgeRun(out runOut, d damage, need int) *viol {
	if out.Bad != nil {
		v := *out.Bad
		v.Key = v.Key + "/" + d.Kind
		return &v
	}
	// a byte altered in the checksum or payload of a completely present record is caught by the checksum: the
	// reader must stop there with an error of the distinct corruption class (what SearchForEndHeight's
	// IgnoreDataCorruptionErrors and catchupReplay key on), not with a generic error
	if d.Kind == "corrupt" && (d.Field == "crc" || d.Field == "payload") && out.N == need && out.ErrClass != "corruption" && out.ErrClass != "panic" {
		return &viol{"damage/checksum-failure-not-reported-as-corruption/" + d.Field, fmt.Sprintf("byte %d (%s of record %d) altered: the decoder stopped there with %s %q instead of a data-corruption error", d.Off, d.Field, d.Rec, out.ErrClass, out.Err), nil}
	}
	if out.N < need {
		return &viol{"damage/intact-record-lost/" + d.Kind, fmt.Sprintf("%d records lie wholly before the damage (decode started at record %d) but only %d were returned before %s (%s)", need, d.From, out.N, out.ErrClass, out.Err), nil}
	}
	return nil
}

func shortErr(s string) string {
	if i := strings.Index(s, ":"); i > 0 && i < 60 {
		s = s[:i]
	}
	return trim(s, 60)
}
