package c14

import (
	"fmt"
	"time"

	cs "github.com/lianxiangcloud/linkchain/consensus"
	cstypes "github.com/lianxiangcloud/linkchain/consensus/types"
	"github.com/lianxiangcloud/linkchain/libs/common"
	"github.com/lianxiangcloud/linkchain/libs/crypto"
	"github.com/lianxiangcloud/linkchain/libs/crypto/merkle"
	"github.com/lianxiangcloud/linkchain/types"

	"verif/h/internal/rng"
)

// op is one step of the write phase. The whole plan is generated up-front from
// the case PRNG so that it can be re-executed (replay, witness shrinking).
type op struct {
	K     string        // "w" write a record, "tick" head-size check, "flush", "restart"
	Kind  string        // record kind (w)
	Msg   cs.WALMessage // record payload (w)
	Sync  bool          // WriteSync instead of Write (w)
	Size  int           // part payload bytes (w, part)
	H     uint64        // marker height (w, endheight)
	Limit int64         // head size limit in force at the tick (tick)
}

func (o op) String() string {
	switch o.K {
	case "w":
		s := "Write"
		if o.Sync {
			s = "WriteSync"
		}
		switch o.Kind {
		case "part":
			return fmt.Sprintf("%s(part %dB)", s, o.Size)
		case "endheight":
			return fmt.Sprintf("%s(EndHeight %d)", s, o.H)
		}
		return fmt.Sprintf("%s(%s)", s, o.Kind)
	case "tick":
		return fmt.Sprintf("tick(limit=%d)", o.Limit)
	}
	return o.K
}

type plan struct {
	Class    string // small | medium | large | mini
	Limit    int64  // head size limit of the case (0 = default 10 MiB, never reached)
	Faithful bool   // node's sync discipline (own msgs + markers WriteSync, everything else Write)
	Ops      []op
	// Rotator > 0: while the records are written, a second goroutine calls Group.RotateFile() up to Rotator times
	// (what the group's ticker goroutine does concurrently in production). Whatever the interleaving, every file
	// must begin at a record boundary; more than 999 rotations also take the file index past three digits.
	Rotator int
	// PreRotate: rotations made before the first record of the plan is written (the records then live in files
	// whose index has more than three digits when PreRotate > 999).
	PreRotate int
	// TickAfter[n]: the rotation tick fires right after the n-th Group.Write call of the encoder has returned
	// (the tick goroutine takes the group's lock between two Write calls; with one Write per record that is
	// always a record boundary).
	TickAfter map[int]bool
}

func (p *plan) describe(max int) []string {
	var out []string
	for i, o := range p.Ops {
		if i >= max {
			out = append(out, fmt.Sprintf("... %d more", len(p.Ops)-max))
			break
		}
		out = append(out, o.String())
	}
	return out
}

var stepNames = []cstypes.RoundStepType{
	cstypes.RoundStepNewHeight, cstypes.RoundStepNewRound, cstypes.RoundStepPropose, cstypes.RoundStepPrevote,
	cstypes.RoundStepPrevoteWait, cstypes.RoundStepPrecommit, cstypes.RoundStepPrecommitWait, cstypes.RoundStepCommit, cstypes.RoundStepRecover,
}

func genTime(r *rng.R) time.Time {
	switch r.Intn(8) {
	case 0:
		return time.Time{}
	case 1:
		return time.Unix(int64(r.Intn(1<<31)), 0).UTC()
	}
	return time.Unix(1500000000+int64(r.Intn(1<<28)), int64(r.Intn(1000000000))).UTC()
}

func genSig(r *rng.R) crypto.Signature {
	var s crypto.SignatureEd25519
	if r.Chance(0.1) {
		return s // all-zero signature
	}
	copy(s[:], r.Bytes(len(s)))
	return s
}

func genPSH(r *rng.R) types.PartSetHeader {
	if r.Chance(0.15) {
		return types.PartSetHeader{}
	}
	return types.PartSetHeader{Total: r.Range(1, 40), Hash: r.Bytes([]int{20, 32}[r.Intn(2)])}
}

func genBlockID(r *rng.R) types.BlockID {
	if r.Chance(0.25) {
		return types.BlockID{} // nil vote
	}
	var h common.Hash
	copy(h[:], r.Bytes(len(h)))
	return types.BlockID{Hash: h, PartsHeader: genPSH(r)}
}

func genPeer(r *rng.R, force bool) string {
	if !force && r.Chance(0.35) {
		return "" // internal message (the node's own proposal / part / vote)
	}
	return fmt.Sprintf("%x", r.Bytes(20))
}

func genPartBytes(r *rng.R, n int) []byte {
	b := r.Bytes(n)
	switch r.Intn(6) {
	case 0: // all zero
		for i := range b {
			b[i] = 0
		}
	case 1: // zero tail
		for i := n / 2; i < n; i++ {
			b[i] = 0
		}
	case 2: // 0xFF heavy
		for i := range b {
			if i%3 != 0 {
				b[i] = 0xFF
			}
		}
	}
	return b
}

// genRecord builds one WAL payload of the given kind for height h.
func genRecord(r *rng.R, kind string, h uint64, partSize int, fromPeer bool) op {
	o := op{K: "w", Kind: kind}
	round := r.Intn(4)
	switch kind {
	case "vote":
		v := &types.Vote{
			ValidatorAddress: crypto.Address(r.Bytes(20)), ValidatorIndex: r.Intn(100), ValidatorSize: r.Range(1, 100),
			Height: h, Round: round, Timestamp: genTime(r), Type: byte(r.Range(1, 2)), BlockID: genBlockID(r), Signature: genSig(r),
		}
		peer := genPeer(r, fromPeer)
		o.Msg = cs.VerifWALMsg(&cs.VoteMessage{Vote: v}, peer)
		o.Sync = peer == ""
	case "proposal":
		p := &types.Proposal{Type: byte(r.Intn(3)), Height: h, Round: round, Timestamp: genTime(r), BlockPartsHeader: genPSH(r),
			POLRound: r.Range(-1, 3), POLBlockID: genBlockID(r), Signature: genSig(r)}
		peer := genPeer(r, fromPeer)
		o.Msg = cs.VerifWALMsg(&cs.ProposalMessage{Proposal: p}, peer)
		o.Sync = peer == ""
	case "part":
		var aunts [][]byte
		for i, n := 0, r.Intn(7); i < n; i++ {
			aunts = append(aunts, r.Bytes([]int{20, 32}[r.Intn(2)]))
		}
		part := &types.Part{Index: r.Intn(40), Bytes: genPartBytes(r, partSize), Proof: merkle.SimpleProof{Aunts: aunts}}
		peer := genPeer(r, fromPeer)
		o.Msg = cs.VerifWALMsg(&cs.BlockPartMessage{Height: h, Round: round, Part: part}, peer)
		o.Sync = peer == ""
		o.Size = partSize
	case "timeout":
		o.Msg = cs.VerifWALTimeout(time.Duration(r.Intn(10000))*time.Millisecond, h, round, stepNames[r.Intn(len(stepNames))])
	case "step":
		// what newStep writes: cs.RoundStateEvent() (the RoundState pointer is not serialised)
		o.Msg = types.EventDataRoundState{Height: h, Round: round, Step: stepNames[r.Intn(len(stepNames))].String(), RoundState: &struct{ X int }{1}}
	case "endheight":
		o.Msg = cs.EndHeightMessage{Height: h}
		o.H = h
		o.Sync = true
	}
	return o
}

var startHeights = []uint64{1, 1, 1, 2, 7, 120, 250, 254, 255, 65533, 65535, 1<<24 - 2, 1<<32 - 2, 1 << 40}

var bigParts = []int{40000, 40911, 40959, 40960, 40961, 41000, 50000, 65535, 65536}

func genPlan(r *rng.R, tier string) *plan {
	p := &plan{}
	x := r.Intn(100)
	var nrec int
	var partMax int
	switch {
	case x < 42:
		p.Class, nrec, partMax = "small", r.Range(5, 18), 120
	case x < 68:
		p.Class, nrec, partMax = "medium", r.Range(10, 60), 4096
	case x < 82:
		p.Class, nrec, partMax = "mini", r.Range(3, 7), 200
	default:
		p.Class, nrec, partMax = "large", r.Range(8, 40), 8192
	}
	p.Limit = []int64{1024, 4096, 65536, 0}[r.Intn(4)]
	p.Faithful = r.Chance(0.7)
	tickP := []float64{0.1, 0.3, 0.6}[r.Intn(3)]
	flushP := []float64{0, 0.1, 0.4}[r.Intn(3)]
	h := startHeights[r.Intn(len(startHeights))]
	bigLeft := 0
	switch p.Class {
	case "large":
		bigLeft = r.Range(1, 3)
	case "mini":
		bigLeft = 1
	}
	lim := func() int64 {
		l := p.Limit
		if r.Chance(0.25) {
			l = 1 // "RotateFile() between random writes": rotate whenever anything reached the file
		}
		if l == 0 {
			l = 10 * 1024 * 1024
		}
		return l
	}
	sinceMarker := 0
	for i := 0; i < nrec; i++ {
		var kind string
		y := r.Intn(100)
		switch {
		case y < 28:
			kind = "vote"
		case y < 36:
			kind = "proposal"
		case y < 58:
			kind = "part"
		case y < 68:
			kind = "timeout"
		case y < 86:
			kind = "step"
		default:
			kind = "endheight"
		}
		if sinceMarker > 12 && r.Chance(0.5) {
			kind = "endheight"
		}
		size := 0
		big := false
		if bigLeft > 0 && kind != "endheight" {
			if nrec-i <= bigLeft || r.Chance(0.2) {
				big = true
			}
		}
		switch {
		case big:
			kind = "part"
			size = bigParts[r.Intn(len(bigParts))]
			bigLeft--
		case kind == "part" && r.Chance(0.2):
			size = r.Range(1, 8)
		case kind == "part":
			size = r.Range(1, partMax)
		}
		// the node's usual pattern around a large part: an unsynced step event, the part received
		// from a peer (Write, not WriteSync), and the group's ticker firing some time later
		fromPeer := big && r.Chance(0.8)
		if fromPeer && r.Chance(0.7) {
			p.Ops = append(p.Ops, genRecord(r, "step", h, 0, false))
		}
		o := genRecord(r, kind, h, size, fromPeer)
		if !p.Faithful {
			o.Sync = r.Chance(0.3)
			if fromPeer {
				o.Sync = false
			}
		}
		p.Ops = append(p.Ops, o)
		if fromPeer && r.Chance(0.6) {
			p.Ops = append(p.Ops, op{K: "tick", Limit: lim()})
		}
		sinceMarker++
		if kind == "endheight" {
			sinceMarker = 0
			h++
			if r.Chance(0.1) {
				h += uint64(r.Range(1, 3)) // gap (fast sync)
			}
		}
		if r.Chance(flushP) {
			p.Ops = append(p.Ops, op{K: "flush"})
		}
		if r.Chance(tickP) {
			p.Ops = append(p.Ops, op{K: "tick", Limit: lim()})
		}
		if r.Chance(0.04) {
			p.Ops = append(p.Ops, op{K: "restart"})
		}
	}
	return p
}
