package c14

import (
	"bytes"
	"encoding/binary"
	"fmt"
	"hash/crc32"
	"io"
	"io/ioutil"
	"os"
	"path/filepath"
	"regexp"
	"runtime"
	"sort"
	"strconv"
	"sync/atomic"

	cs "github.com/lianxiangcloud/linkchain/consensus"
	auto "github.com/lianxiangcloud/linkchain/libs/autofile"
)

const walBase = "wal"

var castagnoli = crc32.MakeTable(crc32.Castagnoli)

// walHandle is what NewWAL returns (the concrete type is unexported).
type walHandle interface {
	cs.WAL
	VerifInterposeGroupWriter(wrap func(io.Writer) io.Writer)
}

// tickingWriter forwards the encoder's writes to the group and runs the group's rotation (what the ticker
// goroutine does once the head is over its limit) right after chosen Group.Write calls have returned.
type tickingWriter struct {
	g     *auto.Group
	calls int
	after map[int]bool
	fired int
}

func (t *tickingWriter) Write(p []byte) (int, error) {
	n, err := t.g.Write(p)
	t.calls++
	if t.after[t.calls] {
		t.g.RotateFile()
		t.fired++
	}
	return n, err
}

// openWAL does what ConsensusState.OpenWAL does: NewWAL + Start. It returns the bytes that
// Start itself appended to the head file (observed on the file system): OnStart writes
// EndHeightMessage{0} into an empty head, and that record is part of the written sequence.
func openWAL(path string) (w walHandle, appended []byte, err error) {
	before := int64(0)
	if st, serr := os.Stat(path); serr == nil {
		before = st.Size()
	}
	bw, err := cs.NewWAL(path)
	if err != nil {
		return nil, nil, err
	}
	if err := bw.Start(); err != nil {
		return nil, nil, err
	}
	// the background ticker must never decide anything: with limits 0 both of its checks are
	// no-ops; rotation is driven by explicit ticks (see tick).
	bw.Group().SetHeadSizeLimit(0)
	bw.Group().SetTotalSizeLimit(0)
	if b, rerr := ioutil.ReadFile(path); rerr == nil && int64(len(b)) > before {
		appended = b[before:]
	}
	return bw, appended, nil
}

// initialRecord judges what Start appended: exactly one well-formed record that decodes to an
// end-height marker (the node relies on EndHeightMessage{0} opening a fresh log).
func initialRecord(appended []byte) (cs.WALMessage, *viol) {
	recs, _, why := parseFrames(appended)
	if why != "" || len(recs) != 1 {
		return nil, &viol{"start/initial-write-malformed", fmt.Sprintf("Start appended %d bytes that are not exactly one framed record (%d records, %s)", len(appended), len(recs), why), nil}
	}
	d, err := cs.NewWALDecoder(bytes.NewReader(appended)).Decode()
	if err != nil {
		return nil, &viol{"start/initial-write-malformed", "the record appended by Start does not decode: " + err.Error(), nil}
	}
	m, ok := d.Msg.(cs.EndHeightMessage)
	if !ok {
		return nil, &viol{"start/initial-write-unexpected", "Start appended " + cs.VerifWALDescribe(d.Msg), nil}
	}
	return m, nil
}

func closeWAL(w walHandle) {
	w.Stop()
	w.Wait()
}

// tick performs the steps of Group.checkHeadSizeLimit (what the group's ticker goroutine does
// every 5 s in production: compare Head.Size() with the head size limit, RotateFile() when it is
// reached) at a generated point of the plan. The limit is kept in the plan and is never installed
// in the group: the group's own limits stay 0, so the real ticker goroutine (whose timing is not
// under the harness' control) never rotates or scans concurrently.
func tick(g *auto.Group, limit int64) (rotated bool) {
	if limit == 0 {
		return false
	}
	size, err := g.Head.Size()
	if err != nil {
		panic(err)
	}
	if size >= limit {
		g.RotateFile()
		return true
	}
	return false
}

// record is one framed record found in the clean log by the reference parser.
type record struct {
	Start, End int // offsets in the concatenated log
	Bytes      []byte
	Kind       string
	Height     uint64 // endheight only
	IsMarker   bool
}

// layout is the observed on-disk result of a write phase plus the oracle data.
type layout struct {
	Dir       string
	Names     []string // file names in group order, last = head
	Files     [][]byte
	Base      []int // offset of each file in the concatenation
	Log       []byte
	Recs      []record
	Written   []cs.WALMessage
	Kinds     []string
	Rotations int
	Restarts  int
	// Misaligned lists the files (index > 0) whose first byte is not the first byte of a record.
	Misaligned []int
	// TicksBetweenWrites: rotations fired by the interposed writer between two Group.Write calls.
	TicksBetweenWrites int
}

var idxRe = regexp.MustCompile(`^` + walBase + `\.([0-9]{3,})$`)

// readDir lists the group's files in order, independently of Group.readGroupInfo.
func readDir(dir string) (names []string, files [][]byte, err error) {
	fis, err := ioutil.ReadDir(dir)
	if err != nil {
		return nil, nil, err
	}
	type nf struct {
		idx  int
		name string
	}
	var idxd []nf
	head := false
	for _, fi := range fis {
		if fi.Name() == walBase {
			head = true
			continue
		}
		if m := idxRe.FindStringSubmatch(fi.Name()); m != nil {
			n, _ := strconv.Atoi(m[1])
			idxd = append(idxd, nf{n, fi.Name()})
		}
	}
	sort.Slice(idxd, func(i, j int) bool { return idxd[i].idx < idxd[j].idx })
	for i, f := range idxd {
		if f.idx != idxd[0].idx+i {
			return nil, nil, fmt.Errorf("gap in rotated file indices: %v", idxd)
		}
		names = append(names, f.name)
	}
	if head {
		names = append(names, walBase)
	}
	for _, n := range names {
		b, err := ioutil.ReadFile(filepath.Join(dir, n))
		if err != nil {
			return nil, nil, err
		}
		files = append(files, b)
	}
	if !head {
		return names, files, fmt.Errorf("no head file")
	}
	return names, files, nil
}

// parseFrames is the reference parser of the framing crc32c(4) | length(4) | payload.
// It returns the complete, checksum-correct records and the offset where parsing stopped.
func parseFrames(log []byte) (recs []record, stop int, why string) {
	off := 0
	for off < len(log) {
		if len(log)-off < 8 {
			return recs, off, "partial header"
		}
		crc := binary.BigEndian.Uint32(log[off:])
		n := int(binary.BigEndian.Uint32(log[off+4:]))
		if n == 0 || n > 1024*1024 {
			return recs, off, fmt.Sprintf("implausible length %d", n)
		}
		if len(log)-off-8 < n {
			return recs, off, "partial payload"
		}
		if crc32.Checksum(log[off+8:off+8+n], castagnoli) != crc {
			return recs, off, "checksum mismatch"
		}
		recs = append(recs, record{Start: off, End: off + 8 + n, Bytes: log[off : off+8+n]})
		off += 8 + n
	}
	return recs, off, ""
}

type execResult struct {
	L          *layout
	Violations []viol
}

type viol struct {
	Key, Detail string
	Extra       interface{}
}

func encodeWith(t *cs.TimedWALMessage) ([]byte, error) {
	var w bytes.Buffer
	err := cs.NewWALEncoder(&w).Encode(t)
	return w.Bytes(), err
}

// execPlan runs the write phase of a plan through the real baseWAL in dir and, after a
// proper Stop+Wait and a final restart (as a node does), leaves a started WAL for the marker
// lane. The caller must closeWAL the returned handle.
func execPlan(p *plan, dir string) (w walHandle, L *layout, vs []viol) {
	if err := os.MkdirAll(dir, 0755); err != nil {
		return nil, nil, []viol{{"harness/mkdir", err.Error(), nil}}
	}
	path := filepath.Join(dir, walBase)
	L = &layout{Dir: dir}
	add := func(m cs.WALMessage, kind string) {
		L.Written = append(L.Written, m)
		L.Kinds = append(L.Kinds, kind)
	}
	open := func() bool {
		var app []byte
		var err error
		w, app, err = openWAL(path)
		if err != nil {
			vs = append(vs, viol{"write/open-error", err.Error(), nil})
			return false
		}
		if len(app) > 0 {
			m, v := initialRecord(app)
			if v != nil {
				vs = append(vs, *v)
				closeWAL(w)
				return false
			}
			add(m, "endheight")
		}
		return true
	}
	if !open() {
		return nil, L, vs
	}
	var pv interface{}
	var rotDone chan int
	var rotStop int32
	for i := 0; i < p.PreRotate; i++ {
		w.Group().RotateFile()
		L.Rotations++
	}
	var tw *tickingWriter
	if len(p.TickAfter) > 0 {
		tw = &tickingWriter{g: w.Group(), after: p.TickAfter}
		w.VerifInterposeGroupWriter(func(io.Writer) io.Writer { return tw })
	}
	if p.Rotator > 0 {
		rotDone = make(chan int, 1)
		g := w.Group()
		go func() {
			n := 0
			defer func() {
				recover() // a panic of RotateFile surfaces through the oracles on the files
				rotDone <- n
			}()
			for n < p.Rotator && atomic.LoadInt32(&rotStop) == 0 {
				g.RotateFile()
				n++
				runtime.Gosched()
			}
		}()
	}
	func() {
		defer func() {
			if r := recover(); r != nil {
				pv = r
			}
		}()
		if p.Rotator > 0 {
			// the rotator finishes its (bounded) number of rotations before the log is closed
			defer func() {
				n := <-rotDone
				rotDone <- n
			}()
		}
		for _, o := range p.Ops {
			if p.Rotator > 0 {
				runtime.Gosched() // give the rotator a turn between (and, if the encoder ever splits a record, inside) writes
			}
			switch o.K {
			case "w":
				if o.Sync {
					w.WriteSync(o.Msg)
				} else {
					w.Write(o.Msg)
				}
				add(o.Msg, o.Kind)
			case "flush":
				if err := w.Group().Flush(); err != nil {
					panic(err)
				}
			case "tick":
				if tick(w.Group(), o.Limit) {
					L.Rotations++
				}
			case "restart":
				closeWAL(w)
				L.Restarts++
				if !open() {
					panic("reopen failed")
				}
			}
		}
	}()
	if rotDone != nil {
		atomic.StoreInt32(&rotStop, 1)
		L.Rotations += <-rotDone
	}
	if tw != nil {
		L.Rotations += tw.fired
		L.TicksBetweenWrites = tw.fired
	}
	if pv != nil {
		vs = append(vs, viol{"write/panic", fmt.Sprintf("the WAL panicked during the write phase: %v", pv), nil})
		if w != nil {
			func() { defer func() { recover() }(); closeWAL(w) }()
		}
		return nil, L, vs
	}
	// orderly shutdown, then restart like a node
	closeWAL(w)
	L.Restarts++
	if !open() {
		return nil, L, vs
	}
	if v := snapshot(L); v != nil {
		vs = append(vs, *v)
	}
	return w, L, vs
}

// snapshot reads the files, runs the reference parser and ties every record to the written
// sequence: record i must be Encode({time stored in record i, written[i]}).
func snapshot(L *layout) *viol {
	names, files, err := readDir(L.Dir)
	if err != nil {
		return &viol{"clean/files", err.Error(), names}
	}
	L.Names, L.Files = names, files
	L.Base = nil
	L.Log = nil
	for _, f := range files {
		L.Base = append(L.Base, len(L.Log))
		L.Log = append(L.Log, f...)
	}
	sizes := make([]int, len(files))
	for i := range files {
		sizes[i] = len(files[i])
	}
	recs, stop, why := parseFrames(L.Log)
	if why != "" {
		return &viol{"clean/log-not-a-record-sequence", fmt.Sprintf("after an orderly Stop the concatenated files are not a sequence of framed records: %s at offset %d of %d (after %d records, %d written); file sizes %v", why, stop, len(L.Log), len(recs), len(L.Written), sizes), nil}
	}
	if len(recs) != len(L.Written) {
		return &viol{"clean/record-count", fmt.Sprintf("%d records on disk, %d written; file sizes %v", len(recs), len(L.Written), sizes), nil}
	}
	for i := range recs {
		d, err := cs.NewWALDecoder(bytes.NewReader(recs[i].Bytes)).Decode()
		if err != nil {
			return &viol{"clean/record-undecodable", fmt.Sprintf("record %d (%s) of the undamaged log: %v", i, L.Kinds[i], err), nil}
		}
		want, err := encodeWith(&cs.TimedWALMessage{Time: d.Time, Msg: L.Written[i]})
		if err != nil || !bytes.Equal(want, recs[i].Bytes) {
			return &viol{"clean/record-content", fmt.Sprintf("record %d on disk is not the encoding of written message %d (%s), err=%v", i, i, L.Kinds[i], err), nil}
		}
		recs[i].Kind = L.Kinds[i]
		if m, ok := L.Written[i].(cs.EndHeightMessage); ok {
			recs[i].IsMarker, recs[i].Height = true, m.Height
		}
	}
	L.Recs = recs
	L.Misaligned = nil
	for k := 1; k < len(files); k++ {
		if len(files[k]) == 0 {
			continue
		}
		aligned := false
		for i := range recs {
			if recs[i].Start == L.Base[k] {
				aligned = true
				break
			}
		}
		if !aligned {
			L.Misaligned = append(L.Misaligned, k)
		}
	}
	return nil
}

// fileOf returns the index of the file holding concatenation offset off.
func (L *layout) fileOf(off int) int {
	k := 0
	for i := range L.Base {
		if L.Base[i] <= off {
			k = i
		}
	}
	return k
}

// completeBefore returns how many records end at or before off.
func (L *layout) completeBefore(off int) int {
	return sort.Search(len(L.Recs), func(i int) bool { return L.Recs[i].End > off })
}

// recAt returns the index of the record containing offset off (-1 if past the end).
func (L *layout) recAt(off int) int {
	i := sort.Search(len(L.Recs), func(i int) bool { return L.Recs[i].End > off })
	if i >= len(L.Recs) {
		return -1
	}
	return i
}
