package c15

import (
	"fmt"
	"math/big"
	"sync"
	"time"

	cfg "github.com/lianxiangcloud/linkchain/config"
	"github.com/lianxiangcloud/linkchain/libs/common"
	lt "github.com/lianxiangcloud/linkchain/libs/cryptonote/types"
	dbm "github.com/lianxiangcloud/linkchain/libs/db"
	"github.com/lianxiangcloud/linkchain/mempool"
	"github.com/lianxiangcloud/linkchain/types"

	"verif/h/internal/chainkit"
	"verif/h/internal/core"
	"verif/h/internal/rng"
	"verif/shim/goshim"
)

// ---------------------------------------------------------------- constants of the generated world

const (
	worldSeed  = 0xC15 // keys of accounts / validators / wallets: constant, the case seed drives the history only
	numRich    = 6     // genesis accounts used as senders (further genesis accounts are pure recipients)
	numGenesis = 8
	numPoor    = 2 // accounts funded with a few LKC during warm-up (their 3rd..4th transfer is underfunded)
	numWallets = 3
	never      = 1000000 * time.Hour
)

var (
	e15      = big.NewInt(1e15)
	e18      = big.NewInt(1e18)
	e20, _   = new(big.Int).SetString("100000000000000000000", 10)
	utxoUnit = big.NewInt(1e10)
	tokenID  = common.HexToAddress("0x00000000000000000000000000000000000c15aa")
	lkcToken = common.EmptyAddress
)

func mulInt(a *big.Int, k int64) *big.Int { return new(big.Int).Mul(a, big.NewInt(k)) }

// ---------------------------------------------------------------- warm chain (built once per process and per MaxTxs)

// warmChain is a short committed prefix shared by all cases: poor accounts funded, a dozen confidential
// outputs on chain, one of them already spent. Cases open two fresh nodes over copies of its databases.
type warmChain struct {
	g          *chainkit.Genesis
	dbs        map[string][][2][]byte
	lastCommit *types.Commit
	blocks     []*types.Block
	poor       []chainkit.Account
	unfunded   chainkit.Account
}

var (
	warmMu    sync.Mutex
	warmCache = map[int]*warmChain{}
)

func snapDB(db dbm.DB) [][2][]byte {
	var out [][2][]byte
	it := db.Iterator(nil, nil)
	defer it.Close()
	for ; it.Valid(); it.Next() {
		out = append(out, [2][]byte{append([]byte{}, it.Key()...), append([]byte{}, it.Value()...)})
	}
	return out
}

func (wc *warmChain) cloneDBs() map[string]dbm.DB {
	out := map[string]dbm.DB{}
	for _, n := range chainkit.DBNames {
		db := dbm.NewMemDB()
		for _, kv := range wc.dbs[n] {
			db.Set(kv[0], kv[1])
		}
		out[n] = db
	}
	return out
}

func quietCfg() *cfg.MempoolConfig {
	mc := cfg.DefaultMempoolConfig()
	mc.Broadcast = false
	mc.CacheSize = 0 // nop dedup cache: the oracle replica does not need it (and it is heavy)
	mc.Lifetime = never
	return mc
}

func newWallets() []*chainkit.UWallet {
	var ws []*chainkit.UWallet
	for i := 0; i < numWallets; i++ {
		ws = append(ws, chainkit.NewUWallet(worldSeed, i, 1))
	}
	return ws
}

// warmViolation: the (fixed, all-valid) warm-up already contradicts the property.
type warmViolation struct{ msg string }

func (e *warmViolation) Error() string { return e.msg }

func getWarm(maxTxs int) (*warmChain, error) {
	warmMu.Lock()
	defer warmMu.Unlock()
	if wc := warmCache[maxTxs]; wc != nil {
		return wc, nil
	}
	goshim.Seed([]byte("c15-warm"))
	g, err := chainkit.BuildGenesis(chainkit.GenesisOpts{Seed: worldSeed, NumAccounts: numGenesis, Powers: []int64{10, 10, 10, 10},
		MaxTxs: maxTxs, Tokens: []common.Address{tokenID}, TokenBalance: big.NewInt(1000000000000)})
	if err != nil {
		return nil, err
	}
	a, err := g.NewNode(chainkit.NodeOpts{MemCfg: quietCfg()})
	if err != nil {
		return nil, err
	}
	defer a.Close()
	wc := &warmChain{g: g, lastCommit: chainkit.NilCommit()}
	for i := 0; i < numPoor; i++ {
		wc.poor = append(wc.poor, chainkit.NewAccount(worldSeed, 100+i))
	}
	wc.unfunded = chainkit.NewAccount(worldSeed, 200)
	ws := newWallets()
	led := chainkit.NewLedger(ws)
	r := rng.New(worldSeed)
	nonce := map[int]uint64{}
	var pending []types.Tx
	flush := func() error {
		for len(pending) > 0 {
			n := len(pending)
			if maxTxs > 0 && n > maxTxs {
				n = maxTxs
			}
			for _, tx := range pending[:n] {
				if err := a.Mempool.AddTx("", tx); err != nil {
					return fmt.Errorf("warm-up AddTx: %v", err)
				}
			}
			pending = pending[n:]
			blk, c, err := a.Step(g, wc.lastCommit)
			if err != nil {
				// all of these were admitted by the pool: a block of them that does not execute is the property's subject
				return &warmViolation{fmt.Sprintf("warm-up: a block built from %d admitted valid transactions fails: %v", n, err)}
			}
			if int(blk.NumTxs) != n {
				return &warmViolation{fmt.Sprintf("warm-up: the pool admitted %d valid transactions (caps far away) but offered %d for the block", n, blk.NumTxs)}
			}
			wc.lastCommit = c
			wc.blocks = append(wc.blocks, blk)
			led.ScanBlock(blk)
		}
		return nil
	}
	for i, p := range wc.poor {
		tx, err := chainkit.NewTransfer(g.Accounts[0], nonce[0], p.Addr, mulInt(e18, int64(3+i)))
		if err != nil {
			return nil, err
		}
		nonce[0]++
		pending = append(pending, tx)
	}
	for i := 1; i <= 4; i++ {
		var dests []types.DestEntry
		total := new(big.Int)
		for k := 0; k < 3; k++ {
			amt := mulInt(e20, int64(2+r.Intn(6)))
			dests = append(dests, chainkit.Dest(ws[(i+k)%numWallets], uint64(k%2), amt))
			total.Add(total, amt)
		}
		tx, err := chainkit.NewAinTx(g.Accounts[i], nonce[i], dests, chainkit.UtxoFeeAinToU(total))
		if err != nil {
			return nil, err
		}
		nonce[i]++
		pending = append(pending, tx)
	}
	if err := flush(); err != nil {
		return nil, err
	}
	// one confidential output spent on chain (a key image the store knows as spent)
	sp := led.Spendable(ws[0], lkcToken)
	if len(sp) == 0 {
		return nil, fmt.Errorf("warm-up: wallet 0 owns nothing")
	}
	in := sp[0]
	fee := chainkit.UtxoFeeUinToU(a.App.GetUTXOGas())
	utx, err := led.NewUinTx(r, ws[0], []*chainkit.OwnedOut{in}, 1, []types.DestEntry{chainkit.Dest(ws[1], 0, new(big.Int).Sub(in.Amount, fee))})
	if err != nil {
		return nil, err
	}
	pending = append(pending, utx)
	if err := flush(); err != nil {
		return nil, err
	}
	wc.dbs = map[string][][2][]byte{}
	for _, n := range chainkit.DBNames {
		wc.dbs[n] = snapDB(a.DBs[n])
	}
	warmCache[maxTxs] = wc
	return wc, nil
}

// ---------------------------------------------------------------- the world of one case

type poolCfg struct {
	Size, FutureSize, UTXOSize, AccountQueue, MaxReapSize int
	RemoveFutureTx                                        bool
	MaxTxs                                                int  // consensus parameter BlockSize.MaxTxs (what CreateBlock passes to Reap)
	DropTimeZero                                          bool // some commits of this case run with GoodTxDropTime = 0
	UnderpaidAin                                          bool // the history contains account->confidential transactions paying less than the chain's fee
}

func (p poolCfg) String() string {
	return fmt.Sprintf("Size=%d Future=%d UTXO=%d AcctQueue=%d RemoveFuture=%v MaxReap=%d MaxTxs=%d drop0=%v underpaidAin=%v",
		p.Size, p.FutureSize, p.UTXOSize, p.AccountQueue, p.RemoveFutureTx, p.MaxReapSize, p.MaxTxs, p.DropTimeZero, p.UnderpaidAin)
}

func genPoolCfg(r *rng.R) poolCfg {
	p := poolCfg{
		Size:         []int{2, 8, 8, 3000, 3000}[r.Intn(5)],
		FutureSize:   []int{2, 6, 100000, 100000}[r.Intn(4)],
		UTXOSize:     []int{1, 3, 1000, 1000}[r.Intn(4)],
		AccountQueue: []int{2, 1000}[r.Intn(2)],
		MaxReapSize:  []int{4, 10000, 10000}[r.Intn(3)],
		MaxTxs:       []int{3, 10000, 10000}[r.Intn(3)],
	}
	p.RemoveFutureTx = r.Chance(0.4)
	p.DropTimeZero = r.Chance(0.2)
	p.UnderpaidAin = r.Chance(0.25)
	return p
}

func (p poolCfg) memCfg() *cfg.MempoolConfig {
	mc := cfg.DefaultMempoolConfig()
	mc.Broadcast = false
	mc.Size = p.Size
	mc.FutureSize = p.FutureSize
	mc.UTXOSize = p.UTXOSize
	mc.AccountQueue = p.AccountQueue
	mc.MaxReapSize = p.MaxReapSize
	mc.RemoveFutureTx = p.RemoveFutureTx
	mc.Lifetime = never // no wall-clock eviction inside a case
	return mc
}

type sender struct {
	chainkit.Account
	Idx  int
	Role string // rich | poor | unfunded
}

// track is the harness' record of one transaction it ever submitted to N (or fed to E as a rival).
type track struct {
	tx       types.Tx
	Hash     common.Hash
	Class    string
	Kind     string // plain | token | ain | uu | ua
	Sender   int    // index into senders, -1 for pure confidential transactions
	HasNonce bool
	Nonce    uint64
	KIs      []lt.Key
	Results  []string // results of the submissions to N, in order
	Accepted bool     // some AddTx on N returned nil
	Rival    bool     // only ever fed to E's pool
	Batch    bool     // built for the running concurrent round, not yet judged
	Round    int      // concurrent round (1-based) that last submitted it
	Loc      string   // where it was after the previous operation: "" good utxo spec future committed
	Injected bool     // submitted from inside a commit (at its pool-lock point): first seen pooled after that commit
}

type opRec struct {
	I     int    `json:"i"`
	Op    string `json:"op"`
	Class string `json:"class,omitempty"`
	Tx    string `json:"tx,omitempty"`
	From  string `json:"from,omitempty"`
	Nonce string `json:"nonce,omitempty"`
	Res   string `json:"res,omitempty"`
	Note  string `json:"note,omitempty"`
}

type world struct {
	c          *core.Ctx
	r          *rng.R
	wc         *warmChain
	g          *chainkit.Genesis
	N, E       *chainkit.Node
	inj        *injectingPool // the application's pool handle of N, with the commit-lock-point hook (sequential lane only)
	injSender  int            // sender of the submission admitted at the lock point of the commit in progress (-1: none)
	pc         poolCfg
	lastCommit *types.Commit
	wallets    []*chainkit.UWallet
	led        *chainkit.Ledger
	senders    []*sender
	byAddr     map[common.Address]*sender
	recips     []common.Address

	committed  map[common.Hash]uint64 // every transaction of every committed block -> height
	spent      map[lt.Key]common.Hash // key images of committed transactions (harness side, independent of the store)
	tracked    map[common.Hash]*track
	order      []common.Hash             // submission order (first submission)
	usedBy     map[lt.Key][]common.Hash  // confidential output (by key image) -> transactions built on it
	taint      map[common.Address]string // sender -> input class of a REJECTED submission that nevertheless advanced the speculative nonce
	taintInfo  map[common.Address]string // the same, readable (for the witness)
	hist       []opRec
	droppedNow []common.Hash // transactions that left the pool (uncommitted) during the operation being judged
	stop       bool          // a violation was reported: the case ends
}

func newWorld(c *core.Ctx, pc poolCfg) (*world, error) {
	wc, err := getWarm(pc.MaxTxs)
	if err != nil {
		return nil, err
	}
	w := &world{c: c, r: c.Rng, wc: wc, g: wc.g, pc: pc, lastCommit: wc.lastCommit,
		byAddr: map[common.Address]*sender{}, committed: map[common.Hash]uint64{}, spent: map[lt.Key]common.Hash{},
		tracked: map[common.Hash]*track{}, usedBy: map[lt.Key][]common.Hash{}, taint: map[common.Address]string{}, taintInfo: map[common.Address]string{}}
	// (GoodTxRebroadcastTime is set once in initProc, before any pool exists: every pool's loop goroutine reads it when it starts)
	mempool.GoodTxDropTime = never // only read by Update, i.e. by the goroutine that commits - the one writing it here
	if w.N, err = chainkit.OpenNode(wc.g, wc.cloneDBs(), chainkit.NodeOpts{MemCfg: pc.memCfg()}); err != nil {
		return nil, fmt.Errorf("open N: %v", err)
	}
	if w.E, err = chainkit.OpenNode(wc.g, wc.cloneDBs(), chainkit.NodeOpts{MemCfg: quietCfg()}); err != nil {
		return nil, fmt.Errorf("open E: %v", err)
	}
	if w.N.Status.LastBlockHeight != uint64(len(wc.blocks)) || w.E.Status.LastBlockHeight != w.N.Status.LastBlockHeight {
		return nil, fmt.Errorf("warm chain not restored: N at %d, E at %d, want %d", w.N.Status.LastBlockHeight, w.E.Status.LastBlockHeight, len(wc.blocks))
	}
	w.wallets = newWallets()
	w.led = chainkit.NewLedger(w.wallets)
	for _, b := range wc.blocks {
		w.noteBlock(b)
	}
	for i := 0; i < numRich; i++ {
		w.senders = append(w.senders, &sender{Account: wc.g.Accounts[i], Idx: len(w.senders), Role: "rich"})
	}
	for _, p := range wc.poor {
		w.senders = append(w.senders, &sender{Account: p, Idx: len(w.senders), Role: "poor"})
	}
	w.senders = append(w.senders, &sender{Account: wc.unfunded, Idx: len(w.senders), Role: "unfunded"})
	for _, s := range w.senders {
		w.byAddr[s.Addr] = s
	}
	for _, a := range wc.g.Accounts {
		w.recips = append(w.recips, a.Addr)
	}
	for _, p := range wc.poor {
		w.recips = append(w.recips, p.Addr)
	}
	return w, nil
}

func (w *world) close() {
	mempool.GoodTxDropTime = never
	if w.N != nil {
		w.N.Close()
	}
	if w.E != nil {
		w.E.Close()
	}
}

// noteBlock records a committed block on the harness side.
func (w *world) noteBlock(b *types.Block) {
	for _, tx := range b.Data.Txs {
		w.committed[tx.Hash()] = b.Height
		if u, ok := tx.(*types.UTXOTransaction); ok {
			for _, ki := range u.GetInputKeyImages() {
				w.spent[*ki] = tx.Hash()
			}
		}
	}
	w.led.ScanBlock(b)
}

func short(h common.Hash) string { return fmt.Sprintf("%x", h[:4]) }

func (w *world) who(a common.Address) string {
	if s := w.byAddr[a]; s != nil {
		return fmt.Sprintf("s%d", s.Idx)
	}
	return fmt.Sprintf("%x", a[:3])
}

func (w *world) log(rec opRec) *opRec {
	rec.I = len(w.hist)
	w.hist = append(w.hist, rec)
	if w.c.Verbose {
		w.c.Logf("%3d %-8s %-14s tx=%s from=%s nonce=%s res=%s %s", rec.I, rec.Op, rec.Class, rec.Tx, rec.From, rec.Nonce, rec.Res, rec.Note)
	}
	return &w.hist[len(w.hist)-1]
}

// acctNonce returns the account (sender, nonce) pair a transaction consumes, if any.
func acctNonce(tx types.Tx) (common.Address, uint64, bool) {
	switch t := tx.(type) {
	case *types.Transaction:
		from, err := t.From()
		return from, t.Nonce(), err == nil
	case *types.TokenTransaction:
		from, err := t.From()
		return from, t.Nonce(), err == nil
	case *types.UTXOTransaction:
		for _, in := range t.Inputs {
			if ai, ok := in.(*types.AccountInput); ok {
				from, err := t.From()
				return from, ai.Nonce, err == nil
			}
		}
	}
	return common.Address{}, 0, false
}

func keyImagesOf(tx types.Tx) []lt.Key {
	u, ok := tx.(*types.UTXOTransaction)
	if !ok {
		return nil
	}
	var out []lt.Key
	for _, k := range u.GetInputKeyImages() {
		out = append(out, *k)
	}
	return out
}
