package c15

import (
	"crypto/sha256"
	"fmt"
	"runtime"
	"sync"
	"sync/atomic"
	"time"

	"github.com/lianxiangcloud/linkchain/libs/common"
	lt "github.com/lianxiangcloud/linkchain/libs/cryptonote/types"
	"github.com/lianxiangcloud/linkchain/mempool"
	"github.com/lianxiangcloud/linkchain/types"

	"verif/h/internal/core"
	"verif/shim/goshim"
)

const raceRule = "case = one pool configuration and 3-4 rounds; per round a batch of 60-140 pre-built transactions (per-sender nonce chains scattered over the submitters, " +
	"future/stale/underfunded/oversized/duplicate (separately decoded copies), pairs of conflicting confidential spends, spends of spent outputs) is submitted by 4-16 goroutines " +
	"plus an RPC-style reader goroutine, while the main goroutine accepts a foreign block and runs Reap + propose + commit cycles on the same node; " +
	"oracles: every mid-flight Reap is distinct / uncommitted / key-image-free of conflicts / per-sender consecutive from the committed nonce, every mid-flight proposal executes and is " +
	"accepted by the node itself, at the barrier an independent replica accepts all blocks and the snapshot, membership and executability oracles of the sequential lane hold; " +
	"the race detector must stay silent. non-trivial = >=1 transaction was admitted while a commit cycle was in flight (commit count grew between a submitter's first and last call) and >=2 blocks were committed concurrently"

func registerRace() {
	core.Register(&core.Check{
		ID:        "C15R",
		Level:     "exploration",
		Technique: "the real mempool + application driven by concurrent submitters, a reader and the consensus caller under the Go race detector; exact oracles on every Reap/proposal and at barriers",
		Rule:      raceRule,
		Assumptions: []string{
			"goroutine interleavings are those the Go scheduler produces under GOMAXPROCS of the machine plus Gosched pressure; no failpoints",
			"under-paid account->confidential transactions (known finding of the sequential lane) are not generated in this lane",
			"the second replica runs only at barriers (process-global singletons of the repository)",
		},
		Race: true,
		// a panic / fatal error (concurrent map writes, index out of range in the pool's lists) while submitters and the
		// consensus caller share the pool refutes the schedule quantifier (DESIGN §4.5)
		PanicIsViolation: true,
		Cases:            raceCases,
		Batch:            func(tier string) int { return 2 },
		Run:              runRace,
		Floors:           func(tier string) map[string]int64 { return raceFloors(tier) },
		Init:             initProc,
		BatchTimeout:     20 * time.Minute,
		RaceAllow:        map[string]string{},
	})
}

func raceCases(tier string) int {
	if tier == "thorough" {
		return 2000
	}
	return 24
}

func raceFloors(tier string) map[string]int64 {
	return scaleFloors(map[string]int64{
		"rounds": 38, "commits_while_submitters_running": 90, "commits_foreign_concurrent": 18, "blocks_validated_by_replica": 130,
		"admitted_after_or_during_a_concurrent_commit": 800, "concurrent_duplicates": 450, "foreign_block_txs_also_submitted": 22,
		"live_reaps_checked": 270, "live_reaped_txs_checked": 850, "probes_nonempty": 30, "nonce_positions_checked": 700,
		"promoted": 65, "reader_ops": 20000, "submissions": 4400,
		"submit/valid/accepted": 1200, "submit/conf/accepted": 130, "submit/conf-conflict/rejected": 125, "submit/future/accepted": 70,
		"submit/stale/rejected": 95, "submit/underfunded/rejected": 100,
	}, raceCases(tier), 24)
}

type sub struct {
	t  *track
	tx types.Tx // the object this goroutine submits (a separately decoded copy for duplicates)
}

type subResult struct {
	t          *track
	err        error
	commitsAt  int32 // number of blocks N had committed in this round when AddTx returned
	commitsPre int32
}

type savedBlock struct {
	blk    *types.Block
	parts  *types.PartSet
	commit *types.Commit
}

func runRace(c *core.Ctx) {
	shimSeed := c.Rng.Bytes(16)
	pc := genPoolCfg(c.Rng)
	pc.UnderpaidAin = false
	w, err := newWorld(c, pc)
	if err != nil {
		if wv, ok := err.(*warmViolation); ok {
			c.Violation("exec/warm-up-block-of-admitted-valid-txs-fails", wv.msg, map[string]interface{}{"config": pc.String()})
			return
		}
		c.Inconclusive("harness: " + err.Error())
		return
	}
	defer w.close()
	goshim.Seed(shimSeed) // after the (cached, separately seeded) warm chain: a replayed case draws the same shim randomness
	G := c.Rng.Range(4, 16)
	rounds := c.Rng.Range(3, 4)
	// scheduler pressure: vary the parallelism per case (few Ps = long uninterrupted stretches, many = true parallelism)
	procs := []int{2, 4, 8, 16}[c.Rng.Intn(4)]
	defer runtime.GOMAXPROCS(runtime.GOMAXPROCS(procs))
	c.Count(fmt.Sprintf("gomaxprocs=%d", procs), 1)
	w.afterOp(opCtx{kind: "init", sender: -1}, "start")
	overlap := false
	concurrentCommits := 0
	for rd := 0; rd < rounds && !w.stop; rd++ {
		ov, cc := w.raceRound(rd, G)
		overlap = overlap || ov
		concurrentCommits += cc
	}
	if !w.stop {
		for k := 0; k < 2 && !w.stop; k++ {
			w.opCommitSelf()
		}
	}
	h := sha256.New()
	for _, r := range w.hist {
		fmt.Fprintf(h, "%s|%s|%s|%s|%s;", r.Op, r.Class, r.From, r.Nonce, r.Res)
	}
	fmt.Fprintf(h, "%s G=%d", pc.String(), G)
	if overlap && concurrentCommits >= 2 && !w.stop {
		c.Nontrivial(fmt.Sprintf("%x", h.Sum(nil)[:8]))
	}
	if c.Index%8 == 0 {
		n := len(w.hist)
		if n > 30 {
			n = 30
		}
		c.Sample(map[string]interface{}{"config": pc.String(), "goroutines": G, "rounds": rounds, "first_events": w.hist[:n]})
	}
	c.Count("cases", 1)
	c.Count("submitter_goroutines", int64(G))
	if w.stop {
		c.Count("cases_ended_early", 1)
	}
}

// genBatch pre-builds the transactions of one round (main goroutine, deterministic).
func (w *world) genBatch(n int) []sub {
	v := viewOf(w.N)
	var out []sub
	add := func(g *genTx, err error) *track {
		if err != nil || g == nil || g.tx == nil {
			w.c.Count("gen_errors", 1)
			return nil
		}
		t := w.register(g, false)
		t.Batch = true
		out = append(out, sub{t: t, tx: g.tx}) // g.tx: for duplicates a separately decoded object
		return t
	}
	for len(out) < n {
		switch x := w.r.Intn(100); {
		case x < 40: // a chain of consecutive nonces of one sender
			s := w.anySender()
			k := 1 + w.r.Intn(6)
			for i := 0; i < k; i++ {
				tx, kind, err := w.acctTx(s, v.next(s.Addr), w.form(s), nil)
				if add(&genTx{tx: tx, class: "valid", kind: kind, sender: s.Idx}, err) != nil {
					v.offered[s.Addr]++
				}
			}
		case x < 45:
			add(w.genClass(v, "valid-big"))
		case x < 55:
			add(w.genClass(v, "future"))
		case x < 60:
			add(w.genClass(v, "stale"))
		case x < 64:
			add(w.genClass(v, "replace"))
		case x < 70:
			add(w.genClass(v, "underfunded"))
		case x < 72:
			add(w.genClass(v, "oversized"))
		case x < 74:
			add(w.genClass(v, "badgas"))
		case x < 84:
			add(w.genClass(v, "conf"))
		case x < 92: // a competing spend of an output another transaction of this batch / the pool already spends
			add(w.genClass(v, "conf-conflict"))
		case x < 94:
			add(w.genClass(v, "conf-spent"))
		default:
			add(w.genClass(v, "duplicate"))
		}
	}
	return out
}

// checkReapLive judges a Reap taken by the consensus caller while submitters are running. The committed
// state only changes through this goroutine, so the committed nonces are exact.
func (w *world) checkReapLive(max int, txs types.Txs) {
	st := w.N.App.VerifStoreState()
	seen := map[common.Hash]bool{}
	kis := map[lt.Key]common.Hash{}
	next := map[common.Address]uint64{}
	extra := func() map[string]interface{} { return map[string]interface{}{"reaped": w.descs(txs)} }
	for _, tx := range txs {
		h := tx.Hash()
		if seen[h] {
			w.violation("reap-live/duplicate", fmt.Sprintf("Reap(%d) under concurrent submissions returned tx %s twice", max, short(h)), nil, extra())
			return
		}
		seen[h] = true
		if ht, ok := w.committed[h]; ok {
			w.violation("reap-live/already-committed", fmt.Sprintf("Reap(%d) under concurrent submissions returned tx %s committed at height %d", max, short(h), ht), nil, extra())
			return
		}
		for _, k := range keyImagesOf(tx) {
			if o, dup := kis[k]; dup {
				w.violation("reap-live/shared-key-image", fmt.Sprintf("Reap(%d) under concurrent submissions returned txs %s and %s spending the same key image", max, short(o), short(h)), nil, extra())
				return
			}
			kis[k] = h
			if w.spentOnChain(k) {
				w.violation("reap-live/key-image-spent-on-chain", fmt.Sprintf("Reap(%d) under concurrent submissions returned tx %s whose key image is spent on chain", max, short(h)), nil, extra())
				return
			}
		}
		if a, nonce, ok := acctNonce(tx); ok {
			exp, sn := next[a]
			if !sn {
				exp = st.GetNonce(a)
			}
			if nonce != exp {
				w.violation("reap-live/nonce-order", fmt.Sprintf("Reap(%d) under concurrent submissions: sender %s tx %s has nonce %d where %d is required (committed %d)", max, w.who(a), short(h), nonce, exp, st.GetNonce(a)), nil, extra())
				return
			}
			next[a] = nonce + 1
		}
	}
	w.c.Count("live_reaps_checked", 1)
	w.c.Count("live_reaped_txs_checked", int64(len(txs)))
}

// raceRound runs one round; returns whether admissions overlapped a commit cycle and the number of concurrent commits.
func (w *world) raceRound(rd, G int) (bool, int) {
	c := w.c
	// ---- barrier: build the batch, optionally a foreign block (E runs only here)
	batch := w.genBatch(w.r.Range(60, 140))
	lists := make([][]sub, G)
	for _, b := range batch {
		g := w.r.Intn(G)
		lists[g] = append(lists[g], b)
		if w.r.Chance(0.12) { // the same transaction from a second peer
			if cp, err := cloneTx(b.tx); err == nil {
				g2 := w.r.Intn(G)
				lists[g2] = append(lists[g2], sub{t: b.t, tx: cp})
				c.Count("concurrent_duplicates", 1)
			}
		}
	}
	var foreign *savedBlock
	if w.r.Chance(0.6) {
		w.genRivals(viewOf(w.N))
		blk, parts, err := w.propose(w.E)
		if err != nil {
			w.violation("exec/proposer-block-fails", fmt.Sprintf("a block built from replica E's pool does not execute (%v)", err), nil, map[string]interface{}{"node": "E"})
			return false, 0
		}
		blockID := types.BlockID{Hash: blk.Hash(), PartsHeader: parts.Header()}
		commit, err := w.g.MakeCommit(w.E.Status, w.E.Status.Validators, blk.Height, 0, blockID, nil)
		if err == nil {
			var ok bool
			ok, err = w.E.Accept(blk, parts, commit, false)
			if err == nil && !ok {
				err = fmt.Errorf("CheckBlock false")
			}
		}
		if err != nil {
			c.Inconclusive("harness: E cannot commit its own block: " + err.Error())
			w.stop = true
			return false, 0
		}
		foreign = &savedBlock{blk, parts, commit}
		// gossip races the block: the transactions of the foreign block also arrive as submissions
		for _, tx := range blk.Data.Txs {
			t := w.tracked[tx.Hash()]
			if t == nil || !w.r.Chance(0.7) {
				continue
			}
			if cp, err := cloneTx(tx); err == nil {
				t.Rival = false
				t.Batch = true
				g := w.r.Intn(G)
				lists[g] = append([]sub{{t: t, tx: cp}}, lists[g]...)
				batch = append(batch, sub{t: t, tx: cp})
				c.Count("foreign_block_txs_also_submitted", 1)
			}
		}
	}
	drop0 := w.pc.DropTimeZero && w.r.Chance(0.4)
	if drop0 {
		mempool.GoodTxDropTime = 0
		c.Count("rounds_with_drop_time_zero", 1)
	}
	reapMaxes := make([]int, 16)
	for i := range reapMaxes {
		reapMaxes[i] = []int{1, 2, 3, 5, 10, 10000}[w.r.Intn(6)]
	}
	yield := make([][]bool, G)
	for g := range yield {
		yield[g] = make([]bool, len(lists[g]))
		for i := range yield[g] {
			yield[g][i] = w.r.Chance(0.3)
		}
	}
	readerAddrs := make([]common.Address, 0, len(w.senders))
	for _, s := range w.senders {
		readerAddrs = append(readerAddrs, s.Addr)
	}
	var readerHashes []common.Hash
	for _, b := range batch {
		readerHashes = append(readerHashes, b.t.Hash)
	}

	// ---- concurrent phase
	// Paced submitters split their list in three and wait (event-based, never on time) until the consensus caller has
	// committed one resp. two blocks of this round before they continue: admissions overlap commit cycles on any machine.
	paced := make([]bool, G)
	for g := range paced {
		paced[g] = w.r.Chance(0.7)
	}
	var commits, mainDone int32
	results := make([][]subResult, G)
	var wg sync.WaitGroup
	var running int32 = int32(G)
	start := make(chan struct{})
	N := w.N
	for g := 0; g < G; g++ {
		wg.Add(1)
		go func(g int) {
			defer wg.Done()
			defer atomic.AddInt32(&running, -1)
			<-start
			n := len(lists[g])
			for i, s := range lists[g] {
				if paced[g] && n >= 3 && (i == n/3 || i == 2*n/3) {
					target := int32(1)
					if i == 2*n/3 {
						target = 2
					}
					for atomic.LoadInt32(&commits) < target && atomic.LoadInt32(&mainDone) == 0 {
						runtime.Gosched()
					}
				}
				pre := atomic.LoadInt32(&commits)
				err := N.Mempool.AddTx("", s.tx)
				results[g] = append(results[g], subResult{t: s.t, err: err, commitsPre: pre, commitsAt: atomic.LoadInt32(&commits)})
				if yield[g][i] {
					runtime.Gosched()
				}
			}
		}(g)
	}
	var stopReader int32
	var readerOps int64
	var rwg sync.WaitGroup
	rwg.Add(1)
	go func() { // what RPC handlers and the reactor do on a live node
		defer rwg.Done()
		<-start
		for i := 0; i < 4000 && atomic.LoadInt32(&stopReader) == 0; i++ {
			// only calls other goroutines of a live node make: rpc/service (Stats, GetNonce, GetBalance, pending state),
			// the reactor and the block checker (cache lookups by hash). Reap belongs to the consensus caller alone.
			switch i % 6 {
			case 0:
				N.Mempool.Stats()
			case 1:
				N.App.GetNonce(readerAddrs[i%len(readerAddrs)])
			case 2:
				N.App.GetBalance(readerAddrs[i%len(readerAddrs)])
			case 3:
				N.Mempool.GetTxFromCache(readerHashes[i%len(readerHashes)])
			case 4:
				_ = N.Mempool.GoodTxsSize() + N.Mempool.UTXOTxsSize()
			case 5:
				N.App.GetPendingStateDB()
			}
			readerOps++
			runtime.Gosched()
		}
	}()
	close(start)

	var saved []*savedBlock
	fail := func() (bool, int) {
		atomic.StoreInt32(&mainDone, 1)
		wg.Wait()
		atomic.StoreInt32(&stopReader, 1)
		rwg.Wait()
		mempool.GoodTxDropTime = never
		return false, 0
	}
	if foreign != nil {
		fb, rp, err := fresh(foreign.parts)
		var ok bool
		if err == nil {
			ok, err = N.Accept(fb, rp, foreign.commit, false)
		}
		if err != nil || !ok {
			c.Inconclusive(fmt.Sprintf("harness: N does not accept E's block: checked=%v err=%v", ok, err))
			w.stop = true
			return fail()
		}
		atomic.AddInt32(&commits, 1)
		w.lastCommit = foreign.commit
		w.noteBlock(foreign.blk)
		w.log(opRec{Op: "commit", Class: "foreign", Res: fmt.Sprintf("h=%d txs=%d", foreign.blk.Height, foreign.blk.NumTxs), Note: "concurrent"})
		c.Count("commits_foreign_concurrent", 1)
	}
	concurrent := 0
	for cyc := 0; cyc < 10; cyc++ {
		stillRunning := atomic.LoadInt32(&running) > 0
		max := reapMaxes[cyc%len(reapMaxes)]
		w.checkReapLive(max, N.Mempool.Reap(max))
		if w.stop {
			return fail()
		}
		blk, parts, err := w.propose(N)
		if err != nil {
			s := N.Mempool.VerifSnapshot()
			w.violation("exec/proposer-block-fails", fmt.Sprintf("under concurrent submissions a block built from the pool does not execute on the proposer (%v)", err), &s, nil)
			return fail()
		}
		w.checkReapLive(N.Status.ConsensusParams.BlockSize.MaxTxs, blk.Data.Txs)
		if w.stop {
			return fail()
		}
		blockID := types.BlockID{Hash: blk.Hash(), PartsHeader: parts.Header()}
		commit, err := w.g.MakeCommit(N.Status, N.Status.Validators, blk.Height, 0, blockID, nil)
		if err != nil {
			c.Inconclusive("harness: MakeCommit: " + err.Error())
			w.stop = true
			return fail()
		}
		ok, err := N.Accept(blk, parts, commit, false)
		if !ok {
			w.violation("exec/proposer-rejects-own-block", fmt.Sprintf("under concurrent submissions N's CheckBlock rejects the block it built from its pool (height %d)", blk.Height), nil, map[string]interface{}{"block": w.descs(blk.Data.Txs)})
			return fail()
		}
		if err != nil {
			c.Inconclusive("harness: N commit: " + err.Error())
			w.stop = true
			return fail()
		}
		atomic.AddInt32(&commits, 1)
		w.lastCommit = commit
		w.noteBlock(blk)
		saved = append(saved, &savedBlock{blk, parts, commit})
		w.log(opRec{Op: "commit", Class: "self", Res: fmt.Sprintf("h=%d txs=%d", blk.Height, blk.NumTxs), Note: fmt.Sprintf("concurrent=%v", stillRunning)})
		if stillRunning {
			concurrent++
			c.Count("commits_while_submitters_running", 1)
		}
		c.Count("commits_self", 1)
		c.Count("committed_txs", int64(blk.NumTxs))
		if !stillRunning && cyc >= 1 {
			break
		}
		runtime.Gosched()
	}
	atomic.StoreInt32(&mainDone, 1)
	wg.Wait()
	atomic.StoreInt32(&stopReader, 1)
	rwg.Wait()
	mempool.GoodTxDropTime = never
	c.Count("reader_ops", readerOps)

	// ---- barrier: the independent replica validates every block N built under concurrency
	for _, sb := range saved {
		fb, rp, err := fresh(sb.parts)
		if err != nil {
			c.Inconclusive("harness: decode: " + err.Error())
			w.stop = true
			return false, 0
		}
		ok, err := w.E.Accept(fb, rp, sb.commit, false)
		if !ok {
			w.violation("exec/validator-rejects-block", fmt.Sprintf("replica E rejects block %d (%d txs) that N built from its pool and committed under concurrent submissions", sb.blk.Height, sb.blk.NumTxs), nil,
				map[string]interface{}{"block": w.descs(sb.blk.Data.Txs)})
			return false, 0
		}
		if err != nil {
			c.Inconclusive("harness: E commit: " + err.Error())
			w.stop = true
			return false, 0
		}
		c.Count("blocks_validated_by_replica", 1)
	}
	overlap := false
	for g := 0; g < G; g++ {
		for _, r := range results[g] {
			t := r.t
			t.Results = append(t.Results, errClass(r.err))
			t.Round = rd + 1
			if r.err == nil {
				t.Accepted = true
				if r.commitsAt > 0 || r.commitsPre != r.commitsAt {
					overlap = true
					c.Count("admitted_after_or_during_a_concurrent_commit", 1)
				}
			}
			c.Count("submit/"+t.Class+"/"+resKind(r.err), 1)
			c.Count("submissions", 1)
			if r.err != nil {
				c.Count("reject/"+r.err.Error(), 1)
			}
			w.log(opRec{Op: "submit", Class: t.Class, Tx: short(t.Hash), From: w.fromStr(t), Nonce: w.nonceStr(t), Res: errClass(r.err), Note: fmt.Sprintf("g%d", g)})
		}
	}
	for _, b := range batch {
		b.t.Batch = false
	}
	w.taint, w.taintInfo = map[common.Address]string{}, map[common.Address]string{}
	after := fmt.Sprintf("round %d (%d goroutines, %d txs, %d commits, drop0=%v)", rd, G, len(batch), len(saved), drop0)
	w.afterOp(opCtx{kind: "round", sender: -1, round: rd + 1}, after)
	if !w.stop {
		w.probe("after " + after)
	}
	c.Count("rounds", 1)
	return overlap, concurrent
}
