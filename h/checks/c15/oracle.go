package c15

import (
	"fmt"
	"math/big"
	"sort"

	"github.com/lianxiangcloud/linkchain/libs/common"
	lt "github.com/lianxiangcloud/linkchain/libs/cryptonote/types"
	"github.com/lianxiangcloud/linkchain/mempool"
	"github.com/lianxiangcloud/linkchain/types"

	"verif/h/internal/chainkit"
)

// ---------------------------------------------------------------- witness helpers

type txDesc struct {
	Hash  string `json:"tx"`
	From  string `json:"from,omitempty"`
	Nonce string `json:"nonce,omitempty"`
	Kind  string `json:"kind,omitempty"`
	Class string `json:"class,omitempty"`
}

func (w *world) desc(tx types.Tx) txDesc {
	d := txDesc{Hash: short(tx.Hash()), Kind: tx.TypeName()}
	if a, n, ok := acctNonce(tx); ok {
		d.From, d.Nonce = w.who(a), fmt.Sprintf("%d", n)
	}
	if t := w.tracked[tx.Hash()]; t != nil {
		d.Class, d.Kind = t.Class, t.Kind
	}
	return d
}

func (w *world) descs(txs []types.Tx) []txDesc {
	out := make([]txDesc, 0, len(txs))
	for _, tx := range txs {
		out = append(out, w.desc(tx))
	}
	return out
}

func (w *world) poolDesc(s *mempool.VerifSnapshot) map[string]interface{} {
	fut := map[string][]txDesc{}
	for _, a := range sortedAddrs(s.Future) {
		fut[w.who(a)] = w.descs(s.Future[a])
	}
	nonces := map[string]string{}
	st := w.N.App.VerifStoreState()
	for _, sd := range w.senders {
		nonces[fmt.Sprintf("s%d", sd.Idx)] = fmt.Sprintf("committed=%d speculative=%d", st.GetNonce(sd.Addr), w.N.App.GetNonce(sd.Addr))
	}
	return map[string]interface{}{"good": w.descs(s.Good), "utxo": w.descs(s.Utxo), "spec": w.descs(s.Spec), "future": fut,
		"height": s.Height, "nonces": nonces}
}

func (w *world) witness(s *mempool.VerifSnapshot, extra map[string]interface{}) map[string]interface{} {
	h := w.hist
	if len(h) > 60 {
		h = h[len(h)-60:]
	}
	m := map[string]interface{}{"config": w.pc.String(), "last_ops": h}
	if s != nil {
		m["pool"] = w.poolDesc(s)
	}
	for k, v := range extra {
		m[k] = v
	}
	return m
}

func (w *world) violation(key, detail string, s *mempool.VerifSnapshot, extra map[string]interface{}) {
	w.c.Violation(key, detail, w.witness(s, extra))
	w.stop = true
}

// ---------------------------------------------------------------- the snapshot oracle (after every operation)

func (w *world) spentOnChain(k lt.Key) bool {
	if _, ok := w.spent[k]; ok {
		return true
	}
	return w.N.UtxoStore.HaveTxKeyimgAsSpent(&k)
}

// keyWord makes an error text usable inside a violation key (no white space: keys are matched as one token).
func keyWord(s string) string {
	b := []byte(s)
	for i, ch := range b {
		if !(ch >= 'a' && ch <= 'z' || ch >= 'A' && ch <= 'Z' || ch >= '0' && ch <= '9') {
			b[i] = '-'
		}
	}
	return string(b)
}

// gapCause explains a broken nonce sequence of sender a (missing nonce exp): which mechanism is responsible.
func (w *world) gapCause(a common.Address, committed uint64, pooled int, exp uint64) string {
	spec := w.N.App.GetNonce(a)
	if t := w.taint[a]; t != "" {
		return "unpooled-tx-advanced-speculative-nonce/" + keyWord(t)
	}
	if spec > committed+uint64(pooled) {
		// was the transaction with the missing nonce queued before this operation and dropped by it?
		for _, h := range w.droppedNow {
			t := w.tracked[h]
			if s := w.senderOf(t); s != nil && s.Addr == a && t.HasNonce && t.Nonce == exp {
				return "unpooled-tx-advanced-speculative-nonce/" + keyWord(t.Class) // dropped at promotion after it had advanced the nonce
			}
		}
		return "speculative-nonce-ahead-of-pool"
	}
	return "other"
}

// checkOffered evaluates the statement's first sentence on a snapshot taken under the pool's lock.
// op describes the operation that just returned. Returns the per-sender next expected nonce.
func (w *world) checkOffered(s *mempool.VerifSnapshot, after string) map[common.Address]uint64 {
	st := w.N.App.VerifStoreState()
	where := map[common.Hash]string{}
	lists := []struct {
		name string
		txs  []types.Tx
	}{{"good", s.Good}, {"utxo", s.Utxo}, {"spec", s.Spec}}
	n := 0
	for _, l := range lists {
		for _, tx := range l.txs {
			h := tx.Hash()
			n++
			if prev, dup := where[h]; dup {
				w.violation("offered/duplicate-hash", fmt.Sprintf("tx %s is offered twice (%s and %s list) after %s", short(h), prev, l.name, after), s, nil)
				return nil
			}
			where[h] = l.name
			if ht, ok := w.committed[h]; ok {
				w.violation("offered/already-committed", fmt.Sprintf("tx %s committed at height %d is still offered in the %s list after %s", short(h), ht, l.name, after), s, nil)
				return nil
			}
		}
	}
	w.c.Count("offered_txs_checked", int64(n))
	// key images
	kis := map[lt.Key]common.Hash{}
	for _, l := range lists {
		for _, tx := range l.txs {
			for _, k := range keyImagesOf(tx) {
				if o, dup := kis[k]; dup {
					w.violation("offered/shared-key-image", fmt.Sprintf("txs %s and %s are offered together and spend the same key image %x (after %s)", short(o), short(tx.Hash()), k[:4], after), s, nil)
					return nil
				}
				kis[k] = tx.Hash()
				if w.spentOnChain(k) {
					w.violation("offered/key-image-spent-on-chain", fmt.Sprintf("offered tx %s spends key image %x that is already spent on chain (after %s)", short(tx.Hash()), k[:4], after), s, nil)
					return nil
				}
				w.c.Count("key_images_checked", 1)
			}
		}
	}
	// per sender: nonces in offer order are committed, committed+1, ...
	next := map[common.Address]uint64{}
	count := map[common.Address]int{}
	for _, l := range lists {
		for _, tx := range l.txs {
			if a, _, ok := acctNonce(tx); ok {
				count[a]++
			}
		}
	}
	for _, l := range lists {
		for _, tx := range l.txs {
			a, nonce, ok := acctNonce(tx)
			if !ok {
				continue
			}
			c := st.GetNonce(a)
			exp, seen := next[a]
			if !seen {
				exp = c
			}
			if nonce != exp {
				sub := "nonce-gap"
				switch {
				case nonce < c:
					sub = "stale-nonce"
				case nonce < exp:
					sub = "nonce-out-of-order"
				}
				w.violation("offered/"+sub+"/"+w.gapCause(a, c, count[a], exp),
					fmt.Sprintf("sender %s: offered tx %s carries nonce %d where %d is required (committed nonce %d) after %s", w.who(a), short(tx.Hash()), nonce, exp, c, after),
					s, map[string]interface{}{"sender": w.who(a), "rejected_tx_that_advanced_speculative_nonce": w.taintInfo[a], "sender_history": w.slice(a)})
				return nil
			}
			next[a] = nonce + 1
			w.c.Count("nonce_positions_checked", 1)
		}
	}
	// offered and queued are disjoint, queued is not committed
	for _, a := range sortedAddrs(s.Future) {
		for _, tx := range s.Future[a] {
			h := tx.Hash()
			if l, ok := where[h]; ok {
				w.violation("membership/offered-and-queued", fmt.Sprintf("tx %s is in the %s list and in the future queue after %s", short(h), l, after), s, nil)
				return nil
			}
		}
	}
	// promotion: an executable queued transaction may only wait while the good list is full
	if len(s.Good) < w.pc.Size {
		for _, a := range sortedAddrs(s.Future) {
			exp, seen := next[a]
			if !seen {
				exp = st.GetNonce(a)
			}
			for _, tx := range s.Future[a] {
				if _, nonce, ok := acctNonce(tx); ok && nonce == exp {
					w.violation("promotion/executable-left-in-future",
						fmt.Sprintf("sender %s: queued tx %s has the next executable nonce %d and the good list has room (%d < %d) after %s", w.who(a), short(tx.Hash()), nonce, len(s.Good), w.pc.Size, after), s, nil)
					return nil
				}
			}
			w.c.Count("promotion_checks", 1)
		}
	}
	return next
}

// ---------------------------------------------------------------- membership accounting

type opCtx struct {
	kind   string      // submit | reap | probe | commit | round (a concurrent round: submissions and commits)
	sender int         // submitter (submit ops), -1 otherwise
	hash   common.Hash // submitted transaction
	round  int         // concurrent round number (1-based)
	drop0  bool        // commit ops: the age-based drop of offered transactions was set to "everything" for this commit
	// commit ops: sender of the submission that was admitted at the commit's pool-lock point (-1: none). That
	// submission can promote the sender's queued transactions to the offered list BEFORE the commit's update runs.
	injSender int
}

// plentiful is a gross bound, not a fee model: a sender that still owns > 10^23 wei in the speculative state
// certainly covers a plain transfer of < 10^22 wei (the fee of any transfer is capped at 5*10^20).
var (
	plentiful, _ = new(big.Int).SetString("100000000000000000000000", 10)
	cheap, _     = new(big.Int).SetString("10000000000000000000000", 10)
)

// wronglyDropped: t waited in the future queue, now carries exactly the sender's next executable nonce, the good
// list has room, its sender is rich - and it is gone. No rule of the pool (stale, cap, unfunded) covers that.
func (w *world) wronglyDropped(t *track, s *mempool.VerifSnapshot, next map[common.Address]uint64) bool {
	sd := w.senderOf(t)
	if sd == nil || !t.HasNonce || t.Kind != "plain" || len(s.Good) >= w.pc.Size {
		return false
	}
	ptx, ok := t.tx.(*types.Transaction)
	if !ok || ptx.Value().Cmp(cheap) >= 0 || len(ptx.Data()) > 0 {
		return false
	}
	exp, seen := next[sd.Addr]
	if !seen {
		exp = w.N.App.VerifStoreState().GetNonce(sd.Addr)
	}
	if t.Nonce != exp {
		return false
	}
	return w.N.App.GetBalance(sd.Addr).Cmp(plentiful) > 0 && w.N.App.VerifStoreState().GetBalance(sd.Addr).Cmp(plentiful) > 0
}

// validQueued: t is a cheap plain transfer of a sender with plenty of funds (committed and speculative) whose
// nonce IS the sender's next executable nonce after the operation: it is executable, whether or not the offered
// list has room for it right now, so it has to stay (queued or offered).
func (w *world) validQueued(t *track, next map[common.Address]uint64) bool {
	sd := w.senderOf(t)
	if sd == nil || !t.HasNonce || t.Kind != "plain" {
		return false
	}
	ptx, ok := t.tx.(*types.Transaction)
	if !ok || ptx.Value().Cmp(cheap) >= 0 || len(ptx.Data()) > 0 {
		return false
	}
	exp, seen := next[sd.Addr]
	if !seen {
		exp = w.N.App.VerifStoreState().GetNonce(sd.Addr)
	}
	if t.Nonce != exp {
		// a higher nonce is not executable (the run in front of it broke): the pool drops such transactions together
		// with the failing predecessor, which the property does not forbid
		return false
	}
	return w.N.App.GetBalance(sd.Addr).Cmp(plentiful) > 0 && w.N.App.VerifStoreState().GetBalance(sd.Addr).Cmp(plentiful) > 0
}

func (w *world) checkMembership(s *mempool.VerifSnapshot, op opCtx, after string, next map[common.Address]uint64) {
	loc := map[common.Hash]string{}
	for _, tx := range s.Good {
		loc[tx.Hash()] = "good"
	}
	for _, tx := range s.Utxo {
		loc[tx.Hash()] = "utxo"
	}
	for _, tx := range s.Spec {
		loc[tx.Hash()] = "spec"
	}
	for _, a := range sortedAddrs(s.Future) {
		for _, tx := range s.Future[a] {
			loc[tx.Hash()] = "future"
		}
	}
	if len(loc) > 0 {
		var hs []common.Hash
		for h := range loc {
			hs = append(hs, h)
		}
		sort.Slice(hs, func(i, j int) bool { return string(hs[i][:]) < string(hs[j][:]) })
		for _, h := range hs {
			if w.tracked[h] == nil {
				w.violation("membership/unknown-tx-pooled", fmt.Sprintf("the %s list holds tx %s that was never submitted (after %s)", loc[h], short(h), after), s, nil)
				return
			}
		}
	}
	for _, h := range w.order {
		t := w.tracked[h]
		cur := loc[h]
		if _, ok := w.committed[h]; ok {
			if cur == "future" {
				w.violation("membership/committed-and-queued", fmt.Sprintf("committed tx %s sits in the future queue after %s", short(h), after), s, nil)
				return
			}
			if cur == "" {
				cur = "committed"
			}
		}
		pooled := cur == "good" || cur == "utxo" || cur == "spec" || cur == "future"
		if pooled && !t.Accepted {
			w.violation("membership/rejected-but-pooled", fmt.Sprintf("every AddTx of tx %s returned an error (%v) but it is in the %s list after %s", short(h), t.Results, cur, after), s, nil)
			return
		}
		wasPooled := t.Loc == "good" || t.Loc == "utxo" || t.Loc == "spec" || t.Loc == "future"
		if wasPooled && cur == "" {
			// (judged per operation only: over a whole concurrent round the per-account cap may legitimately have dropped
			// it at a moment when it was the highest queued nonce)
			// (not judged for the sender of a submission that was admitted at this commit's lock point: that submission
			// runs the sender's promotion BEFORE the commit, against the pre-commit speculative state, which this oracle
			// does not see. Two thorough cases were traced to it: seed 2 case 859, the queued transaction was promoted
			// there and then dropped by the age rule the harness had pinned to "everything"; seed 1 case 4248, the
			// sender could not afford the queued transaction in the pre-commit speculative state - a legitimate drop -
			// and was rich again after the block)
			promotedThenAged := op.kind == "commit" && op.injSender >= 0 && op.injSender == t.Sender
			if t.Loc == "future" && op.kind != "round" && !promotedThenAged && w.wronglyDropped(t, s, next) {
				w.violation("promotion/executable-dropped-instead-of-promoted",
					fmt.Sprintf("queued tx %s of rich sender %s has the next executable nonce %d and the good list has room, but after %s it is neither offered, queued nor committed", short(h), w.fromStr(t), t.Nonce, after), s,
					map[string]interface{}{"sender_history": w.slice(w.senderOf(t).Addr), "state_check_of_the_tx_now": func() string { c, err := cloneTx(t.tx); if err != nil { return "clone: " + err.Error() }; return fmt.Sprint(w.N.App.CheckTx(c, false)) }()})
				return
			}
			// A promotion that runs out of room must leave the rest of the run queued: the cheap plain transaction of a
			// rich sender that carries the sender's next executable nonce stays executable, and no cap evicts queued
			// transactions while the submitted transaction itself went to the offered list.
			if t.Loc == "future" && ((op.kind == "submit" && op.sender >= 0 && op.sender == t.Sender && loc[op.hash] == "good") || op.kind == "commit") && !promotedThenAged && w.validQueued(t, next) {
				w.violation("promotion/valid-queued-tx-dropped-at-promotion",
					fmt.Sprintf("queued tx %s of rich sender %s (nonce %d = the next executable nonce) is neither offered, queued nor committed after %s", short(h), w.fromStr(t), t.Nonce, after), s,
					map[string]interface{}{"sender_history": w.slice(w.senderOf(t).Addr)})
				return
			}
			// dropped: only Update (a commit) and the promotion step of the same sender's AddTx drop transactions
			switch {
			case op.kind == "commit" || op.kind == "round":
				w.c.Count("dropped_at_commit/"+t.Loc, 1)
			case op.kind == "submit" && t.Loc == "future" && op.sender >= 0 && op.sender == t.Sender:
				w.c.Count("dropped_at_promotion", 1)
			default:
				w.violation("membership/vanished-outside-update-or-promotion",
					fmt.Sprintf("tx %s was in the %s list, is neither pooled nor committed after %s, and no commit / promotion of its sender happened", short(h), t.Loc, after), s, nil)
				return
			}
		}
		if t.Injected && op.kind == "commit" {
			// submitted at the pool-lock point of this very commit: this is the first operation boundary after it.
			// Admitted means pooled afterwards, unless the commit legitimately invalidated it (a foreign block consumed
			// its nonce, the age-based drop was switched to "everything" for this commit, the sender is no longer rich).
			t.Injected = false
			// still executable after the commit: it carries the sender's next executable nonce (a foreign block may
			// have consumed its nonce, or invalidated a predecessor, in which case the pool drops the successors too),
			// the sender is rich, and the age-based drop was not set to "everything" for this commit
			stillValid := !op.drop0 && w.validQueued(t, next)
			if t.Accepted && !pooled && cur != "committed" && stillValid {
				w.violation("membership/admitted-at-commit-lock-point-lost", fmt.Sprintf("tx %s of %s (nonce %d) was admitted by AddTx at the pool-lock point of the commit and is neither pooled nor committed after %s", short(h), w.fromStr(t), t.Nonce, after), s,
					map[string]interface{}{"sender_history": w.slice(w.senderOf(t).Addr)})
				return
			}
		} else if !wasPooled && pooled && !(op.kind == "submit" && op.hash == h) && !(op.kind == "round" && t.Round == op.round) {
			w.violation("membership/reappeared", fmt.Sprintf("tx %s was not pooled before and is in the %s list after %s which did not submit it", short(h), cur, after), s, nil)
			return
		}
		if t.Loc == "future" && (cur == "good" || cur == "utxo") {
			w.c.Count("promoted", 1)
		}
		if t.Loc == "good" && cur == "future" {
			w.c.Count("demoted_to_future", 1)
		}
		if wasPooled && pooled && op.kind == "commit" {
			w.c.Count("retained_over_commit", 1)
		}
		t.Loc = cur
	}
	w.c.Count("membership_evaluations", int64(len(w.order)))
}

// ---------------------------------------------------------------- Reap

// checkReap: the reaped list is drawn from the offered lists, has no repetition, keeps every sender's
// nonces consecutive from the committed nonce, and takes at most max transactions from the ordered list.
func (w *world) checkReap(max int, txs types.Txs, s *mempool.VerifSnapshot, after string) {
	st := w.N.App.VerifStoreState()
	where := map[common.Hash]string{}
	for _, tx := range s.Good {
		where[tx.Hash()] = "good"
	}
	for _, tx := range s.Utxo {
		where[tx.Hash()] = "utxo"
	}
	for _, tx := range s.Spec {
		where[tx.Hash()] = "spec"
	}
	seen := map[common.Hash]bool{}
	next := map[common.Address]uint64{}
	good := 0
	for _, tx := range txs {
		h := tx.Hash()
		l, ok := where[h]
		if !ok {
			w.violation("reap/not-offered", fmt.Sprintf("Reap(%d) returned tx %s that is in none of the offered lists (%s)", max, short(h), after), s, map[string]interface{}{"reaped": w.descs(txs)})
			return
		}
		if seen[h] {
			w.violation("reap/duplicate", fmt.Sprintf("Reap(%d) returned tx %s twice (%s)", max, short(h), after), s, map[string]interface{}{"reaped": w.descs(txs)})
			return
		}
		seen[h] = true
		if l == "good" {
			good++
		}
		if a, nonce, ok := acctNonce(tx); ok {
			exp, sn := next[a]
			if !sn {
				exp = st.GetNonce(a)
			}
			if nonce != exp {
				w.violation("reap/nonce-order", fmt.Sprintf("Reap(%d): sender %s tx %s has nonce %d where %d is required (%s)", max, w.who(a), short(h), nonce, exp, after), s, map[string]interface{}{"reaped": w.descs(txs)})
				return
			}
			next[a] = nonce + 1
		}
	}
	lim := max
	if lim > w.pc.MaxReapSize {
		lim = w.pc.MaxReapSize
	}
	if lim < 0 {
		lim = 0
	}
	if good > lim {
		w.violation("reap/cap-exceeded", fmt.Sprintf("Reap(%d) returned %d transactions of the ordered list (MaxReapSize %d) (%s)", max, good, w.pc.MaxReapSize, after), s, map[string]interface{}{"reaped": w.descs(txs)})
		return
	}
	if len(txs) > lim {
		w.c.Count("reap_exceeds_max_by_confidential_txs", 1) // not part of the statement; recorded only
	}
	w.c.Count("reaps_checked", 1)
	w.c.Count("reaped_txs_checked", int64(len(txs)))
	if len(txs) > 0 && len(txs) < len(s.Good)+len(s.Utxo)+len(s.Spec) {
		w.c.Count("partial_reaps", 1)
	}
}

// ---------------------------------------------------------------- executability

func blockTime(height uint64) uint64 { return uint64(chainkit.FixedTime.Unix()) + height }

// propose builds the next block on node p from its pool (Reap -> CreateBlock -> PreRunBlock).
func (w *world) propose(p *chainkit.Node) (*types.Block, *types.PartSet, error) {
	return p.Propose(w.lastCommit, blockTime(p.Status.LastBlockHeight+1), nil)
}

func fresh(parts *types.PartSet) (*types.Block, *types.PartSet, error) {
	rp, err := chainkit.RebuildParts(parts)
	if err != nil {
		return nil, nil, err
	}
	fb, err := chainkit.DecodeBlock(rp, 0)
	return fb, rp, err
}

// probe: a block built from N's pool right now must execute on N (proposer path) and be accepted by the
// independent replica E (validator path). Nothing is committed.
func (w *world) probe(after string) {
	s := w.N.Mempool.VerifSnapshot()
	blk, parts, err := w.propose(w.N)
	if err != nil {
		w.violation("exec/proposer-block-fails", fmt.Sprintf("a block built from the pool does not execute on the proposer (%v) %s", err, after), &s, nil)
		return
	}
	w.checkReap(w.N.Status.ConsensusParams.BlockSize.MaxTxs, blk.Data.Txs, &s, "CreateBlock "+after)
	if w.stop {
		return
	}
	fb, _, err := fresh(parts)
	if err != nil {
		w.c.Inconclusive("harness: cannot decode proposal: " + err.Error())
		w.stop = true
		return
	}
	if !w.E.App.CheckBlock(fb) {
		w.violation("exec/validator-rejects-block", fmt.Sprintf("replica E rejects the block N built from its pool (height %d, %d txs) %s", blk.Height, blk.NumTxs, after), &s,
			map[string]interface{}{"block": w.descs(blk.Data.Txs)})
		return
	}
	w.c.Count("probes", 1)
	w.c.Count("probe_txs_executed", int64(blk.NumTxs))
	if blk.NumTxs > 0 {
		w.c.Count("probes_nonempty", 1)
	}
}

// commitSelf: N proposes from its pool, E validates and commits, N commits (its pool is Update()d).
func (w *world) commitSelf(after string) *types.Block {
	s := w.N.Mempool.VerifSnapshot()
	blk, parts, err := w.propose(w.N)
	if err != nil {
		w.violation("exec/proposer-block-fails", fmt.Sprintf("a block built from the pool does not execute on the proposer (%v) %s", err, after), &s, nil)
		return nil
	}
	w.checkReap(w.N.Status.ConsensusParams.BlockSize.MaxTxs, blk.Data.Txs, &s, "CreateBlock "+after)
	if w.stop {
		return nil
	}
	height := blk.Height
	blockID := types.BlockID{Hash: blk.Hash(), PartsHeader: parts.Header()}
	commit, err := w.g.MakeCommit(w.N.Status, w.N.Status.Validators, height, 0, blockID, nil)
	if err != nil {
		w.c.Inconclusive("harness: MakeCommit: " + err.Error())
		w.stop = true
		return nil
	}
	fb, rp, err := fresh(parts)
	if err != nil {
		w.c.Inconclusive("harness: cannot decode proposal: " + err.Error())
		w.stop = true
		return nil
	}
	ok, err := w.E.Accept(fb, rp, commit, false)
	if !ok {
		w.violation("exec/validator-rejects-block", fmt.Sprintf("replica E rejects the block N built from its pool (height %d, %d txs) %s", height, blk.NumTxs, after), &s,
			map[string]interface{}{"block": w.descs(blk.Data.Txs)})
		return nil
	}
	if err != nil {
		w.c.Inconclusive("harness: E commit: " + err.Error())
		w.stop = true
		return nil
	}
	ok, err = w.N.Accept(blk, parts, commit, false)
	if !ok {
		w.violation("exec/proposer-rejects-own-block", fmt.Sprintf("N's CheckBlock rejects the block it built from its pool (height %d) %s", height, after), &s, map[string]interface{}{"block": w.descs(blk.Data.Txs)})
		return nil
	}
	if err != nil {
		w.c.Inconclusive("harness: N commit: " + err.Error())
		w.stop = true
		return nil
	}
	w.lastCommit = commit
	w.noteBlock(blk)
	w.c.Count("commits_self", 1)
	w.c.Count("committed_txs", int64(blk.NumTxs))
	return blk
}

// commitForeign: E proposes from ITS pool (rivals N never saw), both commit; N's pool must cope.
func (w *world) commitForeign(after string) *types.Block {
	blk, parts, err := w.propose(w.E)
	if err != nil {
		es := w.E.Mempool.VerifSnapshot()
		w.violation("exec/proposer-block-fails", fmt.Sprintf("a block built from replica E's pool does not execute (%v) %s", err, after), nil,
			map[string]interface{}{"node": "E", "E-good": w.descs(es.Good), "E-utxo": w.descs(es.Utxo)})
		return nil
	}
	height := blk.Height
	blockID := types.BlockID{Hash: blk.Hash(), PartsHeader: parts.Header()}
	commit, err := w.g.MakeCommit(w.E.Status, w.E.Status.Validators, height, 0, blockID, nil)
	if err != nil {
		w.c.Inconclusive("harness: MakeCommit: " + err.Error())
		w.stop = true
		return nil
	}
	fb, rp, err := fresh(parts)
	if err != nil {
		w.c.Inconclusive("harness: cannot decode proposal: " + err.Error())
		w.stop = true
		return nil
	}
	ok, err := w.N.Accept(fb, rp, commit, false)
	if !ok || err != nil {
		w.c.Inconclusive(fmt.Sprintf("harness: N does not accept E's block at height %d: checked=%v err=%v (replica divergence is C05's subject)", height, ok, err))
		w.stop = true
		return nil
	}
	ok, err = w.E.Accept(blk, parts, commit, false)
	if !ok || err != nil {
		w.c.Inconclusive(fmt.Sprintf("harness: E does not accept its own block at height %d: checked=%v err=%v", height, ok, err))
		w.stop = true
		return nil
	}
	w.lastCommit = commit
	w.noteBlock(blk)
	w.c.Count("commits_foreign", 1)
	w.c.Count("committed_txs", int64(blk.NumTxs))
	if blk.NumTxs == 0 {
		w.c.Count("commits_foreign_empty", 1)
	}
	return blk
}

// afterOp runs the oracles that apply after every operation.
func (w *world) afterOp(op opCtx, after string) {
	if w.stop {
		return
	}
	s := w.N.Mempool.VerifSnapshot()
	w.droppedNow = w.droppedSince(&s)
	next := w.checkOffered(&s, after)
	if w.stop {
		return
	}
	w.checkMembership(&s, op, after, next)
	w.c.Count("snapshots_evaluated", 1)
	w.c.Max("good_len", int64(len(s.Good)))
	w.c.Max("utxo_len", int64(len(s.Utxo)))
	fq := 0
	for _, l := range s.Future {
		fq += len(l)
	}
	w.c.Max("future_len", int64(fq))
	if len(s.Good) >= w.pc.Size {
		w.c.Count("snapshots_with_full_good_list", 1)
	}
}

// droppedSince lists the transactions that were pooled after the previous operation and are now neither pooled nor committed.
func (w *world) droppedSince(s *mempool.VerifSnapshot) []common.Hash {
	in := map[common.Hash]bool{}
	for _, l := range [][]types.Tx{s.Good, s.Utxo, s.Spec} {
		for _, tx := range l {
			in[tx.Hash()] = true
		}
	}
	for _, l := range s.Future {
		for _, tx := range l {
			in[tx.Hash()] = true
		}
	}
	var out []common.Hash
	for _, h := range w.order {
		t := w.tracked[h]
		if t.Loc != "" && t.Loc != "committed" && !in[h] {
			if _, c := w.committed[h]; !c {
				out = append(out, h)
			}
		}
	}
	return out
}

// slice is the minimal part of the history that explains the pool's view of one sender: its operations since the
// last commit, the earlier submissions whose transactions are still pooled (or were dropped by the operation
// being judged), and that last commit.
func (w *world) slice(a common.Address) []opRec {
	who := w.who(a)
	lastCommit := -1
	for _, r := range w.hist {
		if r.Op == "commit" {
			lastCommit = r.I
		}
	}
	live := map[string]bool{}
	for _, h := range w.order {
		if t := w.tracked[h]; t != nil && t.Loc != "" && t.Loc != "committed" {
			live[short(h)] = true
		}
	}
	for _, h := range w.droppedNow {
		live[short(h)] = true
	}
	var out []opRec
	for _, r := range w.hist {
		switch {
		case r.I == lastCommit:
			out = append(out, r)
		case r.From != who:
		case r.I > lastCommit || (r.Res == "ok" && live[r.Tx]):
			out = append(out, r)
		}
	}
	if len(out) > 60 {
		out = out[len(out)-60:]
	}
	return out
}

func sortedKeys(m map[string]int64) []string {
	var ks []string
	for k := range m {
		ks = append(ks, k)
	}
	sort.Strings(ks)
	return ks
}
