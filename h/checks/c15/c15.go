// Package c15: the mempool offers consensus only executable, non-conflicting, ordered transactions
// (DESIGN.md §5 C15). Lane "C15" is sequential and deterministic (exact oracle after every operation),
// lane "C15R" drives the same pool from many goroutines under the race detector (oracle at barriers).
package c15

import (
	"crypto/sha256"
	"fmt"
	"time"

	"github.com/lianxiangcloud/linkchain/libs/common"
	"github.com/lianxiangcloud/linkchain/mempool"
	"github.com/lianxiangcloud/linkchain/types"

	"verif/h/internal/core"
	"verif/shim/goshim"
	_ "verif/shim/goshim"
)

const rule = "case = one pool configuration (Size, FutureSize, UTXOSize, AccountQueue, MaxReapSize, consensus MaxTxs, drop-time) and a random history of " +
	"submissions (valid, big, future nonce, stale nonce, same-nonce replacement, underfunded, duplicate, oversized, illegal gas, under-paid confidential, " +
	"confidential A->U / U->U / U->A, conflicting and already-spent confidential spends) from 9 senders and 3 confidential wallets, Reap(max), " +
	"executability probes, commits of blocks N proposes from its pool and commits of blocks a second replica proposes from rival transactions N never saw; " +
	"oracles: offered lists pairwise distinct / not committed / key images distinct and unspent / per-sender nonces consecutive from the committed nonce; " +
	"Reap is a per-sender prefix; a block built from the pool executes on the proposer and is accepted by an independent replica; executable queued " +
	"transactions are promoted while there is room; membership accounting of every submitted transaction. " +
	"non-trivial = the history committed >=1 block proposed from the pool AND >=1 foreign block, and saw >=1 promotion or queue entry and >=1 rejection; distinct by hash of the op/result sequence"

func init() {
	core.Register(&core.Check{
		ID:        "C15",
		Level:     "exploration",
		Technique: "runtime monitoring of the real mempool + application under generated hostile histories; snapshot invariants, differential executability on an independent replica, membership accounting",
		Rule:      rule,
		Assumptions: []string{
			"the libxcrypto stand-in (DESIGN §2) provides the confidential-transaction primitives",
			"wall-clock rules (GoodTxDropTime, Lifetime, the 30 s delayed dedup-cache expiry) are pinned to never or 0 per case; the dedup cache's timed expiry itself is not exercised",
			"special (MultiSignAccount / ContractUpgrade) transactions are not generated",
		},
		Cases: seqCases,
		Batch: func(tier string) int {
			if tier == "thorough" {
				return 10
			}
			return 4
		},
		Run: runSeq,
		Floors: func(tier string) map[string]int64 {
			return seqFloors(tier)
		},
		Also:         []string{"C15R"},
		Init:         initProc,
		BatchTimeout: 15 * time.Minute,
	})
	registerRace()
}

func initProc() {
	core.QuietLogs()
	mempool.GoodTxDropTime = never
	mempool.GoodTxRebroadcastTime = never // read once by every pool's ticker; must be > 0
}

// scaleFloors: floors are about half of the minimum measured over VERIF_SEED=1..5 on the unchanged tree at the quick
// case count; other tiers scale with the number of cases (with a further 20 % margin).
func scaleFloors(quick map[string]int64, cases, quickCases int) map[string]int64 {
	if cases == quickCases {
		return quick
	}
	out := map[string]int64{}
	for k, v := range quick {
		out[k] = v * int64(cases) * 8 / (int64(quickCases) * 10)
	}
	return out
}

func seqCases(tier string) int {
	if tier == "thorough" {
		return 5000
	}
	return 64
}

func seqFloors(tier string) map[string]int64 {
	return scaleFloors(map[string]int64{
		"commits_self": 500, "commits_foreign": 300, "commits_foreign_empty": 45, "commits_with_drop_time_zero": 70, "submissions_injected_at_commit_lock_point_admitted": 150,
		"probes_nonempty": 550, "probe_txs_executed": 1400, "reaps_checked": 1800, "partial_reaps": 390,
		"nonce_positions_checked": 10000, "key_images_checked": 2800, "promotion_checks": 6500, "promoted": 200,
		"snapshots_evaluated": 4000, "snapshots_with_full_good_list": 580, "dropped_at_commit/good": 200, "dropped_at_commit/utxo": 45,
		"retained_over_commit":  3600,
		"submit/valid/accepted": 840, "submit/future/accepted": 240, "submit/conf/accepted": 310, "submit/stale/rejected": 140,
		"submit/underfunded/rejected": 130, "submit/duplicate/rejected": 200, "submit/oversized/rejected": 48, "submit/conf-conflict/rejected": 80,
		"submit/conf-spent/rejected": 55, "submit/replace/rejected": 24, "rival/rival-replace/accepted": 180, "rival/rival-drain/accepted": 140,
		"rival/rival-conf/accepted": 100,
	}, seqCases(tier), 64)
}

func runSeq(c *core.Ctx) {
	shimSeed := c.Rng.Bytes(16)
	pc := genPoolCfg(c.Rng)
	w, err := newWorld(c, pc)
	if err != nil {
		if wv, ok := err.(*warmViolation); ok {
			c.Violation("exec/warm-up-block-of-admitted-valid-txs-fails", wv.msg, map[string]interface{}{"config": pc.String()})
			return
		}
		c.Inconclusive("harness: " + err.Error())
		return
	}
	defer w.close()
	w.inj = &injectingPool{Mempool: w.N.Mempool}
	w.N.App.SetMempool(w.inj)
	goshim.Seed(shimSeed) // after the (cached, separately seeded) warm chain: a replayed case draws the same shim randomness
	nOps := c.Rng.Range(100, 150)
	w.afterOp(opCtx{kind: "init", sender: -1}, "start")
	for i := 0; i < nOps && !w.stop; i++ {
		w.step()
	}
	if !w.stop {
		// drain: the pool's remaining offer must still be executable, and commits must empty it
		for k := 0; k < 3 && !w.stop; k++ {
			w.opCommitSelf()
		}
	}
	w.finish()
}

// step performs one random operation followed by the oracles.
func (w *world) step() {
	switch x := w.r.Intn(100); {
	case x < 68:
		w.opSubmit()
	case x < 76:
		w.opReap()
	case x < 81:
		w.opProbe()
	case x < 92:
		w.opCommitSelf()
	default:
		w.opCommitForeign()
	}
}

func (w *world) opSubmit() {
	v := viewOf(w.N)
	g, err := w.genSubmission(v)
	if err != nil || g == nil || g.tx == nil {
		w.c.Count("gen_errors", 1)
		return
	}
	t := w.register(g, false)
	var pre uint64
	s := w.senderOf(t)
	if s != nil {
		pre = w.N.App.GetNonce(s.Addr)
	}
	res := w.N.Mempool.AddTx("", g.tx)
	t.Results = append(t.Results, errClass(res))
	if res == nil {
		t.Accepted = true
	}
	if s != nil {
		post := w.N.App.GetNonce(s.Addr)
		if res != nil && post != pre {
			// not a violation by itself (the statement does not mention the speculative state); remembered to explain one
			w.taint[s.Addr] = t.Class
			w.taintInfo[s.Addr] = fmt.Sprintf("tx %s (class %s, nonce %s) rejected with %q moved the speculative nonce %d -> %d", short(t.Hash), t.Class, w.nonceStr(t), res.Error(), pre, post)
			w.c.Count("rejected_tx_advanced_speculative_nonce/"+res.Error(), 1)
		}
	}
	after := fmt.Sprintf("AddTx(%s %s)=%s", g.class, short(t.Hash), errClass(res))
	w.log(opRec{Op: "submit", Class: g.class, Tx: short(t.Hash), From: w.fromStr(t), Nonce: w.nonceStr(t), Res: errClass(res)})
	w.c.Count("submit/"+g.class+"/"+resKind(res), 1)
	w.c.Count("submissions", 1)
	if res != nil {
		w.c.Count("reject/"+res.Error(), 1)
	}
	op := opCtx{kind: "submit", sender: t.Sender, hash: t.Hash}
	w.afterOp(op, after)
	if w.stop {
		return
	}
	// an accepted transaction is pooled, a transaction whose every submission failed is not (checked in membership);
	// accepted-now must be somewhere right now
	if res == nil && (t.Loc == "" || t.Loc == "committed") {
		sn := w.N.Mempool.VerifSnapshot()
		w.violation("membership/accepted-but-not-pooled", fmt.Sprintf("AddTx(%s) returned nil but the transaction is in no list", short(t.Hash)), &sn, nil)
	}
}

func (w *world) senderOf(t *track) *sender {
	if t.Sender >= 0 && t.Sender < len(w.senders) {
		return w.senders[t.Sender]
	}
	return nil
}

func (w *world) opReap() {
	max := []int{0, 1, 2, 3, 5, 10, 10000, -1}[w.r.Intn(8)]
	s := w.N.Mempool.VerifSnapshot()
	txs := w.N.Mempool.Reap(max)
	w.log(opRec{Op: "reap", Class: fmt.Sprintf("max=%d", max), Res: fmt.Sprintf("%d txs", len(txs))})
	after := fmt.Sprintf("Reap(%d)", max)
	w.checkReap(max, txs, &s, after)
	w.afterOp(opCtx{kind: "reap", sender: -1}, after)
}

func (w *world) opProbe() {
	w.log(opRec{Op: "probe"})
	w.probe("at a probe")
	w.afterOp(opCtx{kind: "probe", sender: -1}, "probe")
}

func (w *world) maybeDropZero() bool {
	if w.pc.DropTimeZero && w.r.Chance(0.5) {
		mempool.GoodTxDropTime = 0
		w.c.Count("commits_with_drop_time_zero", 1)
		return true
	}
	return false
}

// injectingPool is the application's handle on the pool with one scheduling point exposed: a one-shot hook runs
// when CommitBlock asks for the pool lock, before the lock is taken. The hook submits a transaction, i.e. it
// plays a submission that arrives at exactly that moment. With the lock taken where the application takes it
// (before it swaps the speculative state) that is a submission just before the commit; if the swap ever moves
// out of the locked region the submission lands between the swap and Update.
type injectingPool struct {
	types.Mempool
	hook func()
}

func (p *injectingPool) Lock() {
	if h := p.hook; h != nil {
		p.hook = nil
		h()
	}
	p.Mempool.Lock()
}

// armInjection: with some probability the next commit is accompanied by a valid submission at its pool-lock point.
func (w *world) armInjection() {
	w.injSender = -1
	if w.inj == nil || !w.r.Chance(0.35) {
		return
	}
	w.inj.hook = func() {
		v := viewOf(w.N)
		g, err := w.genClass(v, "valid")
		if err != nil || g == nil || g.tx == nil {
			w.c.Count("gen_errors", 1)
			return
		}
		t := w.register(g, false)
		res := w.N.Mempool.AddTx("", g.tx)
		t.Results = append(t.Results, errClass(res))
		if res == nil {
			t.Accepted = true
		}
		t.Injected = true
		if w.c.Verbose {
			sn := w.N.Mempool.VerifSnapshot()
			w.c.Logf("after the lock-point submission: good=%d future-senders=%d", len(sn.Good), len(sn.Future))
			for _, h := range w.order {
				if o := w.tracked[h]; o != nil && o.Sender == t.Sender && o.HasNonce && o.Nonce == t.Nonce+1 {
					if c2, err := cloneTx(o.tx); err == nil {
						w.c.Logf("   state check of successor %s now: %v", short(o.Hash), w.N.App.CheckTx(c2, false))
					}
				}
			}
			for _, tx := range sn.Good {
				w.c.Logf("   good   %s", short(tx.Hash()))
			}
			for a, l := range sn.Future {
				for _, tx := range l {
					w.c.Logf("   future %x %s", a[:3], short(tx.Hash()))
				}
			}
		}
		w.log(opRec{Op: "submit", Class: "valid@commit-lock-point", Tx: short(t.Hash), From: w.fromStr(t), Nonce: w.nonceStr(t), Res: errClass(res)})
		w.c.Count("submissions_injected_at_commit_lock_point", 1)
		w.c.Count("submissions", 1)
		if res == nil {
			w.c.Count("submissions_injected_at_commit_lock_point_admitted", 1)
			w.injSender = t.Sender
		}
	}
}

func (w *world) opCommitSelf() {
	drop := w.maybeDropZero()
	w.armInjection()
	blk := w.commitSelf("before a commit")
	if w.inj != nil {
		w.inj.hook = nil
	}
	mempool.GoodTxDropTime = never
	if blk == nil {
		return
	}
	w.taint, w.taintInfo = map[common.Address]string{}, map[common.Address]string{}
	after := fmt.Sprintf("commit of own block %d (%d txs, drop0=%v)", blk.Height, blk.NumTxs, drop)
	w.log(opRec{Op: "commit", Class: "self", Res: fmt.Sprintf("h=%d txs=%d", blk.Height, blk.NumTxs), Note: fmt.Sprintf("drop0=%v", drop)})
	w.afterOp(opCtx{kind: "commit", sender: -1, drop0: drop, injSender: w.injSender}, after)
	if !w.stop {
		w.probe("after " + after)
	}
}

func (w *world) opCommitForeign() {
	v := viewOf(w.N)
	if !w.r.Chance(0.15) { // sometimes an empty foreign block: Update() without transactions
		w.genRivals(v)
	}
	drop := w.maybeDropZero()
	w.armInjection()
	blk := w.commitForeign("foreign commit")
	if w.inj != nil {
		w.inj.hook = nil
	}
	mempool.GoodTxDropTime = never
	if blk == nil {
		return
	}
	w.taint, w.taintInfo = map[common.Address]string{}, map[common.Address]string{}
	after := fmt.Sprintf("commit of foreign block %d (%d txs, drop0=%v)", blk.Height, blk.NumTxs, drop)
	w.log(opRec{Op: "commit", Class: "foreign", Res: fmt.Sprintf("h=%d txs=%d", blk.Height, blk.NumTxs), Note: fmt.Sprintf("drop0=%v", drop)})
	w.afterOp(opCtx{kind: "commit", sender: -1, drop0: drop, injSender: w.injSender}, after)
	if !w.stop {
		w.probe("after " + after)
	}
}

// finish: fingerprint, non-triviality, sample.
func (w *world) finish() {
	h := sha256.New()
	var self, foreign, queued, rejected bool
	for _, r := range w.hist {
		fmt.Fprintf(h, "%s|%s|%s|%s|%s;", r.Op, r.Class, r.From, r.Nonce, r.Res)
		switch {
		case r.Op == "commit" && r.Class == "self":
			self = true
		case r.Op == "commit" && r.Class == "foreign":
			foreign = true
		case r.Op == "submit" && r.Res != "ok":
			rejected = true
		}
	}
	for _, hh := range w.order {
		if t := w.tracked[hh]; t != nil && t.Accepted && t.Class == "future" {
			queued = true
		}
	}
	fmt.Fprintf(h, "%s", w.pc.String())
	if self && foreign && queued && rejected && !w.stop {
		w.c.Nontrivial(fmt.Sprintf("%x", h.Sum(nil)[:8]))
	}
	if w.c.Index%16 == 0 {
		n := len(w.hist)
		if n > 40 {
			n = 40
		}
		w.c.Sample(map[string]interface{}{"config": w.pc.String(), "ops": len(w.hist), "first_ops": w.hist[:n]})
	}
	w.c.Count("cases", 1)
	if w.stop {
		w.c.Count("cases_ended_early", 1)
	}
	w.c.Count("ops", int64(len(w.hist)))
	w.c.Count("cfg/size="+fmt.Sprint(w.pc.Size), 1)
}
