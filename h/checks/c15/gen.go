package c15

import (
	"fmt"
	"math/big"
	"sort"

	"github.com/lianxiangcloud/linkchain/libs/common"
	"github.com/lianxiangcloud/linkchain/libs/ser"
	"github.com/lianxiangcloud/linkchain/mempool"
	"github.com/lianxiangcloud/linkchain/types"

	"verif/h/internal/chainkit"
)

// view is what the generator (and the oracles) read from a pool at a quiescent point.
type view struct {
	snap      mempool.VerifSnapshot
	committed func(common.Address) uint64 // committed account nonce
	offered   map[common.Address]int      // number of offered (good list) transactions per sender
	future    map[common.Address]map[uint64]bool
}

func viewOf(n *chainkit.Node) *view {
	st := n.App.VerifStoreState()
	v := &view{snap: n.Mempool.VerifSnapshot(), offered: map[common.Address]int{}, future: map[common.Address]map[uint64]bool{}}
	v.committed = func(a common.Address) uint64 { return st.GetNonce(a) }
	for _, l := range [][]types.Tx{v.snap.Good, v.snap.Utxo, v.snap.Spec} {
		for _, tx := range l {
			if a, _, ok := acctNonce(tx); ok {
				v.offered[a]++
			}
		}
	}
	for a, txs := range v.snap.Future {
		m := map[uint64]bool{}
		for _, tx := range txs {
			if _, n, ok := acctNonce(tx); ok {
				m[n] = true
			}
		}
		v.future[a] = m
	}
	return v
}

// next is the nonce the sender's next executable transaction must carry.
func (v *view) next(a common.Address) uint64 { return v.committed(a) + uint64(v.offered[a]) }

// cloneTx returns a separately decoded object of the same transaction (what a second peer delivers).
func cloneTx(tx types.Tx) (types.Tx, error) {
	b, err := ser.EncodeToBytes(&tx)
	if err != nil {
		return nil, err
	}
	var out types.Tx
	if err := ser.DecodeBytes(b, &out); err != nil {
		return nil, err
	}
	if out.Hash() != tx.Hash() {
		return nil, fmt.Errorf("clone changed the hash")
	}
	return out, nil
}

type genTx struct {
	tx     types.Tx
	class  string
	kind   string
	sender int
}

func (w *world) smallValue() *big.Int { return mulInt(e15, int64(1+w.r.Intn(2000))) }

func (w *world) recipient() common.Address { return w.recips[w.r.Intn(len(w.recips))] }

func (w *world) pickSender(roles ...string) *sender {
	var cands []*sender
	for _, s := range w.senders {
		for _, r := range roles {
			if s.Role == r {
				cands = append(cands, s)
			}
		}
	}
	return cands[w.r.Intn(len(cands))]
}

// anySender: mostly rich, sometimes poor.
func (w *world) anySender() *sender {
	if w.r.Chance(0.25) {
		return w.pickSender("poor")
	}
	return w.pickSender("rich")
}

// acctTx builds one account-based transaction (plain / token / account->confidential) of sender s with the given nonce.
// value nil = a small random value.
func (w *world) acctTx(s *sender, nonce uint64, form int, value *big.Int) (types.Tx, string, error) {
	switch form {
	case 1: // token transfer
		v := big.NewInt(int64(1 + w.r.Intn(1000)))
		if value != nil {
			v = value
		}
		tx, err := chainkit.NewTokenTransfer(s.Account, tokenID, nonce, w.recipient(), v)
		return tx, "token", err
	case 2: // account -> confidential
		var dests []types.DestEntry
		total := new(big.Int)
		n := 1 + w.r.Intn(3)
		for k := 0; k < n; k++ {
			amt := mulInt(e20, int64(2+w.r.Intn(8)))
			if value != nil {
				amt = new(big.Int).Set(value)
			}
			dests = append(dests, chainkit.Dest(w.wallets[w.r.Intn(numWallets)], uint64(w.r.Intn(2)), amt))
			total.Add(total, amt)
		}
		tx, err := chainkit.NewAinTx(s.Account, nonce, dests, chainkit.UtxoFeeAinToU(total))
		return tx, "ain", err
	default:
		v := value
		if v == nil {
			v = w.smallValue()
		}
		tx, err := chainkit.NewTransfer(s.Account, nonce, w.recipient(), v)
		return tx, "plain", err
	}
}

func (w *world) form(s *sender) int {
	if s.Role != "rich" {
		return 0 // poor accounts own neither tokens nor 200 LKC
	}
	switch x := w.r.Intn(10); {
	case x < 5:
		return 0
	case x < 7:
		return 1
	default:
		return 2
	}
}

// roundDown makes v a multiple of the confidential unit (10^10).
func roundDown(v *big.Int) *big.Int {
	return new(big.Int).Sub(v, new(big.Int).Mod(v, utxoUnit))
}

// confidential builds a spend of one owned output: kind "uu" (-> confidential) or "ua" (-> account).
// feeCut > 0 lowers the fee below what the chain demands.
func (w *world) confidential(o *chainkit.OwnedOut, toAccount bool, lowFee bool) (types.Tx, string, error) {
	wal := w.wallets[o.Owner]
	nOuts := len(w.led.Outs[lkcToken])
	ring := []int{1, 1, 3, 5}[w.r.Intn(4)]
	if ring > nOuts {
		ring = 1
	}
	var dests []types.DestEntry
	kind := "uu"
	if toAccount {
		kind = "ua"
		fee := chainkit.UtxoFeeUinToA(o.Amount)
		if lowFee {
			fee = new(big.Int).Div(fee, big.NewInt(2))
			fee.Sub(fee, new(big.Int).Mod(fee, big.NewInt(types.ParGasPrice)))
		}
		out := new(big.Int).Sub(o.Amount, fee)
		if out.Sign() <= 0 {
			return nil, kind, fmt.Errorf("output too small")
		}
		dests = append(dests, &types.AccountDestEntry{To: w.recipient(), Amount: out})
	} else {
		fee := chainkit.UtxoFeeUinToU(w.N.App.GetUTXOGas())
		if lowFee {
			fee = new(big.Int).Div(fee, big.NewInt(2))
			fee.Sub(fee, new(big.Int).Mod(fee, big.NewInt(types.ParGasPrice)))
		}
		rest := new(big.Int).Sub(o.Amount, fee)
		if rest.Cmp(mulInt(utxoUnit, 4)) < 0 {
			return nil, kind, fmt.Errorf("output too small")
		}
		to := w.wallets[w.r.Intn(numWallets)]
		if w.r.Chance(0.4) { // split into two outputs
			a := roundDown(new(big.Int).Div(rest, big.NewInt(int64(2+w.r.Intn(3)))))
			dests = append(dests, chainkit.Dest(to, uint64(w.r.Intn(2)), a), chainkit.Dest(wal, 0, new(big.Int).Sub(rest, a)))
		} else {
			dests = append(dests, chainkit.Dest(to, uint64(w.r.Intn(2)), rest))
		}
	}
	tx, err := w.led.NewUinTx(w.r, wal, []*chainkit.OwnedOut{o}, ring, dests)
	return tx, kind, err
}

// outputs lists the confidential outputs the ledger owns, split by what the harness already built on them.
func (w *world) outputs() (fresh, used, spentOuts []*chainkit.OwnedOut) {
	for _, wal := range w.wallets {
		for _, o := range wal.Outs {
			switch {
			case o.Spent:
				spentOuts = append(spentOuts, o)
			case w.liveUsers(o) > 0:
				used = append(used, o)
			default:
				fresh = append(fresh, o)
			}
		}
	}
	return
}

// liveUsers counts transactions built on o that are (as far as the harness knows) still pooled somewhere.
func (w *world) liveUsers(o *chainkit.OwnedOut) int {
	n := 0
	for _, h := range w.usedBy[o.KeyImage] {
		if t := w.tracked[h]; t != nil && (t.Rival || t.Batch || (t.Loc != "" && t.Loc != "committed")) {
			n++
		}
	}
	return n
}

// genSubmission draws one transaction for N.
func (w *world) genSubmission(v *view) (*genTx, error) {
	classes := []struct {
		name string
		wt   int
	}{
		{"valid", 30}, {"valid-big", 5}, {"future", 12}, {"stale", 6}, {"replace", 4}, {"underfunded", 6}, {"duplicate", 8},
		{"oversized", 2}, {"badgas", 2}, {"lowfee-ain", 4}, {"conf", 10}, {"conf-conflict", 6}, {"conf-spent", 2}, {"conf-lowfee", 2},
	}
	total := 0
	for i := range classes {
		if classes[i].name == "lowfee-ain" && !w.pc.UnderpaidAin {
			classes[i].wt = 0
		}
		total += classes[i].wt
	}
	x := w.r.Intn(total)
	class := ""
	for _, c := range classes {
		if x < c.wt {
			class = c.name
			break
		}
		x -= c.wt
	}
	return w.genClass(v, class)
}

func (w *world) genClass(v *view, class string) (*genTx, error) {
	mk := func(tx types.Tx, kind string, s *sender, err error) (*genTx, error) {
		if err != nil {
			return nil, err
		}
		idx := -1
		if s != nil {
			idx = s.Idx
		}
		return &genTx{tx: tx, class: class, kind: kind, sender: idx}, nil
	}
	switch class {
	case "valid":
		s := w.anySender()
		tx, kind, err := w.acctTx(s, v.next(s.Addr), w.form(s), nil)
		return mk(tx, kind, s, err)
	case "valid-big": // a large share of the speculative balance: later ones run dry, rivals can invalidate it
		s := w.pickSender("rich")
		bal := w.N.App.GetBalance(s.Addr)
		val := new(big.Int).Div(mulInt(bal, int64(30+w.r.Intn(40))), big.NewInt(100))
		tx, kind, err := w.acctTx(s, v.next(s.Addr), 0, val)
		return mk(tx, kind, s, err)
	case "future":
		s := w.anySender()
		tx, kind, err := w.acctTx(s, v.next(s.Addr)+uint64(1+w.r.Intn(5)), w.form(s), nil)
		return mk(tx, kind, s, err)
	case "stale":
		s := w.anySender()
		nx := v.next(s.Addr)
		if nx == 0 {
			return w.genClass(v, "valid")
		}
		tx, kind, err := w.acctTx(s, uint64(w.r.Intn(int(nx))), w.form(s), nil)
		return mk(tx, kind, s, err)
	case "replace": // same nonce as a pooled transaction, different content
		s := w.anySender()
		if v.offered[s.Addr] == 0 {
			return w.genClass(v, "valid")
		}
		tx, kind, err := w.acctTx(s, v.committed(s.Addr)+uint64(w.r.Intn(v.offered[s.Addr])), w.form(s), nil)
		return mk(tx, kind, s, err)
	case "underfunded":
		switch w.r.Intn(4) {
		case 0: // an account that owns nothing
			s := w.pickSender("unfunded")
			tx, kind, err := w.acctTx(s, v.next(s.Addr), 0, nil)
			return mk(tx, kind, s, err)
		case 1: // more tokens than owned
			s := w.pickSender("rich")
			tx, kind, err := w.acctTx(s, v.next(s.Addr), 1, big.NewInt(2000000000000))
			return mk(tx, kind, s, err)
		case 2: // account -> confidential beyond the balance
			s := w.pickSender("poor")
			tx, kind, err := w.acctTx(s, v.next(s.Addr), 2, mulInt(e20, 3))
			return mk(tx, kind, s, err)
		default: // slightly more than the speculative balance
			s := w.anySender()
			bal := w.N.App.GetBalance(s.Addr)
			tx, kind, err := w.acctTx(s, v.next(s.Addr), 0, new(big.Int).Add(bal, big.NewInt(int64(w.r.Intn(3)))))
			return mk(tx, kind, s, err)
		}
	case "duplicate":
		if len(w.order) == 0 {
			return w.genClass(v, "valid")
		}
		// prefer recent submissions (they are the ones still pooled)
		i := len(w.order) - 1 - w.r.Intn(minInt(len(w.order), 12))
		if w.r.Chance(0.2) {
			i = w.r.Intn(len(w.order))
		}
		t := w.tracked[w.order[i]]
		tx, err := cloneTx(t.tx)
		g, err := mk(tx, t.Kind, nil, err)
		if g != nil {
			g.sender = t.Sender
		}
		return g, err
	case "oversized":
		s := w.pickSender("rich")
		val := w.smallValue()
		tx, err := chainkit.NewCall(s.Account, v.next(s.Addr), w.recipient(), val, chainkit.TransferGas(val), w.r.Bytes(33*1024))
		return mk(tx, "plain", s, err)
	case "badgas":
		s := w.pickSender("rich")
		val := w.smallValue()
		tx, err := chainkit.NewCall(s.Account, v.next(s.Addr), w.recipient(), val, chainkit.TransferGas(val)+uint64(1+w.r.Intn(5)), nil)
		return mk(tx, "plain", s, err)
	case "lowfee-ain": // account -> confidential paying less than the chain's fee (any nonce position)
		s := w.pickSender("rich")
		amt := mulInt(e20, int64(2+w.r.Intn(8)))
		fee := chainkit.UtxoFeeAinToU(amt)
		fee = new(big.Int).Div(fee, big.NewInt(int64(2+w.r.Intn(3))))
		fee.Sub(fee, new(big.Int).Mod(fee, big.NewInt(types.ParGasPrice)))
		nonce := v.next(s.Addr)
		if w.r.Chance(0.3) {
			nonce += uint64(1 + w.r.Intn(2))
		}
		tx, err := chainkit.NewAinTx(s.Account, nonce, []types.DestEntry{chainkit.Dest(w.wallets[w.r.Intn(numWallets)], 0, amt)}, fee)
		return mk(tx, "ain", s, err)
	case "conf", "conf-lowfee":
		fresh, _, _ := w.outputs()
		if len(fresh) == 0 {
			return w.genClass(v, "valid")
		}
		o := fresh[w.r.Intn(len(fresh))]
		tx, kind, err := w.confidential(o, w.r.Chance(0.35), class == "conf-lowfee")
		return mk(tx, kind, nil, err)
	case "conf-conflict": // a second spend of an output a pooled (or rival) transaction already spends
		_, used, _ := w.outputs()
		if len(used) == 0 {
			return w.genClass(v, "conf")
		}
		o := used[w.r.Intn(len(used))]
		tx, kind, err := w.confidential(o, w.r.Chance(0.35), false)
		return mk(tx, kind, nil, err)
	case "conf-spent": // spends an output whose key image is already on chain
		_, _, sp := w.outputs()
		if len(sp) == 0 {
			return w.genClass(v, "conf")
		}
		o := sp[w.r.Intn(len(sp))]
		tx, kind, err := w.confidential(o, w.r.Chance(0.35), false)
		return mk(tx, kind, nil, err)
	}
	return nil, fmt.Errorf("unknown class %s", class)
}

func minInt(a, b int) int {
	if a < b {
		return a
	}
	return b
}

// register records a generated transaction in the harness' books (idempotent per hash).
func (w *world) register(g *genTx, rival bool) *track {
	h := g.tx.Hash()
	if t := w.tracked[h]; t != nil {
		if !rival {
			t.Rival = false
		}
		return t
	}
	t := &track{tx: g.tx, Hash: h, Class: g.class, Kind: g.kind, Sender: g.sender, Rival: rival, KIs: keyImagesOf(g.tx)}
	if _, n, ok := acctNonce(g.tx); ok {
		t.HasNonce, t.Nonce = true, n
	}
	w.tracked[h] = t
	w.order = append(w.order, h)
	for _, k := range t.KIs {
		w.usedBy[k] = append(w.usedBy[k], h)
	}
	return t
}

func errClass(err error) string {
	if err == nil {
		return "ok"
	}
	return err.Error()
}

// genRivals feeds E's pool with transactions that compete with what N holds (or are simply not known to N).
func (w *world) genRivals(v *view) int {
	ev := viewOf(w.E)
	n := 0
	k := 1 + w.r.Intn(3)
	// senders with pooled transactions in N, in deterministic order
	var busy []*sender
	for _, s := range w.senders {
		if v.offered[s.Addr] > 0 || len(v.future[s.Addr]) > 0 {
			busy = append(busy, s)
		}
	}
	for i := 0; i < k; i++ {
		var g *genTx
		var err error
		switch x := w.r.Intn(10); {
		case x < 4 && len(busy) > 0: // same nonce, other content
			s := busy[w.r.Intn(len(busy))]
			tx, kind, e := w.acctTx(s, ev.next(s.Addr), w.form(s), nil)
			g, err = &genTx{tx: tx, class: "rival-replace", kind: kind, sender: s.Idx}, e
		case x < 7 && len(busy) > 0: // drain: most of the committed balance leaves the account
			s := busy[w.r.Intn(len(busy))]
			bal := w.E.App.GetBalance(s.Addr)
			val := new(big.Int).Div(mulInt(bal, int64(80+w.r.Intn(15))), big.NewInt(100))
			if val.Sign() <= 0 {
				continue
			}
			tx, kind, e := w.acctTx(s, ev.next(s.Addr), 0, val)
			g, err = &genTx{tx: tx, class: "rival-drain", kind: kind, sender: s.Idx}, e
		case x < 9: // competing spend of a confidential output (preferably one N's pool spends too)
			fresh, used, _ := w.outputs()
			cands := used
			if len(cands) == 0 || w.r.Chance(0.3) {
				cands = fresh
			}
			if len(cands) == 0 {
				continue
			}
			o := cands[w.r.Intn(len(cands))]
			tx, kind, e := w.confidential(o, w.r.Chance(0.35), false)
			g, err = &genTx{tx: tx, class: "rival-conf", kind: kind, sender: -1}, e
		default: // unrelated valid transfer
			s := w.pickSender("rich")
			tx, kind, e := w.acctTx(s, ev.next(s.Addr), 0, nil)
			g, err = &genTx{tx: tx, class: "rival-plain", kind: kind, sender: s.Idx}, e
		}
		if err != nil || g == nil || g.tx == nil {
			w.c.Count("gen_errors", 1)
			continue
		}
		t := w.register(g, true)
		res := w.E.Mempool.AddTx("", g.tx)
		w.log(opRec{Op: "rival", Class: g.class, Tx: short(t.Hash), From: w.fromStr(t), Nonce: w.nonceStr(t), Res: errClass(res)})
		w.c.Count("rival/"+g.class+"/"+resKind(res), 1)
		if res == nil {
			n++
			ev = viewOf(w.E)
		}
	}
	return n
}

func resKind(err error) string {
	if err == nil {
		return "accepted"
	}
	return "rejected"
}

func (w *world) fromStr(t *track) string {
	if t.Sender >= 0 {
		return fmt.Sprintf("s%d", t.Sender)
	}
	return "-"
}

func (w *world) nonceStr(t *track) string {
	if t.HasNonce {
		return fmt.Sprintf("%d", t.Nonce)
	}
	return "-"
}

func sortedAddrs(m map[common.Address][]types.Tx) []common.Address {
	var out []common.Address
	for a := range m {
		out = append(out, a)
	}
	sort.Slice(out, func(i, j int) bool { return string(out[i][:]) < string(out[j][:]) })
	return out
}
