package c18

import (
	"bytes"
	"encoding/binary"
	"fmt"
	"io"
	"sync"

	"github.com/golang/snappy"

	"verif/h/internal/core"
	"verif/h/internal/rng"
)

const frameData = 32 * 1024 // dataMaxSize of secret_connection.go

var writeMenu = []int{1, 1, 2, 5, 100, 1023, 1024, 1025, 4095, 4096, 4097,
	frameData - 1, frameData, frameData + 1, 2*frameData - 1, 2 * frameData, 2*frameData + 1,
	3*frameData - 1, 3 * frameData, 3*frameData + 1, 4 * frameData}

var readMenu = []int{1, 2, 3, 7, 64, 1000, 1023, 1024, 1025, 4096, frameData - 1, frameData, frameData + 1, 65536}

type dirSpec struct {
	Writes  []int `json:"writes"`
	Reads   []int `json:"reads"`
	Pattern int   `json:"pattern"`
	Total   int   `json:"total"`
}

type pipeSpec struct {
	Sync     bool   `json:"sync"`
	Cap      int    `json:"cap"`
	MaxChunk int    `json:"max_chunk"`
	Yield    uint32 `json:"yield_every"`
}

func genPipeSpec(r *rng.R) pipeSpec {
	var ps pipeSpec
	ps.Sync = r.Chance(0.15)
	ps.Cap = []int{1, 2, 5, 64, 1000, 4096, 32773, 65536, 1 << 20}[r.Intn(9)]
	ps.MaxChunk = []int{0, 0, 1, 2, 3, 5, 64, 1000, 1460, 32768, 65536}[r.Intn(11)]
	ps.Yield = []uint32{0, 1, 2, 7, 50}[r.Intn(5)]
	return ps
}

func (ps pipeSpec) apply(h *half, tap *bytes.Buffer) {
	if ps.Sync {
		h.setSync(ps.MaxChunk, ps.Yield, tap)
	} else {
		h.setBuffered(ps.Cap, ps.MaxChunk, ps.Yield, tap)
	}
}

// tiny transfer steps make every byte cost a lock round trip: scale the volume down.
func (ps pipeSpec) budget(base int) int {
	small := ps.MaxChunk > 0 && ps.MaxChunk <= 5
	if !ps.Sync && ps.Cap <= 5 {
		small = true
	}
	if small {
		return base / 6
	}
	return base
}

func genDir(r *rng.R, budget int) dirSpec {
	var d dirSpec
	d.Pattern = r.Intn(4)
	nw := r.Range(1, 40)
	for i := 0; i < nw; i++ {
		var w int
		switch {
		case r.Chance(0.03):
			w = 0
		case r.Chance(0.7):
			w = writeMenu[r.Intn(len(writeMenu))]
		default:
			w = r.Range(1, 200000)
		}
		if d.Total+w > budget {
			if i == 0 {
				w = budget
			} else {
				break
			}
		}
		d.Writes = append(d.Writes, w)
		d.Total += w
	}
	nr := r.Range(1, 6)
	nonzero := false
	for i := 0; i < nr; i++ {
		var k int
		switch {
		case r.Chance(0.04):
			k = 0
		case r.Chance(0.7):
			k = readMenu[r.Intn(len(readMenu))]
		default:
			k = r.Range(1, 65536)
		}
		if k > 0 {
			nonzero = true
		}
		d.Reads = append(d.Reads, k)
	}
	if !nonzero {
		d.Reads = append(d.Reads, readMenu[r.Intn(len(readMenu))])
	}
	// byte-wise reads of a large stream are slow under the race detector
	small := true
	for _, k := range d.Reads {
		if k > 7 {
			small = false
		}
	}
	if small && d.Total > budget/4 {
		d.Total = 0
		var ws []int
		for _, w := range d.Writes {
			if d.Total+w > budget/4 {
				break
			}
			ws = append(ws, w)
			d.Total += w
		}
		if len(ws) == 0 {
			ws = []int{frameData + 1}
			d.Total = frameData + 1
		}
		d.Writes = ws
	}
	return d
}

type dirResult struct {
	got      []byte
	rerr     error
	werr     error
	wshort   string
	overread string
	fromRem  int64
	reads    int64
}

func (h *half) readCalls() int64 {
	h.mu.Lock()
	defer h.mu.Unlock()
	return h.nreads
}

func runStream(c *core.Ctx, procs int) {
	r := c.Rng
	ka, kb := genKey(r), genKey(r)
	pa, pb := newPipe(r)
	sca, scb, ok := realPair(c, pa, pb, ka, kb)
	if !ok {
		return
	}
	psAB, psBA := genPipeSpec(r), genPipeSpec(r)
	base := 700000
	if c.Tier == "thorough" {
		base = 1000000
	}
	dAB := genDir(r, psAB.budget(base))
	dBA := genDir(r, psBA.budget(base))
	dataAB := fillPattern(r, dAB.Total, dAB.Pattern)
	dataBA := fillPattern(r, dBA.Total, dBA.Pattern)
	var rawAB, rawBA bytes.Buffer
	psAB.apply(pa.out, &rawAB)
	psBA.apply(pb.out, &rawBA)

	type scT interface {
		Read([]byte) (int, error)
		Write([]byte) (int, error)
	}
	var resAB, resBA dirResult
	var wg sync.WaitGroup
	writer := func(sc scT, raw *pconn, d dirSpec, data []byte, res *dirResult) {
		defer wg.Done()
		defer raw.CloseWrite()
		off := 0
		for i, w := range d.Writes {
			n, err := sc.Write(data[off : off+w])
			if err != nil {
				res.werr = err
				return
			}
			if n != w {
				res.wshort = fmt.Sprintf("write #%d of %d bytes returned n=%d", i, w, n)
				return
			}
			off += w
		}
	}
	reader := func(sc scT, raw *pconn, d dirSpec, res *dirResult) {
		defer wg.Done()
		// a reader that gives up (error, contract breach) must not leave its writer blocked on a full pipe
		defer raw.in.closeRead()
		maxk := 1
		for _, k := range d.Reads {
			if k > maxk {
				maxk = k
			}
		}
		buf := make([]byte, maxk)
		res.got = make([]byte, 0, d.Total+16)
		zero := 0
		for i := 0; ; i++ {
			k := d.Reads[i%len(d.Reads)]
			before := raw.in.readCalls()
			n, err := sc.Read(buf[:k])
			res.reads++
			if n > 0 && raw.in.readCalls() == before {
				res.fromRem++
			}
			if n < 0 || n > k {
				res.overread = fmt.Sprintf("Read(buf[:%d]) returned n=%d", k, n)
				return
			}
			res.got = append(res.got, buf[:n]...)
			if err != nil {
				res.rerr = err
				return
			}
			if n == 0 && k > 0 {
				zero++
				if zero > 100000 {
					res.overread = "Read keeps returning (0, nil) for a non-empty buffer"
					return
				}
			}
			if len(res.got) > d.Total+(1<<20) {
				res.overread = "stream keeps producing bytes beyond what was written"
				return
			}
		}
	}
	wg.Add(4)
	go writer(sca, pa, dAB, dataAB, &resAB)
	go reader(scb, pb, dAB, &resAB)
	go writer(scb, pb, dBA, dataBA, &resBA)
	go reader(sca, pa, dBA, &resBA)
	done := make(chan struct{})
	go func() { wg.Wait(); close(done) }()
	if waitDone(done, pa.out.prog) {
		c.Inconclusive("watchdog: stream case did not finish")
		pa.Close()
		pb.Close()
		<-done
		return
	}
	pa.Close()
	pb.Close()

	desc := map[string]interface{}{"keyA": keyType(ka.PubKey()), "keyB": keyType(kb.PubKey()), "procs": procs,
		"A->B": dAB, "B->A": dBA, "pipeA->B": psAB, "pipeB->A": psBA}
	checkDir(c, "A->B", dAB, dataAB, &resAB, desc)
	checkDir(c, "B->A", dBA, dataBA, &resBA, desc)
	countFrames(c, rawAB.Bytes())
	countFrames(c, rawBA.Bytes())

	for _, d := range []dirSpec{dAB, dBA} {
		multi, short := false, false
		for _, w := range d.Writes {
			if w > frameData {
				multi = true
			}
			switch w {
			case frameData - 1, frameData, frameData + 1, 2*frameData - 1, 2 * frameData, 2*frameData + 1, 3*frameData - 1, 3 * frameData, 3*frameData + 1, 1023, 1024, 1025:
				c.Count("sc_boundary_writes", 1)
			}
		}
		for _, k := range d.Reads {
			if k < frameData {
				short = true
			}
		}
		if multi && short {
			c.Nontrivial(fp("stream", d))
		}
	}
	if c.Index%100 == 2 {
		c.Sample(map[string]interface{}{"kind": "stream", "A->B": summarize(dAB), "B->A": summarize(dBA), "pipeA->B": psAB, "pipeB->A": psBA})
	}
}

func summarize(d dirSpec) map[string]interface{} {
	w := d.Writes
	if len(w) > 10 {
		w = w[:10]
	}
	return map[string]interface{}{"writes_prefix": w, "n_writes": len(d.Writes), "reads_cycle": d.Reads, "total": d.Total, "pattern": d.Pattern}
}

func checkDir(c *core.Ctx, name string, d dirSpec, data []byte, res *dirResult, desc map[string]interface{}) {
	w := map[string]interface{}{"direction": name, "case": desc}
	if res.overread != "" {
		c.Violation("sc/read-contract", name+": "+res.overread, w)
		return
	}
	if res.rerr != nil && res.rerr != io.EOF {
		// the transport is reliable and the writer only half-closes after its last byte
		pre := "a correct prefix"
		if len(res.got) > len(data) || !bytes.Equal(res.got, data[:len(res.got)]) {
			pre = "NOT a prefix of what was written"
		}
		c.Violation("sc/read-error", fmt.Sprintf("%s: Read failed with %q after %d of %d bytes (%s)", name, res.rerr, len(res.got), len(data), pre), w)
		return
	}
	if res.werr != nil {
		c.Violation("sc/write-error", fmt.Sprintf("%s: Write failed on a reliable transport: %v", name, res.werr), w)
		return
	}
	if res.wshort != "" {
		c.Violation("sc/write-count", name+": "+res.wshort, w)
		return
	}
	c.Count("sc_bytes", int64(len(res.got)))
	c.Count("sc_reads", res.reads)
	c.Count("sc_reads_from_remainder", res.fromRem)
	c.Count("sc_writes", int64(len(d.Writes)))
	if !bytes.Equal(res.got, data) {
		i := 0
		for i < len(res.got) && i < len(data) && res.got[i] == data[i] {
			i++
		}
		key := "sc/stream-corrupted"
		switch {
		case i == len(res.got) && len(res.got) < len(data):
			key = "sc/stream-truncated"
		case i == len(data) && len(res.got) > len(data):
			key = "sc/stream-extra-bytes"
		case len(res.got) != len(data):
			key = "sc/stream-corrupted-length-differs"
		}
		// which write covers the first differing offset
		off, wi := 0, -1
		for j, ws := range d.Writes {
			if i < off+ws {
				wi = j
				break
			}
			off += ws
		}
		w["first_diff_offset"] = i
		w["write_index"] = wi
		w["offset_in_write"] = i - off
		w["read_err"] = fmt.Sprint(res.rerr)
		c.Violation(key, fmt.Sprintf("%s: wrote %d bytes, read %d bytes, first difference at offset %d (write #%d, offset %d in it), read ended with %v",
			name, len(data), len(res.got), i, wi, i-off, res.rerr), w)
		return
	}
	c.Count("sc_streams_verified", 1)
}

// countFrames parses the raw bytes one direction put on the wire after the handshake.
func countFrames(c *core.Ctx, raw []byte) {
	for len(raw) >= 5 {
		l := int(binary.BigEndian.Uint32(raw[1:5]))
		if len(raw) < 5+l {
			break
		}
		if raw[0] == 0xFF {
			c.Count("sc_frames_compress", 1)
			if dl, err := snappy.DecodedLen(raw[5 : 5+l]); err == nil && dl == frameData {
				c.Count("sc_frames_full", 1)
			}
		} else {
			c.Count("sc_frames_other", 1)
		}
		raw = raw[5+l:]
	}
}
