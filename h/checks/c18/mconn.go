package c18

import (
	"bytes"
	"fmt"
	"net"
	"runtime"
	"strings"
	"sync"
	"sync/atomic"
	"time"

	p2pconn "github.com/lianxiangcloud/linkchain/libs/p2p/conn"
	"github.com/lianxiangcloud/linkchain/libs/ser"

	"verif/h/internal/core"
	"verif/h/internal/rng"
)

// Message identity. Every message of one side is unique:
//   len >= 4 : [sender 0..63][seq 3 bytes BE] body...      (seq unique per side)
//   len 1..3 : [0x80|k] body...                            (k unique per side, < 128)
//   fence    : [0x7F][channel index]"FENCE"
// The rest of the body is generated, so the id determines the complete content.

type msg struct {
	Idx    int
	Ch     int // channel index
	Sender int
	Try    bool
	Fence  bool
	data   []byte
	// written by the sending goroutine, read after it was joined
	attempted bool
	ok        bool
	inv, ret  int64
}

type chanSpec struct {
	ID       byte `json:"id"`
	Priority int  `json:"prio"`
	SendQ    int  `json:"sendq"`
	RecvBuf  int  `json:"recvbuf"`
}

type mcSpec struct {
	Transport  string     `json:"transport"`
	Chans      []chanSpec `json:"chans"`
	Payload    int        `json:"max_packet_payload"`
	FlushMs    int        `json:"flush_ms"`
	Rate       int64      `json:"rate"`
	PingMs     int        `json:"ping_ms"`
	Slow       [2]int     `json:"slow_receiver_yields"`
	Senders    [2]int     `json:"senders"`
	Msgs       [2]int     `json:"msgs"`
	Bytes      [2]int     `json:"bytes"`
	PipeAB     pipeSpec   `json:"pipeA->B"`
	PipeBA     pipeSpec   `json:"pipeB->A"`
	SizeSample []int      `json:"size_sample"`
	Procs      int        `json:"procs"`
	// fault injection: the transport fails (both directions) after CutAt bytes were read from direction CutDir
	CutDir string `json:"cut_dir,omitempty"`
	CutAt  int64  `json:"cut_at,omitempty"`
	CutIn  string `json:"cut_inside,omitempty"`
}

// preciseCutOffset lays out the packet stream side A will write (one sender, one channel: the
// messages go out in program order, cut into packets of the configured payload size) and returns
// a byte offset that lies inside the payload bytes of the final packet of a chosen message, i.e.
// after that packet's channel id and EOF marker were transmitted.
func preciseCutOffset(a *side, sp *mcSpec, frac float64) (int64, string) {
	msgs := append(append([]*msg{}, a.senders[0]...), a.fences...)
	target := int(frac * float64(len(msgs)))
	if target >= len(msgs) {
		target = len(msgs) - 1
	}
	var off int64
	for i, m := range msgs {
		rest := m.data
		for pk := 0; ; pk++ {
			n := len(rest)
			if n > sp.Payload {
				n = sp.Payload
			}
			p := p2pconn.PacketMsg{ChannelID: sp.Chans[m.Ch].ID, Bytes: rest[:n]}
			if n == len(rest) {
				p.EOF = 1
			}
			enc := int64(len(ser.MustEncodeToBytesWithType(p)))
			if i == target && p.EOF == 1 {
				missing := 1 + int(frac*1000)%n // 1..n payload bytes never arrive
				return off + enc - int64(missing), fmt.Sprintf("message idx=%d (%d bytes), packet #%d (eof=1, %d payload bytes): the last %d payload bytes are never transmitted",
					m.Idx, len(m.data), pk, n, missing)
			}
			off += enc
			rest = rest[n:]
			if len(rest) == 0 {
				break
			}
		}
	}
	return off, "end of stream"
}

type side struct {
	name    string
	mc      *p2pconn.MConnection
	tap     *tapConn
	senders [][]*msg
	fences  []*msg
	all     []*msg
	byKey   map[string]*msg // messages this side sends
	// receive state: messages received BY this side
	rmu       sync.Mutex
	recvd     [][]*msg
	delCount  map[*msg]int
	fencesGot int
	slow      int
}

type mcHarness struct {
	c       *core.Ctx
	spec    *mcSpec
	chIdx   map[byte]int
	sides   [2]*side
	clk     int64
	abort   int32
	fin     sync.Once
	done    chan struct{}
	reason  string
	sideFin [2]int32
	running int32 // 1 while the harness considers the connection up
	errMu   sync.Mutex
	errs    []string
	cbMu    sync.RWMutex // callbacks hold it shared; the harness takes it exclusively to switch them off
	cbOff   bool
	judged  int32  // set with the first violation of the case
	prog    int64  // progress signal for the stall watchdog: deliveries + returned Send calls
	broken  *int32 // the harness pipe's "reset" flag (nil for net.Pipe)
}

func (h *mcHarness) cut() bool { return h.broken != nil && atomic.LoadInt32(h.broken) == 1 }

func (h *mcHarness) finish(reason string) {
	h.fin.Do(func() {
		h.reason = reason
		atomic.StoreInt32(&h.abort, 1)
		close(h.done)
	})
}

func key(b []byte) (string, bool) {
	if len(b) == 0 {
		return "", false
	}
	if b[0]&0x80 != 0 {
		if len(b) >= 4 {
			return "", false
		}
		return string(b[:1]), true
	}
	if len(b) < 4 {
		return "", false
	}
	return string(b[:4]), true
}

func short(b []byte) string {
	if len(b) > 24 {
		return fmt.Sprintf("%x...(%d bytes)", b[:24], len(b))
	}
	return fmt.Sprintf("%x", b)
}

func (h *mcHarness) witness(extra map[string]interface{}) map[string]interface{} {
	w := map[string]interface{}{"case": h.spec}
	for k, v := range extra {
		w[k] = v
	}
	return w
}

// static describes the immutable part (safe while senders are still running).
func (m *msg) static() map[string]interface{} {
	return map[string]interface{}{"idx": m.Idx, "channel_index": m.Ch, "sender": m.Sender, "len": len(m.data), "trysend": m.Try, "fence": m.Fence, "head": short(m.data)}
}

func (m *msg) describe() map[string]interface{} {
	return map[string]interface{}{"idx": m.Idx, "channel_index": m.Ch, "sender": m.Sender, "len": len(m.data), "trysend": m.Try, "fence": m.Fence,
		"send_returned": m.ok, "invoked_at": m.inv, "returned_at": m.ret, "head": short(m.data)}
}

// onReceive is the receive callback of side `to` (messages were sent by `from`).
func (h *mcHarness) onReceive(to, from *side) func(chID byte, b []byte) {
	return func(chID byte, b []byte) {
		h.cbMu.RLock()
		defer h.cbMu.RUnlock()
		if h.cbOff || atomic.LoadInt32(&h.judged) == 1 {
			return // switched off, or this case already has its verdict (teardown after a violation is not judged again)
		}
		for i := 0; i < to.slow; i++ {
			runtime.Gosched()
		}
		// a delivery that happens after the transport failed / the connection was stopped is
		// judged like any other (the reactor receives it), but gets its own class of keys
		teardown := h.cut() || !to.mc.IsRunning()
		bogus := func(k, detail string, extra map[string]interface{}) {
			if extra == nil {
				extra = map[string]interface{}{}
			}
			extra["received"] = short(b)
			extra["received_len"] = len(b)
			extra["receiver_running"] = to.mc.IsRunning()
			extra["transport_cut_by_harness"] = h.cut()
			extra["sender_wire_tail"] = wireTail(from.tap.bytes(), h.spec.Payload, 6)
			if teardown {
				k = "mconn/teardown/partial-packet-delivered"
				detail += " -- delivered after the connection had failed/stopped: the packet being read when the read error hit was handed on as if complete"
			}
			atomic.StoreInt32(&h.judged, 1)
			h.c.Violation(k, detail, h.witness(extra))
			h.finish("violation")
		}
		ci, ok := h.chIdx[chID]
		if !ok {
			bogus("mconn/delivered-on-unknown-channel", fmt.Sprintf("%s received %d bytes on channel %#x which is not configured", to.name, len(b), chID), nil)
			return
		}
		var m *msg
		if k, ok := key(b); ok {
			m = from.byKey[k]
		}
		if m == nil {
			bogus("mconn/unknown-message", fmt.Sprintf("%s received on channel index %d a %d-byte message no sender produced: %s", to.name, ci, len(b), short(b)),
				map[string]interface{}{"channel_index": ci})
			return
		}
		if !bytes.Equal(b, m.data) {
			k := "mconn/content-altered"
			switch {
			case len(b) > len(m.data) && bytes.HasPrefix(b, m.data):
				k = "mconn/messages-merged"
			case len(b) < len(m.data) && bytes.HasPrefix(m.data, b):
				k = "mconn/message-split"
			}
			bogus(k, fmt.Sprintf("%s received %d bytes for message idx=%d of %d bytes on channel index %d", to.name, len(b), m.Idx, len(m.data), ci),
				map[string]interface{}{"sent": m.static()})
			return
		}
		if m.Ch != ci {
			atomic.StoreInt32(&h.judged, 1)
			h.c.Violation("mconn/wrong-channel", fmt.Sprintf("%s received message idx=%d on channel index %d, it was sent on %d", to.name, m.Idx, ci, m.Ch),
				h.witness(map[string]interface{}{"sent": m.static()}))
			h.finish("violation")
			return
		}
		atomic.AddInt64(&h.prog, 1)
		to.rmu.Lock()
		to.recvd[ci] = append(to.recvd[ci], m)
		to.delCount[m]++
		dup := to.delCount[m] > 1
		all := false
		if m.Fence && !dup {
			to.fencesGot++
			all = to.fencesGot == len(h.spec.Chans)
		}
		to.rmu.Unlock()
		if dup {
			atomic.StoreInt32(&h.judged, 1)
			h.c.Violation("mconn/duplicate-delivery", fmt.Sprintf("%s received message idx=%d twice on channel index %d", to.name, m.Idx, ci),
				h.witness(map[string]interface{}{"sent": m.static()}))
			h.finish("violation")
			return
		}
		if all {
			i := 0
			if to == h.sides[1] {
				i = 1
			}
			atomic.StoreInt32(&h.sideFin[i], 1)
			if atomic.LoadInt32(&h.sideFin[0]) == 1 && atomic.LoadInt32(&h.sideFin[1]) == 1 {
				h.finish("complete")
			}
		}
	}
}

// decodePackets decodes the plaintext packet stream a side wrote. The last packet may be
// incomplete on the wire (the buffered writer flushes at arbitrary offsets, the transport may
// have been cut): the decoder does not report that (it returns a partially filled packet), so
// completeness is established by re-encoding and comparing the consumed length.
func decodePackets(log []byte, payload int, f func(p p2pconn.Packet, complete bool)) {
	rd := bytes.NewReader(log)
	for rd.Len() > 0 {
		before := rd.Len()
		var p p2pconn.Packet
		if _, err := ser.DecodeReaderWithType(rd, &p, int64(payload+4096)); err != nil || p == nil {
			return
		}
		enc, err := ser.EncodeToBytesWithType(p)
		complete := err == nil && len(enc) == before-rd.Len()
		f(p, complete)
		if !complete {
			return
		}
	}
}

// wireTail describes the last n packets a side put on the wire.
func wireTail(log []byte, payload, n int) []string {
	var out []string
	decodePackets(log, payload, func(p p2pconn.Packet, complete bool) {
		d := fmt.Sprintf("%T", p)
		if pk, ok := p.(p2pconn.PacketMsg); ok {
			d = fmt.Sprintf("msg ch=%#x eof=%d len=%d head=%s", pk.ChannelID, pk.EOF, len(pk.Bytes), short(pk.Bytes))
		}
		if !complete {
			d += " (INCOMPLETE on the wire: only its first bytes were written before the transport failed; the length shown is what the decoder made of it)"
		}
		out = append(out, d)
	})
	if len(out) > n {
		out = out[len(out)-n:]
	}
	return out
}

func (h *mcHarness) onError(s *side) func(interface{}) {
	return func(r interface{}) {
		if atomic.LoadInt32(&h.running) == 0 {
			return // teardown by the harness
		}
		h.errMu.Lock()
		h.errs = append(h.errs, fmt.Sprintf("%s: %v", s.name, r))
		h.errMu.Unlock()
		h.finish("conn-error")
	}
}

func genSizes(r *rng.R, p int) []int {
	base := []int{1, 2, 3, 4, 5, 17, p - 1, p, p + 1, 2*p - 1, 2 * p, 2*p + 1, 3*p - 1, 3 * p, 3*p + 1, 1023, 1024, 1025}
	var out []int
	for _, s := range base {
		if s >= 1 {
			out = append(out, s)
		}
	}
	return out
}

func genMsgs(r *rng.R, sp *mcSpec, sideIdx int, budgetBytes, budgetMsgs int) *side {
	s := &side{name: []string{"A", "B"}[sideIdx], byKey: map[string]*msg{}, delCount: map[*msg]int{}}
	nch := len(sp.Chans)
	s.recvd = make([][]*msg, nch)
	nsend := sp.Senders[sideIdx]
	s.senders = make([][]*msg, nsend)
	menu := genSizes(r, sp.Payload)
	seq, tiny, total := 0, 0, 0
	n := r.Range(nsend, budgetMsgs)
	// channel affinity: some senders stick to one channel, others spray
	affinity := make([]int, nsend)
	for i := range affinity {
		affinity[i] = -1
		if r.Chance(0.4) {
			affinity[i] = r.Intn(nch)
		}
	}
	tryProb := []float64{0, 0, 0.1, 0.5}[r.Intn(4)]
	for i := 0; i < n; i++ {
		var size int
		switch {
		case r.Chance(0.6):
			size = menu[r.Intn(len(menu))]
		case r.Chance(0.5):
			size = r.Range(1, 3*sp.Payload+10)
		default:
			size = r.Range(1, 300)
		}
		if size > 300000 {
			size = 300000
		}
		if total+size > budgetBytes {
			size = r.Range(1, 40)
			if total+size > budgetBytes+4000 {
				break
			}
		}
		if size < 4 && tiny >= 128 {
			size = 4
		}
		sender := r.Intn(nsend)
		ch := affinity[sender]
		if ch < 0 {
			ch = r.Intn(nch)
		}
		m := &msg{Idx: len(s.all), Ch: ch, Sender: sender, Try: r.Chance(tryProb)}
		body := fillPattern(r, size, r.Intn(4))
		if size < 4 {
			body[0] = 0x80 | byte(tiny)
			tiny++
		} else {
			body[0] = byte(sender)
			body[1], body[2], body[3] = byte(seq>>16), byte(seq>>8), byte(seq)
			seq++
		}
		m.data = body
		k, _ := key(body)
		s.byKey[k] = m
		s.all = append(s.all, m)
		s.senders[sender] = append(s.senders[sender], m)
		total += size
		if len(sp.SizeSample) < 16 {
			sp.SizeSample = append(sp.SizeSample, size)
		}
	}
	for ci := 0; ci < nch; ci++ {
		m := &msg{Idx: len(s.all), Ch: ci, Sender: -1, Fence: true, data: append([]byte{0x7F, byte(ci)}, []byte("FENCE")...)}
		k, _ := key(m.data)
		s.byKey[k] = m
		s.all = append(s.all, m)
		s.fences = append(s.fences, m)
	}
	sp.Msgs[sideIdx] = len(s.all) - nch
	sp.Bytes[sideIdx] = total
	return s
}

func runMConn(c *core.Ctx, procs int) {
	r := c.Rng
	sp := &mcSpec{Procs: procs}
	sp.Transport = []string{"secret/pipe", "secret/pipe", "secret/pipe", "secret/netpipe", "raw/pipe", "raw/pipe", "raw/netpipe"}[r.Intn(7)]
	nch := r.Range(1, 4)
	wantCut := strings.HasSuffix(sp.Transport, "/pipe") && r.Chance(0.25)
	cutFrac := float64(r.Intn(1000)) / 1000
	cutDirAB := r.Bool()
	// "precise" cut: one channel and one sender on side A over the raw pipe make A's packet
	// stream a pure function of the case, so the cut can be placed inside the payload bytes of a
	// chosen final (EOF) packet and the case replays deterministically
	preciseCut := wantCut && sp.Transport == "raw/pipe" && r.Chance(0.6)
	if preciseCut {
		nch = 1
	}
	ids := r.Perm(256)
	for i := 0; i < nch; i++ {
		sp.Chans = append(sp.Chans, chanSpec{
			ID:       byte(ids[i]),
			Priority: []int{1, 1, 2, 3, 5, 10, 100}[r.Intn(7)],
			SendQ:    []int{1, 1, 2, 3, 10, 100}[r.Intn(6)],
			RecvBuf:  []int{1, 64, 4096, 0}[r.Intn(4)],
		})
	}
	sp.Payload = []int{32768, 32768, 32768, 32768, 32768, 1024, 1024, 1000, 4096, 40000, 1, 2, 3, 7, 64}[r.Intn(15)]
	sp.FlushMs = []int{1, 1, 2, 5, 20, 73}[r.Intn(6)]
	if r.Chance(0.3) {
		sp.Rate = 5120000 // the node's default; otherwise unlimited
	}
	if r.Chance(0.1) {
		sp.PingMs = r.Range(30, 80)
	}
	sp.Slow = [2]int{[]int{0, 0, 1, 5, 40}[r.Intn(5)], []int{0, 0, 1, 5, 40}[r.Intn(5)]}
	sp.Senders = [2]int{r.Range(1, 8), r.Range(1, 8)}
	sp.PipeAB, sp.PipeBA = genPipeSpec(r), genPipeSpec(r)
	if preciseCut {
		sp.Senders[0] = 1
		sp.PingMs = 0
	}

	if wantCut || sp.PingMs > 0 {
		// a Send blocked on a full queue when the connection dies waits out the 10 s send timeout
		for i := range sp.Chans {
			sp.Chans[i].SendQ = 600
		}
	}

	budgetBytes, budgetMsgs := 900000, 250
	if sp.Payload < 64 {
		// many tiny packets: bound the packet count instead
		budgetBytes = 4000 * sp.Payload
		if budgetBytes > 60000 {
			budgetBytes = 60000
		}
	}
	budgetBytes = sp.PipeAB.budget(budgetBytes)
	if b := sp.PipeBA.budget(budgetBytes); b < budgetBytes {
		budgetBytes = b
	}
	if sp.Rate > 0 && budgetBytes > 600000 {
		budgetBytes = 600000
	}

	h := &mcHarness{c: c, spec: sp, chIdx: map[byte]int{}, done: make(chan struct{})}
	for i, cs := range sp.Chans {
		h.chIdx[cs.ID] = i
	}
	h.sides[0] = genMsgs(r, sp, 0, budgetBytes, budgetMsgs)
	h.sides[1] = genMsgs(r, sp, 1, budgetBytes, budgetMsgs)
	h.sides[0].slow, h.sides[1].slow = sp.Slow[0], sp.Slow[1]

	// transport
	var ca, cb net.Conn
	var closers []func()
	usePipe := strings.HasSuffix(sp.Transport, "/pipe")
	var pa, pb *pconn
	if usePipe {
		pa, pb = newPipe(r)
		ca, cb = pa, pb
	} else {
		ca, cb = net.Pipe()
	}
	closers = append(closers, func() { ca.Close(); cb.Close() })
	if strings.HasPrefix(sp.Transport, "secret/") {
		sa, sb, ok := realPair(c, ca, cb, genKey(r), genKey(r))
		if !ok {
			return
		}
		ca, cb = sa, sb
		c.Count("mc_over_secretconn", 1)
	}
	if usePipe {
		sp.PipeAB.apply(pa.out, nil)
		sp.PipeBA.apply(pb.out, nil)
		h.broken = pa.out.broken
		pa.out.prog, pb.out.prog = &h.prog, &h.prog // bytes moving through the pipe count as progress too
		if wantCut {
			// somewhere inside the bytes this direction is going to carry (wire overhead ignored:
			// a cut beyond the end simply never happens and the run completes normally)
			hf, vol := pa.out, sp.Bytes[0]
			sp.CutDir = "A->B"
			if !cutDirAB {
				hf, vol = pb.out, sp.Bytes[1]
				sp.CutDir = "B->A"
			}
			sp.CutAt = 1 + int64(cutFrac*float64(vol))
			if preciseCut {
				hf, sp.CutDir = pa.out, "A->B"
				sp.CutAt, sp.CutIn = preciseCutOffset(h.sides[0], sp, cutFrac)
			}
			hf.mu.Lock()
			hf.failAt = hf.nread + sp.CutAt
			hf.mu.Unlock()
		}
	}
	ta, tb := &tapConn{Conn: ca}, &tapConn{Conn: cb}
	h.sides[0].tap, h.sides[1].tap = ta, tb

	cfg := p2pconn.DefaultMConnConfig()
	cfg.MaxPacketMsgPayloadSize = sp.Payload
	cfg.FlushThrottle = time.Duration(sp.FlushMs) * time.Millisecond
	cfg.SendRate, cfg.RecvRate = sp.Rate, sp.Rate
	if sp.PingMs > 0 {
		cfg.PingInterval = time.Duration(sp.PingMs) * time.Millisecond
		cfg.PongTimeout = cfg.PingInterval - time.Millisecond
	}
	mkDescs := func() []*p2pconn.ChannelDescriptor {
		var ds []*p2pconn.ChannelDescriptor
		for _, cs := range sp.Chans {
			ds = append(ds, &p2pconn.ChannelDescriptor{ID: cs.ID, Priority: cs.Priority, SendQueueCapacity: cs.SendQ, RecvBufferCapacity: cs.RecvBuf})
		}
		return ds
	}
	A, B := h.sides[0], h.sides[1]
	A.mc = p2pconn.NewMConnectionWithConfig(ta, mkDescs(), h.onReceive(A, B), h.onError(A), cfg)
	B.mc = p2pconn.NewMConnectionWithConfig(tb, mkDescs(), h.onReceive(B, A), h.onError(B), cfg)
	atomic.StoreInt32(&h.running, 1)
	if err := A.mc.Start(); err != nil {
		c.Inconclusive("MConnection.Start: " + err.Error())
		return
	}
	if err := B.mc.Start(); err != nil {
		c.Inconclusive("MConnection.Start: " + err.Error())
		A.mc.Stop()
		return
	}

	var all sync.WaitGroup
	for si := 0; si < 2; si++ {
		s := h.sides[si]
		var wg sync.WaitGroup
		for _, ops := range s.senders {
			wg.Add(1)
			all.Add(1)
			go func(ops []*msg) {
				defer wg.Done()
				defer all.Done()
				for i, m := range ops {
					if atomic.LoadInt32(&h.abort) == 1 {
						return
					}
					chID := sp.Chans[m.Ch].ID
					m.attempted = true
					m.inv = atomic.AddInt64(&h.clk, 1)
					if m.Try {
						m.ok = s.mc.TrySend(chID, m.data)
					} else {
						m.ok = s.mc.Send(chID, m.data)
					}
					m.ret = atomic.AddInt64(&h.clk, 1)
					atomic.AddInt64(&h.prog, 1)
					if i%3 == 0 {
						runtime.Gosched()
					}
				}
			}(ops)
		}
		all.Add(1)
		go func(s *side) {
			defer all.Done()
			wg.Wait()
			// fences: invoked after every Send of this side returned
			for _, m := range s.fences {
				chID := sp.Chans[m.Ch].ID
				for atomic.LoadInt32(&h.abort) == 0 {
					m.attempted = true
					m.inv = atomic.AddInt64(&h.clk, 1)
					m.ok = s.mc.Send(chID, m.data)
					m.ret = atomic.AddInt64(&h.clk, 1)
					if m.ok || !s.mc.IsRunning() {
						break
					}
					c.Count("mc_fence_send_retries", 1)
				}
			}
		}(s)
	}

	timedOut := false
	if waitDone(h.done, &h.prog) {
		timedOut = true
		h.finish("watchdog")
	}
	atomic.StoreInt32(&h.running, 0)
	A.mc.Stop()
	B.mc.Stop()
	for _, f := range closers {
		f()
	}
	all.Wait()
	h.cbMu.Lock()
	h.cbOff = true
	h.cbMu.Unlock()
	if timedOut {
		c.Inconclusive("watchdog: mconn case did not finish (fences not delivered, no error reported)")
		return
	}

	if c.Verbose {
		h.errMu.Lock()
		c.Logf("mconn outcome=%s cut=%v errs=%v transport=%s chans=%d payload=%d senders=%v msgs=%v cut_dir=%s cut_at=%d cut_inside=%q",
			h.reason, h.cut(), h.errs, sp.Transport, len(sp.Chans), sp.Payload, sp.Senders, sp.Msgs, sp.CutDir, sp.CutAt, sp.CutIn)
		h.errMu.Unlock()
		for _, s := range h.sides {
			c.Logf("  wire tail of %s: %v", s.name, wireTail(s.tap.bytes(), sp.Payload, 3))
		}
	}
	if h.reason == "conn-error" {
		h.errMu.Lock()
		errs := append([]string(nil), h.errs...)
		h.errMu.Unlock()
		if h.cut() {
			// we broke the transport ourselves: losses are fine, everything delivered is still judged
			c.Count("mc_runs_cut_by_harness", 1)
			if sp.CutIn != "" {
				c.Count("mc_runs_cut_inside_final_packet", 1)
			}
		} else if sp.PingMs > 0 {
			// fast pings: a pong that takes longer than the (wall-clock) pong timeout makes one side stop,
			// the other side then sees EOF (its error can be reported first). Provoked by our own
			// configuration, so tolerated; everything delivered is still judged
			c.Count("mc_pong_timeouts_tolerated", 1)
		} else {
			c.Violation("mconn/self-inflicted-disconnect", fmt.Sprintf("the connection reported an error although the transport never failed and both ends are honest: %v", errs),
				h.witness(map[string]interface{}{"errors": errs}))
		}
	}
	if !c.Violated() {
		h.postCheck(A, B) // messages sent by A, received by B
		h.postCheck(B, A)
	}
	if h.reason == "complete" && !c.Violated() {
		c.Count("mc_runs_completed", 1)
		c.Count("mc_transport_"+strings.Replace(sp.Transport, "/", "_", -1), 1)
	}
	h.packetStats(A)
	h.packetStats(B)

	multi := false
	for _, s := range h.sides {
		for _, m := range s.all {
			if len(m.data) > sp.Payload {
				multi = true
			}
		}
	}
	if nch >= 2 && (sp.Senders[0] >= 2 || sp.Senders[1] >= 2) && multi && h.reason == "complete" {
		c.Nontrivial(fp("mconn", *sp))
	}
	if c.Index%100 == 0 {
		c.Sample(map[string]interface{}{"kind": "mconn", "spec": sp, "outcome": h.reason})
	}
}

// postCheck judges one direction: messages sent by `from`, delivered to `to`.
func (h *mcHarness) postCheck(from, to *side) {
	c := h.c
	dir := from.name + "->" + to.name
	to.rmu.Lock()
	defer to.rmu.Unlock()
	for ci := range h.spec.Chans {
		seq := to.recvd[ci]
		var maxInv int64 = -1
		var maxInvMsg *msg
		fenceSeen := false
		for pos, m := range seq {
			if !m.attempted {
				c.Violation("mconn/delivered-never-sent", fmt.Sprintf("%s channel index %d: message idx=%d was delivered but Send was never called for it", dir, ci, m.Idx),
					h.witness(map[string]interface{}{"msg": m.describe()}))
				return
			}
			if !m.ok {
				c.Violation("mconn/delivered-although-send-returned-false", fmt.Sprintf("%s channel index %d: message idx=%d delivered, its Send/TrySend returned false", dir, ci, m.Idx),
					h.witness(map[string]interface{}{"msg": m.describe()}))
				return
			}
			if m.ret < maxInv {
				c.Violation("mconn/out-of-order", fmt.Sprintf("%s channel index %d position %d: message idx=%d (Send returned at t=%d) delivered after idx=%d (Send invoked at t=%d)",
					dir, ci, pos, m.Idx, m.ret, maxInvMsg.Idx, maxInvMsg.inv),
					h.witness(map[string]interface{}{"late": m.describe(), "early": maxInvMsg.describe(), "delivery_position": pos}))
				return
			}
			if pos > 0 && seq[pos-1].ret < m.inv {
				c.Count("mc_ordered_pairs_checked", 1)
			}
			if m.inv > maxInv {
				maxInv, maxInvMsg = m.inv, m
			}
			if m.Fence {
				fenceSeen = true
			}
			c.Count("mc_msgs_delivered", 1)
			if len(m.data) > h.spec.Payload {
				c.Count("mc_multipacket_msgs", 1)
			}
		}
		if fenceSeen {
			// the fence was sent after every Send on this channel returned and it arrived:
			// everything accepted before it must have arrived too
			for _, m := range from.all {
				if m.Ch == ci && m.ok && to.delCount[m] == 0 {
					c.Violation("mconn/message-lost", fmt.Sprintf("%s channel index %d: message idx=%d (%d bytes) was accepted by Send but not delivered before the fence sent after it",
						dir, ci, m.Idx, len(m.data)), h.witness(map[string]interface{}{"msg": m.describe(), "delivered_on_channel": len(seq)}))
					return
				}
			}
			c.Count("mc_channel_directions_complete", 1)
		}
	}
	for _, m := range from.all {
		if m.attempted && !m.ok {
			if m.Try {
				c.Count("mc_trysend_rejected", 1)
			} else {
				c.Count("mc_send_returned_false", 1)
			}
		}
	}
}

// packetStats decodes the plaintext packet stream a side wrote and counts what the
// scheduler actually did (observation only).
func (h *mcHarness) packetStats(s *side) {
	open := map[byte]bool{}
	decodePackets(s.tap.bytes(), h.spec.Payload, func(p p2pconn.Packet, complete bool) {
		if !complete {
			return
		}
		switch pk := p.(type) {
		case p2pconn.PacketMsg:
			h.c.Count("mc_packets", 1)
			for ch, o := range open {
				if o && ch != pk.ChannelID {
					h.c.Count("mc_interleaved_packets", 1)
					break
				}
			}
			open[pk.ChannelID] = pk.EOF != 1
		case p2pconn.PacketPing:
			h.c.Count("mc_pings", 1)
		case p2pconn.PacketPong:
			h.c.Count("mc_pongs", 1)
		}
	})
}
