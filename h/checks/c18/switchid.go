package c18

import (
	"crypto/sha256"
	"fmt"
	"net"
	"sync"
	"time"

	"github.com/lianxiangcloud/linkchain/config"
	"github.com/lianxiangcloud/linkchain/libs/crypto"
	dbm "github.com/lianxiangcloud/linkchain/libs/db"
	"github.com/lianxiangcloud/linkchain/libs/log"
	"github.com/lianxiangcloud/linkchain/libs/p2p"
	p2pcommon "github.com/lianxiangcloud/linkchain/libs/p2p/common"
	p2pconn "github.com/lianxiangcloud/linkchain/libs/p2p/conn"
	"github.com/lianxiangcloud/linkchain/types"
	"github.com/lianxiangcloud/linkchain/version"

	"verif/h/internal/core"
)

// Lane C18S: the last sentence of the property one layer up, where the node uses it. The real Switch
// (NewP2pManager, one reactor) is handed inbound TCP connections (loopback) the way its listener routine hands
// them over. The remote side is the harness: it completes the real secret-connection handshake with a key it
// holds, then plays the node-info exchange, in which a peer *presents* a public key (the switch derives the
// peer id from it: peer set, black list, duplicate check, and the identity every reactor sees). Oracle, per
// session and at the end of the case:
//   - every peer id registered in the switch is the id of a key whose possession was proved on that connection;
//   - every message a reactor receives is attributed to the id of the key proved on the connection it came over;
//   - a peer that presents the key it proved is admitted (control: a switch that refuses everybody is not "safe").
func init() {
	core.Register(&core.Check{
		ID:        "C18S",
		Level:     "exploration",
		Technique: "the real p2p Switch with one reactor, inbound loopback connections played by a harness peer (real secret-connection handshake with its own key, generated node-info claims); oracle over the switch's peer set and the (peer id, message) pairs delivered to the reactor",
		Rule: "case = one switch, 4-8 sessions; each session authenticates with a fresh key and presents: that key (honest), another party's key, the switch's own key, or its own key with a sender-chosen cached peer id; every admitted session sends one uniquely tagged message on the reactor's channel. " +
			"non-trivial = an honest session was admitted and its message attributed to it, and >= 2 sessions presented a key they did not prove; distinct by the session plan and keys",
		Assumptions: []string{
			"loopback TCP inside the sandbox is reliable",
			"bounded waits (handshake 20 s, delivery 5 s) only end a session early: an undelivered message is counted as not observed, never as a violation",
		},
		Cases: func(tier string) int {
			if tier == "thorough" {
				return 1200
			}
			return 48
		},
		Batch: func(tier string) int { return 6 },
		Run:   runSwitchID,
		Init:  core.QuietLogs,
		Floors: func(tier string) map[string]int64 {
			f := map[string]int64{"switch_sessions": 200, "switch_honest_admitted": 48, "switch_claims_of_unproven_key": 90, "switch_messages_attributed": 48}
			if tier == "thorough" {
				for k := range f {
					f[k] *= 20
				}
			}
			return f
		},
	})
}

type idReactor struct {
	*p2p.BaseReactor
	mu  sync.Mutex
	got map[string]string // payload -> peer id it was attributed to
	ch  chan struct{}
}

func (r *idReactor) GetChannels() []*p2pconn.ChannelDescriptor {
	return []*p2pconn.ChannelDescriptor{{ID: 0x40, Priority: 1, SendQueueCapacity: 10}}
}
func (r *idReactor) AddPeer(peer p2p.Peer)                        {}
func (r *idReactor) RemovePeer(peer p2p.Peer, reason interface{}) {}
func (r *idReactor) Receive(chID byte, peer p2p.Peer, msg []byte) {
	r.mu.Lock()
	r.got[string(msg)] = peer.ID()
	r.mu.Unlock()
	select {
	case r.ch <- struct{}{}:
	default:
	}
}

func switchNodeInfo(moniker string) p2p.NodeInfo {
	return p2p.NodeInfo{
		Network:  "verif-chain",
		Version:  version.Version,
		Channels: []byte{0x40},
		Moniker:  moniker,
		Other:    []string{fmt.Sprintf("p2p_version=%v", p2p.Version), "consensus_version=0.1.0", "rpc_addr="},
		Type:     types.NodeValidator,
	}
}

var switchClasses = []string{"honest", "other-partys-key", "other-partys-key", "switch-own-key", "own-key+foreign-cached-id", "other-partys-key+own-cached-id", "registered-peers-key", "secp-auth+ed-claim"}

func runSwitchID(c *core.Ctx) {
	r := c.Rng
	cfg := config.DefaultP2PConfig()
	cfg.ListenAddress = ""
	swKey := crypto.GenPrivKeyEd25519FromSecret(r.Bytes(32))
	sw, err := p2p.NewP2pManager(log.NewNopLogger(), swKey, cfg, switchNodeInfo("switch"), nil, dbm.NewMemDB())
	if err != nil {
		c.Inconclusive("switch setup: " + err.Error())
		return
	}
	reactor := &idReactor{got: map[string]string{}, ch: make(chan struct{}, 64)}
	reactor.BaseReactor = p2p.NewBaseReactor("verif", reactor)
	sw.AddReactor("verif", reactor)
	if err := sw.Start(); err != nil {
		c.Inconclusive("switch start: " + err.Error())
		return
	}
	defer sw.Stop()
	ln, err := net.Listen("tcp", "127.0.0.1:0")
	if err != nil {
		c.Inconclusive("loopback listen: " + err.Error())
		return
	}
	defer ln.Close()

	plan := []string{"honest"}
	for i, n := 0, r.Range(3, 7); i < n; i++ {
		plan = append(plan, switchClasses[r.Intn(len(switchClasses))])
	}
	proved := map[string]string{}    // peer id -> session that proved the key behind it
	payloadOf := map[string]string{} // payload -> id of the key proved on the connection that sent it
	var registered []string          // ids of honest sessions that were admitted (for "registered-peers-key")
	var cleanup []func()
	defer func() {
		for _, f := range cleanup {
			f()
		}
	}()
	honestOK, unproven, attributed := false, 0, 0
	var outcomes []string
	for si, class := range plan {
		authKey := crypto.PrivKey(crypto.GenPrivKeyEd25519FromSecret(r.Bytes(32)))
		if class == "secp-auth+ed-claim" {
			authKey = crypto.GenPrivKeySecp256k1FromSecret(r.Bytes(32))
		}
		claim := switchNodeInfo(fmt.Sprintf("peer-%d", si))
		other := crypto.GenPrivKeyEd25519FromSecret(r.Bytes(32)).PubKey().(crypto.PubKeyEd25519)
		provedID := ""
		if pk, ok := authKey.PubKey().(crypto.PubKeyEd25519); ok {
			claim.PubKey = pk
			provedID = p2pcommon.TransPubKeyToStringID(pk)
		}
		switch class {
		case "other-partys-key", "secp-auth+ed-claim":
			claim.PubKey = other
		case "switch-own-key":
			claim.PubKey = swKey.PubKey().(crypto.PubKeyEd25519)
		case "other-partys-key+own-cached-id":
			// the key of another party, and as sender-cached id the id of the key that was proved (a comparison of
			// ids instead of keys is satisfied by it)
			claim.PubKey = other
			claim.CachePeerID = provedID
		case "own-key+foreign-cached-id":
			claim.CachePeerID = []string{p2pcommon.TransPubKeyToStringID(other), "x", string(r.Bytes(8))}[r.Intn(3)]
		case "registered-peers-key":
			if len(registered) == 0 {
				claim.PubKey = other
			} else {
				// the key of a peer that is connected right now (the switch refuses the duplicate either way)
				id := registered[r.Intn(len(registered))]
				for _, p := range sw.Peers().List() {
					if p.ID() == id {
						claim.PubKey = p.NodeInfo().PubKey
					}
				}
			}
		}
		claimedID := p2pcommon.TransPubKeyToStringID(claim.PubKey)
		honest := claimedID == provedID
		if !honest {
			unproven++
			c.Count("switch_claims_of_unproven_key", 1)
		}
		c.Count("switch_sessions", 1)
		c.Count("switch_class:"+class, 1)

		addErr := make(chan error, 1)
		go func() {
			conn, err := ln.Accept()
			if err != nil {
				addErr <- err
				return
			}
			addErr <- sw.VerifAddInboundConn(conn)
		}()
		raw, err := net.Dial("tcp", ln.Addr().String())
		if err != nil {
			c.Inconclusive("loopback dial: " + err.Error())
			return
		}
		cleanup = append(cleanup, func() { raw.Close() })
		w := map[string]interface{}{"plan": plan, "session": si, "class": class, "proved_key_id": provedID, "claimed_key_id": claimedID, "cached_id_sent": claim.CachePeerID}
		sc, err := p2pconn.MakeSecretConnection(raw, authKey)
		if err != nil {
			<-addErr
			if class == "honest" {
				c.Violation("switch/honest-peer-refused", "secret-connection handshake with the switch failed for an honest peer: "+err.Error(), w)
				return
			}
			outcomes = append(outcomes, class+":handshake-failed")
			continue
		}
		_, hsErr := p2p.HandShakeFunc(sc, claim, 20*time.Second, false)
		var admitErr error
		select {
		case admitErr = <-addErr:
		case <-time.After(60 * time.Second):
			c.Inconclusive("the switch did not decide on a connection within 60 s")
			return
		}
		w["switch_decision"] = fmt.Sprint(admitErr)
		w["node_info_exchange_err"] = fmt.Sprint(hsErr)
		admitted := admitErr == nil
		outcomes = append(outcomes, fmt.Sprintf("%s:%v", class, admitted))
		if admitted {
			c.Count("switch_admitted", 1)
			if provedID != "" {
				proved[provedID] = fmt.Sprintf("%d/%s", si, class)
			}
		}
		if class == "honest" {
			if !admitted {
				c.Violation("switch/honest-peer-refused", "a peer that presented the key it proved was refused: "+fmt.Sprint(admitErr), w)
				return
			}
			honestOK = true
			registered = append(registered, provedID)
			c.Count("switch_honest_admitted", 1)
		}
		// the peer set: every registered id must be backed by a proof given on its connection
		for _, p := range sw.Peers().List() {
			if _, ok := proved[p.ID()]; !ok {
				w["registered_ids"] = peerIDs(sw)
				c.Violation("switch/peer-registered-under-key-it-did-not-prove/"+class,
					fmt.Sprintf("the switch registered peer id %s (the key presented in the node info) although the connection was authenticated with another key (id %q): no proof of possession of the presented key was given", p.ID(), provedID), w)
				return
			}
		}
		if !admitted {
			continue
		}
		// traffic over the admitted connection
		payload := fmt.Sprintf("case %d session %d %x", c.Index, si, r.Bytes(6))
		payloadOf[payload] = provedID
		mc := p2pconn.NewMConnection(sc, []*p2pconn.ChannelDescriptor{{ID: 0x40, Priority: 1, SendQueueCapacity: 10}}, func(byte, []byte) {}, func(interface{}) {})
		mc.SetLogger(log.NewNopLogger())
		if err := mc.Start(); err != nil {
			continue
		}
		cleanup = append(cleanup, func() { mc.Stop() })
		mc.Send(0x40, []byte(payload))
		deadline := time.After(5 * time.Second)
	WAIT:
		for {
			reactor.mu.Lock()
			id, ok := reactor.got[payload]
			reactor.mu.Unlock()
			if ok {
				if id != provedID {
					w["attributed_to"] = id
					c.Violation("switch/traffic-attributed-to-unproven-identity/"+class,
						fmt.Sprintf("a message sent over a connection authenticated with key id %q was delivered to the reactor as coming from peer %s", provedID, id), w)
					return
				}
				attributed++
				c.Count("switch_messages_attributed", 1)
				break WAIT
			}
			select {
			case <-reactor.ch:
			case <-deadline:
				c.Count("switch_messages_not_observed", 1)
				break WAIT
			}
		}
	}
	if honestOK && attributed >= 1 && unproven >= 2 {
		h := sha256.Sum256([]byte(fmt.Sprint(c.Index, outcomes, len(proved))))
		c.Nontrivial(fmt.Sprintf("%x", h[:8]))
	}
	if c.Index%12 == 0 {
		c.Sample(map[string]interface{}{"sessions": outcomes, "registered_ids": len(sw.Peers().List()), "messages_attributed": attributed})
	}
}

func peerIDs(sw *p2p.Switch) []string {
	var out []string
	for _, p := range sw.Peers().List() {
		out = append(out, p.ID())
	}
	return out
}
