package c18

import (
	"bytes"
	"crypto/sha256"
	"encoding/binary"
	"errors"
	"fmt"
	"io"
	"sync"

	"github.com/golang/snappy"

	"github.com/lianxiangcloud/linkchain/libs/crypto"
	"github.com/lianxiangcloud/linkchain/libs/ser"

	"verif/h/internal/core"
	"verif/h/internal/rng"
)

// The harness' own implementation of the remote side of MakeSecretConnection
// (wire format of the compiled-in frame mode):
//   1. both sides send ser([32]byte ephemeral public key) in the clear
//   2. challenge = sha256(lo || hi) of the two ephemeral keys, sorted bytewise
//   3. both sides send one frame 0xFF | len32 | snappy(ser(list{PubKey, Signature(challenge)}))
// It is written from the protocol, not by calling the code under test, so it
// knows exactly whether it proved possession of the key it presents.

type authMsg struct {
	Key crypto.PubKey
	Sig crypto.Signature
}

// a PubKey slot that carries a Signature concrete type (type confusion on the wire)
type confusedMsg struct {
	Key crypto.Signature
	Sig crypto.Signature
}

var tamperClasses = []string{
	"sig-bitflip",
	"sig-random",
	"sig-by-other-key",
	"victim-key-own-sig",
	"challenge-swapped",
	"challenge-one-key-only",
	"challenge-unhashed",
	"challenge-stale-eph",
	"replay-auth-frame",
	"nil-key",
	"nil-sig",
	"nil-both",
	"truncated-auth-payload",
	"truncated-auth-frame",
	"sig-type-mismatch",
	"key-slot-type-confusion",
	"reflect-auth",
	"reflect-auth-fresh-eph",
	"eph-malformed",
	"sig-empty",
	"garbage-auth-payload",
}

// remote is the harness end of one session: a pump drains everything the honest
// side writes, the script consumes it with blocking reads.
type remote struct {
	p     *pconn
	mu    sync.Mutex
	cond  *sync.Cond
	acc   []byte
	off   int
	ended bool
}

func newRemote(p *pconn) *remote {
	rm := &remote{p: p}
	rm.cond = sync.NewCond(&rm.mu)
	return rm
}

func (rm *remote) pump(done chan struct{}) {
	defer close(done)
	buf := make([]byte, 4096)
	for {
		n, err := rm.p.Read(buf)
		rm.mu.Lock()
		rm.acc = append(rm.acc, buf[:n]...)
		if err != nil {
			rm.ended = true
		}
		rm.cond.Broadcast()
		rm.mu.Unlock()
		if err != nil {
			return
		}
	}
}

func (rm *remote) Read(b []byte) (int, error) {
	rm.mu.Lock()
	defer rm.mu.Unlock()
	for rm.off == len(rm.acc) && !rm.ended {
		rm.cond.Wait()
	}
	if rm.off == len(rm.acc) {
		return 0, io.EOF
	}
	n := copy(b, rm.acc[rm.off:])
	rm.off += n
	return n, nil
}

// ReadByte makes the ser stream read exactly what it needs (no read-ahead).
func (rm *remote) ReadByte() (byte, error) {
	var b [1]byte
	if _, err := rm.Read(b[:]); err != nil {
		return 0, err
	}
	return b[0], nil
}

func (rm *remote) pos() int {
	rm.mu.Lock()
	defer rm.mu.Unlock()
	return rm.off
}

func (rm *remote) slice(from, to int) []byte {
	rm.mu.Lock()
	defer rm.mu.Unlock()
	return append([]byte(nil), rm.acc[from:to]...)
}

func (rm *remote) readFrame() (raw, chunk []byte, err error) {
	start := rm.pos()
	var hdr [5]byte
	if _, err = io.ReadFull(rm, hdr[:]); err != nil {
		return nil, nil, err
	}
	l := binary.BigEndian.Uint32(hdr[1:])
	if l > 65535 {
		return nil, nil, errors.New("frame too long")
	}
	body := make([]byte, l)
	if _, err = io.ReadFull(rm, body); err != nil {
		return nil, nil, err
	}
	raw = rm.slice(start, rm.pos())
	if hdr[0] != 0xFF {
		return raw, nil, fmt.Errorf("frame type %#x is not the compiled-in default", hdr[0])
	}
	chunk, err = snappy.Decode(nil, body)
	return raw, chunk, err
}

func frame(payload []byte) []byte {
	enc := snappy.Encode(nil, payload)
	f := make([]byte, 5+len(enc))
	f[0] = 0xFF
	binary.BigEndian.PutUint32(f[1:], uint32(len(enc)))
	copy(f[5:], enc)
	return f
}

func challengeOf(mine, theirs [32]byte) (lo, hi [32]byte, ch []byte) {
	if bytes.Compare(mine[:], theirs[:]) < 0 {
		lo, hi = mine, theirs
	} else {
		lo, hi = theirs, mine
	}
	s := sha256.Sum256(append(append([]byte{}, lo[:]...), hi[:]...))
	return lo, hi, s[:]
}

func mustSign(k crypto.PrivKey, m []byte) crypto.Signature {
	s, err := k.Sign(m)
	if err != nil {
		panic(err)
	}
	return s
}

// what the first honest session of a case leaves behind for the replay classes
type staleSession struct {
	myEph     [32]byte
	honestEph [32]byte
	authFrame []byte
	valid     bool
}

type sessionOut struct {
	Class        string `json:"class"`
	Sent         string `json:"sent_auth"`
	Note         string `json:"note,omitempty"`
	ScriptErr    string `json:"script_err,omitempty"`
	honestEph    [32]byte
	myEph        [32]byte
	authFrame    []byte
	honestProof  string // "", "ok", or a description of what is wrong
	presentedKey crypto.PubKey
	played       bool // the tampered auth message (or eph) was fully written
	// truncation classes: the bytes cut off are all zero. A decoder that zero-fills a short
	// value (ser does: the error of the concrete decoder inside an interface is dropped)
	// reconstructs the complete, valid proof from such a message, so accepting it is
	// leniency towards a malformed message, not a connection without proof of possession.
	cutTailZero bool
}

func allZero(b []byte) bool {
	for _, x := range b {
		if x != 0 {
			return false
		}
	}
	return true
}

type authCase struct {
	c       *core.Ctx
	r       *rng.R
	honest  crypto.PrivKey
	victim  crypto.PrivKey // the identity the harness legitimately owns in honest sessions
	attack  crypto.PrivKey // a second identity of the harness
	stale   staleSession
	procs   int
	classes map[string]bool
}

// script plays the remote side. It runs in its own goroutine.
func (ac *authCase) script(rm *remote, class string, r *rng.R, out *sessionOut) {
	out.Class = class
	write := func(b []byte) error {
		_, err := rm.p.Write(b)
		return err
	}
	fail := func(stage string, err error) {
		out.ScriptErr = stage + ": " + err.Error()
	}
	me := ac.victim
	var myEph [32]byte
	copy(myEph[:], r.Bytes(32))
	if (class == "replay-auth-frame" || class == "challenge-stale-eph") && ac.stale.valid {
		myEph = ac.stale.myEph
	}
	readHonestEph := func() bool {
		var e [32]byte
		if _, err := ser.DecodeReaderWithType(rm, &e, 1024*1024); err != nil {
			fail("read honest eph", err)
			return false
		}
		out.honestEph = e
		return true
	}

	// ---- step 1/2: ephemeral keys
	switch class {
	case "reflect-auth":
		if !readHonestEph() {
			return
		}
		myEph = out.honestEph
		if err := write(ser.MustEncodeToBytesWithType(&myEph)); err != nil {
			fail("write eph", err)
			return
		}
		out.played = true // the reflection starts here; a node may already refuse at this point
	case "eph-malformed":
		var b []byte
		switch r.Intn(4) {
		case 0:
			b = ser.MustEncodeToBytesWithType(r.Bytes(31)) // a 31 byte string
		case 1:
			b = ser.MustEncodeToBytesWithType(r.Bytes(33))
		case 2:
			full := ser.MustEncodeToBytesWithType(&myEph)
			b = full[:r.Range(1, len(full)-1)]
		default:
			b = ser.MustEncodeToBytesWithType([]uint{1, 2, 3}) // a list where a string is expected
		}
		out.Sent = fmt.Sprintf("eph=%x", b)
		if err := write(b); err != nil {
			fail("write eph", err)
			return
		}
		out.played = true
		rm.p.CloseWrite()
		return
	case "honest-coalesced":
		// an honest peer whose ephemeral key and auth frame reach the node in one transport read (the node sends
		// its own key without waiting for ours, so we can answer both at once): sent below in a single Write
		if !readHonestEph() {
			return
		}
	default:
		if err := write(ser.MustEncodeToBytesWithType(&myEph)); err != nil {
			fail("write eph", err)
			return
		}
		if !readHonestEph() {
			return
		}
	}
	out.myEph = myEph
	lo, hi, challenge := challengeOf(myEph, out.honestEph)

	// ---- step 3: the auth message
	var payload, rawFrame []byte
	enc := func(k crypto.PubKey, s crypto.Signature) []byte {
		out.presentedKey = k
		return ser.MustEncodeToBytesWithType(authMsg{k, s})
	}
	other := func(a []byte) []byte { s := sha256.Sum256(a); return s[:] }
	switch class {
	case "honest", "honest-coalesced":
		payload = enc(me.PubKey(), mustSign(me, challenge))
	case "sig-bitflip":
		good := enc(me.PubKey(), mustSign(me, challenge))
		// flip one bit inside the signature value: re-encode with a modified signature
		switch s := mustSign(me, challenge).(type) {
		case crypto.SignatureEd25519:
			s[r.Intn(len(s))] ^= byte(1 << uint(r.Intn(8)))
			payload = enc(me.PubKey(), s)
		case crypto.SignatureSecp256k1:
			t := append(crypto.SignatureSecp256k1{}, s...)
			// keep the DER structure, flip inside r or s (skip the 4..6 header bytes)
			i := r.Range(5, len(t)-1)
			t[i] ^= byte(1 << uint(r.Intn(8)))
			payload = enc(me.PubKey(), t)
		}
		if bytes.Equal(payload, good) {
			out.Note = "bitflip produced identical payload"
		}
	case "sig-random":
		switch me.PubKey().(type) {
		case crypto.PubKeyEd25519:
			var s crypto.SignatureEd25519
			copy(s[:], r.Bytes(64))
			payload = enc(me.PubKey(), s)
		default:
			// a well-formed DER signature of random r, s
			fake := crypto.GenPrivKeySecp256k1FromSecret(r.Bytes(32))
			payload = enc(me.PubKey(), mustSign(fake, r.Bytes(32)))
		}
	case "sig-by-other-key":
		payload = enc(ac.attack.PubKey(), mustSign(me, challenge))
	case "victim-key-own-sig":
		// presents an identity it does not own, signs with the key it has
		payload = enc(ac.honestOrVictimForeign(r), mustSign(ac.attack, challenge))
	case "challenge-swapped":
		payload = enc(me.PubKey(), mustSign(me, other(append(append([]byte{}, hi[:]...), lo[:]...))))
	case "challenge-one-key-only":
		var m []byte
		switch r.Intn(4) {
		case 0:
			m = other(lo[:])
		case 1:
			m = other(hi[:])
		case 2:
			m = other(append(append([]byte{}, lo[:]...), lo[:]...))
		default:
			m = other(append(append([]byte{}, hi[:]...), hi[:]...))
		}
		payload = enc(me.PubKey(), mustSign(me, m))
	case "challenge-unhashed":
		payload = enc(me.PubKey(), mustSign(me, append(append([]byte{}, lo[:]...), hi[:]...)))
	case "challenge-stale-eph":
		// a fresh signature, but over the challenge of an earlier session with the same node
		if !ac.stale.valid {
			out.Note = "no stale session"
			return
		}
		_, _, old := challengeOf(ac.stale.myEph, ac.stale.honestEph)
		payload = enc(me.PubKey(), mustSign(me, old))
	case "replay-auth-frame":
		if !ac.stale.valid {
			out.Note = "no stale session"
			return
		}
		out.presentedKey = me.PubKey()
		rawFrame = ac.stale.authFrame
	case "nil-key":
		payload = enc(nil, mustSign(me, challenge))
	case "nil-sig":
		payload = enc(me.PubKey(), nil)
	case "nil-both":
		payload = enc(nil, nil)
	case "truncated-auth-payload":
		full := enc(me.PubKey(), mustSign(me, challenge))
		payload = full[:r.Range(1, len(full)-1)]
		out.cutTailZero = allZero(full[len(payload):])
	case "truncated-auth-frame":
		full := frame(enc(me.PubKey(), mustSign(me, challenge)))
		rawFrame = full[:r.Range(1, len(full)-1)]
		out.cutTailZero = allZero(full[len(rawFrame):])
	case "sig-type-mismatch":
		switch me.PubKey().(type) {
		case crypto.PubKeyEd25519:
			sk := crypto.GenPrivKeySecp256k1FromSecret(r.Bytes(32))
			payload = enc(me.PubKey(), mustSign(sk, challenge))
		default:
			ek := crypto.GenPrivKeyEd25519FromSecret(r.Bytes(32))
			payload = enc(me.PubKey(), mustSign(ek, challenge))
		}
	case "key-slot-type-confusion":
		out.presentedKey = nil
		payload = ser.MustEncodeToBytesWithType(confusedMsg{mustSign(me, challenge), mustSign(me, challenge)})
	case "sig-empty":
		switch me.PubKey().(type) {
		case crypto.PubKeyEd25519:
			payload = enc(me.PubKey(), crypto.SignatureEd25519{})
		default:
			payload = enc(me.PubKey(), crypto.SignatureSecp256k1{})
		}
	case "garbage-auth-payload":
		out.presentedKey = nil
		payload = r.Bytes(r.Range(1, 200))
	case "reflect-auth", "reflect-auth-fresh-eph":
		// bounce the honest node's own auth frame back to it (after echoing its ephemeral key, or after a
		// fresh ephemeral key of our own for which we hold no secret)
		raw, chunk, err := rm.readFrame()
		if err != nil {
			fail("read honest auth frame", err)
			return
		}
		var hm authMsg
		if err := ser.DecodeBytesWithType(chunk, &hm); err == nil {
			out.presentedKey = hm.Key
		}
		rawFrame = raw
	default:
		panic("unknown tamper class " + class)
	}
	if rawFrame == nil {
		rawFrame = frame(payload)
	}
	out.authFrame = rawFrame
	if payload != nil {
		out.Sent = fmt.Sprintf("payload=%x", payload)
	} else {
		out.Sent = fmt.Sprintf("frame=%x", rawFrame)
	}
	toWrite := rawFrame
	if class == "honest-coalesced" {
		toWrite = append(ser.MustEncodeToBytesWithType(&myEph), rawFrame...)
	}
	if err := write(toWrite); err != nil {
		fail("write auth frame", err)
		return
	}
	out.played = true
	// the honest side has everything we will ever send; EOF afterwards keeps a
	// truncated message from blocking it forever (its own writes still succeed)
	rm.p.CloseWrite()

	if class == "honest" || class == "honest-coalesced" {
		// the honest node must prove possession of ITS key over the same challenge
		_, chunk, err := rm.readFrame()
		if err != nil {
			out.honestProof = "cannot read the honest node's auth frame: " + err.Error()
			return
		}
		var hm authMsg
		if err := ser.DecodeBytesWithType(chunk, &hm); err != nil {
			out.honestProof = "cannot decode the honest node's auth message: " + err.Error()
			return
		}
		switch {
		case hm.Key == nil || !hm.Key.Equals(ac.honest.PubKey()):
			out.honestProof = "the honest node presented a key that is not its own"
		case !hm.Key.VerifyBytes(challenge, hm.Sig):
			out.honestProof = "the honest node's signature does not verify over sha256(lo||hi) of the two ephemeral keys"
		default:
			out.honestProof = "ok"
		}
	}
}

func (ac *authCase) honestOrVictimForeign(r *rng.R) crypto.PubKey {
	// a key the harness holds no private key for in this role
	if r.Bool() {
		return ac.honest.PubKey()
	}
	return genKey(r).PubKey()
}

// session runs one handshake: the real code with the honest key on one end, the script on the other.
func (ac *authCase) session(class string, idx int) (res hsResult, out *sessionOut, ok bool) {
	c := ac.c
	hp, rp := newPipe(ac.r) // both halves stay in sync (boundary preserving) mode
	rm := newRemote(rp)
	out = &sessionOut{}
	pumpDone, scriptDone := make(chan struct{}), make(chan struct{})
	resCh := make(chan hsResult, 1)
	sr := ac.r.Split()
	go rm.pump(pumpDone)
	go func() { resCh <- makeSecret(hp, ac.honest) }()
	go func() { defer close(scriptDone); ac.script(rm, class, sr, out) }()
	resDone := make(chan struct{})
	go func() { res = <-resCh; close(resDone) }()
	timedOut := waitDone(resDone, hp.out.prog)
	rp.Close()
	hp.Close()
	<-resDone
	<-scriptDone
	<-pumpDone
	if timedOut {
		c.Inconclusive(fmt.Sprintf("watchdog: handshake session %d (%s) did not reach a decision", idx, class))
		return res, out, false
	}
	return res, out, true
}

func runAuth(c *core.Ctx, procs int) {
	r := c.Rng
	ac := &authCase{c: c, r: r, honest: genKey(r), victim: genKey(r), attack: genKey(r), procs: procs, classes: map[string]bool{}}
	desc := map[string]interface{}{"honest_key": keyType(ac.honest.PubKey()), "harness_key": keyType(ac.victim.PubKey()), "second_harness_key": keyType(ac.attack.PubKey()), "procs": procs}
	n := r.Range(5, 9)
	plan := []string{"honest"}
	for i := 0; i < n; i++ {
		plan = append(plan, tamperClasses[r.Intn(len(tamperClasses))])
	}
	if r.Bool() {
		plan = append(plan, "honest")
	}
	if r.Bool() {
		plan = append(plan, "honest-coalesced")
	}
	honestOK := false
	var outcomes []string
	for i, class := range plan {
		res, out, ok := ac.session(class, i)
		if !ok {
			return
		}
		w := map[string]interface{}{"case": desc, "session_index": i, "plan": plan, "session": out,
			"honest_err": fmt.Sprint(res.err), "honest_panic": fmt.Sprint(res.panic),
			"honest_eph": fmt.Sprintf("%x", out.honestEph), "harness_eph": fmt.Sprintf("%x", out.myEph)}
		accepted := res.panic == nil && res.err == nil && res.sc != nil
		if accepted {
			w["reported_remote_pubkey"] = fmt.Sprintf("%v", res.sc.RemotePubKey())
		}
		outcomes = append(outcomes, fmt.Sprintf("%s:%v", class, accepted))
		if class == "honest" || class == "honest-coalesced" {
			if class == "honest-coalesced" {
				c.Count("hs_honest_coalesced_sessions", 1)
			}
			switch {
			case res.panic != nil:
				c.Violation("handshake/honest-run-panic", fmt.Sprintf("MakeSecretConnection panicked in an honest session: %v", res.panic), w)
				return
			case !accepted && class == "honest-coalesced":
				c.Violation("handshake/honest-peer-rejected/eph-key-and-auth-frame-in-one-read", fmt.Sprintf("remote proved possession of its key; its ephemeral key and its auth frame arrived in one transport read and the honest side returned %v (script: %s)", res.err, out.ScriptErr), w)
				return
			case !accepted:
				c.Violation("handshake/honest-peer-rejected", fmt.Sprintf("remote proved possession of its key over sha256(lo||hi) but the honest side returned %v (script: %s)", res.err, out.ScriptErr), w)
				return
			case res.sc.RemotePubKey() == nil || !res.sc.RemotePubKey().Equals(ac.victim.PubKey()):
				c.Violation("handshake/wrong-remote-pubkey", "honest session: RemotePubKey() is not the key the remote presented and proved", w)
				return
			case out.honestProof != "ok":
				c.Violation("handshake/local-proof-invalid", "honest session: "+out.honestProof, w)
				return
			}
			c.Count("hs_honest_accepted", 1)
			honestOK = true
			if !ac.stale.valid {
				ac.stale = staleSession{myEph: out.myEph, honestEph: out.honestEph, authFrame: out.authFrame, valid: true}
			}
			continue
		}
		if out.Note == "no stale session" {
			continue
		}
		if !out.played {
			// the honest side gave up before the tampered message was on the wire: nothing was judged
			c.Count("hs_tamper_not_played", 1)
			if accepted {
				c.Violation("handshake/accepted-before-auth", "the honest side reported success before the remote had sent its auth message ("+class+")", w)
			}
			continue
		}
		c.Count("hs_played_"+class, 1)
		ac.classes[class] = true
		if accepted && out.cutTailZero {
			c.Count("diag_truncated_zero_tail_accepted", 1)
			continue
		}
		if accepted {
			c.Violation("handshake/accepted/"+class,
				fmt.Sprintf("the honest side established a connection (remote pubkey reported: %s %v) although the remote did not prove possession of that key: %s",
					keyType(res.sc.RemotePubKey()), res.sc.RemotePubKey(), classDoc[class]), w)
			c.Count("hs_tampered_accepted", 1)
			continue
		}
		if res.panic != nil {
			// neither an error nor a connection: in the node nothing recovers this (accept / dial routine dies)
			c.Violation("handshake/panic/"+class, fmt.Sprintf("MakeSecretConnection panicked instead of returning an error: %v (%s)", res.panic, classDoc[class]), w)
			c.Count("hs_tampered_panicked", 1)
			continue
		}
		c.Count("hs_tampered_rejected", 1)
		c.Count("hs_rejected_"+class, 1)
	}
	// diagnostic only: a degenerate ed25519 key (identity point) with the trivial signature
	if c.Index%4 == 0 {
		ac.degenerateDiag()
	}
	if honestOK && len(ac.classes) >= 3 {
		c.Nontrivial(fp("auth", desc, plan, c.Index))
	}
	if c.Index%100 == 4 {
		c.Sample(map[string]interface{}{"kind": "auth", "case": desc, "sessions(class:accepted)": outcomes})
	}
}

var classDoc = map[string]string{
	"sig-bitflip":             "valid signature with one bit flipped",
	"sig-random":              "random signature",
	"sig-by-other-key":        "presents key K2, signature made with K1",
	"victim-key-own-sig":      "presents somebody else's public key, signs with its own key",
	"challenge-swapped":       "signature over sha256(hi||lo)",
	"challenge-one-key-only":  "signature binds only one of the two ephemeral keys",
	"challenge-unhashed":      "signature over lo||hi without hashing",
	"challenge-stale-eph":     "signature over the challenge of an earlier session",
	"replay-auth-frame":       "auth frame of an earlier session replayed verbatim (same remote ephemeral key)",
	"nil-key":                 "nil public key",
	"nil-sig":                 "nil signature",
	"nil-both":                "nil key and signature",
	"truncated-auth-payload":  "auth message cut short inside a well-formed frame",
	"truncated-auth-frame":    "auth frame cut short, then EOF",
	"sig-type-mismatch":       "signature of the other key type",
	"key-slot-type-confusion": "a Signature concrete type in the PubKey slot",
	"reflect-auth":            "the honest node's own ephemeral key and auth frame bounced back to it",
	"reflect-auth-fresh-eph":  "a fresh random ephemeral key, then the honest node's own auth frame bounced back to it",
	"eph-malformed":           "malformed ephemeral key message",
	"sig-empty":               "zero / empty signature",
	"garbage-auth-payload":    "random bytes as auth message",
}

// degenerateDiag: ed25519 identity-point public key with signature (R=identity, S=0)
// verifies for every message in cofactorless verifiers that do not reject small-order
// keys. No private key exists for it, so nobody "possesses" it; the signature scheme is
// an assumption of this check, therefore this is counted, not judged.
func (ac *authCase) degenerateDiag() {
	hp, rp := newPipe(ac.r)
	rm := newRemote(rp)
	pumpDone, scriptDone := make(chan struct{}), make(chan struct{})
	resCh := make(chan hsResult, 1)
	sr := ac.r.Split()
	go rm.pump(pumpDone)
	go func() { resCh <- makeSecret(hp, ac.honest) }()
	go func() {
		defer close(scriptDone)
		var myEph, hEph [32]byte
		copy(myEph[:], sr.Bytes(32))
		if _, err := rp.Write(ser.MustEncodeToBytesWithType(&myEph)); err != nil {
			return
		}
		if _, err := ser.DecodeReaderWithType(rm, &hEph, 1024*1024); err != nil {
			return
		}
		var k crypto.PubKeyEd25519
		k[0] = 1
		var s crypto.SignatureEd25519
		s[0] = 1
		rp.Write(frame(ser.MustEncodeToBytesWithType(authMsg{k, s})))
		rp.CloseWrite()
	}()
	var res hsResult
	resDone := make(chan struct{})
	go func() { res = <-resCh; close(resDone) }()
	if waitDone(resDone, hp.out.prog) {
		rp.Close()
		hp.Close()
		<-resDone
		<-scriptDone
		<-pumpDone
		return
	}
	rp.Close()
	hp.Close()
	<-scriptDone
	<-pumpDone
	if res.err == nil && res.sc != nil {
		ac.c.Count("diag_degenerate_ed25519_key_accepted", 1)
	} else {
		ac.c.Count("diag_degenerate_ed25519_key_rejected", 1)
	}
}
