package c18

import (
	"bytes"
	"errors"
	"io"
	"net"
	"runtime"
	"sync"
	"sync/atomic"
	"time"

	"verif/h/internal/rng"
)

// An in-memory, reliable, ordered duplex transport owned by the harness.
//
// Each direction ("half") works in one of two modes:
//   - sync: net.Pipe semantics. A Write returns only after all its bytes were
//     consumed and a Read never returns bytes of two different Writes. Used for
//     handshakes: what arrives together is then decided by the script (one Write =
//     one read), e.g. the "honest-coalesced" session sends the ephemeral key and the
//     auth frame in one Write (the handshake used to decode the key through a
//     throw-away read-ahead buffer that swallowed the auth frame: fixed, cfeaa12).
//   - buffered: a bounded byte buffer. Writes are cut into random pieces, Reads
//     return random-length prefixes of what is available (1 byte ... everything),
//     a small capacity makes a fast writer wait for a slow reader and vice versa.
//
// The transport never loses, duplicates, reorders or alters bytes; whatever the
// far side observes differently is the doing of the code under test.
type half struct {
	mu         sync.Mutex
	cond       *sync.Cond
	wmu        sync.Mutex // one Write at a time
	buf        bytes.Buffer
	capac      int
	syncMode   bool
	maxChunk   int // upper bound of one transfer step in buffered mode (0 = no bound)
	rnd        *rng.R
	wclosed    bool
	rclosed    bool
	tap        *bytes.Buffer // copy of everything written (guarded by mu)
	ops        uint32
	yieldEvery uint32
	nread      int64
	nreads     int64
	// fault injection (mconn "cut" cases): after failAt bytes were read from this half the
	// whole pipe fails like a reset connection: both directions return errReset from then on
	failAt int64
	broken *int32
	peer   *half
	prog   *int64 // bytes moved through the pipe (both directions): the progress signal of the stall watchdog
}

var errReset = errors.New("c18pipe: connection reset by harness")

func (h *half) isBroken() bool { return atomic.LoadInt32(h.broken) == 1 }

func (h *half) wake() {
	h.mu.Lock()
	h.cond.Broadcast()
	h.mu.Unlock()
}

func newHalf(r *rng.R) *half {
	h := &half{syncMode: true, rnd: r, capac: 1}
	h.cond = sync.NewCond(&h.mu)
	return h
}

func (h *half) setBuffered(capac, maxChunk int, yieldEvery uint32, tap *bytes.Buffer) {
	h.mu.Lock()
	h.syncMode = false
	if capac < 1 {
		capac = 1
	}
	h.capac = capac
	h.maxChunk = maxChunk
	h.yieldEvery = yieldEvery
	h.tap = tap
	h.mu.Unlock()
}

func (h *half) setSync(maxChunk int, yieldEvery uint32, tap *bytes.Buffer) {
	h.mu.Lock()
	h.syncMode = true
	h.maxChunk = maxChunk
	h.yieldEvery = yieldEvery
	h.tap = tap
	h.mu.Unlock()
}

func (h *half) maybeYield() {
	if h.yieldEvery == 0 {
		return
	}
	if atomic.AddUint32(&h.ops, 1)%h.yieldEvery == 0 {
		runtime.Gosched()
	}
}

func (h *half) write(p []byte) (int, error) {
	h.maybeYield()
	h.wmu.Lock()
	defer h.wmu.Unlock()
	h.mu.Lock()
	defer h.mu.Unlock()
	if h.isBroken() {
		return 0, errReset
	}
	if h.wclosed || h.rclosed {
		return 0, io.ErrClosedPipe
	}
	if len(p) == 0 {
		return 0, nil
	}
	if h.tap != nil {
		h.tap.Write(p)
	}
	if h.syncMode {
		h.buf.Write(p)
		h.cond.Broadcast()
		for h.buf.Len() > 0 && !h.rclosed && !h.wclosed && !h.isBroken() {
			h.cond.Wait()
		}
		if rem := h.buf.Len(); rem > 0 {
			h.buf.Reset()
			if h.isBroken() {
				return len(p) - rem, errReset
			}
			return len(p) - rem, io.ErrClosedPipe
		}
		return len(p), nil
	}
	n := 0
	for n < len(p) {
		for h.buf.Len() >= h.capac && !h.rclosed && !h.wclosed && !h.isBroken() {
			h.cond.Wait()
		}
		if h.isBroken() {
			return n, errReset
		}
		if h.rclosed || h.wclosed {
			return n, io.ErrClosedPipe
		}
		k := len(p) - n
		if room := h.capac - h.buf.Len(); k > room {
			k = room
		}
		if h.maxChunk > 0 {
			if m := 1 + h.rnd.Intn(h.maxChunk); k > m {
				k = m
			}
		}
		h.buf.Write(p[n : n+k])
		n += k
		h.cond.Broadcast()
	}
	return n, nil
}

func (h *half) read(p []byte) (int, error) {
	h.maybeYield()
	n, err, broke := h.read1(p)
	if broke {
		// wake whoever waits on the other direction (outside our own lock)
		h.peer.wake()
	}
	return n, err
}

func (h *half) read1(p []byte) (n int, err error, broke bool) {
	h.mu.Lock()
	defer h.mu.Unlock()
	for h.buf.Len() == 0 && !h.wclosed && !h.rclosed && !h.isBroken() {
		h.cond.Wait()
	}
	if h.isBroken() {
		return 0, errReset, false
	}
	if h.rclosed {
		return 0, io.ErrClosedPipe, false
	}
	if h.buf.Len() == 0 {
		return 0, io.EOF, false
	}
	if len(p) == 0 {
		return 0, nil, false
	}
	k := len(p)
	if k > h.buf.Len() {
		k = h.buf.Len()
	}
	if h.maxChunk > 0 {
		if m := 1 + h.rnd.Intn(h.maxChunk); k > m {
			k = m
		}
	}
	if h.failAt > 0 {
		if rem := h.failAt - h.nread; int64(k) > rem {
			k = int(rem)
		}
	}
	n, _ = h.buf.Read(p[:k])
	h.nread += int64(n)
	h.nreads++
	atomic.AddInt64(h.prog, int64(n))
	if h.failAt > 0 && h.nread >= h.failAt {
		atomic.StoreInt32(h.broken, 1)
		h.buf.Reset()
		broke = true
	}
	h.cond.Broadcast()
	return n, nil, broke
}

func (h *half) closeWrite() {
	h.mu.Lock()
	h.wclosed = true
	h.cond.Broadcast()
	h.mu.Unlock()
}

func (h *half) closeRead() {
	h.mu.Lock()
	h.rclosed = true
	h.buf.Reset()
	h.cond.Broadcast()
	h.mu.Unlock()
}

type pipeAddr struct{}

func (pipeAddr) Network() string { return "c18pipe" }
func (pipeAddr) String() string  { return "c18pipe" }

// pconn is one end of the duplex pipe; it implements net.Conn.
type pconn struct {
	in, out *half
}

func newPipe(r *rng.R) (*pconn, *pconn) {
	ab, ba := newHalf(r.Split()), newHalf(r.Split())
	ab.broken = new(int32)
	ba.broken = ab.broken
	ab.prog = new(int64)
	ba.prog = ab.prog
	ab.peer, ba.peer = ba, ab
	return &pconn{in: ba, out: ab}, &pconn{in: ab, out: ba}
}

func (p *pconn) Read(b []byte) (int, error)  { return p.in.read(b) }
func (p *pconn) Write(b []byte) (int, error) { return p.out.write(b) }
func (p *pconn) Close() error {
	p.out.closeWrite()
	p.in.closeRead()
	return nil
}

// CloseWrite half-closes: the far side reads the buffered bytes and then io.EOF,
// while it can still write to us.
func (p *pconn) CloseWrite()                        { p.out.closeWrite() }
func (p *pconn) LocalAddr() net.Addr                { return pipeAddr{} }
func (p *pconn) RemoteAddr() net.Addr               { return pipeAddr{} }
func (p *pconn) SetDeadline(t time.Time) error      { return nil }
func (p *pconn) SetReadDeadline(t time.Time) error  { return nil }
func (p *pconn) SetWriteDeadline(t time.Time) error { return nil }

// tapConn copies everything written through it (the plaintext packet stream of an MConnection).
type tapConn struct {
	net.Conn
	mu  sync.Mutex
	log bytes.Buffer
}

func (t *tapConn) Write(p []byte) (int, error) {
	t.mu.Lock()
	t.log.Write(p)
	t.mu.Unlock()
	return t.Conn.Write(p)
}

func (t *tapConn) bytes() []byte {
	t.mu.Lock()
	defer t.mu.Unlock()
	return append([]byte(nil), t.log.Bytes()...)
}
