// Package c05: block execution is a deterministic function of the prior state and the block
// (DESIGN.md §5 C05). Differential replicas over a real single-process chain (chainkit).
package c05

import (
	"crypto/sha256"
	"encoding/hex"
	"fmt"
	"io/ioutil"
	"regexp"
	"runtime"
	"sort"
	"strings"
	"sync"
	"time"

	cfg "github.com/lianxiangcloud/linkchain/config"
	"github.com/lianxiangcloud/linkchain/libs/common"
	"github.com/lianxiangcloud/linkchain/libs/crypto"
	dbm "github.com/lianxiangcloud/linkchain/libs/db"
	"github.com/lianxiangcloud/linkchain/libs/log"
	"github.com/lianxiangcloud/linkchain/mempool"
	"github.com/lianxiangcloud/linkchain/types"

	"verif/h/internal/chainkit"
	"verif/h/internal/core"
	"verif/h/internal/rng"
	"verif/shim/goshim"

	"github.com/xunleichain/tc-wasm/vm"
)

func init() {
	core.Register(&core.Check{
		ID:        "C05",
		Level:     "exploration",
		Technique: "differential replicas of the real application over generated chains (proposer path vs cold / warm-cache / fast-sync / reopened-from-disk validators, GOMAXPROCS 1..16, repeated executions = map orders), byte comparison of everything processBlock returns; race lane C05R",
		Rule: "case = one generated chain of 4-10 blocks on one genesis (5-9 funded accounts, 2 tokens, 4 validators; mempool size / per-block confidential quota / MaxTxs drawn per chain); every block is built by the proposer path of replica P (0-40 transactions through P's real mempool in partly shuffled order with nonce gaps and held-back predecessors, Reap, CreateBlock, PreRunBlock) and then executed by: a cold validator (empty pool), a warm validator (every block tx admitted to its own pool first), a fast-sync replica, P itself, and 1-2 replicas reopened from a byte copy of the cold validator's databases with the process-wide WASM module cache emptied (= restarted process), each under a GOMAXPROCS drawn from {1,2,4,16}; " +
			"transactions: plain and token transfers (to accounts, fresh, dead-contract and not-yet-created-contract addresses), EVM creations (8 purpose-built contracts; failing and low-gas constructors) and calls (storage, logs, revert, out-of-gas, self-destruct, value forwarding, multi-account touch, CREATE), WASM creation and calls (token contract of /repo/test/token, system contracts), account->confidential, confidential->confidential (ring 1 and 3-7, sub-addresses, change), confidential->account (+change), multi-signature transactions signed by the validators and contract-upgrade transactions signed by the registered signers; 30% of the chains are 'hostile': they let the committed state move under already pooled transactions (calls queued behind a nonce gap to a contract somebody destroys, confidential payouts to an address that becomes a contract, upgrades signed under a signer set that is replaced, upgrades that change a system contract's behaviour, never-committed blocks carrying upgrades); " +
			"oracle: PreRunBlock does not panic, CheckBlock true on every replica, header StateHash/ReceiptHash/GasUsed == every replica's TxsResult, and receipts (status, error, gas, logs with all fields, contract address, bloom), logs, LogsBloom, UTXO outputs, key images, special txs, candidates, post-commit TrieRoot / candidates / returned validators are byte-identical across all executions; " +
			"plus variant blocks (reordered / dropped / duplicated / foreign transactions, appended upgrades; never committed): same verdict and same results on cold, warm and proposer replicas, and — unless all validators refuse it in the signature/basic pre-check that PreRunBlock legitimately skips — consistent with PreRunBlock of the same block. " +
			"non-trivial = chain with >= 3 blocks of >= 5 transactions that executed at least one contract call, one failing transaction, one confidential transaction, every block executed >= 5 times; distinct by hash of the block hashes",
		Assumptions: []string{
			"the stand-in for libxcrypto (shim) is deterministic and is the same code in every replica; RingCT soundness is not what is compared",
			"replicas share one process and are driven sequentially (process-global singletons of the repository: balance records, blacklist, metrics); a restarted process is modelled by reopening from copied database bytes and emptying vm.AppCache; storage mode isTrie=false (flat kv) is not built by chainkit and is not covered",
			"candidate list is empty in generated chains (VotePeriod 1321 > chain length; registering candidates needs committee contract calls), so candidate/validator outputs are compared but constant; the only evidence in blocks is the fault-validator record the proposer adds",
		},
		Cases: func(tier string) int {
			if tier == "thorough" {
				return thoroughCases()
			}
			return quickCases()
		},
		Batch:            func(tier string) int { return 2 },
		Run:              runChain,
		Floors:           floors,
		PanicIsViolation: false,
		Init:             initProc,
		BatchTimeout:     15 * time.Minute,
		Also:             []string{"C05R"},
	})
}

func quickCases() int    { return 32 }
func thoroughCases() int { return 1600 }

// floors: about half of the minimum measured over VERIF_SEED=1..5 on the unchanged tree (quick), scaled by
// the number of cases for thorough.
func floors(tier string) map[string]int64 {
	m := map[string]int64{
		"blocks": 95, "chains_completed": 12, "hostile_chains": 3,
		"executions": 500, "executions:cold": 90, "executions:warm": 90, "executions:fastsync": 90, "executions:proposer-self": 90, "executions:reopened": 130,
		"executions:gomaxprocs1": 120, "executions:gomaxprocs16": 120,
		"header_comparisons": 370, "result_comparisons": 400, "post_commit_comparisons": 280,
		"variant_executions": 120, "variant_result_comparisons": 30, "variants_accepted": 15, "variants_rejected": 25,
		"executed:transfer": 360, "executed:token": 120, "executed:create": 120, "executed:call": 200, "executed_failed": 180,
		"executed:a2u": 140, "executed:u2u": 75, "executed:u2a": 34, "executed:mst": 28, "executed:cut": 25,
		"executed_with_logs": 28, "blocks_with_2plus_logging_txs": 6, "contracts_destroyed": 1,
		"warm_pool_admitted": 1200, "held_back": 55,
	}
	if tier == "thorough" {
		for k, v := range m {
			m[k] = v * int64(thoroughCases()) / int64(quickCases()) * 8 / 10
		}
	}
	return m
}

// ---------------------------------------------------------------- log capture

type logRec struct {
	Lvl log.Lvl
	Msg string
	Err string
}

var (
	logMu  sync.Mutex
	logBuf []logRec
)

func capture(r *log.Record) error {
	if r.Lvl > log.LvlWarn {
		return nil
	}
	rec := logRec{Lvl: r.Lvl, Msg: r.Msg}
	for i := 0; i+1 < len(r.Ctx); i += 2 {
		if k, ok := r.Ctx[i].(string); ok && k == "err" {
			rec.Err = fmt.Sprint(r.Ctx[i+1])
		}
	}
	logMu.Lock()
	if len(logBuf) < 400 {
		logBuf = append(logBuf, rec)
	}
	logMu.Unlock()
	return nil
}

func logReset() { logMu.Lock(); logBuf = logBuf[:0]; logMu.Unlock() }

var numRe = regexp.MustCompile(`0x[0-9a-fA-F]+|[0-9a-fA-F]{16,}|\d+`)

// logReason condenses the error-level records since the last reset into a stable class string: the
// record of the stage that failed (state processor, then processBlock / CheckBlock), not the noise
// that failing contract calls log on the way.
func logReason() string {
	logMu.Lock()
	defer logMu.Unlock()
	best, rank := "", 99
	for _, r := range logBuf {
		if r.Lvl > log.LvlError {
			continue
		}
		k := 3
		switch {
		case strings.HasPrefix(r.Msg, "Process "):
			k = 0
		case strings.Contains(r.Msg, "setPoceeds") || strings.Contains(r.Msg, "allocAward"):
			k = 4 // logged and ignored by processBlock
		case strings.HasPrefix(r.Msg, "processBlock:"), strings.HasPrefix(r.Msg, "CheckBlock:"):
			k = 1
		case strings.HasPrefix(r.Msg, "PreRunBlock:"):
			k = 2
		}
		if k < rank {
			s := r.Msg
			if r.Err != "" {
				e := r.Err
				if i := strings.Index(e, ","); i > 0 {
					e = e[:i] // the class of the error, not its parameters
				}
				s += "=" + e
			}
			s = numRe.ReplaceAllString(s, "N")
			best, rank = strings.Join(strings.Fields(s), "_"), k
		}
	}
	if best == "" {
		return "no-error-logged"
	}
	if len(best) > 120 {
		best = best[:120]
	}
	return best
}

var appLogger log.Logger
var dbg func(string, ...interface{})

func initProc() {
	chainkit.InitGlobals()
	log.Root().SetHandler(log.FuncHandler(capture))
	appLogger = log.New()
	appLogger.SetHandler(log.FuncHandler(capture))
	// No wall-clock value may decide anything: pooled transactions never age out.
	mempool.GoodTxDropTime = 1000 * time.Hour
	mempool.GoodTxRebroadcastTime = 1000 * time.Hour
}

// ---------------------------------------------------------------- execution records

// components in reporting priority: the first differing one names the violation.
var components = []string{"gas-used", "receipt-status", "receipt-gas", "receipt-contract-address", "receipt-logs", "receipt-bloom", "receipt-other",
	"logs", "logs-bloom", "utxo-outputs", "key-images", "special-txs", "candidates", "state-hash", "receipt-hash"}

var postComponents = []string{"trie-root", "post-candidates", "validators", "post-state-hash", "height"}
var postComponentsAnyMode = []string{"post-candidates", "validators", "post-state-hash", "height"}

type record struct {
	Kind  string            `json:"kind"`
	Procs int               `json:"gomaxprocs"`
	OK    bool              `json:"check_block"`
	Has   bool              `json:"has_result"`
	Why   string            `json:"reject_reason,omitempty"`
	Comp  map[string]string `json:"-"`
}

func hx(b []byte) string { return hex.EncodeToString(b) }

func short(s string) string {
	if len(s) > 96 {
		h := sha256.Sum256([]byte(s))
		return fmt.Sprintf("%s..(len %d, sha %x)", s[:64], len(s), h[:6])
	}
	return s
}

func logString(l *types.Log) string {
	var tp []string
	for _, t := range l.Topics {
		tp = append(tp, hx(t[:]))
	}
	return fmt.Sprintf("{%x [%s] %x bn=%d tx=%x ti=%d bh=%x i=%d rm=%v bt=%d}", l.Address[:], strings.Join(tp, ","), l.Data, l.BlockNumber, l.TxHash[:], l.TxIndex, l.BlockHash[:], l.Index, l.Removed, l.BlockTime)
}

func candString(cs []*types.CandidateInOrder) string {
	var sb strings.Builder
	for _, c := range cs {
		rr := "nil"
		if c.RankResult != nil {
			rr = c.RankResult.String()
		}
		fmt.Fprintf(&sb, "{%x %v %x %d pi=%d dep=%d sc=%d rand=%d rank=%d rr=%s}", c.Address, c.PubKey, c.CoinBase[:], c.VotingPower, c.ProduceInfo, c.Deposit, c.Score, c.Rand, c.Rank, rr)
	}
	return sb.String()
}

func extract(n *chainkit.Node, hash common.Hash) (map[string]string, bool) {
	receipts, tr, logs, ok := n.App.VerifProcessResult(hash)
	if !ok {
		return nil, false
	}
	m := map[string]string{}
	m["gas-used"] = fmt.Sprint(tr.GasUsed)
	m["state-hash"] = hx(tr.StateHash[:])
	m["receipt-hash"] = hx(tr.ReceiptHash[:])
	m["logs-bloom"] = hx(tr.LogsBloom[:])
	var st, gas, addr, rl, rb, ro []string
	for _, r := range receipts {
		st = append(st, fmt.Sprintf("%d:%q", r.Status, r.VMErr))
		gas = append(gas, fmt.Sprintf("%d/%d", r.GasUsed, r.CumulativeGasUsed))
		addr = append(addr, hx(r.ContractAddress[:]))
		var ls []string
		for _, l := range r.Logs {
			ls = append(ls, logString(l))
		}
		rl = append(rl, "["+strings.Join(ls, " ")+"]")
		h := sha256.Sum256(r.Bloom[:])
		rb = append(rb, hx(h[:8]))
		ro = append(ro, fmt.Sprintf("%x/%x", r.TxHash[:], r.PostState))
	}
	m["receipt-status"] = strings.Join(st, ",")
	m["receipt-gas"] = strings.Join(gas, ",")
	m["receipt-contract-address"] = strings.Join(addr, ",")
	m["receipt-logs"] = strings.Join(rl, ",")
	m["receipt-bloom"] = strings.Join(rb, ",")
	m["receipt-other"] = strings.Join(ro, ",")
	var ls []string
	for _, l := range logs {
		ls = append(ls, logString(l))
	}
	m["logs"] = strings.Join(ls, " ")
	var uo []string
	for _, o := range tr.UTXOOutputs() {
		uo = append(uo, fmt.Sprintf("{%x %d %x %x %x}", o.OTAddr[:], o.Height, o.Commit[:], o.TokenID[:], o.Remark[:]))
	}
	m["utxo-outputs"] = strings.Join(uo, "")
	var ki []string
	for _, k := range tr.KeyImages() {
		ki = append(ki, hx(k[:]))
	}
	m["key-images"] = strings.Join(ki, ",")
	var sp []string
	for _, t := range tr.SpecialTxs() {
		h := t.Hash()
		sp = append(sp, hx(h[:]))
	}
	m["special-txs"] = strings.Join(sp, ",")
	m["candidates"] = candString(tr.Candidates)
	return m, true
}

func extractPost(n *chainkit.Node, vals []*types.Validator) map[string]string {
	tr := n.App.VerifLastTxsResult()
	m := map[string]string{}
	m["trie-root"] = hx(tr.TrieRoot[:])
	m["post-state-hash"] = hx(tr.StateHash[:])
	m["post-candidates"] = candString(tr.Candidates)
	var vs []string
	for _, v := range vals {
		vs = append(vs, fmt.Sprintf("{%x %v %x %d}", v.Address, v.PubKey, v.CoinBase[:], v.VotingPower))
	}
	m["validators"] = strings.Join(vs, "")
	m["height"] = fmt.Sprint(n.App.Height())
	return m
}

// ---------------------------------------------------------------- replicas

type replica struct {
	kind string
	n    *chainkit.Node
}

func copyDBs(src map[string]dbm.DB) map[string]dbm.DB {
	out := map[string]dbm.DB{}
	for name, db := range src {
		m := dbm.NewMemDB()
		it := db.Iterator(nil, nil)
		for ; it.Valid(); it.Next() {
			m.Set(append([]byte{}, it.Key()...), append([]byte{}, it.Value()...))
		}
		it.Close()
		out[name] = m
	}
	return out
}

func noCacheCfg() *cfg.MempoolConfig {
	mc := cfg.DefaultMempoolConfig()
	mc.Broadcast = false
	mc.CacheSize = 0
	return mc
}

func procsOf(r *rng.R) int { return []int{1, 2, 4, 16}[r.Intn(4)] }

// checkBlock runs CheckBlock under the given GOMAXPROCS, recovering a panic as an observation.
func checkBlock(n *chainkit.Node, b *types.Block, procs int) (ok bool, why string, pan interface{}) {
	old := runtime.GOMAXPROCS(procs)
	defer runtime.GOMAXPROCS(old)
	logReset()
	func() {
		defer func() { pan = recover() }()
		ok = n.App.CheckBlock(b)
	}()
	if !ok {
		why = logReason()
	}
	if dbg != nil {
		logMu.Lock()
		seen := map[string]int{}
		for _, r := range logBuf {
			if r.Lvl <= log.LvlError {
				seen[r.Msg+" err="+r.Err]++
			}
		}
		logMu.Unlock()
		for k, v := range seen {
			dbg("      logged at error level x%d: %s", v, short(k))
		}
	}
	return
}

func decode(parts *types.PartSet) (*types.Block, *types.PartSet, error) {
	rp, err := chainkit.RebuildParts(parts)
	if err != nil {
		return nil, nil, err
	}
	b, err := chainkit.DecodeBlock(rp, 0)
	return b, rp, err
}

type chainCase struct {
	c    *core.Ctx
	w    *world
	g    *chainkit.Genesis
	reps []*replica
	// per-height sample
	sample []map[string]interface{}
	blocks []string
	// what is needed to re-execute the block under examination on fresh replicas (diagnosis of a violation)
	diagParts *types.PartSet
	diagDBs   map[string]dbm.DB
	// content of the process-wide WASM module cache before every execution of the block under examination
	cacheSnaps []map[interface{}]interface{}
}

func snapAppCache() map[interface{}]interface{} {
	m := map[interface{}]interface{}{}
	vm.AppCache.Range(func(k, v interface{}) bool { m[k] = v; return true })
	return m
}

func restoreAppCache(m map[interface{}]interface{}) {
	clearAppCache()
	for k, v := range m {
		vm.AppCache.Store(k, v)
	}
}

// noteExec remembers what the module cache held right before an execution (distinct contents only).
func (cc *chainCase) noteExec() {
	m := snapAppCache()
	for _, o := range cc.cacheSnaps {
		if len(o) == len(m) {
			same := true
			for k, v := range m {
				if o[k] != v {
					same = false
					break
				}
			}
			if same {
				return
			}
		}
	}
	if len(cc.cacheSnaps) < 12 {
		cc.cacheSnaps = append(cc.cacheSnaps, m)
	}
}

// viol reports a violation of the differential oracle; the key is refined when the difference can be
// attributed to the process-wide cache of compiled WASM modules (vm.AppCache): the same block on the same
// committed bytes gives another result once that cache is emptied.
func (cc *chainCase) viol(key, detail string, wit interface{}) {
	if cc.diagParts != nil && cc.diagDBs != nil {
		run := func(cache map[interface{}]interface{}) map[string]string {
			fn, err := chainkit.OpenNode(cc.g, copyDBs(cc.diagDBs), chainkit.NodeOpts{MemCfg: noCacheCfg()})
			if err != nil {
				return nil
			}
			defer fn.Close()
			wire(fn)
			restoreAppCache(cache)
			fb, _, err := decode(cc.diagParts)
			if err != nil {
				return nil
			}
			ok, _, pan := checkBlock(fn, fb, 1)
			comp, has := extract(fn, fb.Hash())
			if comp == nil {
				comp = map[string]string{}
			}
			comp["verdict"] = fmt.Sprint(ok, has, pan != nil)
			return comp
		}
		after := snapAppCache()
		same := func(a, b map[string]string) (string, bool) {
			if a == nil || b == nil {
				return "", true
			}
			for _, k := range append([]string{"verdict"}, components...) {
				if a[k] != b[k] {
					return k, false
				}
			}
			return "", true
		}
		// A result can be blamed on the cache only if it is reproducible with that cache content (4 of 4
		// executions agree), reproducible with an empty cache (4 of 4), and the two differ: on a tree whose
		// execution is plainly non-deterministic this must not swallow the divergence.
		stable := func(cache map[interface{}]interface{}) map[string]string {
			first := run(cache)
			for i := 0; i < 3 && first != nil; i++ {
				if _, eq := same(first, run(cache)); !eq {
					return nil
				}
			}
			return first
		}
		if empty := stable(nil); empty != nil {
			snaps := append(append([]map[interface{}]interface{}{}, cc.cacheSnaps...), after)
			if len(snaps) > 5 {
				snaps = append(snaps[:4:4], after)
			}
			for i, snap := range snaps {
				a := run(snap)
				k, eq := same(a, empty)
				if dbg != nil {
					dbg("diagnosis: cache content #%d (%d modules) -> %v gas %s / empty cache -> %v gas %s", i, len(snap), a["verdict"], a["gas-used"], empty["verdict"], empty["gas-used"])
				}
				if eq {
					continue
				}
				again := true
				for j := 0; j < 3 && again; j++ {
					_, again = same(a, run(snap))
				}
				if !again {
					continue
				}
				detail = "(" + key + ") " + detail
				key = "process-cache/wasm-app-cache-changes-block-result"
				detail += fmt.Sprintf(" [re-executed on replicas reopened from the same bytes: %s differs, reproducibly (4 of 4 executions each), between the process-wide WASM module cache as it was before one of the executions (%d modules) and an empty one]", k, len(snap))
				break
			}
		}
		restoreAppCache(after)
	}
	cc.c.Violation(key, detail, wit)
}

func clearAppCache() {
	vm.AppCache.Range(func(k, _ interface{}) bool { vm.AppCache.Delete(k); return true })
}

func kindsOf(w *world, b *types.Block) []string {
	var ks []string
	for _, t := range b.Data.Txs {
		k := w.kindOf[t.Hash()]
		if k == "" {
			k = "?" + t.TypeName()
		}
		ks = append(ks, k)
	}
	return ks
}

// compare reports the first differing component between the reference record and rec.
func (cc *chainCase) compare(height uint64, what string, order []string, ref, rec *record, kinds []string) bool {
	for _, comp := range order {
		a, b := ref.Comp[comp], rec.Comp[comp]
		if a != b {
			cc.viol("divergence/"+comp,
				fmt.Sprintf("height %d (%s): %s of replica %q (GOMAXPROCS %d) differs from replica %q (GOMAXPROCS %d): %s vs %s", height, what, comp, rec.Kind, rec.Procs, ref.Kind, ref.Procs, short(b), short(a)),
				map[string]interface{}{"height": height, "comparison": what, "component": comp, "replica_a": ref.Kind, "value_a": a, "replica_b": rec.Kind, "value_b": b, "block_tx_kinds": kinds, "chain": cc.sample})
			return false
		}
	}
	return true
}

func fpOf(parts ...string) string {
	h := sha256.New()
	for _, p := range parts {
		h.Write([]byte(p))
		h.Write([]byte{0})
	}
	return hex.EncodeToString(h.Sum(nil)[:8])
}

var wasmOnce sync.Once
var wasmBin []byte

func wasmCode() []byte {
	wasmOnce.Do(func() {
		b, err := ioutil.ReadFile("/repo/test/token/app_issue_test_contracts/WBase.bin")
		if err == nil {
			wasmBin, _ = hex.DecodeString(strings.TrimSpace(string(b)))
		}
	})
	return wasmBin
}

type chainOpts struct {
	Blocks   int
	MaxTxs   int
	PoolSize int
	UTXOSize int
	Accounts int
	Hostile  bool
}

func drawOpts(r *rng.R) chainOpts {
	o := chainOpts{Blocks: r.Range(4, 10), Accounts: r.Range(5, 9)}
	o.MaxTxs = []int{0, 0, 12, 25}[r.Intn(4)]
	// (A pool smaller than the workload would queue many accounts at once; the pool promotes them in Go map
	// order, which would make the chain depend on more than the seed. C15 owns that ground.)
	o.PoolSize = 3000
	r.Intn(4)
	o.UTXOSize = []int{1000, 1000, 2, 5}[r.Intn(4)]
	o.Hostile = r.Chance(0.3)
	return o
}

func newWorld(r *rng.R, g *chainkit.Genesis, p *chainkit.Node, tokens []common.Address) *world {
	w := &world{r: r, g: g, p: p, next: make([]uint64, len(g.Accounts)), tokens: tokens, held: map[uint64][]*genTx{}, kindOf: map[common.Hash]string{}, calls: map[common.Hash]*contractInfo{}, signerSets: map[common.Hash][]int{}, counts: map[string]int64{}, wasmCode: wasmCode()}
	seed := r.Uint64()
	for i := 0; i < 3; i++ {
		w.wallets = append(w.wallets, chainkit.NewUWallet(seed, i, 2))
	}
	w.ledger = chainkit.NewLedger(w.wallets)
	return w
}

// droppedFromPool lists transactions the proposer's pool admitted earlier, that were never committed and that
// the pool no longer holds (dropped by a recheck) while its dedup cache still knows them: what a Byzantine
// proposer can put into a block so that validators with and without the cached transaction judge it.
func (w *world) droppedFromPool() []types.Tx {
	s := w.p.Mempool.VerifSnapshot()
	in := map[common.Hash]bool{}
	for _, l := range [][]types.Tx{s.Good, s.Utxo, s.Spec} {
		for _, tx := range l {
			in[tx.Hash()] = true
		}
	}
	for _, l := range s.Future {
		for _, tx := range l {
			in[tx.Hash()] = true
		}
	}
	var out []types.Tx
	for _, tx := range w.admitted {
		if h := tx.Hash(); !in[h] && !w.committed[h] {
			w.count("dropped_from_pool_seen", 1)
			if w.p.Mempool.VerifInCache(h) {
				out = append(out, tx)
			}
		}
	}
	return out
}

// submit hands one generated transaction to the proposer's real mempool.
func (w *world) submit(gt *genTx) {
	w.kindOf[gt.tx.Hash()] = gt.kind
	err := w.p.Mempool.AddTx("", gt.tx)
	if err == nil {
		w.count("pool_admitted", 1)
		w.admitted = append(w.admitted, gt.tx)
		if gt.plan != nil {
			w.cons = append(w.cons, gt.plan)
		}
		if gt.to != nil {
			gt.to.Pending++
			w.calls[gt.tx.Hash()] = gt.to
		}
		if gt.signerSet != nil {
			w.signerSets[gt.tx.Hash()] = gt.signerSet
		}
		return
	}
	if strings.HasPrefix(gt.kind, "mst/") {
		if dbg != nil {
			dbg("mst rejected: %v; tx nonce %d pool nonce %d committed nonce %d pending %d", err, gt.tx.(*types.MultiSignAccountTx).Nonce(), w.p.App.GetNonce(types.MultiSignNonceAddr), w.p.App.VerifStoreState().GetNonce(types.MultiSignNonceAddr), w.mstPending)
		}
		w.mstNonce = gt.tx.(*types.MultiSignAccountTx).Nonce() // not consumed
		w.mstPending--
	}
	if strings.HasPrefix(gt.kind, "cut/") {
		w.cutPending--
	}
	w.count("pool_rejected", 1)
	w.count("pool_rejected:"+gt.kind+":"+numRe.ReplaceAllString(err.Error(), "N"), 1)
	for _, o := range gt.ins {
		o.Pending = false
	}
	if gt.acct >= 0 {
		// close the nonce gap the rejected transaction leaves
		tx, e := chainkit.NewTransfer(w.g.Accounts[gt.acct], gt.nonce, w.g.Accounts[(gt.acct+1)%len(w.g.Accounts)].Addr, bi(1))
		if e != nil {
			panic(e)
		}
		w.kindOf[tx.Hash()] = "transfer/filler"
		if e := w.p.Mempool.AddTx("", tx); e != nil {
			w.count("filler_rejected", 1)
		}
	}
}

func classOf(kind string) string {
	if i := strings.Index(kind, "/"); i >= 0 {
		kind = kind[:i]
	}
	return strings.TrimSuffix(kind, "+held")
}

// fill generates the workload for the next height and submits it in a partly shuffled order.
func (w *world) fill(height uint64, want int) {
	var now []*genTx
	for _, gt := range w.held[height] {
		now = append(now, gt)
		w.holding--
	}
	delete(w.held, height)
	for tries := 0; len(now) < want && tries < want*3; tries++ {
		for _, gt := range w.gen() {
			if gt.hold > 0 {
				h := height + uint64(gt.hold)
				gt.hold = 0
				w.held[h] = append(w.held[h], gt)
				w.count("held_back", 1)
				continue
			}
			now = append(now, gt)
		}
	}
	// partly shuffled submission: swaps of neighbours at distance <= 3 (nonce gaps that close within the batch)
	for i := range now {
		if w.r.Chance(0.3) {
			j := i + w.r.Range(1, 3)
			if j < len(now) {
				now[i], now[j] = now[j], now[i]
			}
		}
	}
	for _, gt := range now {
		w.submit(gt)
	}
}

// learn updates the generator's knowledge from a committed block and its receipts.
func (w *world) learn(b *types.Block, receipts types.Receipts) {
	w.ledger.ScanBlock(b)
	if w.committed == nil {
		w.committed = map[common.Hash]bool{}
	}
	for _, tx := range b.Data.Txs {
		w.committed[tx.Hash()] = true
	}
	byAddr := map[common.Address]*contractInfo{}
	for _, c := range w.cons {
		byAddr[c.Addr] = c
	}
	logging, failing := 0, 0
	defer func() {
		if logging >= 2 {
			w.count("blocks_with_2plus_logging_txs", 1)
		}
		if failing >= 1 {
			w.count("blocks_with_failed_txs", 1)
		}
	}()
	for i, t := range b.Data.Txs {
		if i >= len(receipts) {
			break
		}
		rc := receipts[i]
		if len(rc.Logs) > 0 {
			logging++
		}
		if rc.Status != types.ReceiptStatusSuccessful {
			failing++
		}
		k := w.kindOf[t.Hash()]
		if c := w.calls[t.Hash()]; c != nil {
			c.Pending--
			delete(w.calls, t.Hash())
		}
		if strings.HasPrefix(k, "mst/") {
			w.mstPending--
		}
		if strings.HasPrefix(k, "cut/") {
			w.cutPending--
		}
		if set := w.signerSets[t.Hash()]; set != nil {
			w.signers = set
			w.count("upgrade_signers_registered", 1)
		}
		cl := classOf(k)
		w.count("executed:"+cl, 1)
		if rc.Status != types.ReceiptStatusSuccessful && cl != "mst" {
			w.count("executed_failed", 1)
			w.count("executed_failed:"+cl, 1)
		}
		if len(rc.Logs) > 0 {
			w.count("executed_with_logs", 1)
		}
		if rc.ContractAddress != (common.Address{}) && rc.Status == types.ReceiptStatusSuccessful {
			if c := byAddr[rc.ContractAddress]; c != nil {
				c.Alive, c.Planned = true, false
			}
			w.count("contracts_created", 1)
		}
		if k == "call/"+kSuicide && rc.Status == types.ReceiptStatusSuccessful {
			if to := t.To(); to != nil {
				if c := byAddr[*to]; c != nil && c.Alive {
					c.Alive, c.Dead = false, true
					w.count("contracts_destroyed", 1)
				}
			}
		}
	}
	// planned contracts whose creation executed and failed stay plain addresses
	for i, t := range b.Data.Txs {
		if i < len(receipts) && receipts[i].Status != types.ReceiptStatusSuccessful {
			for _, c := range w.cons {
				if c.Planned && strings.HasPrefix(w.kindOf[t.Hash()], "create") {
					if tt, ok := t.(*types.Transaction); ok {
						if from, err := tt.From(); err == nil && crcAddr(from, tt) == c.Addr {
							c.Planned = false
						}
					}
				}
			}
		}
	}
}

func crcAddr(from common.Address, tx *types.Transaction) common.Address {
	return crypto.CreateAddress(from, tx.Nonce(), tx.Data())
}

func sortedKeys(m map[string]int64) []string {
	var ks []string
	for k := range m {
		ks = append(ks, k)
	}
	sort.Strings(ks)
	return ks
}

func seedShim(c *core.Ctx, lane string) {
	goshim.Seed([]byte(fmt.Sprintf("%s/%d/%d", lane, c.Seed, c.Index)))
}
