package c05

import (
	"fmt"
	"math/big"
	"os"
	"path/filepath"
	"runtime"
	"strings"
	"time"

	cfg "github.com/lianxiangcloud/linkchain/config"
	"github.com/lianxiangcloud/linkchain/libs/common"
	dbm "github.com/lianxiangcloud/linkchain/libs/db"
	"github.com/lianxiangcloud/linkchain/libs/log"
	"github.com/lianxiangcloud/linkchain/types"

	"verif/h/internal/chainkit"
	"verif/h/internal/core"
)

func tokenIDs() []common.Address {
	return []common.Address{common.HexToAddress("0x00000000000000000000000000000000000c0501"), common.HexToAddress("0x00000000000000000000000000000000000c0502")}
}

// propose runs the proposer path on p, classifying a PreRunBlock panic.
func propose(p *chainkit.Node, lastCommit *types.Commit, t uint64) (*types.Block, *types.PartSet, string, error) {
	logReset()
	b, parts, err := p.Propose(lastCommit, t, nil)
	if err != nil {
		return nil, nil, logReason(), err
	}
	return b, parts, "", nil
}

func runChain(c *core.Ctx) {
	r := c.Rng
	seedShim(c, "C05")
	clearAppCache() // a case stands for one process: nothing compiled for another chain may survive into it
	o := drawOpts(r)
	gopts := chainkit.GenesisOpts{Seed: r.Uint64(), NumAccounts: o.Accounts, Powers: []int64{10, 10, 10, 10}, Tokens: tokenIDs(), TokenBalance: big.NewInt(1000000000), MaxTxs: o.MaxTxs}
	g, err := chainkit.BuildGenesis(gopts)
	if err != nil {
		c.Inconclusive("genesis: " + err.Error())
		return
	}
	// the same genesis in the other storage mode (flat key/value state, the light node's default)
	gkv, err := chainkit.BuildGenesisMode(gopts, false)
	if err != nil {
		c.Inconclusive("genesis (flat key/value mode): " + err.Error())
		return
	}
	pcfg := cfg.DefaultMempoolConfig()
	pcfg.Broadcast = false
	pcfg.Size = o.PoolSize
	pcfg.UTXOSize = o.UTXOSize
	var nodes []*chainkit.Node
	defer func() {
		for _, n := range nodes {
			n.Close()
		}
	}()
	mk := func(opts chainkit.NodeOpts) *chainkit.Node {
		n, err := g.NewNode(opts)
		if err != nil {
			panic(fmt.Errorf("NewNode: %v", err))
		}
		wire(n)
		nodes = append(nodes, n)
		return n
	}
	P := mk(chainkit.NodeOpts{MemCfg: pcfg})
	cold := mk(chainkit.NodeOpts{})
	warm := mk(chainkit.NodeOpts{})
	fast := mk(chainkit.NodeOpts{})
	kvDir := filepath.Join(c.Scratch, "flatkv")
	os.MkdirAll(kvDir, 0755)
	flat, err := chainkit.OpenNodeMode(gkv, gkv.CloneDBs(), chainkit.NodeOpts{WrapDB: func(name string, db dbm.DB) dbm.DB {
		if name == "state" {
			return dirDB{db, kvDir} // the undo file kvState.wal lives in the state database's directory
		}
		return db
	}}, false)
	if err != nil {
		c.Inconclusive("flat key/value node: " + err.Error())
		return
	}
	if flat.UtxoStore != nil {
		flat.UtxoStore.SetLogger(log.NewNopLogger())
	}
	wire(flat)
	nodes = append(nodes, flat)
	if gb, fb0 := P.BlockStore.LoadBlock(P.BlockStore.Height()), flat.BlockStore.LoadBlock(flat.BlockStore.Height()); gb == nil || fb0 == nil || gb.Hash() != fb0.Hash() {
		cc0 := &chainCase{c: c, g: g}
		cc0.viol("divergence/genesis-block-differs-between-storage-modes", "the genesis block (state hash of the genesis allocation) built in trie mode and in flat key/value mode differ", nil)
		return
	}
	w := newWorld(r, g, P, tokenIDs())
	w.hostile, w.smallUTXO = o.Hostile, o.UTXOSize < 100
	if o.Hostile {
		c.Count("hostile_chains", 1)
	}
	cc := &chainCase{c: c, w: w, g: g}
	reps := []*replica{{"cold", cold}, {"warm", warm}, {"fastsync", fast}, {"flatkv", flat}, {"proposer-self", P}}

	lastCommit := chainkit.NilCommit()
	bigBlocks, execsMin := 0, 1<<30
	sawCall, sawFail, sawConf := false, false, false
	defer func() {
		for _, k := range sortedKeys(w.counts) {
			c.Count(k, w.counts[k])
			c.Logf("%-60s %d", k, w.counts[k])
		}
	}()
	c.Logf("opts %+v", o)
	if c.Verbose {
		dbg = c.Logf
	}

	for h := 1; h <= o.Blocks; h++ {
		height := uint64(h)
		want := 0
		switch q := r.Intn(10); {
		case q == 0:
			want = 0
		case q < 4:
			want = r.Range(1, 8)
		default:
			want = r.Range(8, 40)
		}
		if h == 1 && want < 12 {
			want = 12 // seed the chain with contracts and confidential outputs
		}
		t0 := time.Now()
		w.fill(height, want)
		t1 := time.Now()
		cc.cacheSnaps = nil
		cc.noteExec()
		block, parts, why, err := propose(P, lastCommit, uint64(chainkit.FixedTime.Unix())+height)
		c.Logf("height %d: fill %v propose %v", height, t1.Sub(t0), time.Since(t1)) // diagnostics only
		if err != nil {
			snap := P.Mempool.VerifSnapshot()
			var pooled []string
			for _, t := range snap.Good {
				pooled = append(pooled, w.kindOf[t.Hash()])
			}
			for _, t := range snap.Utxo {
				pooled = append(pooled, w.kindOf[t.Hash()])
			}
			if strings.Contains(err.Error(), "PreRunBlock panicked") {
				c.Violation("proposer/prerun-panic/"+why, fmt.Sprintf("height %d: PreRunBlock panicked on the block the proposer reaped from its own mempool: %v", height, err),
					map[string]interface{}{"height": height, "error": err.Error(), "logged": why, "pool_tx_kinds_in_reap_order": pooled, "chain": cc.sample, "opts": o})
			} else {
				c.Violation("proposer/propose-failed", fmt.Sprintf("height %d: %v", height, err), map[string]interface{}{"height": height, "error": err.Error(), "pool": pooled, "chain": cc.sample})
			}
			return
		}
		kinds := kindsOf(w, block)
		c.Logf("height %d: %d txs gas %d kinds %v", height, len(kinds), block.Header.GasUsed, kinds)
		c.Count("blocks", 1)
		c.Count("block_txs", int64(len(block.Data.Txs)))
		c.Max("block_txs", int64(len(block.Data.Txs)))
		blockID := types.BlockID{Hash: block.Hash(), PartsHeader: parts.Header()}
		commit, err := g.MakeCommit(P.Status, P.Status.Validators, height, 0, blockID, nil)
		if err != nil {
			c.Inconclusive("MakeCommit: " + err.Error())
			return
		}
		hdr := map[string]string{"state-hash": hx(block.Header.StateHash[:]), "receipt-hash": hx(block.Header.ReceiptHash[:]), "gas-used": fmt.Sprint(block.Header.GasUsed)}
		cc.sample = append(cc.sample, map[string]interface{}{"height": height, "txs": len(kinds), "kinds": kinds, "gas_used": block.Header.GasUsed})
		cc.blocks = append(cc.blocks, hx(blockID.Hash[:]))

		snapshot := copyDBs(cold.DBs) // the committed state before this block, as bytes
		cc.diagDBs = snapshot
		// ---- variant blocks (never committed)
		if len(block.Data.Txs) >= 2 && r.Chance(0.5) {
			if !cc.variant(height, block, P, cold, warm) {
				return
			}
		}

		// ---- the proposed block on every replica
		cc.diagParts = parts
		var ref, refPost *record
		execs := 0
		var receipts types.Receipts
		for _, rp := range reps {
			fb, fparts, err := decode(parts)
			if err != nil {
				c.Violation("decode/own-proposal", err.Error(), nil)
				return
			}
			if rp.kind == "warm" {
				wb, _, _ := decode(parts) // the pool holds its own objects, as if received from the network
				adm := 0
				for _, t := range wb.Data.Txs {
					if rp.n.Mempool.AddTx("", t) == nil {
						adm++
					}
				}
				c.Count("warm_pool_admitted", int64(adm))
				c.Count("warm_pool_refused", int64(len(wb.Data.Txs)-adm))
			}
			procs := procsOf(r)
			cc.noteExec()
			ok, why, pan := checkBlock(rp.n, fb, procs)
			rec := &record{Kind: rp.kind, Procs: procs, OK: ok, Why: why}
			if pan != nil {
				c.Violation("validator/checkblock-panic", fmt.Sprintf("height %d: CheckBlock panicked on replica %q: %v", height, rp.kind, pan),
					map[string]interface{}{"height": height, "replica": rp.kind, "panic": fmt.Sprint(pan), "block_tx_kinds": kinds, "chain": cc.sample})
				return
			}
			if !ok {
				rec.Comp, rec.Has = extract(rp.n, fb.Hash())
				var others []*replica
				for _, q := range reps {
					if q != rp && q.n.App.Height()+1 == height {
						others = append(others, q)
					}
				}
				cc.rejected(height, parts, hdr, ref, rec, others, kinds, o, snapshot)
				return
			}
			rec.Comp, rec.Has = extract(rp.n, fb.Hash())
			if !rec.Has {
				c.Violation("validator/no-result-after-accept", fmt.Sprintf("height %d replica %q", height, rp.kind), nil)
				return
			}
			execs++
			c.Count("executions", 1)
			c.Count("executions:"+rp.kind, 1)
			c.Count(fmt.Sprintf("executions:gomaxprocs%d", procs), 1)
			// proposer path vs validator path
			for _, comp := range []string{"gas-used", "state-hash", "receipt-hash"} {
				if hdr[comp] != rec.Comp[comp] {
					cc.viol("divergence/prerun-vs-validator/"+comp, fmt.Sprintf("height %d: header %s filled by PreRunBlock = %s, replica %q computed %s", height, comp, hdr[comp], rp.kind, rec.Comp[comp]),
						map[string]interface{}{"height": height, "component": comp, "header": hdr[comp], "replica": rp.kind, "value": rec.Comp[comp], "block_tx_kinds": kinds, "chain": cc.sample})
					return
				}
			}
			c.Count("header_comparisons", 1)
			if ref == nil {
				ref = rec
				rcs, _, _, _ := rp.n.App.VerifProcessResult(fb.Hash())
				receipts = rcs
			} else {
				if !cc.compare(height, "result", components, ref, rec, kinds) {
					return
				}
				c.Count("result_comparisons", 1)
			}
			// commit
			old := runtime.GOMAXPROCS(procs)
			vals, err := rp.n.App.CommitBlock(fb, fparts, commit, rp.kind == "fastsync")
			runtime.GOMAXPROCS(old)
			if err != nil {
				c.Violation("commit/failed", fmt.Sprintf("height %d replica %q: %v", height, rp.kind, err), nil)
				return
			}
			ns, err := rp.n.BlockExec.ApplyBlock(rp.n.Status.Copy(), blockID, fb, vals)
			if err != nil {
				c.Violation("commit/apply-block-failed", fmt.Sprintf("height %d replica %q: %v", height, rp.kind, err), nil)
				return
			}
			rp.n.Status = ns
			post := &record{Kind: rp.kind, Procs: procs, Comp: extractPost(rp.n, vals)}
			if refPost == nil {
				refPost = post
			} else {
				pc := postComponents
				if rp.kind == "flatkv" {
					pc = postComponentsAnyMode // the flat store has no Merkle root
				}
				if !cc.compare(height, "post-commit", pc, refPost, post, kinds) {
					return
				}
				c.Count("post_commit_comparisons", 1)
			}
		}
		// ---- replicas reopened from the byte copy of the pre-block databases (cold caches, state from disk)
		for i, nre := 0, r.Range(1, 2); i < nre; i++ {
			dbs := snapshot
			if i+1 < nre {
				dbs = copyDBs(snapshot)
			}
			fn, err := chainkit.OpenNode(g, dbs, chainkit.NodeOpts{MemCfg: noCacheCfg()})
			if err != nil {
				c.Violation("reopen/failed", fmt.Sprintf("height %d: node cannot be reopened over a copy of the committed databases: %v", height, err), nil)
				return
			}
			wire(fn)
			// a reopened node stands for a restarted process: none of the process-wide caches survive
			clearAppCache()
			fb, _, _ := decode(parts)
			procs := procsOf(r)
			cc.noteExec()
			ok, why, pan := checkBlock(fn, fb, procs)
			rec := &record{Kind: "reopened", Procs: procs, OK: ok, Why: why}
			if pan != nil {
				fn.Close()
				c.Violation("validator/checkblock-panic", fmt.Sprintf("height %d: CheckBlock panicked on a reopened replica: %v", height, pan), map[string]interface{}{"height": height, "panic": fmt.Sprint(pan), "block_tx_kinds": kinds})
				return
			}
			if !ok {
				rec.Comp, rec.Has = extract(fn, fb.Hash())
				fn.Close()
				cc.rejected(height, parts, hdr, ref, rec, nil, kinds, o, nil)
				return
			}
			rec.Comp, rec.Has = extract(fn, fb.Hash())
			fn.Close()
			execs++
			c.Count("executions", 1)
			c.Count("executions:reopened", 1)
			c.Count(fmt.Sprintf("executions:gomaxprocs%d", procs), 1)
			if !rec.Has || !cc.compare(height, "result", components, ref, rec, kinds) {
				if !rec.Has {
					c.Violation("validator/no-result-after-accept", fmt.Sprintf("height %d reopened replica", height), nil)
				}
				return
			}
			c.Count("result_comparisons", 1)
		}
		lastCommit = commit
		c.Logf("height %d: total %v", height, time.Since(t0))
		if c.Verbose {
			for i, rc := range receipts {
				c.Logf("   tx %2d %-28s status %d gas %-9d logs %d addr %x err %q", i, kinds[i], rc.Status, rc.GasUsed, len(rc.Logs), rc.ContractAddress[:4], rc.VMErr)
			}
		}
		w.learn(block, receipts)
		if execs < execsMin {
			execsMin = execs
		}
		if len(block.Data.Txs) >= 5 {
			bigBlocks++
		}
		for i, k := range kinds {
			if strings.HasPrefix(k, "call") {
				sawCall = true
			}
			if strings.HasPrefix(k, "a2u") || strings.HasPrefix(k, "u2") {
				sawConf = true
			}
			if i < len(receipts) && receipts[i].Status != types.ReceiptStatusSuccessful {
				sawFail = true
			}
		}
	}
	c.Count("chains_completed", 1)
	if bigBlocks >= 3 && sawCall && sawFail && sawConf && execsMin >= 5 {
		c.Nontrivial(fpOf(cc.blocks...))
	}
	if c.Index%8 == 0 {
		c.Sample(map[string]interface{}{"opts": o, "chain": cc.sample})
	}
}

// variant builds a block that differs from the proposed one in its transaction list and checks that
// the verdict and the results do not depend on which replica (cold / warm / proposer) executes it.
func (cc *chainCase) variant(height uint64, block *types.Block, P, cold, warm *chainkit.Node) bool {
	c, r, w := cc.c, cc.c.Rng, cc.w
	txs := append(types.Txs{}, block.Data.Txs...)
	var mut string
	pick := r.Intn(5)
	var up *genTx
	if w.hostile && len(w.signers) > 0 && r.Chance(0.6) {
		if up = w.genUpgrade(true); up != nil {
			pick = 5
		}
	}
	var dropped []types.Tx
	if pick != 5 && r.Chance(0.5) {
		if dropped = w.droppedFromPool(); len(dropped) > 0 {
			pick = 6
		}
	}
	switch pick {
	case 6:
		// a transaction the proposer's pool dropped at a recheck but still has in its dedup cache (admitted
		// under an earlier state): the proposer-self replica judges it with a warm cache, the others cold
		t := dropped[r.Intn(len(dropped))]
		txs = append(txs, t)
		mut = "append-dropped-but-cached"
		c.Count("variants_with_dropped_cached_tx:"+classOf(w.kindOf[t.Hash()]), 1)
	case 5:
		// an upgrade of a system contract that never commits
		w.kindOf[up.tx.Hash()] = up.kind
		txs = append(txs, up.tx)
		mut = "append-upgrade"
	case 0:
		i := r.Intn(len(txs) - 1)
		txs[i], txs[i+1] = txs[i+1], txs[i]
		mut = "swap-neighbours"
	case 1:
		i := r.Intn(len(txs))
		txs = append(txs[:i:i], txs[i+1:]...)
		mut = "drop-one"
	case 2:
		i := r.Intn(len(txs))
		txs = append(txs, txs[i])
		mut = "duplicate-one"
	case 3:
		p := r.Perm(len(txs))
		out := make(types.Txs, len(txs))
		for i, j := range p {
			out[i] = txs[j]
		}
		txs = out
		mut = "permute"
	default:
		// a transaction nobody has pooled: a transfer from a fresh nonce position of some account
		a := r.Intn(len(cc.g.Accounts))
		n := P.App.GetNonce(cc.g.Accounts[a].Addr)
		// nonce as of the proposer's pool view = first nonce after everything it admitted; valid only if all of it is in the block
		tx, err := chainkit.NewTransfer(cc.g.Accounts[a], n, w.freshAddr(), bi(int64(r.Range(1, 999))))
		if err != nil {
			panic(err)
		}
		w.kindOf[tx.Hash()] = "transfer/foreign"
		txs = append(txs, tx)
		mut = "append-foreign"
	}
	vb := &types.Block{Header: types.CopyHeader(block.Header), Data: &types.Data{Txs: txs}, Evidence: block.Evidence, LastCommit: block.LastCommit}
	vb.Header.NumTxs = uint64(len(txs))
	vb.Header.TotalTxs = block.Header.TotalTxs - block.Header.NumTxs + uint64(len(txs))
	vb.Header.DataHash = vb.Data.Hash()
	// proposer path on the variant
	realSnaps, realParts := cc.cacheSnaps, cc.diagParts
	cc.cacheSnaps = nil
	defer func() { cc.cacheSnaps, cc.diagParts = realSnaps, realParts }()
	cc.noteExec()
	var pan interface{}
	logReset()
	func() {
		defer func() { pan = recover() }()
		P.App.PreRunBlock(vb)
	}()
	preOK := pan == nil
	c.Count("variants", 1)
	c.Count("variants:"+mut, 1)
	if preOK {
		c.Count("variants_executable", 1)
	}
	parts := vb.MakePartSet(P.Status.ConsensusParams.BlockGossip.BlockPartSizeBytes)
	cc.diagParts = parts
	kinds := kindsOf(w, vb)
	var ref *record
	for _, rp := range []*replica{{"cold", cold}, {"warm", warm}, {"proposer-self", P}} {
		fb, _, err := decode(parts)
		if err != nil {
			c.Violation("decode/variant", err.Error(), nil)
			return false
		}
		procs := procsOf(r)
		cc.noteExec()
		ok, why, pn := checkBlock(rp.n, fb, procs)
		if pn != nil {
			c.Violation("validator/checkblock-panic", fmt.Sprintf("height %d: CheckBlock panicked on a %s variant block on replica %q: %v", height, mut, rp.kind, pn),
				map[string]interface{}{"height": height, "variant": mut, "replica": rp.kind, "panic": fmt.Sprint(pn), "block_tx_kinds": kinds})
			return false
		}
		rec := &record{Kind: rp.kind, Procs: procs, OK: ok, Why: why}
		rec.Comp, rec.Has = extract(rp.n, fb.Hash())
		c.Count("variant_executions", 1)
		if ref == nil {
			ref = rec
			continue
		}
		// 1. the executions agree with each other (results first: they explain a differing verdict)
		if ref.Has && rec.Has {
			if !cc.compare(height, mut+" variant", components, ref, rec, kinds) {
				return false
			}
			c.Count("variant_result_comparisons", 1)
		}
		if ref.OK != rec.OK || ref.Has != rec.Has {
			cc.viol("verdict/replicas-disagree/"+firstNonEmpty(rec.Why, ref.Why), fmt.Sprintf("height %d, %s variant: replica %q says accept=%v result=%v (%s), replica %q says accept=%v result=%v (%s)", height, mut, ref.Kind, ref.OK, ref.Has, ref.Why, rec.Kind, rec.OK, rec.Has, rec.Why),
				map[string]interface{}{"height": height, "variant": mut, "a": ref, "b": rec, "block_tx_kinds": kinds, "chain": cc.sample})
			return false
		}
	}
	// 2. the validator path agrees with the proposer path (PreRunBlock skips the signature pre-check, nothing
	// else; every variant here carries only properly signed transactions)
	if preOK && !ref.OK && (strings.HasPrefix(ref.Why, "CheckBlock:_verify_signature_failed") || strings.HasPrefix(ref.Why, "processBlock:_verifyTxsOnProcess_fail")) {
		// The one thing PreRunBlock legitimately skips is the signature / basic pre-check, and for some
		// transaction kinds its outcome depends on the state (signer sets, code at the destination). A block
		// that was not assembled by Reap may carry such a transaction; every validator refusing it alike is
		// what the property demands. (For blocks a correct proposer assembled this is a violation, see runChain.)
		c.Count("variants_refused_by_precheck", 1)
		return true
	}
	if ref.OK != preOK {
		if ref.Has && preOK {
			for _, comp := range []string{"gas-used", "state-hash", "receipt-hash"} {
				h := map[string]string{"state-hash": hx(vb.Header.StateHash[:]), "receipt-hash": hx(vb.Header.ReceiptHash[:]), "gas-used": fmt.Sprint(vb.Header.GasUsed)}[comp]
				if h != ref.Comp[comp] {
					cc.viol("divergence/prerun-vs-validator/"+comp, fmt.Sprintf("height %d, %s variant: header %s filled by PreRunBlock = %s, every validator replica computed %s", height, mut, comp, h, ref.Comp[comp]),
						map[string]interface{}{"height": height, "variant": mut, "component": comp, "header": h, "value": ref.Comp[comp], "block_tx_kinds": kinds, "chain": cc.sample})
					return false
				}
			}
		}
		cc.viol("verdict/prerun-vs-checkblock/"+firstNonEmpty(ref.Why, "prerun-failed-but-validators-accept"), fmt.Sprintf("height %d, %s variant: PreRunBlock ok=%v but CheckBlock on all replicas = %v (%s)", height, mut, preOK, ref.OK, ref.Why),
			map[string]interface{}{"height": height, "variant": mut, "prerun_ok": preOK, "check_block": ref.OK, "reason": ref.Why, "block_tx_kinds": kinds, "chain": cc.sample})
		return false
	}
	if mut == "append-upgrade" && ref.Has {
		c.Count("variant_upgrades_executed", 1)
	}
	if ref != nil && ref.OK {
		c.Count("variants_accepted", 1)
	} else {
		c.Count("variants_rejected", 1)
	}
	return true
}

func firstNonEmpty(a ...string) string {
	for _, x := range a {
		if x != "" {
			return x
		}
	}
	return "no-reason"
}

// rejected classifies the rejection of a block proposed by a correct node: do validator executions
// disagree with each other (non-determinism), or do they agree and only differ from what the proposer
// path wrote into the header, or is it a refusal before/without a result (signature pre-check ...).
func (cc *chainCase) rejected(height uint64, parts *types.PartSet, hdr map[string]string, ref, rec *record, others []*replica, kinds []string, o chainOpts, snapshot map[string]dbm.DB) {
	if snapshot != nil && rec.Has {
		// one more opinion, taken last: a replica reopened from the committed databases
		if fn, err := chainkit.OpenNode(cc.g, copyDBs(snapshot), chainkit.NodeOpts{MemCfg: noCacheCfg()}); err == nil {
			wire(fn)
			defer fn.Close()
			others = append(append([]*replica{}, others...), &replica{"reopened", fn})
		}
	}
	wit := map[string]interface{}{"height": height, "replica": rec.Kind, "gomaxprocs": rec.Procs, "reason": rec.Why, "block_tx_kinds": kinds, "chain": cc.sample, "opts": o}
	if rec.Has {
		recs := []*record{}
		if ref != nil {
			recs = append(recs, ref)
		}
		for _, q := range others {
			fb, _, err := decode(parts)
			if err != nil {
				continue
			}
			if q.kind == "reopened" {
				clearAppCache()
			}
			cc.noteExec()
			ok, why, pan := checkBlock(q.n, fb, rec.Procs)
			if pan != nil {
				continue
			}
			r2 := &record{Kind: q.kind, Procs: rec.Procs, OK: ok, Why: why}
			if r2.Comp, r2.Has = extract(q.n, fb.Hash()); r2.Has {
				recs = append(recs, r2)
			}
		}
		for _, r2 := range recs {
			if !cc.compare(height, "proposed block, rejected by "+rec.Kind+": "+rec.Why, components, r2, rec, kinds) {
				return
			}
		}
		for _, comp := range []string{"gas-used", "state-hash", "receipt-hash"} {
			if hdr[comp] != rec.Comp[comp] {
				wit["component"], wit["header"], wit["value"], wit["agreeing_validator_executions"] = comp, hdr[comp], rec.Comp[comp], len(recs)+1
				cc.viol("divergence/prerun-vs-validator/"+comp, fmt.Sprintf("height %d: header %s filled by PreRunBlock = %s, but %d validator execution(s) agree on %s; block rejected: %s", height, comp, hdr[comp], len(recs)+1, rec.Comp[comp], rec.Why), wit)
				return
			}
		}
	}
	cc.viol("verdict/proposed-block-rejected/"+rec.Why, fmt.Sprintf("height %d: the block proposed by a correct node was rejected by replica %q (GOMAXPROCS %d): %s", height, rec.Kind, rec.Procs, rec.Why), wit)
}

// wire does what the node's consensus start-up does for the application besides what chainkit wires.
func wire(n *chainkit.Node) {
	n.App.SetLogger(appLogger)
	// consensus/state.go updateToStatus: the validator set that signs multi-signature transactions
	n.App.SetLastChangedVals(n.Status.LastHeightValidatorsChanged, n.Status.Validators.Copy().Validators)
}

// dirDB gives a MemDB a directory (flat key/value state mode keeps its undo file next to the database).
type dirDB struct {
	dbm.DB
	dir string
}

func (d dirDB) Dir() string { return d.dir }
