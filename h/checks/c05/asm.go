package c05

import (
	"encoding/binary"
	"math/big"

	"github.com/lianxiangcloud/linkchain/libs/common"
	"github.com/lianxiangcloud/linkchain/vm/evm"
)

// A tiny EVM assembler: enough for the handful of purpose-built contracts of the workload.
type asm struct {
	b     []byte
	fix   map[int]int // position of a PUSH2 immediate -> label
	label map[int]int // label -> code position
	n     int
}

func newAsm() *asm { return &asm{fix: map[int]int{}, label: map[int]int{}} }

func (a *asm) op(ops ...evm.OpCode) *asm {
	for _, o := range ops {
		a.b = append(a.b, byte(o))
	}
	return a
}

func (a *asm) push(v []byte) *asm {
	for len(v) > 1 && v[0] == 0 {
		v = v[1:]
	}
	if len(v) == 0 {
		v = []byte{0}
	}
	a.b = append(a.b, byte(int(evm.PUSH1)+len(v)-1))
	a.b = append(a.b, v...)
	return a
}

func (a *asm) pushU(x uint64) *asm {
	var b [8]byte
	binary.BigEndian.PutUint64(b[:], x)
	return a.push(b[:])
}
func (a *asm) pushAddr(x common.Address) *asm { return a.push(append([]byte{}, x[:]...)) }
func (a *asm) pushBig(x *big.Int) *asm        { return a.push(x.Bytes()) }

func (a *asm) newLabel() int { a.n++; return a.n }
func (a *asm) pushLabel(l int) *asm {
	a.b = append(a.b, byte(evm.PUSH2), 0, 0)
	a.fix[len(a.b)-2] = l
	return a
}
func (a *asm) dest(l int) *asm { a.label[l] = len(a.b); return a.op(evm.JUMPDEST) }

func (a *asm) bytes() []byte {
	out := append([]byte{}, a.b...)
	for pos, l := range a.fix {
		binary.BigEndian.PutUint16(out[pos:], uint16(a.label[l]))
	}
	return out
}

// initCode wraps runtime code into deployment code: optional constructor prologue, then
// CODECOPY the runtime to memory and RETURN it.
func initCode(prologue []byte, runtime []byte) []byte {
	// prologue ++ PUSH2 len DUP1 PUSH2 off PUSH1 0 CODECOPY PUSH1 0 RETURN ++ runtime
	const tail = 3 + 1 + 3 + 2 + 1 + 2 + 1
	off := len(prologue) + tail
	a := newAsm()
	a.b = append(a.b, prologue...)
	a.b = append(a.b, byte(evm.PUSH2), byte(len(runtime)>>8), byte(len(runtime)))
	a.op(evm.DUP1)
	a.b = append(a.b, byte(evm.PUSH2), byte(off>>8), byte(off))
	a.b = append(a.b, byte(evm.PUSH1), 0)
	a.op(evm.CODECOPY)
	a.b = append(a.b, byte(evm.PUSH1), 0)
	a.op(evm.RETURN)
	return append(a.bytes(), runtime...)
}

// Contract kinds of the workload.
const (
	kStore   = "store"   // counter in slot 0; with 64 bytes of calldata also SSTORE(word0, word1)
	kLogger  = "logger"  // LOG0..LOG3 over the calldata, topics: constant, caller, counter; counter++
	kRevert  = "revert"  // writes storage, emits a log, then REVERTs with the calldata as reason
	kLoop    = "loop"    // burns all gas in a storage-writing loop (out of gas)
	kSuicide = "suicide" // SELFDESTRUCT to the address in calldata word 0 (caller when no calldata)
	kForward = "forward" // forwards the call value to the address in calldata word 0, logs the outcome
	kMulti   = "multi"   // touches many accounts: sends 1 wei to each of the addresses in calldata, writes a slot per address
	kFactory = "factory" // CREATEs a small child contract per call and stores its address
)

var contractKinds = []string{kStore, kLogger, kRevert, kLoop, kSuicide, kForward, kMulti, kFactory}

func runtimeOf(kind string) []byte {
	a := newAsm()
	switch kind {
	case kStore:
		end := a.newLabel()
		a.pushU(0).op(evm.SLOAD).pushU(1).op(evm.ADD).pushU(0).op(evm.SSTORE)
		a.pushU(64).op(evm.CALLDATASIZE, evm.LT).pushLabel(end).op(evm.JUMPI)
		a.pushU(32).op(evm.CALLDATALOAD).pushU(0).op(evm.CALLDATALOAD, evm.SSTORE)
		a.dest(end).op(evm.STOP)
	case kLogger:
		a.op(evm.CALLDATASIZE).pushU(0).pushU(0).op(evm.CALLDATACOPY)
		// LOG0(mem[0:size])
		a.op(evm.CALLDATASIZE).pushU(0).op(evm.LOG0)
		// LOG1(topic NUMBER)
		a.op(evm.NUMBER, evm.CALLDATASIZE).pushU(0).op(evm.LOG1)
		// LOG3(topic const, caller, counter)
		a.pushU(0).op(evm.SLOAD, evm.CALLER)
		a.push(common.HexToHash("0xddf252ad1be2c89b69c2b068fc378daa952ba7f163c4a11628f55a4df523b3ef").Bytes())
		a.op(evm.CALLDATASIZE).pushU(0).op(evm.LOG3)
		a.pushU(0).op(evm.SLOAD).pushU(1).op(evm.ADD).pushU(0).op(evm.SSTORE)
		a.op(evm.STOP)
	case kRevert:
		a.pushU(7).pushU(1).op(evm.SSTORE)
		a.op(evm.CALLDATASIZE).pushU(0).pushU(0).op(evm.CALLDATACOPY)
		a.op(evm.CALLER, evm.CALLDATASIZE).pushU(0).op(evm.LOG1)
		a.op(evm.CALLDATASIZE).pushU(0).op(evm.REVERT)
	case kLoop:
		top := a.newLabel()
		a.pushU(0)
		a.dest(top).pushU(1).op(evm.ADD, evm.DUP1, evm.DUP1, evm.SSTORE).pushLabel(top).op(evm.JUMP)
	case kSuicide:
		has := a.newLabel()
		a.op(evm.CALLDATASIZE).pushLabel(has).op(evm.JUMPI)
		a.op(evm.CALLER, evm.SELFDESTRUCT)
		a.dest(has).pushU(0).op(evm.CALLDATALOAD, evm.SELFDESTRUCT)
	case kForward:
		// CALL(gas, addr=calldata[0], value=callvalue, 0,0,0,0); LOG1(topic=success)
		a.pushU(0).pushU(0).pushU(0).pushU(0).op(evm.CALLVALUE).pushU(0).op(evm.CALLDATALOAD, evm.GAS, evm.CALL)
		a.pushU(0).pushU(0).op(evm.LOG1)
		a.pushU(0).op(evm.SLOAD).pushU(1).op(evm.ADD).pushU(0).op(evm.SSTORE)
		a.op(evm.STOP)
	case kMulti:
		// for i := 0; i*32 < calldatasize; i++ { CALL(2300-ish, word i, 1 wei); SSTORE(word i, i+1) }
		top, end := a.newLabel(), a.newLabel()
		a.pushU(0) // i*32
		a.dest(top).op(evm.DUP1, evm.CALLDATASIZE, evm.GT, evm.ISZERO).pushLabel(end).op(evm.JUMPI)
		// call
		a.pushU(0).pushU(0).pushU(0).pushU(0).pushU(1).op(evm.DUP6, evm.CALLDATALOAD).pushU(0).op(evm.CALL, evm.POP)
		// sstore(word, off+1)
		a.op(evm.DUP1).pushU(1).op(evm.ADD, evm.DUP2, evm.CALLDATALOAD, evm.SSTORE)
		// log1(topic=word)
		a.op(evm.DUP1, evm.CALLDATALOAD).pushU(0).pushU(0).op(evm.LOG1)
		a.pushU(32).op(evm.ADD).pushLabel(top).op(evm.JUMP)
		a.dest(end).op(evm.STOP)
	case kFactory:
		// child init code (stores CALLVALUE+1 at slot 0, returns 1-byte runtime STOP) is put in memory by MSTOREs
		child := initCode(newAsm().op(evm.CALLVALUE).pushU(1).op(evm.ADD).pushU(0).op(evm.SSTORE).bytes(), []byte{byte(evm.STOP)})
		var w [32]byte
		copy(w[:], child) // child is shorter than 32 bytes
		a.push(w[:]).pushU(0).op(evm.MSTORE)
		a.pushU(uint64(len(child))).pushU(0).op(evm.CALLVALUE, evm.CREATE)
		// slot[counter+1] = child address ; counter++ ; LOG1(topic=child)
		a.op(evm.DUP1).pushU(0).op(evm.SLOAD).pushU(1).op(evm.ADD, evm.DUP1).pushU(0).op(evm.SSTORE, evm.SSTORE)
		a.pushU(0).pushU(0).op(evm.LOG1)
		a.op(evm.STOP)
	}
	return a.bytes()
}

// creationCode returns deployment code for kind; salt makes distinct deployments distinct
// (the contract address depends on the init code) and seeds a constructor storage write.
func creationCode(kind string, salt uint64, failing int) []byte {
	pro := newAsm().pushU(salt | 1).pushU(99).op(evm.SSTORE)
	switch failing {
	case 1: // constructor reverts
		pro.pushU(0).pushU(0).op(evm.REVERT)
	case 2: // constructor hits an invalid opcode
		pro.b = append(pro.b, 0xfe)
	}
	return initCode(pro.bytes(), runtimeOf(kind))
}

func word(b []byte) []byte {
	var w [32]byte
	if len(b) > 32 {
		b = b[len(b)-32:]
	}
	copy(w[32-len(b):], b)
	return w[:]
}
