package c05

import (
	"fmt"
	"math/big"
	"runtime"
	"sync"
	"sync/atomic"
	"time"

	"github.com/lianxiangcloud/linkchain/types"

	"verif/h/internal/chainkit"
	"verif/h/internal/core"
	"verif/h/internal/rng"
)

func init() {
	core.Register(&core.Check{
		ID:        "C05R",
		Level:     "exploration",
		Technique: "race lane of C05: the validator path (PreRunBlock, CheckBlock, CommitBlock) on ONE application while 4-8 goroutines hammer the same application with mempool admission and RPC-style getters, under the Go race detector; result compared with a sequentially driven replica",
		Rule: "case = chain of 3-5 generated blocks; each block is proposed by P and executed by a reference replica sequentially; then replica X executes PreRunBlock, CheckBlock and CommitBlock of the same block while K goroutines call X.Mempool.AddTx (valid, duplicate, wrong-gas, stale-nonce and future-nonce transfers of accounts the workload does not use) and X.App.GetNonce/GetBalance/GetPendingStateDB/GetLatestStateDB/GetPendingBlock/GetUTXOChangeRate/VerifCheckState; " +
			"oracle: X's verdict, header fields after PreRunBlock, full result record and post-commit record equal the reference replica's, and the race detector stays silent. Two applications are never driven concurrently. " +
			"non-trivial = a block with >= 5 transactions executed on X while every hammer goroutine completed >= 3 operations inside the raced window; distinct by block hash",
		Assumptions: []string{"only concurrency a deployed node has on one application is raced (consensus caller, mempool admission, RPC getters); goroutine interleavings are sampled, not enumerated"},
		Race:        true,
		Cases: func(tier string) int {
			if tier == "thorough" {
				return 320
			}
			return 16
		},
		Batch:        func(tier string) int { return 1 },
		Run:          runRace,
		Floors:       raceFloors,
		Init:         initProc,
		BatchTimeout: 15 * time.Minute,
	})
}

// raceFloors: about half of the minimum measured over VERIF_SEED=1..5 (quick); operation counts of the hammers
// are taken from the race-instrumented binary, which is several times slower.
func raceFloors(tier string) map[string]int64 {
	m := map[string]int64{"blocks": 30, "raced_executions": 30, "raced_comparisons": 30, "hammer_admitted": 900, "hammer_refused": 600,
		"hammer_ops_in_window": 5000, "executed:call": 70, "executed:a2u": 45, "executed:u2u": 19, "executed_failed": 60}
	if tier == "thorough" {
		for k, v := range m {
			m[k] = v * 320 / 16 * 8 / 10
		}
	}
	return m
}

type hammerOp struct {
	tx   types.Tx
	kind string
	get  int
}

func runRace(c *core.Ctx) {
	r := c.Rng
	seedShim(c, "C05R")
	clearAppCache()
	K := r.Range(4, 8)
	work := 5
	g, err := chainkit.BuildGenesis(chainkit.GenesisOpts{Seed: r.Uint64(), NumAccounts: work + K, Powers: []int64{10, 10, 10, 10}, Tokens: tokenIDs(), TokenBalance: big.NewInt(1000000000)})
	if err != nil {
		c.Inconclusive("genesis: " + err.Error())
		return
	}
	var nodes []*chainkit.Node
	defer func() {
		for _, n := range nodes {
			n.Close()
		}
	}()
	mk := func() *chainkit.Node {
		n, err := g.NewNode(chainkit.NodeOpts{})
		if err != nil {
			panic(fmt.Errorf("NewNode: %v", err))
		}
		wire(n)
		nodes = append(nodes, n)
		return n
	}
	P, ref, X := mk(), mk(), mk()
	w := newWorld(r, g, P, tokenIDs())
	w.nAcct = work
	cc := &chainCase{c: c, w: w, g: g}
	defer func() {
		for _, k := range sortedKeys(w.counts) {
			c.Count(k, w.counts[k])
		}
	}()
	lastCommit := chainkit.NilCommit()
	blocks := r.Range(3, 5)
	for h := 1; h <= blocks; h++ {
		height := uint64(h)
		w.fill(height, r.Range(6, 24))
		cc.cacheSnaps = nil
		cc.noteExec()
		block, parts, why, err := propose(P, lastCommit, uint64(chainkit.FixedTime.Unix())+height)
		if err != nil {
			c.Violation("proposer/prerun-panic/"+why, fmt.Sprintf("height %d: %v", height, err), map[string]interface{}{"height": height, "error": err.Error(), "chain": cc.sample})
			return
		}
		kinds := kindsOf(w, block)
		cc.sample = append(cc.sample, map[string]interface{}{"height": height, "txs": len(kinds), "kinds": kinds})
		blockID := types.BlockID{Hash: block.Hash(), PartsHeader: parts.Header()}
		commit, err := g.MakeCommit(P.Status, P.Status.Validators, height, 0, blockID, nil)
		if err != nil {
			c.Inconclusive("MakeCommit: " + err.Error())
			return
		}
		c.Count("blocks", 1)
		c.Count("block_txs", int64(len(kinds)))

		cc.diagParts, cc.diagDBs = parts, copyDBs(ref.DBs)
		// sequential executions: reference replica, then the proposer itself
		var refRec, refPost *record
		var receipts types.Receipts
		for _, rp := range []*replica{{"reference", ref}, {"proposer-self", P}} {
			fb, fparts, err := decode(parts)
			if err != nil {
				c.Violation("decode/own-proposal", err.Error(), nil)
				return
			}
			cc.noteExec()
			ok, why, pan := checkBlock(rp.n, fb, runtime.GOMAXPROCS(0))
			if pan != nil {
				c.Violation("validator/checkblock-panic", fmt.Sprintf("height %d replica %q: %v", height, rp.kind, pan), map[string]interface{}{"height": height, "block_tx_kinds": kinds})
				return
			}
			if !ok {
				rj := &record{Kind: rp.kind, Procs: runtime.GOMAXPROCS(0), Why: why}
				rj.Comp, rj.Has = extract(rp.n, fb.Hash())
				var others []*replica
				for _, q := range []*replica{{"proposer-self", P}, {"spare", X}} {
					if q.n != rp.n && q.n.App.Height()+1 == height {
						others = append(others, q)
					}
				}
				hdr := map[string]string{"state-hash": hx(block.Header.StateHash[:]), "receipt-hash": hx(block.Header.ReceiptHash[:]), "gas-used": fmt.Sprint(block.Header.GasUsed)}
				cc.rejected(height, parts, hdr, refRec, rj, others, kinds, chainOpts{}, nil)
				return
			}
			rec := &record{Kind: rp.kind, OK: ok}
			rec.Comp, rec.Has = extract(rp.n, fb.Hash())
			if rp.kind == "reference" {
				receipts, _, _, _ = rp.n.App.VerifProcessResult(fb.Hash())
			}
			vals, err := rp.n.App.CommitBlock(fb, fparts, commit, false)
			if err != nil {
				c.Violation("commit/failed", fmt.Sprintf("height %d replica %q: %v", height, rp.kind, err), nil)
				return
			}
			ns, err := rp.n.BlockExec.ApplyBlock(rp.n.Status.Copy(), blockID, fb, vals)
			if err != nil {
				c.Violation("commit/apply-block-failed", fmt.Sprintf("height %d replica %q: %v", height, rp.kind, err), nil)
				return
			}
			rp.n.Status = ns
			post := &record{Kind: rp.kind, Comp: extractPost(rp.n, vals)}
			if refRec == nil {
				refRec, refPost = rec, post
			} else if !cc.compare(height, "result", components, refRec, rec, kinds) || !cc.compare(height, "post-commit", postComponents, refPost, post, kinds) {
				return
			}
		}

		// hammer material, built before any goroutine starts (the harness-side builders are not under test)
		ops := make([][]hammerOp, K)
		for k := 0; k < K; k++ {
			ops[k] = buildHammer(r.Split(), g, X, work+k)
		}
		fb, fparts, err := decode(parts)
		if err != nil {
			c.Violation("decode/own-proposal", err.Error(), nil)
			return
		}
		pb, _, _ := decode(parts)
		var stop int32
		done := make([]int64, K)
		inWindow := make([]int64, K)
		var window int32
		start := make(chan struct{})
		var wg sync.WaitGroup
		var admitted, refused int64
		for k := 0; k < K; k++ {
			wg.Add(1)
			go func(k int) {
				defer wg.Done()
				<-start
				acct := g.Accounts[work+k].Addr
				for i := 0; atomic.LoadInt32(&stop) == 0; i++ {
					op := ops[k][i%len(ops[k])]
					if op.tx != nil && i < len(ops[k]) {
						if X.Mempool.AddTx("", op.tx) == nil {
							atomic.AddInt64(&admitted, 1)
						} else {
							atomic.AddInt64(&refused, 1)
						}
					} else {
						switch (op.get + i) % 8 {
						case 0:
							X.App.GetNonce(acct)
						case 1:
							X.App.GetBalance(acct)
						case 2:
							X.App.GetPendingStateDB().GetBalance(acct)
						case 3:
							X.App.GetUTXOChangeRate(lkc)
						case 4:
							X.App.VerifCheckState().GetNonce(acct)
						case 5:
							X.App.GetLatestStateDB().GetNonce(acct)
						case 6:
							X.App.GetPendingBlock()
						case 7:
							X.App.GetUTXOGas()
						}
					}
					atomic.AddInt64(&done[k], 1)
					if atomic.LoadInt32(&window) == 1 {
						atomic.AddInt64(&inWindow[k], 1)
					}
					if i%4 == 3 {
						runtime.Gosched()
					}
				}
			}(k)
		}
		close(start)
		// every hammer is running before the raced window opens
		for k := 0; k < K; k++ {
			for atomic.LoadInt64(&done[k]) < 2 {
				runtime.Gosched()
			}
		}
		atomic.StoreInt32(&window, 1)
		var pan interface{}
		var ok bool
		var vals []*types.Validator
		var cerr error
		rec := &record{Kind: "raced"}
		func() {
			defer func() {
				if p := recover(); p != nil {
					pan = p
				}
			}()
			X.App.PreRunBlock(pb)
			var cp interface{}
			ok, why, cp = checkBlock(X, fb, runtime.GOMAXPROCS(0))
			if cp != nil {
				pan = cp
			}
			if pan != nil || !ok {
				return
			}
			rec.Comp, rec.Has = extract(X, fb.Hash())
			vals, cerr = X.App.CommitBlock(fb, fparts, commit, false)
		}()
		atomic.StoreInt32(&window, 0)
		atomic.StoreInt32(&stop, 1)
		wg.Wait()
		c.Count("hammer_admitted", admitted)
		c.Count("hammer_refused", refused)
		minWin := int64(1 << 40)
		for k := 0; k < K; k++ {
			c.Count("hammer_ops", done[k])
			c.Count("hammer_ops_in_window", inWindow[k])
			if inWindow[k] < minWin {
				minWin = inWindow[k]
			}
		}
		if pan != nil {
			c.Violation("raced/panic", fmt.Sprintf("height %d: the validator path panicked while mempool admission and getters ran on the same application: %v", height, pan),
				map[string]interface{}{"height": height, "panic": fmt.Sprint(pan), "block_tx_kinds": kinds})
			return
		}
		if !ok {
			c.Violation("verdict/proposed-block-rejected/"+why, fmt.Sprintf("height %d: raced replica rejected the block: %s", height, why), map[string]interface{}{"height": height, "replica": "raced", "block_tx_kinds": kinds})
			return
		}
		if cerr != nil {
			c.Violation("commit/failed", fmt.Sprintf("height %d raced replica: %v", height, cerr), nil)
			return
		}
		ns, err := X.BlockExec.ApplyBlock(X.Status.Copy(), blockID, fb, vals)
		if err != nil {
			c.Violation("commit/apply-block-failed", fmt.Sprintf("height %d raced replica: %v", height, err), nil)
			return
		}
		X.Status = ns
		c.Count("raced_executions", 1)
		for comp, v := range map[string]string{"state-hash": hx(pb.Header.StateHash[:]), "receipt-hash": hx(pb.Header.ReceiptHash[:]), "gas-used": fmt.Sprint(pb.Header.GasUsed)} {
			if refRec.Comp[comp] != v {
				c.Violation("divergence/raced-prerun/"+comp, fmt.Sprintf("height %d: PreRunBlock under concurrent admission filled %s = %s, reference %s", height, comp, v, refRec.Comp[comp]),
					map[string]interface{}{"height": height, "component": comp, "block_tx_kinds": kinds})
				return
			}
		}
		if !rec.Has || !cc.compare(height, "raced-result", components, refRec, rec, kinds) {
			return
		}
		post := &record{Kind: "raced", Comp: extractPost(X, vals)}
		if !cc.compare(height, "raced-post-commit", postComponents, refPost, post, kinds) {
			return
		}
		c.Count("raced_comparisons", 1)
		if len(kinds) >= 5 && minWin >= 3 {
			c.Nontrivial(fpOf(hx(blockID.Hash[:])))
		}
		lastCommit = commit
		w.learn(block, receipts)
	}
	c.Count("chains_completed", 1)
	if c.Index%4 == 0 {
		c.Sample(map[string]interface{}{"hammers": K, "chain": cc.sample})
	}
}

// buildHammer prepares the operation list of one hammer goroutine over its own reserved account.
func buildHammer(r *rng.R, g *chainkit.Genesis, x *chainkit.Node, acct int) []hammerOp {
	from := g.Accounts[acct]
	n := x.App.GetNonce(from.Addr) // the pool's pending nonce for this account
	var ops []hammerOp
	var last types.Tx
	mkT := func(nonce uint64, gasDelta uint64) types.Tx {
		v := bi(int64(r.Range(1, 1000)))
		to := g.Accounts[r.Intn(len(g.Accounts))].Addr
		tx := types.NewTransaction(nonce, to, v, chainkit.TransferGas(v)+gasDelta, big.NewInt(types.ParGasPrice), nil)
		if err := tx.Sign(types.GlobalSTDSigner, from.Key); err != nil {
			panic(err)
		}
		return tx
	}
	for i, cnt := 0, r.Range(6, 14); i < cnt; i++ {
		switch p := r.Intn(10); {
		case p < 5:
			last = mkT(n, 0)
			n++
			ops = append(ops, hammerOp{tx: last, kind: "valid"})
		case p < 6 && last != nil:
			ops = append(ops, hammerOp{tx: last, kind: "duplicate"})
		case p < 7:
			ops = append(ops, hammerOp{tx: mkT(n, 1), kind: "wrong-gas"})
		case p < 8 && n > 0:
			ops = append(ops, hammerOp{tx: mkT(n-1, 0), kind: "stale-nonce"})
		case p < 9:
			ops = append(ops, hammerOp{tx: mkT(n+uint64(r.Range(2, 5)), 0), kind: "future-nonce"})
		default:
			ops = append(ops, hammerOp{get: r.Intn(8)})
		}
	}
	return ops
}
