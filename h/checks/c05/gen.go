package c05

import (
	"fmt"
	"math/big"

	cfg "github.com/lianxiangcloud/linkchain/config"
	cc "github.com/lianxiangcloud/linkchain/contract/contractcodes"
	"github.com/lianxiangcloud/linkchain/libs/common"
	"github.com/lianxiangcloud/linkchain/libs/crypto"
	"github.com/lianxiangcloud/linkchain/libs/ser"
	"github.com/lianxiangcloud/linkchain/types"

	"verif/h/internal/chainkit"
	"verif/h/internal/rng"
)

var (
	lkc  = common.EmptyAddress
	e18  = new(big.Int).Exp(big.NewInt(10), big.NewInt(18), nil)
	e10  = new(big.Int).Exp(big.NewInt(10), big.NewInt(10), nil)
	zero = big.NewInt(0)
)

func bi(x int64) *big.Int               { return big.NewInt(x) }
func lk(x int64) *big.Int               { return new(big.Int).Mul(big.NewInt(x), e18) }
func mulI(a *big.Int, x int64) *big.Int { return new(big.Int).Mul(a, big.NewInt(x)) }

type contractInfo struct {
	Addr    common.Address
	Kind    string
	Alive   bool // code present in the committed state
	Dead    bool // self-destructed in a committed block
	Planned bool // creation submitted, not committed yet
	Wasm    bool
	Dying   bool // a self-destruct call has been submitted
	Pending int  // calls submitted and not yet executed
}

// genTx is one generated transaction with what the generator knows about it.
type genTx struct {
	tx        types.Tx
	kind      string // workload class (stable label)
	acct      int    // sender account index, -1 for pure confidential
	nonce     uint64
	ins       []*chainkit.OwnedOut // confidential inputs handed to it
	plan      *contractInfo        // contract this creation is expected to produce
	to        *contractInfo        // contract this call targets
	hold      int                  // submit this many heights later (0 = now)
	signerSet []int                // accounts a multi-sign tx registers as upgrade signers
}

type world struct {
	r          *rng.R
	g          *chainkit.Genesis
	p          *chainkit.Node
	next       []uint64 // next nonce to assign, per account
	tokens     []common.Address
	cons       []*contractInfo
	wallets    []*chainkit.UWallet
	ledger     *chainkit.Ledger
	fresh      []common.Address
	held       map[uint64][]*genTx // release height -> txs
	kindOf     map[common.Hash]string
	admitted   []types.Tx           // everything the proposer's pool ever admitted, in order
	committed  map[common.Hash]bool // hashes seen in committed blocks
	calls      map[common.Hash]*contractInfo
	signerSets map[common.Hash][]int
	salt       uint64
	wasmCode   []byte
	counts     map[string]int64
	nAcct      int // accounts the workload may send from (0 = all)
	// hostile: the workload may let the committed state change under transactions that are already
	// pooled (calls queued behind a nonce gap to a contract somebody destroys meanwhile, confidential
	// payouts to an address that becomes a contract while they wait). Benign chains avoid exactly that,
	// so that they run to their full length.
	hostile   bool
	smallUTXO bool
	// special transactions
	holding                int    // held-back transactions not yet released
	mstNonce               uint64 // next nonce of the multi-sign account
	mstPending, cutPending int    // submitted, not yet executed
	signers                []int  // signer accounts registered by a committed multi-sign tx (nil = none yet)
}

func (w *world) senders() int {
	if w.nAcct > 0 {
		return w.nAcct
	}
	return len(w.g.Accounts)
}

func (w *world) count(k string, n int64) { w.counts[k] += n }

func (w *world) freshAddr() common.Address {
	var a common.Address
	copy(a[:], w.r.Bytes(20))
	a[0] = 0x7f // keep clear of precompiles / system contracts
	w.fresh = append(w.fresh, a)
	return a
}

func (w *world) pickCon(f func(*contractInfo) bool) *contractInfo {
	var c []*contractInfo
	for _, x := range w.cons {
		if f(x) {
			c = append(c, x)
		}
	}
	if len(c) == 0 {
		return nil
	}
	return c[w.r.Intn(len(c))]
}

// plainDest: an address to receive value: account, fresh, known fresh, dead contract, planned contract address.
func (w *world) plainDest() (common.Address, string) {
	switch p := w.r.Intn(100); {
	case p < 45:
		return w.g.Accounts[w.r.Intn(len(w.g.Accounts))].Addr, "acct"
	case p < 60:
		return w.freshAddr(), "fresh"
	case p < 72 && len(w.fresh) > 0:
		return w.fresh[w.r.Intn(len(w.fresh))], "known"
	case p < 84:
		if c := w.pickCon(func(c *contractInfo) bool { return c.Dead }); c != nil {
			return c.Addr, "dead-contract"
		}
	case p < 94:
		if c := w.pickCon(func(c *contractInfo) bool { return c.Planned }); c != nil {
			return c.Addr, "planned-contract"
		}
	}
	return w.g.Accounts[w.r.Intn(len(w.g.Accounts))].Addr, "acct"
}

func (w *world) value() *big.Int {
	switch w.r.Intn(6) {
	case 0:
		return bi(int64(w.r.Range(1, 1000)))
	case 1:
		return lk(int64(w.r.Range(1, 9)))
	case 2:
		return lk(int64(w.r.Range(11, 400))) // fee above the minimum
	case 3:
		return new(big.Int).Add(lk(int64(w.r.Range(10, 30))), bi(int64(w.r.Range(1, 99)))) // not a whole number of coins
	case 4:
		return bi(0)
	}
	return mulI(e10, int64(w.r.Range(1, 1000000)))
}

func (w *world) takeNonce(a int) uint64 { n := w.next[a]; w.next[a]++; return n }

func intrinsic(data []byte, create bool) uint64 {
	g, _ := types.IntrinsicGas(data, create, 1)
	return g
}

func (w *world) callData(c *contractInfo) []byte {
	r := w.r
	switch c.Kind {
	case kStore:
		if r.Chance(0.3) {
			return nil
		}
		v := word(r.Bytes(r.Range(0, 8)))
		if r.Chance(0.3) {
			v = word(nil) // clears the slot (refund path)
		}
		return append(word([]byte{byte(r.Intn(6))}), v...)
	case kLogger, kRevert:
		return r.Bytes(r.Range(0, 70))
	case kSuicide:
		if r.Chance(0.4) {
			return nil
		}
		d, _ := w.plainDest()
		return word(d[:])
	case kForward:
		d, _ := w.plainDest()
		if r.Chance(0.3) {
			if t := w.pickCon(func(c *contractInfo) bool { return c.Alive && !c.Wasm && (w.hostile || c.Kind != kSuicide) }); t != nil {
				d = t.Addr
			}
		}
		return word(d[:])
	case kMulti:
		var out []byte
		for i, n := 0, r.Range(1, 6); i < n; i++ {
			d, _ := w.plainDest()
			out = append(out, word(d[:])...)
		}
		return out
	}
	return r.Bytes(r.Range(0, 8))
}

// gen produces the transactions of one random workload step (usually one; nil when the class is
// not available right now).
func (w *world) gen() []*genTx {
	r := w.r
	a := r.Intn(w.senders())
	var pre []*genTx
	// Delayed-successor scenario: hold back a transfer of this account for 1-2 heights; whatever the
	// account sends next waits in the pool's future queue (already admitted) until the gap closes.
	// (One account at a time: the pool promotes queued transactions account by account in Go map order, and a
	// case must stay a function of its seed.)
	if r.Chance(0.12) && w.holding == 0 {
		w.holding++
		to, dk := w.plainDest()
		n := w.takeNonce(a)
		tx, err := chainkit.NewTransfer(w.g.Accounts[a], n, to, bi(int64(r.Range(1, 50))))
		if err != nil {
			panic(err)
		}
		pre = append(pre, &genTx{tx: tx, kind: "transfer/" + dk + "+held", acct: a, nonce: n, hold: r.Range(1, 2)})
	}
	if gt := w.gen1(a, len(pre) > 0); gt != nil {
		pre = append(pre, gt...)
	}
	return pre
}

func (w *world) gen1(a int, delayed bool) []*genTx {
	r := w.r
	from := w.g.Accounts[a]
	p := r.Intn(100)
	if delayed && r.Chance(0.7) {
		p = 50 // a call
	} else if w.hostile && w.smallUTXO && r.Chance(0.3) {
		// more confidential spends than the pool hands out per block: they queue across heights
		p = 83 + r.Intn(17)
	}
	one := func(g *genTx) []*genTx { return []*genTx{g} }
	// Benign chains keep the signer set still while upgrades signed under it are pooled (and the other
	// way round); hostile chains do not care.
	if !delayed && r.Chance(0.05) {
		// a call into a system (WASM) contract; most inputs name no method of it and revert, after burning
		// an amount of gas that depends on the code actually run
		t := upgradable[r.Intn(2)]
		in := []string{"GetDecimals|{}", "getPledge|{}", "deposit|{}", "getRight|{\"0\":\"0x01\"}", "nope|{}", "init|{}"}[r.Intn(6)]
		n := w.takeNonce(a)
		tx, err := chainkit.NewCall(from, n, t.addr, bi(0), 5000000, []byte(in))
		if err != nil {
			panic(err)
		}
		return one(&genTx{tx: tx, kind: "call/system-" + t.name, acct: a, nonce: n})
	}
	if !delayed && r.Chance(0.035) && w.senders() >= 3 && w.mstPending == 0 && (w.hostile || w.cutPending == 0) {
		return one(w.genMultiSign())
	}
	if !delayed && len(w.signers) > 0 && r.Chance(0.06) && (w.hostile || w.mstPending == 0) {
		if g := w.genUpgrade(false); g != nil {
			return one(g)
		}
	}
	switch {
	case p < 22: // plain transfer
		to, dk := w.plainDest()
		v := w.value()
		n := w.takeNonce(a)
		tx, err := chainkit.NewTransfer(from, n, to, v)
		if err != nil {
			panic(err)
		}
		return one(&genTx{tx: tx, kind: "transfer/" + dk, acct: a, nonce: n})
	case p < 32: // token transfer
		tok := w.tokens[r.Intn(len(w.tokens))]
		to, dk := w.plainDest()
		n := w.takeNonce(a)
		tx, err := chainkit.NewTokenTransfer(from, tok, n, to, bi(int64(r.Range(0, 5000))))
		if err != nil {
			panic(err)
		}
		return one(&genTx{tx: tx, kind: "token/" + dk, acct: a, nonce: n})
	case p < 41: // EVM contract creation
		kind := contractKinds[r.Intn(len(contractKinds))]
		failing := 0
		if r.Chance(0.15) {
			failing = r.Range(1, 2)
		}
		w.salt++
		code := creationCode(kind, w.salt, failing)
		v := bi(0)
		if r.Chance(0.25) {
			v = bi(int64(r.Range(1, 100000)))
		}
		gas := intrinsic(code, true) + uint64(len(code))*200 + 120000
		label := "create/" + kind
		if failing != 0 {
			label = "create-failing"
		} else if r.Chance(0.12) {
			gas = intrinsic(code, true) + uint64(r.Range(0, 30000)) // runs out of gas in the constructor or the code deposit
			label = "create-lowgas"
		}
		if v.Sign() > 0 {
			gas += types.CalNewAmountGas(v, types.EverContractLiankeFee)
		}
		n := w.takeNonce(a)
		tx, err := chainkit.NewContractCreation(from, n, v, gas, code)
		if err != nil {
			panic(err)
		}
		gt := &genTx{tx: tx, kind: label, acct: a, nonce: n}
		if label != "create-failing" {
			gt.plan = &contractInfo{Addr: crypto.CreateAddress(from.Addr, n, code), Kind: kind, Planned: true}
		}
		return one(gt)
	case p < 44 && len(w.wasmCode) > 0: // WASM contract creation
		n := w.takeNonce(a)
		tx, err := chainkit.NewContractCreation(from, n, bi(0), 30000000, w.wasmCode)
		if err != nil {
			panic(err)
		}
		return one(&genTx{tx: tx, kind: "create/wasm", acct: a, nonce: n,
			plan: &contractInfo{Addr: crypto.CreateAddress(from.Addr, n, w.wasmCode), Kind: "wasm", Planned: true, Wasm: true}})
	case p < 70: // contract call
		var c *contractInfo
		switch q := r.Intn(100); {
		case q < 55:
			c = w.pickCon(func(c *contractInfo) bool { return c.Alive && !c.Wasm })
		case q < 80:
			c = w.pickCon(func(c *contractInfo) bool { return c.Alive })
		case q < 90:
			c = w.pickCon(func(c *contractInfo) bool { return c.Planned }) // created earlier in the same block, if ordering allows
		default:
			c = w.pickCon(func(c *contractInfo) bool { return c.Dead })
		}
		if c == nil {
			return nil
		}
		if !w.hostile {
			if c.Dying || (c.Kind == kSuicide && c.Alive && c.Pending > 0) {
				return nil
			}
		}
		if c.Wasm {
			in := []string{"GetDecimals|{}", "CallIssue|{}", "Nope|{}"}[r.Intn(3)]
			n := w.takeNonce(a)
			wgas := uint64(5000000)
			if !c.Alive {
				wgas = chainkit.TransferGas(zero) // the pool sees no code there: only the plain-transfer limit passes
			}
			tx, err := chainkit.NewCall(from, n, c.Addr, bi(0), wgas, []byte(in))
			if err != nil {
				panic(err)
			}
			return one(&genTx{tx: tx, kind: "call/wasm", acct: a, nonce: n, to: c})
		}
		data := w.callData(c)
		v := bi(0)
		if (c.Kind == kForward || c.Kind == kSuicide || c.Kind == kFactory || c.Kind == kMulti) && r.Chance(0.6) || r.Chance(0.1) {
			v = w.value()
		}
		gas := intrinsic(data, false) + 400000
		label := "call/" + c.Kind
		if r.Chance(0.12) {
			gas = intrinsic(data, false) + uint64(r.Range(0, 4000))
			label = "call-lowgas"
		}
		if v.Sign() > 0 {
			if f := types.CalNewAmountGas(v, types.EverContractLiankeFee); gas < f+100000 {
				if label == "call-lowgas" {
					gas = f
				} else {
					gas = f + 300000
				}
			}
		}
		if c.Planned {
			label = "call-planned"
			// the pool judges the gas limit against its own view (no code there yet): only the plain-transfer limit passes
			gas = chainkit.TransferGas(v)
		}
		if c.Dead {
			label = "call-dead"
			gas = chainkit.TransferGas(v)
		}
		n := w.takeNonce(a)
		tx, err := chainkit.NewCall(from, n, c.Addr, v, gas, data)
		if err != nil {
			panic(err)
		}
		out := one(&genTx{tx: tx, kind: label, acct: a, nonce: n, to: c})
		if c.Kind == kSuicide && c.Alive && label != "call-lowgas" {
			c.Dying = true
		}
		// A delayed call to a contract that can die: have somebody else kill it right now.
		if w.hostile && delayed && c.Alive && c.Kind == kSuicide {
			b := (a + 1 + r.Intn(w.senders()-1)) % w.senders()
			nb := w.takeNonce(b)
			kt, err := chainkit.NewCall(w.g.Accounts[b], nb, c.Addr, bi(0), 300000, nil)
			if err != nil {
				panic(err)
			}
			out = append(out, &genTx{tx: kt, kind: "call/" + kSuicide, acct: b, nonce: nb})
		}
		return out
	case p < 82: // account -> confidential
		var dests []types.DestEntry
		total := new(big.Int)
		for i, n := 0, r.Range(1, 3); i < n; i++ {
			wl := w.wallets[r.Intn(len(w.wallets))]
			amt := lk(int64(r.Range(60, 400)))
			if r.Chance(0.3) {
				amt.Add(amt, mulI(e10, int64(r.Range(1, 99999))))
			}
			dests = append(dests, chainkit.Dest(wl, uint64(r.Intn(len(wl.Subs))), amt))
			total.Add(total, amt)
		}
		fee := chainkit.UtxoFeeAinToU(total)
		if r.Chance(0.2) {
			fee = mulI(fee, 2) // fees may exceed the minimum
		}
		n := w.takeNonce(a)
		tx, err := chainkit.NewAinTx(from, n, dests, fee)
		if err != nil {
			panic(fmt.Errorf("NewAinTx: %v", err))
		}
		return one(&genTx{tx: tx, kind: "a2u", acct: a, nonce: n})
	default: // confidential -> confidential / account
		wl := w.wallets[r.Intn(len(w.wallets))]
		sp := w.ledger.Spendable(wl, lkc)
		if len(sp) == 0 {
			return nil
		}
		nin := 1
		if len(sp) > 1 && r.Chance(0.3) {
			nin = 2
		}
		perm := r.Perm(len(sp))
		var ins []*chainkit.OwnedOut
		sum := new(big.Int)
		for i := 0; i < nin; i++ {
			ins = append(ins, sp[perm[i]])
			sum.Add(sum, sp[perm[i]].Amount)
		}
		ring := 1
		if pool := len(w.ledger.Outs[lkc]); pool >= 3 && r.Chance(0.6) {
			ring = r.Range(3, 7)
			if ring > pool {
				ring = pool
			}
		}
		utxoFee := chainkit.UtxoFeeUinToU(w.p.App.GetUTXOGas())
		var dests []types.DestEntry
		var label string
		if p < 93 { // -> confidential (+ change)
			rest := new(big.Int).Sub(sum, utxoFee)
			if rest.Cmp(e10) < 0 {
				return nil
			}
			to := w.wallets[r.Intn(len(w.wallets))]
			units := new(big.Int).Div(rest, e10)
			if units.Cmp(bi(2)) >= 0 && r.Chance(0.6) {
				first := new(big.Int).Div(units, bi(int64(r.Range(2, 5))))
				if first.Sign() == 0 {
					first = bi(1)
				}
				a1 := new(big.Int).Mul(first, e10)
				a2 := new(big.Int).Sub(rest, a1)
				dests = append(dests, chainkit.Dest(to, uint64(r.Intn(len(to.Subs))), a1))
				ch := chainkit.Dest(wl, uint64(r.Intn(len(wl.Subs))), a2)
				ch.IsChange = true
				dests = append(dests, ch)
			} else {
				dests = append(dests, chainkit.Dest(to, uint64(r.Intn(len(to.Subs))), rest))
			}
			label = fmt.Sprintf("u2u/ring%d", ringClass(ring))
		} else { // -> account (optionally + confidential change)
			to, dk := w.plainDest()
			if w.hostile && w.smallUTXO && r.Chance(0.5) {
				if c := w.pickCon(func(c *contractInfo) bool { return c.Planned }); c != nil {
					to, dk = c.Addr, "planned-contract"
				}
			}
			if dk == "planned-contract" && !w.hostile && w.smallUTXO {
				to, dk = w.g.Accounts[r.Intn(len(w.g.Accounts))].Addr, "acct"
			}
			if r.Chance(0.4) && sum.Cmp(new(big.Int).Add(utxoFee, lk(20))) > 0 {
				acc := lk(int64(r.Range(1, 9)))
				fee := new(big.Int).Add(chainkit.UtxoFeeUinToA(acc), utxoFee)
				change := new(big.Int).Sub(new(big.Int).Sub(sum, acc), fee)
				dests = append(dests, &types.AccountDestEntry{To: to, Amount: acc}, chainkit.Dest(wl, 0, change))
				label = "u2a+change/" + dk
			} else {
				fee := chainkit.UtxoFeeUinToA(sum)
				out := new(big.Int).Sub(sum, fee)
				if out.Cmp(e10) < 0 {
					return nil
				}
				dests = append(dests, &types.AccountDestEntry{To: to, Amount: out})
				label = "u2a/" + dk
			}
		}
		tx, err := w.ledger.NewUinTx(r, wl, ins, ring, dests)
		if err != nil {
			panic(fmt.Errorf("NewUinTx(%s): %v", label, err))
		}
		for _, o := range ins {
			o.Pending = true
		}
		return one(&genTx{tx: tx, kind: label, acct: -1, ins: ins})
	}
}

func ringClass(n int) int {
	if n <= 1 {
		return 1
	}
	return 3
}

// genMultiSign: a MultiSignAccountTx signed by the genesis validators that registers three workload
// accounts as the signers of contract-upgrade (or validator-update) transactions.
func (w *world) genMultiSign() *genTx {
	r := w.r
	perm := r.Perm(w.senders())[:3]
	info := &types.MultiSignMainInfo{AccountNonce: w.mstNonce, SupportTxType: types.TxContractCreateType,
		SignersInfo: types.SignersInfo{MinSignerPower: 2}}
	upgradeKind := true
	if r.Chance(0.2) {
		info.SupportTxType = types.TxUpdateValidatorsType
		upgradeKind = false
	}
	for _, a := range perm {
		info.Signers = append(info.Signers, &types.SignerEntry{Power: 1, Addr: w.g.Accounts[a].Addr})
	}
	w.mstNonce++
	w.mstPending++
	bz, err := ser.EncodeToBytes(info)
	if err != nil {
		panic(err)
	}
	var sigs []types.ValidatorSign
	nsig := len(w.g.Vals)
	if r.Chance(0.3) {
		nsig-- // 3 of 4 equal validators is still more than two thirds
	}
	for _, v := range w.g.Vals[:nsig] {
		sig, err := v.Priv.Sign(bz)
		if err != nil {
			panic(err)
		}
		sigs = append(sigs, types.ValidatorSign{Addr: v.Address(), Signature: sig.Bytes()})
	}
	tx := types.NewMultiSignAccountTx(info, sigs)
	g := &genTx{tx: tx, kind: "mst/validators", acct: -1}
	if upgradeKind {
		g.kind = "mst/upgrade"
		g.signerSet = perm
	}
	return g
}

var upgradable = []struct {
	name string
	addr common.Address
	code string
}{
	{"pledge", cfg.ContractPledgeAddr, cc.PledgeCodes},
	{"committee", cfg.ContractCommitteeAddr, cc.CommitteeCodes},
	{"blacklist", cfg.ContractBlacklistAddr, cc.BlacklistCode},
	{"foundation", cfg.ContractFoundationAddr, cc.FoundationCodes},
}

// genUpgrade: a ContractUpgradeTx of a system contract signed by two of the registered signers.
// foreign = for a variant block (nonce from the proposer's pool view, never pooled).
func (w *world) genUpgrade(foreign bool) *genTx {
	r := w.r
	if len(w.signers) < 2 {
		return nil
	}
	a := w.signers[0]
	// Real blocks upgrade the system contracts the workload does not depend on (not the fee contract);
	// never-committed variant blocks prefer the two the workload calls (pledge, committee) and the fee
	// contract, so that code left behind by an uncommitted upgrade would show in the next execution.
	target := upgradable[r.Intn(3)]
	if foreign {
		target = upgradable[[]int{0, 0, 1, 1, 3}[r.Intn(5)]]
	}
	code := target.code
	label := "cut/" + target.name + "/same-code"
	// Only hostile chains change what a system contract does (benign ones re-install the same code): as long
	// as compiled modules are cached process-wide by address, such an upgrade is what ends a chain early.
	if foreign || (w.hostile && r.Chance(0.5)) {
		other := upgradable[r.Intn(len(upgradable))]
		if other.name != target.name {
			code = other.code
			label = "cut/" + target.name + "/other-code"
		}
	}
	var nonce uint64
	if foreign {
		nonce = w.p.App.GetNonce(w.g.Accounts[a].Addr)
	} else {
		nonce = w.takeNonce(a)
		w.cutPending++
	}
	info := &types.ContractUpgradeMainInfo{FromAddr: w.g.Accounts[a].Addr, Recipient: target.addr, AccountNonce: nonce, Payload: common.Hex2Bytes(code)}
	tx := &types.ContractUpgradeTx{ContractUpgradeMainInfo: *info}
	for _, s := range w.signers[:2] {
		if err := tx.Sign(types.GlobalSTDSigner, w.g.Accounts[s].Key); err != nil {
			panic(err)
		}
	}
	return &genTx{tx: tx, kind: label, acct: a, nonce: nonce}
}
