// Package c13: committed history survives crashes and pruning (DESIGN.md §5 C13).
//
// Crash lane (fault enumeration): for every block of a generated chain, the commit sequence
// (App.CommitBlock: state commit -> block store -> utxo store -> mempool update, then
// BlockExecutor.ApplyBlock: evidence marks + status save) is executed on a fresh clone of the
// pre-commit databases once per write boundary k = 0..W with every later write dropped; the node
// is rebuilt from the surviving bytes by chainkit.OpenNode (= node.NewNode's reconciliation) and an
// oracle recomputes from the stored blocks what every other store must hold; then the node must
// continue (re-commit the interrupted block, commit one more). Where the restart itself writes
// (the one-block status rebuild) it is crashed after each of its writes and restarted again.
//
// Pruning lane (exploration): chains of length 1..40, retention K in {1,2,5,10,50,100}; both
// pruning entry points are called as node.ClearHistoricalData does, under an operation budget,
// and for every retained height everything recorded when it was committed must be readable.
package c13

import (
	"time"

	"verif/h/internal/core"
	_ "verif/shim/goshim"
)

// crashEvery: case index i is a crash-lane case iff i%crashEvery == 0, else a pruning case.
// Crash case number j = i/crashEvery runs with GOMAXPROCS 2 (j even) or 16 (j odd) and in trie
// mode (j/2 even) or flat key/value mode (j/2 odd).
const crashEvery = 4

const quickCases = 128

func cases(tier string) int {
	if tier == "thorough" {
		return 3200
	}
	return quickCases
}

// floors measured on the unchanged tree at VERIF_SEED=1..5 (quick), about half of the minimum;
// only counters that do not depend on whether the known defects are present.
var quickFloors = map[string]int64{
	"blocks_enumerated":                    64,
	"blocks_with_conf_inputs":              20,
	"blocks_with_conf_outputs":             35,
	"blocks_without_conf":                  18,
	"blocks_with_duplicate_vote_evidence":  15,
	"crash_cases_trie":                     8,
	"crash_cases_flatkv":                   8,
	"crash_points":                         1900,
	"crash_points_forced_order":            1000,
	"clean_restarts":                       64,
	"restarts":                             1900,
	"restart_block_lost":                   1300,
	"restart_block_survived":               550,
	"status_rebuilt":                       400,
	"recovery_crash_points":                1500,
	"recommits":                            550,
	"continuations":                        1000,
	"state_comparisons":                    3500,
	"keyimages_checked":                    4000,
	"outputs_checked":                      20000,
	"txindex_checked":                      18000,
	"contract_storage_comparisons_nonzero": 2000,
	"undo_file_cuts":                       950,
	"undo_file_variants":                   35,
	"prune_ticks":                          70,
	"prune_ticks_keep_gt_length":           24,
	"prune_ticks_keep_lt_length":           23,
	"prune_chains_with_validator_change":   27,
	"retained_heights_checked":             130,
}

func init() {
	core.Register(&core.Check{
		ID:        "C13",
		Level:     "fault_enumeration",
		Technique: "crash-point enumeration at database write boundaries of the real commit sequence on a real single-process chain (write-dropping dbm.DB wrapper on every store, restart through the node's reconciliation logic, cross-store oracle recomputed from the stored blocks against a fault-free reference replica, bounded continuation) + read-back monitoring of both pruning entry points under an operation budget",
		Rule: "crash case = generated chain of 4 (thorough 5) blocks (plain transfers, account->confidential, confidential->confidential with ring 1/3-5, confidential->account, empty, with/without duplicate-vote evidence) in trie or flat key/value mode where EVERY block is committed once per crash point k=0..W (W measured per block, 15-19) and, for the cuts inside BlockStore.SaveBlock's three concurrent writers, once per each of the 3! forced writer orders; every restart that rebuilds the status is itself crashed after each of its writes; " +
			"non-trivial = every crash point of every block was restarted and judged and the chain holds confidential inputs, confidential outputs and a block without either (forced by the plan); distinct by hash of (block kinds, tx counts, confidential inputs/outputs, evidence, genesis). " +
			"prune case = chain of length 1..40 with injected validator changes and transactions, K from {1,2,5,10,50,100}, 1-3 pruning ticks, optional restart + 2 more blocks + another tick; non-trivial = at least one pruning tick executed; distinct by (K, length, tick heights, change heights, consensus-state lifetime)",
		Assumptions: []string{
			"databases are MemDBs behind a wrapper that gives them goleveldb's read semantics (ErrNotFound on Load/Exist of a missing key, copies in and out); batches are atomic (C19 checks that promise per backend); torn writes inside one batch or one Set are not modelled",
			"a crash is a prefix cut of the global sequence of durable database write units; the three concurrent writers of SaveBlock are forced into each of their 6 relative orders by holding a writer at its first write; GOMAXPROCS alternates 2/16 per case",
			"flat key/value mode: the undo file kvState.wal is a real file in a per-node directory; its operations (Truncate/Write/Sync) bypass dbm.DB, so they are cut only at the adjacent database writes: after a simulated crash at unit k the file is cut back to the size it had when database write k+1 was attempted (it is append-only within one commit); a crash between two file operations without a database write in between is not modelled",
			"the interrupted block is re-delivered after restart by the harness (CheckBlock+CommitBlock+ApplyBlock), standing in for WAL replay / block gossip; validator-set changes are not generated in the crash lane (the white-list contract is not driven)",
			"duplicate-vote evidence is added to the node's evidence pool before the block that carries it is applied (a node that never saw the evidence panics in EvidenceStore.getEvidenceInfo — outside C13)",
			"pruning lane: trie mode; validator changes are injected at the validators argument of BlockExecutor.ApplyBlock; ConsensusState is constructed but not started and its exported Height field is advanced by the harness (or a fresh ConsensusState is built per tick)",
		},
		Cases: cases,
		Batch: func(tier string) int {
			if tier == "thorough" {
				return 2 * crashEvery
			}
			return crashEvery
		},
		Run: func(c *core.Ctx) {
			if c.Index%crashEvery == 0 {
				runCrash(c)
			} else {
				runPrune(c)
			}
		},
		Floors: func(tier string) map[string]int64 {
			out := map[string]int64{}
			for k, v := range quickFloors {
				out[k] = v * int64(cases(tier)) / quickCases
			}
			return out
		},
		Init:         core.QuietLogs,
		BatchTimeout: 20 * time.Minute,
	})
}
