// Package c13: committed history survives crashes and pruning (DESIGN.md §5 C13).
//
// Crash lane (fault enumeration): for every block of a generated chain, the commit sequence
// (App.CommitBlock: state commit -> block store -> utxo store -> mempool update, then
// BlockExecutor.ApplyBlock: status save) is executed on a fresh clone of the pre-commit databases
// once per write boundary k = 0..W with every later write dropped; the node is rebuilt from the
// surviving bytes by chainkit.OpenNode (= node.NewNode's reconciliation) and an oracle recomputes
// from the stored blocks what every other store must hold; then the node must continue.
//
// Pruning lane (exploration): chains of length 1..40, retention K in {1,2,5,10,50,100}; both
// pruning entry points are called as node.ClearHistoricalData does and everything readable for
// the retained heights before the call must be readable and unchanged after it.
package c13

import (
	"time"

	"verif/h/internal/core"
	_ "verif/shim/goshim"
)

// crashEvery: case index i is a crash-lane case iff i%crashEvery == 0, else a pruning case.
const crashEvery = 4

func init() {
	core.Register(&core.Check{
		ID:        "C13",
		Level:     "fault_enumeration",
		Technique: "crash-point enumeration at database write boundaries of the real commit sequence on a real single-process chain (write-dropping dbm.DB wrapper on every store, restart through the node's reconciliation logic, cross-store oracle recomputed from the stored blocks, bounded continuation) + differential read-back monitoring of both pruning entry points under an operation budget",
		Rule: "crash case = generated chain of 4-5 blocks (plain transfers, account->confidential, confidential->confidential with ring 1/3-5, confidential->account, empty) where EVERY block is committed once per crash point k=0..W (W measured per block) and, for the cuts inside BlockStore.SaveBlock's three concurrent writers, once per each of the 3! forced writer orders, alternating GOMAXPROCS 1/16; " +
			"non-trivial = the chain holds at least one block with confidential inputs, one with confidential outputs and one without either, and every crash point was restarted and judged. " +
			"prune case = chain of length 1..40 with injected validator changes and transactions, K from {1,2,5,10,50,100}, 1-3 pruning ticks, optional restart+continuation+another tick; non-trivial = at least one pruning tick executed; distinct by (K, length, tick heights, change heights)",
		Assumptions: []string{
			"storage mode: trie (full_node) only — chainkit builds the genesis and opens nodes with isTrie=true; the flat key/value mode with its undo file is not exercised",
			"databases are MemDBs behind a wrapper that gives them goleveldb's read semantics (ErrNotFound on Load/Exist of a missing key, copies in and out); batches are atomic (C19 checks that promise per backend); torn writes inside one batch or one Set are not modelled",
			"a crash is a prefix cut of the global sequence of durable write units; the three concurrent writers of SaveBlock are forced into each of their 6 relative orders by holding a writer at its first write",
			"the interrupted block is re-delivered after restart by the harness (CheckBlock+CommitBlock+ApplyBlock), standing in for WAL replay / block gossip",
			"pruning lane: validator changes are injected at the validators argument of BlockExecutor.ApplyBlock (the white-list contract is not driven); ConsensusState is constructed but not started and its exported Height field is advanced by the harness",
		},
		Cases: func(tier string) int {
			if tier == "thorough" {
				return 1600
			}
			return 128
		},
		Batch: func(tier string) int { return crashEvery },
		Run: func(c *core.Ctx) {
			if c.Index%crashEvery == 0 {
				runCrash(c)
			} else {
				runPrune(c)
			}
		},
		Floors: func(tier string) map[string]int64 {
			return map[string]int64{}
		},
		Init:         core.QuietLogs,
		BatchTimeout: 15 * time.Minute,
	})
}
