package c13

import (
	"bytes"
	"fmt"

	cfg "github.com/lianxiangcloud/linkchain/config"
	"github.com/lianxiangcloud/linkchain/consensus"
	"github.com/lianxiangcloud/linkchain/libs/common"
	lt "github.com/lianxiangcloud/linkchain/libs/cryptonote/types"
	"github.com/lianxiangcloud/linkchain/types"

	"verif/h/internal/chainkit"
	"verif/h/internal/core"
)

func csConfig() *cfg.ConsensusConfig {
	c := cfg.DefaultConsensusConfig()
	c.CreateEmptyBlocks = true
	c.CreateEmptyBlocksInterval = 0
	return c
}

// oracle recomputes, from the blocks 1..h read back from the restarted node's block store, what
// every other store must contain, and compares (DESIGN.md §5 C13). With ref == nil only the
// self-consistency part is evaluated.
type oracle struct {
	c          *core.Ctx
	n          *chainkit.Node
	ref        *refChain
	report     func(key, detail string, witness interface{})
	lostImages int
	// consequence is run (after everything else was judged) when key images of stored blocks are
	// not marked spent; it returns a description and data that are added to that violation.
	consequence func() (string, interface{})
}

type expOut struct {
	OTAddr lt.Key
	Commit lt.Key
	Height uint64
}

func confOutputs(tx *types.UTXOTransaction, height uint64) []expOut {
	var out []expOut
	idx := 0
	for _, o := range tx.Outputs {
		uo, ok := o.(*types.UTXOOutput)
		if !ok {
			continue
		}
		e := expOut{OTAddr: uo.OTAddr, Height: height}
		if idx < len(tx.RCTSig.OutPk) {
			e.Commit = tx.RCTSig.OutPk[idx].Mask
		}
		out = append(out, e)
		idx++
	}
	return out
}

// check returns true when the node's stores agree on the prefix 1..h. lost is the block h+1
// whose commit was interrupted and that the block store does not hold (nil if none).
func (o *oracle) check(h uint64, lost *types.Block) bool {
	n, c := o.n, o.c
	ok := true
	bad := func(key, detail string, w interface{}) {
		ok = false
		o.report(key, detail, w)
	}
	var outs []expOut
	var images []lt.Key
	type txAt struct {
		hash   common.Hash
		height uint64
		index  uint64
	}
	var txs []txAt
	for ht := uint64(1); ht <= h; ht++ {
		var b *types.Block
		if pan := tryPanic(func() { b = n.BlockStore.LoadBlock(ht) }); pan != nil || b == nil {
			bad("crash/blockstore/block-unreadable", fmt.Sprintf("LoadBlock(%d) = nil/panic (%v) with BlockStore.Height()=%d", ht, pan, h), nil)
			return false
		}
		if o.ref != nil {
			if want, known := o.ref.hash[ht]; known && b.Hash() != want {
				bad("crash/blockstore/wrong-block", fmt.Sprintf("block %d read back has hash %s, committed chain has %s", ht, b.Hash().Hex(), want.Hex()), nil)
				return false
			}
		}
		meta := n.BlockStore.LoadBlockMeta(ht)
		if meta == nil || n.BlockStore.LoadSeenCommit(ht) == nil {
			bad("crash/blockstore/meta-or-commit-missing", fmt.Sprintf("block %d: meta=%v seenCommit missing", ht, meta != nil), nil)
		}
		if _, err := n.BlockStore.LoadTxsResult(ht); err != nil {
			bad("crash/blockstore/txsresult-missing", fmt.Sprintf("LoadTxsResult(%d): %v", ht, err), nil)
		}
		for i, t := range b.Data.Txs {
			txs = append(txs, txAt{t.Hash(), ht, uint64(i)})
			if ut, isU := t.(*types.UTXOTransaction); isU {
				for _, ki := range ut.GetInputKeyImages() {
					images = append(images, *ki)
				}
				outs = append(outs, confOutputs(ut, ht)...)
			}
		}
	}

	// ---- world state
	top := n.BlockStore.LoadBlock(h)
	if h >= 1 && top != nil {
		res := n.App.VerifLastTxsResult()
		if res.StateHash != top.Header.StateHash {
			bad("crash/state/root-differs-from-stored-block", fmt.Sprintf("application state hash %s, header of block %d says %s", res.StateHash.Hex(), h, top.Header.StateHash.Hex()), nil)
		}
	}
	if o.ref != nil && o.ref.bal[h] != nil {
		for i, a := range o.ref.watch {
			var bal, want = n.App.GetBalance(a), o.ref.bal[h][i]
			if bal.Cmp(want) != 0 {
				bad("crash/state/balance-not-of-stored-prefix", fmt.Sprintf("account %d balance %v, reference replica after block %d has %v", i, bal, h, want), nil)
				break
			}
			if nn := n.App.GetNonce(a); nn != o.ref.nonce[h][i] {
				bad("crash/state/nonce-not-of-stored-prefix", fmt.Sprintf("account %d nonce %d, reference replica after block %d has %d", i, nn, h, o.ref.nonce[h][i]), nil)
				break
			}
		}
		c.Count("state_comparisons", 1)
		if slots := o.ref.slots[h]; len(slots) > 0 {
			tryPanic(func() {
				st := n.App.VerifStoreState()
				for a, want := range slots {
					if len(st.GetCode(a)) == 0 {
						bad("crash/state/contract-code-missing", fmt.Sprintf("contract %s created in a stored block has no code after restart", a.Hex()), nil)
					} else if got := st.GetState(a, common.Hash{}); !bytes.Equal(got, want) {
						bad("crash/state/contract-storage-not-of-stored-prefix", fmt.Sprintf("contract %s slot 0 = %x, reference replica after block %d has %x", a.Hex(), got, h, want), nil)
					}
					c.Count("contract_storage_comparisons", 1)
					if len(bytes.Trim(want, "\x00")) > 0 {
						c.Count("contract_storage_comparisons_nonzero", 1)
					}
				}
			})
		}
	}

	// ---- consensus status and its per-height records
	if n.Status.LastBlockHeight == h {
		sdb := n.DBs["consensus_state"]
		for _, q := range []struct {
			height uint64
			want   *types.ValidatorSet
		}{{h + 1, n.Status.Validators}, {h, n.Status.LastValidators}} {
			if q.height < 1 || q.want == nil || q.want.Size() == 0 {
				continue
			}
			var vals *types.ValidatorSet
			var err error
			if pan := tryPanic(func() { vals, _, err = consensus.LoadValidators(sdb, q.height) }); pan != nil || err != nil || vals == nil {
				bad("crash/status/validators-record-unreadable", fmt.Sprintf("status stands at %d but LoadValidators(%d): err=%v panic=%v", h, q.height, err, pan), nil)
			} else if !bytes.Equal(vals.Hash(), q.want.Hash()) {
				bad("crash/status/validators-record-differs-from-status", fmt.Sprintf("status stands at %d; LoadValidators(%d) hashes to %X, the status holds %X", h, q.height, vals.Hash(), q.want.Hash()), nil)
			}
		}
		var perr error
		if pan := tryPanic(func() { _, perr = consensus.LoadConsensusParams(sdb, h+1) }); pan != nil || perr != nil {
			bad("crash/status/params-record-unreadable", fmt.Sprintf("status stands at %d but LoadConsensusParams(%d): err=%v panic=%v", h, h+1, perr, pan), nil)
		}
		if h >= 1 && top != nil && n.Status.LastBlockID.Hash != top.Hash() {
			bad("crash/status/last-block-id-differs-from-stored-block", fmt.Sprintf("status.LastBlockID %s, stored block %d is %s", n.Status.LastBlockID.Hash.Hex(), h, top.Hash().Hex()), nil)
		}
	}

	// ---- spent key images
	missing := 0
	for _, ki := range images {
		k := ki
		if !n.UtxoStore.HaveTxKeyimgAsSpent(&k) {
			missing++
		}
	}
	c.Count("keyimages_checked", int64(len(images)))
	lostImagesDetail := ""
	if missing > 0 {
		o.lostImages = missing
		ok = false
		lostImagesDetail = fmt.Sprintf("%d of %d key images of blocks <= %d are not marked spent", missing, len(images), h)
	}
	if lost != nil {
		ahead := 0
		for _, t := range lost.Data.Txs {
			if ut, isU := t.(*types.UTXOTransaction); isU {
				for _, ki := range ut.GetInputKeyImages() {
					if n.UtxoStore.HaveTxKeyimgAsSpent(ki) {
						ahead++
					}
				}
			}
		}
		if ahead > 0 {
			bad("crash/utxo/keyimage-of-unstored-block-spent", fmt.Sprintf("%d key images of the lost block %d are marked spent", ahead, h+1), nil)
		}
	}

	// ---- confidential output index
	maxSeq := n.UtxoStore.GetMaxUtxoOutputSeq(common.EmptyAddress)
	if maxSeq+1 != int64(len(outs)) {
		key := "crash/utxo/output-index-behind-blockstore"
		if maxSeq+1 > int64(len(outs)) {
			key = "crash/utxo/output-index-ahead-of-blockstore"
		}
		bad(key, fmt.Sprintf("GetMaxUtxoOutputSeq+1 = %d, blocks <= %d hold %d confidential outputs", maxSeq+1, h, len(outs)), nil)
	}
	wrong, unreadable := 0, 0
	for i, e := range outs {
		if int64(i) > maxSeq {
			break // beyond the recorded maximum: already reported as "index behind"
		}
		got, err := n.UtxoStore.GetUtxoOutput(common.EmptyAddress, uint64(i))
		if err != nil || got == nil {
			unreadable++
			continue
		}
		if got.OTAddr != e.OTAddr || got.Commit != e.Commit || got.Height != e.Height {
			wrong++
		}
	}
	c.Count("outputs_checked", int64(len(outs)))
	if unreadable > 0 {
		bad("crash/utxo/output-of-stored-block-unreadable", fmt.Sprintf("%d of %d confidential outputs of blocks <= %d cannot be read by global index", unreadable, len(outs), h), nil)
	}
	if wrong > 0 {
		bad("crash/utxo/output-index-wrong-entry", fmt.Sprintf("%d of %d global indices resolve to a different output than the chain defines", wrong, len(outs)), nil)
	}
	if lost != nil && unreadable == 0 {
		// no output of the lost block may be addressable
		if got, err := n.UtxoStore.GetUtxoOutput(common.EmptyAddress, uint64(len(outs))); err == nil && got != nil {
			nLost := 0
			for _, t := range lost.Data.Txs {
				if ut, isU := t.(*types.UTXOTransaction); isU {
					nLost += len(confOutputs(ut, h+1))
				}
			}
			if nLost > 0 && maxSeq+1 > int64(len(outs)) {
				bad("crash/utxo/output-of-unstored-block-indexed", fmt.Sprintf("global index %d resolves although block %d is not stored", len(outs), h+1), nil)
			}
		}
	}

	// ---- transaction index
	missIdx, wrongIdx, noReceipt := 0, 0, 0
	for _, t := range txs {
		var tx types.Tx
		var e *types.TxEntry
		if pan := tryPanic(func() { tx, e = n.BlockStore.GetTx(t.hash) }); pan != nil || tx == nil || e == nil {
			missIdx++
			continue
		}
		if tx.Hash() != t.hash || e.BlockHeight != t.height || e.Index != t.index {
			wrongIdx++
		}
		if rc, _, rh, _ := n.BlockStore.GetTransactionReceipt(t.hash); rc == nil || rh != t.height {
			noReceipt++
		}
	}
	c.Count("txindex_checked", int64(len(txs)))
	if missIdx > 0 {
		bad("crash/txindex/tx-of-stored-block-missing", fmt.Sprintf("%d of %d transactions of blocks <= %d are not found by hash", missIdx, len(txs), h), nil)
	}
	if wrongIdx > 0 {
		bad("crash/txindex/wrong-entry", fmt.Sprintf("%d index entries point to a wrong block/position", wrongIdx), nil)
	}
	if noReceipt > 0 {
		bad("crash/txindex/receipt-of-stored-block-missing", fmt.Sprintf("%d of %d transactions of blocks <= %d have no receipt", noReceipt, len(txs), h), nil)
	}
	if lost != nil {
		ahead, aheadReceipt := 0, 0
		for _, t := range lost.Data.Txs {
			tryPanic(func() {
				if tx, e := n.BlockStore.GetTx(t.Hash()); tx != nil || e != nil {
					ahead++
				}
				if rc, _, _, _ := n.BlockStore.GetTransactionReceipt(t.Hash()); rc != nil {
					aheadReceipt++
				}
			})
		}
		if ahead > 0 {
			bad("crash/txindex/entry-of-unstored-block", fmt.Sprintf("%d of %d transactions of the lost block %d are served by hash (%d with receipt) while BlockStore.Height()=%d", ahead, len(lost.Data.Txs), h+1, aheadReceipt, h), nil)
		}
	}
	if lostImagesDetail != "" {
		var extra interface{}
		if o.consequence != nil {
			var d string
			if d, extra = o.consequence(); d != "" {
				lostImagesDetail += "; consequence: " + d
			}
		}
		o.report("crash/utxo/keyimage-of-stored-block-not-spent", lostImagesDetail, extra)
	}
	if ok {
		c.Count("consistent_views", 1)
	}
	return ok
}
