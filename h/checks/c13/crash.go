package c13

import (
	"bytes"
	"fmt"
	"math/big"
	"os"
	"path/filepath"
	"runtime"
	"strings"

	"github.com/lianxiangcloud/linkchain/blockchain"
	"github.com/lianxiangcloud/linkchain/consensus"
	"github.com/lianxiangcloud/linkchain/libs/common"
	"github.com/lianxiangcloud/linkchain/libs/log"
	"github.com/lianxiangcloud/linkchain/types"

	"verif/h/internal/chainkit"
	"verif/h/internal/core"
	"verif/h/internal/rng"
	"verif/shim/goshim"
)

// refChain is what the fault-free reference replica observed after each height.
type refChain struct {
	hash      map[uint64]common.Hash
	stateHash map[uint64]common.Hash
	bal       map[uint64][]*big.Int
	nonce     map[uint64][]uint64
	watch     []common.Address
	slots     map[uint64]map[common.Address][]byte // height -> counter contract -> storage slot 0
}

func (rc *refChain) record(n *chainkit.Node, b *types.Block) {
	h := b.Height
	rc.hash[h] = b.Hash()
	rc.stateHash[h] = b.Header.StateHash
	var bal []*big.Int
	var non []uint64
	for _, a := range rc.watch {
		bal = append(bal, n.App.GetBalance(a))
		non = append(non, n.App.GetNonce(a))
	}
	rc.bal[h], rc.nonce[h] = bal, non
}

func (rc *refChain) recordContracts(n *chainkit.Node, h uint64, contracts []common.Address) {
	st := n.App.VerifStoreState()
	m := map[common.Address][]byte{}
	for _, a := range contracts {
		m[a] = st.GetState(a, common.Hash{})
	}
	rc.slots[h] = m
}

type blockInfo struct {
	Height uint64   `json:"height"`
	Kind   string   `json:"kind"`
	Txs    []string `json:"txs"`
	Inputs int      `json:"conf_inputs"`
	Outs   int      `json:"conf_outputs"`
	W      int64    `json:"W,omitempty"`
}

type crashRun struct {
	c         *core.Ctx
	g         *chainkit.Genesis
	ge        *gen
	ref       *refChain
	chain     []blockInfo
	procs     int // GOMAXPROCS at entry
	caseProcs int
	seen      map[string]bool
	kv        bool // flat key/value state mode (the default light node) instead of the trie
	dirs      int
}

func (x *crashRun) newDir() string {
	x.dirs++
	return filepath.Join(x.c.Scratch, fmt.Sprintf("node-%d", x.dirs))
}

func openWrapped(g *chainkit.Genesis, nd *nodeDBs) (n *chainkit.Node, err error, pan interface{}) {
	defer func() {
		if r := recover(); r != nil {
			pan = r
		}
	}()
	if nd.kv {
		os.MkdirAll(nd.dir, 0755)
	}
	n, err = chainkit.OpenNodeMode(g, nd.raw, chainkit.NodeOpts{WrapDB: nd.wrap}, !nd.kv)
	if n != nil && n.UtxoStore != nil {
		n.UtxoStore.SetLogger(log.NewNopLogger()) // node.NewNode sets one; the store logs on its error paths
	}
	return
}

func decodeFresh(parts *types.PartSet) (*types.Block, *types.PartSet, error) {
	rp, err := chainkit.RebuildParts(parts)
	if err != nil {
		return nil, nil, err
	}
	fb, err := chainkit.DecodeBlock(rp, 0)
	return fb, rp, err
}

// unitKind gives a unit of the commit sequence its semantic name.
func unitKind(u unit) string {
	switch u.DB {
	case "state":
		return "state"
	case "balance_record":
		return "balance-record"
	case "txmgr":
		if u.Op == "SetSync" {
			return "txindex-sync"
		}
		return "txindex"
	case "blockstore":
		switch {
		case strings.HasPrefix(u.Key, "BR:"):
			return "receipts"
		case strings.HasPrefix(u.Key, "BTR:"):
			return "txsresult"
		case u.Op == "Batch":
			return "block-batch"
		case u.Key == "blockStore":
			return "height-marker"
		case u.Key == "":
			return "blockstore-sync"
		}
		return "blockstore-other"
	case "utxo":
		switch {
		case strings.HasPrefix(u.Key, "token_muos_"):
			return "utxo-maxseq"
		case strings.HasPrefix(u.Key, "btio_"):
			return "utxo-blockseq"
		}
		return "keyimages"
	case "utxo_output":
		return "utxo-outputs"
	case "utxo_output_token":
		return "utxo-token-outputs"
	case "evidence":
		return "evidence"
	case "consensus_state":
		switch {
		case strings.HasPrefix(u.Key, "VALDK:"):
			return "valinfo"
		case strings.HasPrefix(u.Key, "CSPK:"):
			return "paramsinfo"
		case u.Key == "statusKey":
			return "status"
		case strings.HasPrefix(u.Key, "statusKey_"):
			return "status-history"
		}
		return "consensus-other"
	}
	return u.DB
}

// cutLabel names the stage of the commit sequence at which budget k cuts (from the unit log
// of the uninterrupted commit of the same block).
func cutLabel(log []unit, k int64) string {
	W := int64(len(log))
	if k >= W {
		return "complete"
	}
	var marker, utxoLast, status int64
	for i, u := range log {
		p := int64(i + 1)
		switch unitKind(u) {
		case "height-marker":
			marker = p
		case "keyimages", "utxo-outputs", "utxo-token-outputs", "utxo-maxseq", "utxo-blockseq":
			utxoLast = p
		case "status":
			status = p
		}
	}
	switch {
	case marker == 0 || k < marker:
		return "before-block-stored"
	case k < utxoLast:
		return "block-stored-utxo-incomplete"
	case status == 0 || k < status:
		return "utxo-done-status-unsaved"
	}
	return "status-saved"
}

func logStrings(log []unit) []string {
	var out []string
	for i, u := range log {
		s := fmt.Sprintf("%d %s %s %q", i+1, u.DB, u.Op, u.Key)
		if u.N > 0 {
			s += fmt.Sprintf(" n=%d", u.N)
		}
		out = append(out, s+" ["+unitKind(u)+"]")
	}
	return out
}

var perms = []string{"ABC", "ACB", "BAC", "BCA", "CAB", "CBA"}

// trial describes one simulated crash.
type trial struct {
	Height   uint64   `json:"height"`
	K        int64    `json:"k"`
	W        int64    `json:"W"`
	Cut      string   `json:"cut"`
	Order    string   `json:"writer_order,omitempty"`
	Procs    int      `json:"gomaxprocs"`
	Block    string   `json:"block_kind"`
	Txs      []string `json:"block_txs"`
	Units    []string `json:"units_of_uninterrupted_commit,omitempty"`
	UndoFile string   `json:"undo_file,omitempty"`
	Last     string   `json:"last_unit_written,omitempty"`
	Next     string   `json:"first_unit_dropped,omitempty"`
}

type pendingBlock struct {
	snap    *dbSnap
	parts   *types.PartSet
	commit  *types.Commit
	info    blockInfo
	spent   []*chainkit.OwnedOut // confidential outputs spent by this block (ledger view before the block)
	P       uint64
	log     []unit
	contIdx int
}

func runCrash(c *core.Ctx) {
	r := c.Rng
	gseed := r.Uint64()
	// the stand-in's random scalars (transaction keys, masks, nonces) follow the case seed as well
	goshim.Seed(rng.Derive(c.Seed, "c13-shim", c.Index).Bytes(32))
	kv := (c.Index/crashEvery/2)%2 == 1
	g, err := chainkit.BuildGenesisMode(chainkit.GenesisOpts{Seed: gseed, NumAccounts: 5, Powers: []int64{10, 10, 10, 10}}, !kv)
	if err != nil {
		c.Inconclusive("genesis: " + err.Error())
		return
	}
	x := &crashRun{kv: kv, c: c, g: g, ge: newGen(g, r.Split(), gseed), procs: runtime.GOMAXPROCS(0), seen: map[string]bool{}}
	// GOMAXPROCS alternates per case between 2 and 16 (switching it stops the world and waits for
	// a running GC cycle: far too slow per crash point); the schedule of the only concurrent
	// writers of the commit sequence is enumerated deterministically by the gate instead.
	x.caseProcs = []int{2, 16}[(c.Index/crashEvery)%2]
	runtime.GOMAXPROCS(x.caseProcs)
	defer runtime.GOMAXPROCS(x.procs)
	x.ref = &refChain{hash: map[uint64]common.Hash{}, stateHash: map[uint64]common.Hash{}, bal: map[uint64][]*big.Int{}, nonce: map[uint64][]uint64{}, slots: map[uint64]map[common.Address][]byte{}}
	for _, a := range g.Accounts {
		x.ref.watch = append(x.ref.watch, a.Addr)
	}
	x.ref.watch = append(x.ref.watch, chainkit.FoundationAddr())

	// chain plan: confidential outputs first (so that inputs exist), then a mix
	plan := []string{"ain"}
	rest := []string{"plain", "uin", "mixed", "empty", "uinA", "ain", "uin"}
	nBlocks := 4
	if c.Tier == "thorough" {
		nBlocks = 5
	}
	p := r.Perm(len(rest))
	for i := 0; len(plan) < nBlocks; i++ {
		plan = append(plan, rest[p[i]])
	}
	// make sure the plan has a block without confidential parts and one with confidential inputs
	hasPlain, hasIn := false, false
	for _, k := range plan {
		if k == "plain" || k == "empty" {
			hasPlain = true
		}
		if k == "uin" || k == "mixed" || k == "uinA" {
			hasIn = true
		}
	}
	if !hasIn {
		plan[1] = "uin"
	}
	if !hasPlain {
		plan[len(plan)-1] = []string{"plain", "empty"}[r.Intn(2)]
	}

	baseDBs := &nodeDBs{raw: g.CloneDBs(), c: newCtl(), kv: kv, dir: x.newDir()}
	base, err, pan := openWrapped(g, baseDBs)
	if err != nil || pan != nil {
		c.Inconclusive(fmt.Sprintf("base node: %v %v", err, pan))
		return
	}
	defer base.Close()
	lastCommit := chainkit.NilCommit()
	fp := ""
	for bi, kind := range plan {
		height := base.Status.LastBlockHeight + 1
		txs, err := x.ge.fill(base, kind)
		// contract storage: a counter contract is created in the first block and called in later
		// non-empty blocks (at least once per chain)
		if err == nil && kind != "empty" {
			var d string
			if bi == 0 {
				d, err = x.ge.deploy(base)
			} else if r.Bool() || (x.ge.calls == 0 && bi >= len(plan)-2) {
				d, err = x.ge.call(base)
			}
			if d != "" {
				txs = append(txs, d)
			}
		}
		if err != nil {
			c.Inconclusive(fmt.Sprintf("generator: block %d (%s): %v", height, kind, err))
			return
		}
		// some blocks carry duplicate-vote evidence about the previous height (evidence store
		// writes inside ApplyBlock become crash points of their own). The evidence is first added
		// to the node's evidence pool, as gossip would have done on every node before the block
		// arrives (a node that never saw the evidence panics in EvidenceStore.getEvidenceInfo when
		// it applies the block — reported to the lead, not a C13 matter).
		var extra []types.Evidence
		if height >= 2 && r.Chance(0.4) {
			if ev := dupVote(g, base.Status, height-1, r.Intn(len(g.Vals))); ev != nil {
				if err := base.EvPool.AddEvidence(ev); err == nil {
					extra = append(extra, ev)
					txs = append(txs, "duplicate-vote evidence")
				} else {
					c.Count("evidence_rejected_by_pool", 1)
				}
			}
		}
		snap := snapshot(baseDBs)
		block, parts, err := base.Propose(lastCommit, uint64(chainkit.FixedTime.Unix())+height, extra)
		if err != nil {
			c.Inconclusive("propose: " + err.Error())
			return
		}
		blockID := types.BlockID{Hash: block.Hash(), PartsHeader: parts.Header()}
		commit, err := g.MakeCommit(base.Status, base.Status.Validators, height, 0, blockID, nil)
		if err != nil {
			c.Inconclusive("commit: " + err.Error())
			return
		}
		ok, err := base.Accept(block, parts, commit, false)
		if err != nil || !ok {
			c.Inconclusive(fmt.Sprintf("reference replica rejected block %d: %v %v", height, ok, err))
			return
		}
		x.ref.record(base, block)
		x.ge.resolve(base)
		x.ref.recordContracts(base, height, x.ge.contracts)
		info := blockInfo{Height: height, Kind: kind, Txs: txs}
		var spent []*chainkit.OwnedOut
		for _, t := range block.Data.Txs {
			if ut, ok := t.(*types.UTXOTransaction); ok {
				for _, ki := range ut.GetInputKeyImages() {
					info.Inputs++
					if o := x.ge.led.ByImage[*ki]; o != nil {
						spent = append(spent, o)
					}
				}
				for _, o := range ut.Outputs {
					if _, ok := o.(*types.UTXOOutput); ok {
						info.Outs++
					}
				}
			}
		}
		x.ge.led.ScanBlock(block)
		if len(extra) > 0 {
			c.Count("blocks_with_duplicate_vote_evidence", 1)
		}
		if int(block.NumTxs) != len(txs)-len(extra) {
			c.Count("generated_txs_not_in_block", int64(len(txs)-len(extra))-int64(block.NumTxs))
		}
		pb := &pendingBlock{snap: snap, parts: parts, commit: commit, info: info, spent: spent, P: height - 1, contIdx: bi}
		if !x.enumerate(pb) {
			return
		}
		info.W = int64(len(pb.log))
		x.chain = append(x.chain, info)
		lastCommit = commit
		fp += fmt.Sprintf("%s/%d/%d/%d/%d;", kind, len(txs), info.Inputs, info.Outs, len(extra))
		c.Count("blocks_enumerated", 1)
		if info.Inputs > 0 {
			c.Count("blocks_with_conf_inputs", 1)
		}
		if info.Outs > 0 {
			c.Count("blocks_with_conf_outputs", 1)
		}
		if info.Inputs == 0 && info.Outs == 0 {
			c.Count("blocks_without_conf", 1)
		}
	}
	if x.kv {
		c.Count("crash_cases_flatkv", 1)
	} else {
		c.Count("crash_cases_trie", 1)
	}
	var withIn, withOut, without bool
	for _, b := range x.chain {
		withIn = withIn || b.Inputs > 0
		withOut = withOut || b.Outs > 0
		without = without || (b.Inputs == 0 && b.Outs == 0)
	}
	if withIn && withOut && without {
		c.Nontrivial(fmt.Sprintf("crash:%x", rng.Derive(0, fp, int(gseed%1000003)).Uint64()))
	}
	if c.Index%8 == 0 {
		c.Sample(map[string]interface{}{"lane": "crash", "flat_kv_mode": x.kv, "gomaxprocs": x.caseProcs, "chain": x.chain})
	}
}

// enumerate runs the uninterrupted commit (measuring W and the unit log) and then every crash
// point k = 0..W-1 of block pb on fresh clones of the pre-commit databases.
func (x *crashRun) enumerate(pb *pendingBlock) bool {
	c := x.c
	// uninterrupted commit: k = W (acknowledged block)
	procs := x.caseProcs
	t := &trial{Height: pb.P + 1, K: -1, Procs: procs, Block: pb.info.Kind, Txs: pb.info.Txs}
	log, ok := x.runTrial(pb, t, -1, nil)
	if !ok {
		return false
	}
	pb.log = log
	W := int64(len(log))
	c.Max("W", W)
	var first, last int64
	for i, u := range log {
		if u.Class != "" {
			if first == 0 {
				first = int64(i + 1)
			}
			last = int64(i + 1)
		}
	}
	for k := int64(0); k < W; k++ {
		if first > 0 && k >= first && k < last {
			for _, order := range perms {
				t := &trial{Height: pb.P + 1, K: k, W: W, Order: order, Procs: procs, Block: pb.info.Kind, Txs: pb.info.Txs}
				if _, ok := x.runTrial(pb, t, k, newGate(order)); !ok {
					return false
				}
				c.Count("crash_points_forced_order", 1)
			}
			continue
		}
		t := &trial{Height: pb.P + 1, K: k, W: W, Procs: procs, Block: pb.info.Kind, Txs: pb.info.Txs}
		if _, ok := x.runTrial(pb, t, k, nil); !ok {
			return false
		}
	}
	return true
}

// runTrial: commit block pb on a fresh clone with write budget k, "kill" the node, restart it
// from the surviving bytes, evaluate the oracle and let the restarted node continue.
func (x *crashRun) runTrial(pb *pendingBlock, t *trial, k int64, gt *gate) ([]unit, bool) {
	c := x.c
	nd := pb.snap.restore(x.newDir())
	defer os.RemoveAll(nd.dir)
	n, err, pan := openWrapped(x.g, nd)
	if err != nil || pan != nil {
		c.Inconclusive(fmt.Sprintf("trial node on pre-commit clone: %v %v", err, pan))
		return nil, false
	}
	fb, rp, err := decodeFresh(pb.parts)
	if err != nil {
		c.Inconclusive("decode: " + err.Error())
		return nil, false
	}
	if k < 0 {
		// the pre-commit clone is the state of a node stopped cleanly after block P: opening it is
		// a restart without any crash and must give the agreed view of P as well
		t.K, t.W, t.Cut = 0, 0, "clean-restart"
		if n.BlockStore.Height() != pb.P || n.Status.LastBlockHeight != pb.P {
			x.viol(t, "crash/status/height-mismatch-after-restart", fmt.Sprintf("clean restart after block %d: block store height %d, status height %d", pb.P, n.BlockStore.Height(), n.Status.LastBlockHeight), nil)
			n.Close()
			return nil, false
		}
		o := &oracle{c: c, n: n, ref: x.ref, report: func(key, detail string, w interface{}) { x.viol(t, key, detail, w) }}
		if !o.check(pb.P, nil) {
			n.Close()
			return nil, false
		}
		c.Count("clean_restarts", 1)
	}
	if nd.kv {
		nd.c.walPath = filepath.Join(nd.dir, walName)
	}
	nd.c.arm(k, true, gt)
	var acceptErr error
	var acceptPanic interface{}
	func() {
		defer func() { acceptPanic = recover() }()
		_, acceptErr = n.Accept(fb, rp, pb.commit, false)
	}()
	seq, dropped, log := nd.c.units()
	n.Close()
	if nd.kv && k >= 0 && int(k) < len(log) {
		// the undo file is append-only during one commit (after the initial truncation): cut it to
		// what had been written when the first dropped database write was attempted
		os.Truncate(nd.c.walPath, log[k].Wal)
		t.UndoFile = "as of the first dropped database write"
		c.Count("undo_file_cuts", 1)
	}
	if gt != nil {
		gt.stop()
	}
	if gt != nil && gt.giveups > 0 {
		c.Count("gate_giveups", gt.giveups)
	}
	if k < 0 {
		if acceptErr != nil || acceptPanic != nil {
			c.Inconclusive(fmt.Sprintf("uninterrupted commit on the clone failed: %v %v", acceptErr, acceptPanic))
			return nil, false
		}
		t.K, t.W = seq, seq
		pb.log = log
		if nd.kv {
			t.UndoFile = "complete"
		}
	} else {
		if seq != t.W {
			c.Count("trials_with_different_unit_count", 1)
		}
		if dropped == 0 && seq >= k {
			// fewer units than the budget: this run was not interrupted at all
			c.Count("trials_not_interrupted", 1)
		}
	}
	ref := pb.log
	t.Cut = cutLabel(ref, t.K)
	if t.K > 0 && int(t.K) <= len(log) {
		t.Last = fmt.Sprintf("%s %s %q", log[t.K-1].DB, log[t.K-1].Op, log[t.K-1].Key)
	}
	if int(t.K) < len(log) {
		t.Next = fmt.Sprintf("%s %s %q", log[t.K].DB, log[t.K].Op, log[t.K].Key)
	}
	t.Units = logStrings(log)
	c.Count("crash_points", 1)
	c.Count("cut:"+t.Cut, 1)

	var alt *dbSnap
	if nd.kv && k >= 1 && int(k) < len(log) && log[k-1].WalAfter != log[k].Wal {
		alt = snapshot(nd)
	}
	x.judge(pb, t, nd, fb, log)
	if alt != nil {
		// the undo file grew between the last applied and the first dropped database write: the
		// crash may also have hit before that file write
		t2 := *t
		t2.UndoFile = "as of the last applied database write"
		nd4 := alt.restore(x.newDir())
		os.Truncate(filepath.Join(nd4.dir, walName), log[k-1].WalAfter)
		x.judge(pb, &t2, nd4, fb, log)
		os.RemoveAll(nd4.dir)
		c.Count("undo_file_variants", 1)
	}
	return log, true
}

// judge restarts a node from the surviving bytes nd, evaluates the oracle and lets the restarted
// node continue.
func (x *crashRun) judge(pb *pendingBlock, t *trial, nd *nodeDBs, fb *types.Block, log []unit) {
	c := x.c
	// ---- restart from the surviving bytes
	nd2 := nd.reopen()
	rawStatus, _ := consensus.LoadStatus(nd2.wrap("consensus_state", nd2.raw["consensus_state"]))
	var post *dbSnap // the surviving bytes, kept when the restart has to rebuild the status
	if rawStatus.LastBlockHeight+1 == blockchain.LoadBlockStoreStateJSON(nd2.wrap("blockstore", nd2.raw["blockstore"])).Height {
		post = snapshot(nd)
	}
	nd2.c.arm(-1, false, nil)
	n2, err, pan := openWrapped(x.g, nd2)
	if pan != nil {
		x.viol(t, "crash/restart/panic", fmt.Sprintf("OpenNode panicked: %v", pan), nil)
		return
	}
	if err != nil {
		x.viol(t, "crash/restart/error", fmt.Sprintf("OpenNode failed: %v", err), nil)
		return
	}
	defer n2.Close()
	recoveryUnits, _, _ := nd2.c.units()
	c.Count("restarts", 1)
	h := n2.BlockStore.Height()
	P := pb.P
	if h != P && h != P+1 {
		x.viol(t, "crash/blockstore/height-out-of-range", fmt.Sprintf("BlockStore.Height()=%d after a crash while committing %d", h, P+1), nil)
		return
	}
	if h == P+1 {
		c.Count("restart_block_survived", 1)
	} else {
		c.Count("restart_block_lost", 1)
	}
	if t.K >= t.W && h != P+1 {
		x.viol(t, "crash/acknowledged-block-lost", fmt.Sprintf("the commit of block %d returned with every write applied, after restart BlockStore.Height()=%d", P+1, h), nil)
	}
	if rawStatus.LastBlockHeight != h {
		if rawStatus.LastBlockHeight+1 == h {
			c.Count("status_rebuilt", 1)
		} else {
			x.viol(t, "crash/status/persisted-height-unreconcilable", fmt.Sprintf("persisted status height %d, block store height %d", rawStatus.LastBlockHeight, h), nil)
		}
	}
	if n2.Status.LastBlockHeight != h {
		x.viol(t, "crash/status/height-mismatch-after-restart", fmt.Sprintf("status height %d after restart, block store height %d", n2.Status.LastBlockHeight, h), nil)
	}
	var lost *types.Block
	if h == P {
		lost = fb
	}
	o := &oracle{c: c, n: n2, ref: x.ref, report: func(key, detail string, w interface{}) { x.viol(t, key, detail, w) }}
	if h == P+1 && len(pb.spent) > 0 {
		o.consequence = func() (string, interface{}) { return x.tryDoubleSpend(pb, t, n2) }
	}
	consistent := o.check(h, lost)

	// the restarted consensus state must be constructible (reconstructLastCommit reads the seen commit)
	if pan := tryPanic(func() {
		consensus.NewConsensusState(csConfig(), n2.Status.Copy(), n2.BlockExec, n2.App, n2.Mempool, n2.EvPool)
	}); pan != nil {
		x.viol(t, "crash/restart/consensus-state-panic", fmt.Sprintf("NewConsensusState on the restarted node panicked: %v", pan), nil)
		return
	}

	if !consistent {
		return
	}

	// ---- the restarted node must be able to continue
	if h == P {
		fb2, rp2, _ := decodeFresh(pb.parts)
		var ok bool
		var err error
		pan := tryPanic(func() { ok, err = n2.Accept(fb2, rp2, pb.commit, false) })
		if pan != nil || err != nil || !ok {
			x.viol(t, "crash/wedged/cannot-recommit-interrupted-block", fmt.Sprintf("re-accepting block %d after restart: checked=%v err=%v panic=%v", P+1, ok, err, pan), nil)
			return
		}
		c.Count("recommits", 1)
		if !o.check(P+1, nil) {
			return
		}
	}
	x.continueChain(t, n2, pb.commit, o)
	if post != nil && recoveryUnits > 0 {
		x.recoveryCrashes(t, post, recoveryUnits, h)
	}
	return
}

// recoveryCrashes: the restart itself writes (the one-block status rebuild). Crash it after each
// of its writes, restart once more and judge again: recovery must be restartable.
func (x *crashRun) recoveryCrashes(t *trial, post *dbSnap, units int64, h uint64) {
	c := x.c
	t2 := *t
	t2.Cut = t.Cut + "+recovery-interrupted"
	for j := int64(0); j < units; j++ {
		ndj := post.restore(x.newDir())
		ndj.c.arm(j, false, nil)
		if nj, _, _ := openWrapped(x.g, ndj); nj != nil {
			nj.Close()
		}
		nd3 := ndj.reopen()
		n3, err, pan := openWrapped(x.g, nd3)
		c.Count("recovery_crash_points", 1)
		if err != nil || pan != nil {
			x.viol(&t2, "crash/restart/second-restart-failed", fmt.Sprintf("restart interrupted after write %d of %d of its status rebuild; the next OpenNode: err=%v panic=%v", j, units, err, pan), nil)
			continue
		}
		if n3.Status.LastBlockHeight != h || n3.BlockStore.Height() != h {
			x.viol(&t2, "crash/status/height-mismatch-after-restart", fmt.Sprintf("restart interrupted after write %d of %d of its status rebuild; then status height %d, block store height %d (expected %d)", j, units, n3.Status.LastBlockHeight, n3.BlockStore.Height(), h), nil)
		}
		o := &oracle{c: c, n: n3, ref: x.ref, report: func(key, detail string, w interface{}) { x.viol(&t2, key, detail, w) }}
		o.check(h, nil)
		n3.Close()
		os.RemoveAll(ndj.dir)
	}
}

// dupVote builds evidence of two conflicting prevotes of validator vi at height h (the set that
// voted at h is status.LastValidators when status stands at h).
func dupVote(g *chainkit.Genesis, status consensus.NewStatus, h uint64, vi int) types.Evidence {
	vals := status.LastValidators
	if status.LastBlockHeight != h || vals == nil || vals.Size() == 0 {
		return nil
	}
	key := g.Vals[vi]
	mk := func(b byte) *types.Vote {
		id := types.BlockID{Hash: common.BytesToHash(bytes.Repeat([]byte{b}, 32)), PartsHeader: types.PartSetHeader{Total: 1, Hash: bytes.Repeat([]byte{b + 1}, 32)}}
		v, err := g.SignVote(status, vals, key, types.VoteTypePrevote, h, 0, id, chainkit.FixedTime)
		if err != nil {
			return nil
		}
		return v
	}
	a, b := mk(3), mk(9)
	if a == nil || b == nil {
		return nil
	}
	return &types.DuplicateVoteEvidence{PubKey: key.PubKey(), VoteA: a, VoteB: b}
}

func tryPanic(f func()) (pan interface{}) {
	defer func() { pan = recover() }()
	f()
	return nil
}

// continueChain commits one more block carrying a plain transfer on the restarted node.
func (x *crashRun) continueChain(t *trial, n2 *chainkit.Node, lastCommit *types.Commit, o *oracle) {
	c := x.c
	from := int(t.K+int64(t.Height)) % len(x.g.Accounts)
	to := (from + 1) % len(x.g.Accounts)
	nonce := n2.App.GetNonce(x.g.Accounts[from].Addr)
	before := n2.App.GetBalance(x.g.Accounts[to].Addr)
	tx, err := chainkit.NewTransfer(x.g.Accounts[from], nonce, x.g.Accounts[to].Addr, unit15)
	if err != nil {
		c.Inconclusive("continuation tx: " + err.Error())
		return
	}
	if err := n2.Mempool.AddTx("", tx); err != nil {
		x.viol(t, "crash/wedged/mempool-rejects-valid-tx", fmt.Sprintf("after restart the mempool rejects a valid transfer (nonce %d): %v", nonce, err), nil)
		return
	}
	var blk *types.Block
	pan := tryPanic(func() { blk, _, err = n2.Step(x.g, lastCommit) })
	if pan != nil || err != nil {
		x.viol(t, "crash/wedged/cannot-commit-next-block", fmt.Sprintf("committing block %d on the restarted node: err=%v panic=%v", t.Height+1, err, pan), nil)
		return
	}
	if blk.NumTxs != 1 || blk.Data.Txs[0].Hash() != tx.Hash() {
		x.viol(t, "crash/wedged/next-block-misses-tx", fmt.Sprintf("block %d on the restarted node carries %d txs", blk.Height, blk.NumTxs), nil)
		return
	}
	after := n2.App.GetBalance(x.g.Accounts[to].Addr)
	if from != to && new(big.Int).Sub(after, before).Cmp(unit15) != 0 {
		x.viol(t, "crash/continue/transfer-not-applied", fmt.Sprintf("recipient balance moved by %v, expected %v", new(big.Int).Sub(after, before), unit15), nil)
		return
	}
	c.Count("continuations", 1)
	o.ref = nil // the continuation block is not on the reference chain: self-consistency only
	o.check(blk.Height, nil)
}

// tryDoubleSpend: the restarted node has block P+1 stored but forgot (some of) its key images;
// spend one of those outputs again in a new transaction and commit it.
func (x *crashRun) tryDoubleSpend(pb *pendingBlock, t *trial, n2 *chainkit.Node) (string, interface{}) {
	c := x.c
	var in *chainkit.OwnedOut
	for _, o := range pb.spent {
		ki := o.KeyImage
		if !n2.UtxoStore.HaveTxKeyimgAsSpent(&ki) && o.Owner >= 0 {
			in = o
			break
		}
	}
	if in == nil {
		return "", nil
	}
	w := x.ge.ws[in.Owner]
	fee := chainkit.UtxoFeeUinToU(n2.App.GetUTXOGas())
	rest := new(big.Int).Sub(in.Amount, fee)
	if rest.Sign() <= 0 {
		return "", nil
	}
	r := rng.Derive(x.c.Seed, "ds", x.c.Index)
	tx, err := x.ge.led.NewUinTx(r, w, []*chainkit.OwnedOut{in}, 1, []types.DestEntry{chainkit.Dest(w, 1, rest)})
	if err != nil {
		c.Logf("double-spend probe: build: %v", err)
		return "", nil
	}
	if err := n2.Mempool.AddTx("", tx); err != nil {
		c.Count("double_spend_probe_rejected", 1)
		return fmt.Sprintf("(a second spend of output #%d was rejected by the mempool: %v)", in.GIndex, err), nil
	}
	var blk *types.Block
	pan := tryPanic(func() { blk, _, err = n2.Step(x.g, pb.commit) })
	if pan != nil || err != nil || blk == nil || blk.NumTxs != 1 {
		c.Count("double_spend_probe_rejected", 1)
		return fmt.Sprintf("(a second spend of output #%d was admitted to the mempool but not committed: %v %v)", in.GIndex, err, pan), nil
	}
	c.Count("double_spends_committed", 1)
	return fmt.Sprintf("DOUBLE SPEND: output #%d, spent by stored block %d, was spent AGAIN by tx %s which the restarted node admitted and committed in block %d", in.GIndex, t.Height, tx.Hash().Hex(), blk.Height),
		map[string]interface{}{"key_image": fmt.Sprintf("%x", in.KeyImage[:]), "first_spend_block": t.Height, "second_spend_block": blk.Height, "second_spend_tx": tx.Hash().Hex()}
}

func (x *crashRun) viol(t *trial, key, detail string, extra interface{}) {
	if !strings.Contains(key, "@") {
		key += "@" + t.Cut
	}
	x.c.Count("violating_crash_points:"+key, 1)
	if x.seen[key] {
		return // one (the first = smallest) witness per class and case
	}
	x.seen[key] = true
	d := fmt.Sprintf("block %d (%s) crash after unit %d of %d [%s]", t.Height, t.Block, t.K, t.W, t.Cut)
	if t.Last != "" {
		d += " last written: " + t.Last
	}
	if t.Next != "" {
		d += "; first dropped: " + t.Next
	}
	x.c.Violation(key, d+": "+detail, map[string]interface{}{"trial": t, "flat_kv_mode": x.kv, "chain_so_far": x.chain, "observed": extra})
}
