package c13

import (
	"bytes"
	"fmt"
	"sort"
	"strings"

	"github.com/lianxiangcloud/linkchain/consensus"
	"github.com/lianxiangcloud/linkchain/libs/common"
	dbm "github.com/lianxiangcloud/linkchain/libs/db"
	"github.com/lianxiangcloud/linkchain/types"

	"verif/h/internal/chainkit"
	"verif/h/internal/core"
)

// Pruning lane (DESIGN.md §5 C13, second half): grow a chain, call the two pruning entry points
// exactly as node.ClearHistoricalData does, and demand that for every retained height in
// (H-K, H] the block, its parts, commits, index entries, validator set and consensus parameters
// that the harness recorded when the height was committed can be read back unchanged.

const pruneOpBudget = 1000000

var keeps = []uint64{1, 2, 5, 10, 50, 100}

type pruneCase struct {
	K            uint64   `json:"K"`
	Length       int      `json:"chain_length"`
	PruneAt      []uint64 `json:"prune_at_heights"`
	ValChangeAt  []uint64 `json:"validator_change_at_heights"`
	TxAt         []uint64 `json:"tx_at_heights"`
	LongLivedCS  bool     `json:"long_lived_consensus_state"`
	RestartAfter bool     `json:"restart_after_pruning"`
}

// truth is what the harness saw when height h was committed (never read from the databases).
type truth struct {
	BlockHash  common.Hash
	BlockID    types.BlockID
	Parts      int
	TxHashes   []common.Hash
	Vals       *types.ValidatorSet // the set that votes at height h
	ParamsHash []byte
	evidence   types.Evidence // two conflicting prevotes of one validator at height h
}

type pruneRun struct {
	c     *core.Ctx
	g     *chainkit.Genesis
	pc    pruneCase
	nd    *nodeDBs
	n     *chainkit.Node
	cs    *consensus.ConsensusState
	last  *types.Commit
	over  map[string]int64 // validator power override (injected validator changes)
	seen  map[string]bool
	truth map[uint64]*truth
	ticks []uint64
}

func (p *pruneRun) viol(key, detail string, extra interface{}) {
	p.c.Count("violating_observations:"+key, 1)
	if p.seen[key] {
		return
	}
	p.seen[key] = true
	p.c.Violation(key, fmt.Sprintf("K=%d, chain height %d, pruning ticks so far at %v: %s", p.pc.K, p.n.BlockStore.Height(), p.ticks, detail), map[string]interface{}{"case": p.pc, "observed": extra})
}

func (p *pruneRun) statusDB() dbm.DB { return p.n.DBs["consensus_state"] }

// step commits one block; validator changes are injected at the validators argument of ApplyBlock
// (the value the application returns from CommitBlock), which is where the white-list contract's
// result enters the consensus status.
func (p *pruneRun) step(withTx bool, from int) error {
	n, g := p.n, p.g
	height := n.Status.LastBlockHeight + 1
	if withTx {
		a := g.Accounts[from%len(g.Accounts)]
		tx, err := chainkit.NewTransfer(a, n.App.GetNonce(a.Addr), g.Accounts[(from+1)%len(g.Accounts)].Addr, unit15)
		if err != nil {
			return err
		}
		if err := n.Mempool.AddTx("", tx); err != nil {
			return fmt.Errorf("AddTx: %v", err)
		}
	}
	block, parts, err := n.Propose(p.last, uint64(chainkit.FixedTime.Unix())+height, nil)
	if err != nil {
		return err
	}
	blockID := types.BlockID{Hash: block.Hash(), PartsHeader: parts.Header()}
	commit, err := g.MakeCommit(n.Status, n.Status.Validators, height, 0, blockID, nil)
	if err != nil {
		return err
	}
	if !n.App.CheckBlock(block) {
		return fmt.Errorf("CheckBlock rejected own block %d", height)
	}
	vals, err := n.App.CommitBlock(block, parts, commit, false)
	if err != nil {
		return err
	}
	if len(p.over) > 0 {
		var nv []*types.Validator
		for _, v := range vals {
			pw := v.VotingPower
			if o, ok := p.over[v.Address.String()]; ok {
				pw = o
			}
			nv = append(nv, &types.Validator{Address: v.Address, PubKey: v.PubKey, CoinBase: v.CoinBase, VotingPower: pw})
		}
		vals = nv
	}
	tr := &truth{BlockHash: block.Hash(), BlockID: blockID, Parts: parts.Total(), Vals: n.Status.Validators.Copy(), ParamsHash: n.Status.ConsensusParams.Hash()}
	for _, t := range block.Data.Txs {
		tr.TxHashes = append(tr.TxHashes, t.Hash())
	}
	tr.evidence = p.dupVoteEvidence(height, tr.Vals)
	ns, err := n.BlockExec.ApplyBlock(n.Status.Copy(), blockID, block, vals)
	if err != nil {
		return fmt.Errorf("ApplyBlock: %v", err)
	}
	n.Status = ns
	p.last = commit
	p.truth[height] = tr
	if p.cs != nil {
		p.cs.Height = ns.LastBlockHeight + 1 // what updateToStatus does in the running node
	}
	return nil
}

func (p *pruneRun) dupVoteEvidence(h uint64, vals *types.ValidatorSet) types.Evidence {
	key := p.g.Vals[int(h)%len(p.g.Vals)]
	mk := func(b byte) *types.Vote {
		id := types.BlockID{Hash: common.BytesToHash(bytes.Repeat([]byte{b}, 32)), PartsHeader: types.PartSetHeader{Total: 1, Hash: bytes.Repeat([]byte{b + 1}, 32)}}
		v, err := p.g.SignVote(p.n.Status, vals, key, types.VoteTypePrevote, h, 0, id, chainkit.FixedTime)
		if err != nil {
			return nil
		}
		return v
	}
	a, b := mk(1), mk(7)
	if a == nil || b == nil {
		return nil
	}
	return &types.DuplicateVoteEvidence{PubKey: key.PubKey(), VoteA: a, VoteB: b}
}

func trimErr(s string) string {
	s = strings.Join(strings.Fields(s), " ")
	if len(s) > 160 {
		s = s[:160]
	}
	return s
}

// checkRetained evaluates the oracle for every retained height of the window (H-K, H].
func (p *pruneRun) checkRetained() {
	c, n := p.c, p.n
	K := p.pc.K
	H := n.Status.LastBlockHeight
	lo := uint64(1)
	if H > K {
		lo = H - K + 1
	}
	bs := n.BlockStore
	for h := lo; h <= H; h++ {
		tr := p.truth[h]
		if tr == nil {
			continue
		}
		c.Count("retained_heights_checked", 1)
		where := fmt.Sprintf("retained height %d of (%d,%d]", h, lo-1, H)
		var gotHash common.Hash
		gotParts, seen, commit, metaOK := 0, false, false, false
		if pan := tryPanic(func() {
			if b := bs.LoadBlock(h); b != nil {
				gotHash = b.Hash()
			}
			if m := bs.LoadBlockMeta(h); m != nil {
				metaOK = m.BlockID.Equals(tr.BlockID)
			}
			for i := 0; i < tr.Parts; i++ {
				if bs.LoadBlockPart(h, i) != nil {
					gotParts++
				}
			}
			seen = bs.LoadSeenCommit(h) != nil
			commit = bs.LoadBlockCommit(h) != nil
		}); pan != nil {
			p.viol("prune/blockstore/retained-read-panics", fmt.Sprintf("%s: reading the block store panicked: %v", where, pan), nil)
			continue
		}
		if gotHash != tr.BlockHash {
			p.viol("prune/blockstore/retained-block-missing", fmt.Sprintf("%s: LoadBlock gives %s, committed block is %s", where, gotHash.Hex(), tr.BlockHash.Hex()), nil)
		}
		if !metaOK {
			p.viol("prune/blockstore/retained-meta-missing", where+": LoadBlockMeta is nil or names another block", nil)
		}
		if gotParts != tr.Parts {
			p.viol("prune/blockstore/retained-parts-missing", fmt.Sprintf("%s: %d of %d block parts readable", where, gotParts, tr.Parts), nil)
		}
		if !seen {
			p.viol("prune/blockstore/retained-seen-commit-missing", where+": LoadSeenCommit = nil", nil)
		}
		if h < H && !commit {
			p.viol("prune/blockstore/retained-block-commit-missing", where+": LoadBlockCommit = nil", nil)
		}
		for _, th := range tr.TxHashes {
			var tx types.Tx
			tryPanic(func() { tx, _ = bs.GetTx(th) })
			if tx == nil || tx.Hash() != th {
				p.viol("prune/blockstore/retained-tx-not-indexed", where+": GetTx(hash) does not return a transaction of a retained block", nil)
			}
		}
		// validators
		var vals *types.ValidatorSet
		var verr error
		vpan := tryPanic(func() { vals, _, verr = consensus.LoadValidators(p.statusDB(), h) })
		valsOK := false
		switch {
		case vpan != nil:
			p.viol("prune/consensus/retained-validators-fallback-panic", fmt.Sprintf("%s: LoadValidators panicked: %s", where, trimErr(fmt.Sprint(vpan))),
				map[string]interface{}{"status_LastHeightValidatorsChanged": n.Status.LastHeightValidatorsChanged})
		case verr != nil || vals == nil:
			p.viol("prune/consensus/retained-validators-missing", fmt.Sprintf("%s: LoadValidators: %v", where, verr), nil)
		case !bytes.Equal(vals.Hash(), tr.Vals.Hash()):
			p.viol("prune/consensus/retained-validators-wrong", fmt.Sprintf("%s: LoadValidators returns set %X, the set voting at that height was %X", where, vals.Hash(), tr.Vals.Hash()), nil)
		default:
			valsOK = true
		}
		// consensus params
		var params types.ConsensusParams
		var perr error
		ppan := tryPanic(func() { params, perr = consensus.LoadConsensusParams(p.statusDB(), h) })
		switch {
		case ppan != nil:
			p.viol("prune/consensus/retained-params-fallback-panic", fmt.Sprintf("%s: LoadConsensusParams panicked: %s", where, trimErr(fmt.Sprint(ppan))), nil)
		case perr != nil:
			p.viol("prune/consensus/retained-params-missing", fmt.Sprintf("%s: LoadConsensusParams: %v", where, perr), nil)
		case !bytes.Equal(params.Hash(), tr.ParamsHash):
			p.viol("prune/consensus/retained-params-wrong", where+": LoadConsensusParams returns other parameters than were in force", nil)
		}
		// what the records are needed for: judging the height's commit and evidence about it
		if valsOK {
			if seen {
				tryPanic(func() {
					if err := vals.VerifyCommit(n.Status.ChainID, tr.BlockID, h, bs.LoadSeenCommit(h)); err != nil {
						p.viol("prune/retained-commit-does-not-verify", fmt.Sprintf("%s: %v", where, err), nil)
					}
					c.Count("retained_commits_verified", 1)
				})
			}
			if tr.evidence != nil {
				var everr error
				if epan := tryPanic(func() { everr = consensus.VerifyEvidence(p.statusDB(), n.Status, tr.evidence) }); epan != nil || everr != nil {
					p.viol("prune/consensus/retained-height-evidence-unverifiable", fmt.Sprintf("%s: VerifyEvidence of a duplicate vote at that height: err=%v panic=%v", where, everr, epan), nil)
				}
				c.Count("evidence_probes", 1)
			}
		}
	}
}

// tick runs one tick of node.ClearHistoricalData and the retained-window oracle.
func (p *pruneRun) tick() (abort bool) {
	c, n := p.c, p.n
	K := p.pc.K
	H := n.BlockStore.Height()
	p.ticks = append(p.ticks, H)
	cstate := p.cs
	if cstate == nil {
		// a node restarted just before the tick
		if pan := tryPanic(func() {
			cstate = consensus.NewConsensusState(csConfig(), n.Status.Copy(), n.BlockExec, n.App, n.Mempool, n.EvPool)
		}); pan != nil {
			p.viol("prune/consensus-state-construction-panic", fmt.Sprintf("NewConsensusState: %v", pan), nil)
			return true
		}
	}
	shorter := ""
	if H < K {
		shorter = "/chain-shorter-than-keep"
	}

	// --- n.blockStore.DeleteHistoricalData(K)
	p.nd.c.resetOps(pruneOpBudget)
	pan := tryPanic(func() { n.BlockStore.DeleteHistoricalData(K) })
	ops, dels := p.nd.c.ops, p.nd.c.deletes
	p.nd.c.resetOps(0)
	c.Count("blockstore_prune_calls", 1)
	if _, over := pan.(opBudgetExceeded); over {
		p.viol("prune/blockstore/unbounded-deletion"+shorter,
			fmt.Sprintf("BlockStore.DeleteHistoricalData(%d) at height %d did not return within %d database operations (%d keys deleted by then); blocks still readable: %d of %d", K, H, pruneOpBudget, dels, p.readable(H), H), nil)
		return true
	} else if pan != nil {
		p.viol("prune/blockstore/panic"+shorter, fmt.Sprintf("BlockStore.DeleteHistoricalData(%d) at height %d panicked: %v", K, H, pan), nil)
		return true
	}
	c.Max("blockstore_prune_ops", ops)

	// --- n.consensusState.DeleteHistoricalData(K)
	p.nd.c.resetOps(pruneOpBudget)
	pan = tryPanic(func() { cstate.DeleteHistoricalData(K) })
	ops = p.nd.c.ops
	p.nd.c.resetOps(0)
	c.Count("consensus_prune_calls", 1)
	if _, over := pan.(opBudgetExceeded); over {
		p.viol("prune/consensus/unbounded-deletion"+shorter, fmt.Sprintf("ConsensusState.DeleteHistoricalData(%d) at height %d did not return within %d database operations", K, H, pruneOpBudget), nil)
		return true
	} else if pan != nil {
		p.viol("prune/consensus/panic"+shorter, fmt.Sprintf("ConsensusState.DeleteHistoricalData(%d) at height %d panicked: %v", K, H, pan), nil)
		return true
	}
	c.Max("consensus_prune_ops", ops)

	if n.BlockStore.Height() != H {
		p.viol("prune/blockstore/height-changed", fmt.Sprintf("BlockStore.Height() %d -> %d", H, n.BlockStore.Height()), nil)
	}
	p.checkRetained()
	return false
}

func (p *pruneRun) readable(H uint64) int {
	cnt := 0
	for h := uint64(1); h <= H; h++ {
		tryPanic(func() {
			if p.n.BlockStore.LoadBlock(h) != nil {
				cnt++
			}
		})
	}
	return cnt
}

func (p *pruneRun) restart() bool {
	p.n.Close()
	nd2 := p.nd.reopen()
	n2, err, pan := openWrapped(p.g, nd2)
	if err != nil || pan != nil {
		p.viol("prune/restart-failed", fmt.Sprintf("OpenNode after pruning: err=%v panic=%v", err, pan), nil)
		return false
	}
	p.nd, p.n = nd2, n2
	var cstate *consensus.ConsensusState
	if pan := tryPanic(func() {
		cstate = consensus.NewConsensusState(csConfig(), n2.Status.Copy(), n2.BlockExec, n2.App, n2.Mempool, n2.EvPool)
	}); pan != nil {
		p.viol("prune/restart-consensus-state-panic", fmt.Sprintf("NewConsensusState after pruning: %v", pan), nil)
		return false
	}
	if p.pc.LongLivedCS {
		p.cs = cstate
	} else {
		p.cs = nil
	}
	p.c.Count("prune_restarts", 1)
	return true
}

func runPrune(c *core.Ctx) {
	r := c.Rng
	gseed := r.Uint64()
	g, err := chainkit.BuildGenesis(chainkit.GenesisOpts{Seed: gseed, NumAccounts: 3, Powers: []int64{10, 10, 10, 10}})
	if err != nil {
		c.Inconclusive("genesis: " + err.Error())
		return
	}
	maxLen := 40
	pc := pruneCase{K: keeps[r.Intn(len(keeps))], Length: 1 + r.Intn(maxLen), LongLivedCS: r.Bool(), RestartAfter: r.Chance(0.7)}
	if r.Chance(0.25) { // lengths around K (boundary)
		pc.Length = int(pc.K) - 2 + r.Intn(5)
		if pc.Length < 1 {
			pc.Length = 1
		}
		if pc.Length > maxLen {
			pc.Length = maxLen
		}
	}
	set := func(n int) []uint64 {
		m := map[uint64]bool{}
		for i := 0; i < n; i++ {
			m[uint64(1+r.Intn(pc.Length))] = true
		}
		var out []uint64
		for h := range m {
			out = append(out, h)
		}
		sort.Slice(out, func(i, j int) bool { return out[i] < out[j] })
		return out
	}
	pc.PruneAt = set(r.Intn(3))
	if len(pc.PruneAt) == 0 || pc.PruneAt[len(pc.PruneAt)-1] != uint64(pc.Length) {
		pc.PruneAt = append(pc.PruneAt, uint64(pc.Length))
	}
	pc.ValChangeAt = set(r.Intn(4))
	pc.TxAt = set(pc.Length / 3)

	p := &pruneRun{c: c, g: g, pc: pc, over: map[string]int64{}, seen: map[string]bool{}, truth: map[uint64]*truth{}, last: chainkit.NilCommit()}
	p.nd = &nodeDBs{raw: g.CloneDBs(), c: newCtl()}
	var pan interface{}
	p.n, err, pan = openWrapped(g, p.nd)
	if err != nil || pan != nil {
		c.Inconclusive(fmt.Sprintf("node: %v %v", err, pan))
		return
	}
	defer func() { p.n.Close() }()
	if pc.LongLivedCS {
		p.cs = consensus.NewConsensusState(csConfig(), p.n.Status.Copy(), p.n.BlockExec, p.n.App, p.n.Mempool, p.n.EvPool)
	}
	in := func(l []uint64, h uint64) bool {
		for _, v := range l {
			if v == h {
				return true
			}
		}
		return false
	}
	aborted := false
	for h := uint64(1); h <= uint64(pc.Length) && !aborted; h++ {
		if in(pc.ValChangeAt, h) {
			v := g.Vals[int(h)%len(g.Vals)]
			p.over[v.Address().String()] = 10 + int64(h)
		}
		var err error
		if pan := tryPanic(func() { err = p.step(in(pc.TxAt, h), int(h)) }); pan != nil || err != nil {
			if len(p.ticks) > 0 {
				p.viol("prune/cannot-continue-chain", fmt.Sprintf("committing block %d after pruning: err=%v panic=%v", h, err, pan), nil)
			} else {
				c.Inconclusive(fmt.Sprintf("chain generation: block %d: %v %v", h, err, pan))
			}
			return
		}
		c.Count("prune_blocks", 1)
		if in(pc.PruneAt, h) {
			aborted = p.tick()
			c.Count("prune_ticks", 1)
			if pc.K > h {
				c.Count("prune_ticks_keep_gt_length", 1)
			} else if pc.K < h {
				c.Count("prune_ticks_keep_lt_length", 1)
			}
		}
	}
	if p.n.Status.LastHeightValidatorsChanged > 1 {
		c.Count("prune_chains_with_validator_change", 1)
	}
	if !aborted && pc.RestartAfter {
		if p.restart() {
			// continue the chain by two blocks and tick once more (persisted start heights)
			for i := 0; i < 2 && !aborted; i++ {
				var err error
				if pan := tryPanic(func() { err = p.step(i == 0, i) }); pan != nil || err != nil {
					p.viol("prune/cannot-continue-chain", fmt.Sprintf("committing block %d after pruning and restart: err=%v panic=%v", p.n.Status.LastBlockHeight+1, err, pan), nil)
					aborted = true
				}
			}
			if !aborted {
				c.Count("prune_continuations", 1)
				p.tick()
				c.Count("prune_ticks", 1)
			}
		}
	}
	c.Nontrivial(fmt.Sprintf("prune:K%d:L%d:%v:%v:%v", pc.K, pc.Length, pc.PruneAt, pc.ValChangeAt, pc.LongLivedCS))
	if c.Index%16 == 1 {
		c.Sample(map[string]interface{}{"lane": "prune", "case": pc})
	}
}
