package c13

import (
	"io/ioutil"
	"os"
	"path/filepath"
	"strings"
	"sync"
	"sync/atomic"
	"time"

	dbm "github.com/lianxiangcloud/linkchain/libs/db"
	lvlerrors "github.com/syndtr/goleveldb/leveldb/errors"
)

// crashdb (DESIGN.md §4.3): a dbm.DB wrapper handed to every store of one node. All wrappers of a
// node share one controller that numbers every mutating unit globally (Set, SetSync, Put, Delete,
// DeleteSync, Del = one unit each; a non-empty Batch Write/Commit/WriteSync = ONE atomic unit).
// Armed with budget k it lets exactly k units through and silently drops every later one: the
// surviving bytes are those of a process killed right after its k-th durable write. It never
// panics on the write path (SaveBlock writes from helper goroutines).
//
// The wrapper also gives the in-memory backend the read semantics of the production backend
// (goleveldb): Load/Exist of a missing key return leveldb's ErrNotFound (MemDB returns nil,nil),
// and keys/values are copied on the way in and out (MemDB stores and returns the caller's slices).

type unit struct {
	DB       string `json:"db"`
	Op       string `json:"op"`
	Key      string `json:"key"`
	N        int    `json:"n,omitempty"` // entries of a batch
	Class    string `json:"class,omitempty"`
	Wal      int64  `json:"-"` // size of the flat mode's undo file when the unit was attempted
	WalAfter int64  `json:"-"` // ... and right after it was applied
}

type opBudgetExceeded struct{ ops int64 }

type ctl struct {
	mu      sync.Mutex
	seq     int64
	budget  int64 // < 0: unlimited
	dropped int64
	record  bool
	log     []unit
	gate    *gate

	walPath string // flat mode: the undo file whose size is sampled at every unit

	ops     int64 // all operations (reads, writes, iterator creations), atomic
	deletes int64
	opLimit int64 // 0: none; exceeding it panics in the calling goroutine (pruning lane only)
}

func newCtl() *ctl { return &ctl{budget: -1} }

// arm resets the unit counter and sets the budget; the unit log restarts.
func (c *ctl) arm(budget int64, record bool, g *gate) {
	c.mu.Lock()
	c.seq, c.dropped, c.budget, c.record, c.log, c.gate = 0, 0, budget, record, nil, g
	c.mu.Unlock()
}

func (c *ctl) units() (seq, dropped int64, log []unit) {
	c.mu.Lock()
	defer c.mu.Unlock()
	return c.seq, c.dropped, append([]unit{}, c.log...)
}

func (c *ctl) op() {
	n := atomic.AddInt64(&c.ops, 1)
	if lim := atomic.LoadInt64(&c.opLimit); lim > 0 && n > lim {
		panic(opBudgetExceeded{n})
	}
}

func (c *ctl) resetOps(limit int64) {
	atomic.StoreInt64(&c.ops, 0)
	atomic.StoreInt64(&c.deletes, 0)
	atomic.StoreInt64(&c.opLimit, limit)
}

func keyLabel(key []byte) string {
	printable := true
	for _, b := range key {
		if b < 0x20 || b > 0x7e {
			printable = false
			break
		}
	}
	if printable {
		if len(key) > 24 {
			return string(key[:24]) + "…"
		}
		return string(key)
	}
	const hexd = "0123456789abcdef"
	n := len(key)
	if n > 6 {
		n = 6
	}
	out := make([]byte, 0, 2+2*n)
	out = append(out, '0', 'x')
	for _, b := range key[:n] {
		out = append(out, hexd[b>>4], hexd[b&15])
	}
	return string(out) + "…"
}

// classify names the three concurrent writers inside BlockStore.SaveBlock.
func classify(db, op string, key []byte) string {
	switch db {
	case "blockstore":
		if op == "Set" {
			if strings.HasPrefix(string(key), "BR:") {
				return "A"
			}
			if strings.HasPrefix(string(key), "BTR:") {
				return "B"
			}
		}
	case "txmgr":
		return "C"
	}
	return ""
}

func (c *ctl) write(db, op string, key []byte, n int, apply func()) {
	c.op()
	if strings.HasPrefix(op, "Del") {
		atomic.AddInt64(&c.deletes, 1)
	}
	cls := classify(db, op, key)
	c.mu.Lock()
	g := c.gate
	c.mu.Unlock()
	if g != nil && cls != "" {
		g.wait(cls)
	}
	c.mu.Lock()
	c.seq++
	allowed := c.budget < 0 || c.seq <= c.budget
	if c.record {
		u := unit{DB: db, Op: op, Key: keyLabel(key), N: n, Class: cls}
		if c.walPath != "" {
			if fi, err := os.Stat(c.walPath); err == nil {
				u.Wal = fi.Size()
			}
		}
		c.log = append(c.log, u)
	}
	if allowed {
		apply()
	} else {
		c.dropped++
	}
	if c.record && c.walPath != "" {
		if fi, err := os.Stat(c.walPath); err == nil {
			c.log[len(c.log)-1].WalAfter = fi.Size()
		}
	}
	c.mu.Unlock()
	if g != nil && cls != "" {
		g.done(cls, op, key)
	}
}

// gate forces one of the 3! relative orders of SaveBlock's three writer goroutines: a writer of
// class X is held at its first write until every class ordered before X has finished writing
// (A: receipts, B: txs result, C: tx index batch(es) + the closing SetSync(nil,nil) of txmgr).
// It only orders the first SaveBlock after arming; afterwards it is inert.
type gate struct {
	mu       sync.Mutex
	cond     *sync.Cond
	order    string // permutation of "ABC"
	finished map[byte]bool
	released bool
	giveups  int64
	timer    *time.Timer
}

func newGate(order string) *gate {
	g := &gate{order: order, finished: map[byte]bool{}}
	g.cond = sync.NewCond(&g.mu)
	// liveness fallback only (a writer the gate waits for never shows up, e.g. on a modified
	// tree): it releases the forced order, it never decides anything.
	g.timer = time.AfterFunc(10*time.Second, func() {
		g.mu.Lock()
		g.released = true
		g.mu.Unlock()
		g.cond.Broadcast()
	})
	return g
}

func (g *gate) stop() { g.timer.Stop() }

func (g *gate) readyLocked(cls string) bool {
	if g.released || g.finished[cls[0]] {
		return true
	}
	for i := 0; i < len(g.order) && g.order[i] != cls[0]; i++ {
		if !g.finished[g.order[i]] {
			return false
		}
	}
	return true
}

func (g *gate) wait(cls string) {
	g.mu.Lock()
	for !g.readyLocked(cls) {
		g.cond.Wait()
	}
	if g.released && !g.finished[cls[0]] {
		g.giveups++
	}
	g.mu.Unlock()
}

func (g *gate) done(cls, op string, key []byte) {
	g.mu.Lock()
	switch cls {
	case "A", "B":
		g.finished[cls[0]] = true
	case "C":
		if op == "SetSync" && len(key) == 0 {
			g.finished['C'] = true
		}
	}
	g.mu.Unlock()
	g.cond.Broadcast()
}

// ---------------------------------------------------------------- DB

type crashDB struct {
	name  string
	inner dbm.DB
	c     *ctl
	dir   string // reported by Dir() when set (flat state mode keeps its undo file there)
}

var _ dbm.DB = (*crashDB)(nil)

func cp(b []byte) []byte {
	if b == nil {
		return nil
	}
	return append([]byte{}, b...)
}

func (d *crashDB) Get(key []byte) []byte { d.c.op(); return cp(d.inner.Get(key)) }
func (d *crashDB) Load(key []byte) ([]byte, error) {
	d.c.op()
	v, err := d.inner.Load(key)
	if err == nil && v == nil {
		return nil, lvlerrors.ErrNotFound
	}
	return cp(v), err
}
func (d *crashDB) Has(key []byte) bool { d.c.op(); return d.inner.Has(key) }
func (d *crashDB) Exist(key []byte) (bool, error) {
	d.c.op()
	ok, err := d.inner.Exist(key)
	if err == nil && !ok {
		return false, lvlerrors.ErrNotFound
	}
	return ok, err
}
func (d *crashDB) Set(key, value []byte) {
	k, v := cp(key), cp(value)
	d.c.write(d.name, "Set", key, 0, func() { d.inner.Set(k, v) })
}
func (d *crashDB) Put(key, value []byte) error {
	k, v := cp(key), cp(value)
	d.c.write(d.name, "Put", key, 0, func() { d.inner.Put(k, v) })
	return nil
}
func (d *crashDB) SetSync(key, value []byte) {
	k, v := cp(key), cp(value)
	d.c.write(d.name, "SetSync", key, 0, func() { d.inner.SetSync(k, v) })
}
func (d *crashDB) Delete(key []byte) {
	k := cp(key)
	d.c.write(d.name, "Delete", key, 0, func() { d.inner.Delete(k) })
}
func (d *crashDB) Del(key []byte) error {
	k := cp(key)
	d.c.write(d.name, "Del", key, 0, func() { d.inner.Del(k) })
	return nil
}
func (d *crashDB) DeleteSync(key []byte) {
	k := cp(key)
	d.c.write(d.name, "DeleteSync", key, 0, func() { d.inner.DeleteSync(k) })
}
func (d *crashDB) Iterator(start, end []byte) dbm.Iterator {
	d.c.op()
	return &crashIter{d.inner.Iterator(start, end), d.c}
}
func (d *crashDB) ReverseIterator(start, end []byte) dbm.Iterator {
	d.c.op()
	return &crashIter{d.inner.ReverseIterator(start, end), d.c}
}
func (d *crashDB) NewIteratorWithPrefix(prefix []byte) dbm.Iterator {
	d.c.op()
	return &crashIter{d.inner.NewIteratorWithPrefix(prefix), d.c}
}
func (d *crashDB) Dir() string {
	if d.dir != "" {
		return d.dir
	}
	return d.inner.Dir()
}
func (d *crashDB) Close()                   {}
func (d *crashDB) Print()                   {}
func (d *crashDB) Stats() map[string]string { return d.inner.Stats() }
func (d *crashDB) NewBatch() dbm.Batch {
	return &crashBatch{d: d, inner: d.inner.NewBatch()}
}

type crashIter struct {
	dbm.Iterator
	c *ctl
}

func (it *crashIter) Next() bool    { it.c.op(); return it.Iterator.Next() }
func (it *crashIter) Key() []byte   { return cp(it.Iterator.Key()) }
func (it *crashIter) Value() []byte { return cp(it.Iterator.Value()) }

type crashBatch struct {
	d     *crashDB
	inner dbm.Batch
	n     int
	first []byte
	dels  int
}

func (b *crashBatch) Set(key, value []byte) {
	if b.n == 0 {
		b.first = cp(key)
	}
	b.n++
	b.inner.Set(cp(key), cp(value))
}
func (b *crashBatch) Delete(key []byte) {
	if b.n == 0 {
		b.first = cp(key)
	}
	b.n++
	b.dels++
	b.inner.Delete(cp(key))
}
func (b *crashBatch) flush(op string, f func()) {
	if b.n == 0 {
		return // an empty batch is no write at all
	}
	atomic.AddInt64(&b.d.c.deletes, int64(b.dels))
	b.d.c.write(b.d.name, op, b.first, b.n, f)
}
func (b *crashBatch) Write()        { b.flush("Batch", b.inner.Write) }
func (b *crashBatch) WriteSync()    { b.flush("Batch", b.inner.WriteSync) }
func (b *crashBatch) Commit() error { b.flush("Batch", func() { b.inner.Commit() }); return nil }
func (b *crashBatch) ValueSize() int {
	return b.inner.ValueSize()
}
func (b *crashBatch) Reset() { b.inner.Reset(); b.n, b.dels, b.first = 0, 0, nil }

// ---------------------------------------------------------------- node databases

// nodeDBs is the set of raw MemDBs of one node plus the controller its wrappers share. In flat
// (key/value) state mode dir is the node's private directory holding the undo file kvState.wal.
type nodeDBs struct {
	raw map[string]dbm.DB
	c   *ctl
	kv  bool
	dir string
}

const walName = "kvState.wal"

func (nd *nodeDBs) wrap(name string, db dbm.DB) dbm.DB {
	d := &crashDB{name: name, inner: db, c: nd.c}
	if name == "state" && nd.kv {
		d.dir = nd.dir
	}
	return d
}

type dbSnap struct {
	dbs map[string][][2][]byte
	kv  bool
	wal []byte
}

// snapshot copies every key/value of the raw databases (values are never mutated in place: the
// wrapper copies on the way in and out, so clones may share them) and, in flat mode, the undo file.
func snapshot(nd *nodeDBs) *dbSnap {
	out := &dbSnap{dbs: map[string][][2][]byte{}, kv: nd.kv}
	for name, db := range nd.raw {
		var kvs [][2][]byte
		it := db.Iterator(nil, nil)
		for ; it.Valid(); it.Next() {
			kvs = append(kvs, [2][]byte{it.Key(), it.Value()})
		}
		it.Close()
		out.dbs[name] = kvs
	}
	if nd.kv {
		out.wal, _ = ioutil.ReadFile(filepath.Join(nd.dir, walName))
	}
	return out
}

// restore builds fresh databases from the snapshot; dir is the new node's private directory.
func (s *dbSnap) restore(dir string) *nodeDBs {
	nd := &nodeDBs{raw: map[string]dbm.DB{}, c: newCtl(), kv: s.kv, dir: dir}
	for name, kvs := range s.dbs {
		db := dbm.NewMemDB()
		for _, kv := range kvs {
			db.Set(kv[0], kv[1])
		}
		nd.raw[name] = db
	}
	if s.kv {
		os.MkdirAll(dir, 0755)
		ioutil.WriteFile(filepath.Join(dir, walName), s.wal, 0600)
	}
	return nd
}

// reopen returns the same bytes (databases and directory) under a fresh controller: what a
// restarted process sees.
func (nd *nodeDBs) reopen() *nodeDBs {
	return &nodeDBs{raw: nd.raw, c: newCtl(), kv: nd.kv, dir: nd.dir}
}
