package c13

import (
	"fmt"
	"math/big"

	"github.com/lianxiangcloud/linkchain/libs/common"
	"github.com/lianxiangcloud/linkchain/types"

	"verif/h/internal/chainkit"
	"verif/h/internal/rng"
)

// gen is the workload generator: really signed plain transfers and confidential transfers
// (account->confidential, confidential->confidential, confidential->account) submitted through
// the real mempool of the proposing node; the ledger is the generator-side knowledge of the
// hidden pool (owner, amount, mask, key image and global index of every confidential output).
type gen struct {
	g     *chainkit.Genesis
	r     *rng.R
	ws    []*chainkit.UWallet
	led   *chainkit.Ledger
	nonce []uint64

	contracts []common.Address // deployed counter contracts
	deploying []common.Hash    // creation transactions not yet resolved to an address
	calls     int
}

// counterInit is the init code of a contract whose runtime is
//
//	PUSH1 0 SLOAD PUSH1 1 ADD PUSH1 0 SSTORE STOP
//
// i.e. every call increments storage slot 0 (a storage write that depends on the previous value).
var counterInit = []byte{
	0x60, 0x0a, 0x60, 0x0c, 0x60, 0x00, 0x39, 0x60, 0x0a, 0x60, 0x00, 0xf3, // CODECOPY(0, 12, 10); RETURN(0, 10)
	0x60, 0x00, 0x54, 0x60, 0x01, 0x01, 0x60, 0x00, 0x55, 0x00,
}

func (ge *gen) deploy(n *chainkit.Node) (string, error) {
	from := ge.r.Intn(len(ge.g.Accounts))
	tx, err := chainkit.NewContractCreation(ge.g.Accounts[from], ge.nonce[from], big.NewInt(0), 500000, counterInit)
	if err != nil {
		return "", err
	}
	if err := n.Mempool.AddTx("", tx); err != nil {
		return "", fmt.Errorf("AddTx create: %v", err)
	}
	ge.nonce[from]++
	ge.deploying = append(ge.deploying, tx.Hash())
	return fmt.Sprintf("create counter contract a%d", from), nil
}

func (ge *gen) call(n *chainkit.Node) (string, error) {
	if len(ge.contracts) == 0 {
		return "", nil
	}
	from := ge.r.Intn(len(ge.g.Accounts))
	to := ge.contracts[ge.r.Intn(len(ge.contracts))]
	tx, err := chainkit.NewCall(ge.g.Accounts[from], ge.nonce[from], to, big.NewInt(0), 200000, nil)
	if err != nil {
		return "", err
	}
	if err := n.Mempool.AddTx("", tx); err != nil {
		return "", fmt.Errorf("AddTx call: %v", err)
	}
	ge.nonce[from]++
	ge.calls++
	return fmt.Sprintf("call counter contract a%d", from), nil
}

// resolve learns the addresses of the contracts created by the block just committed on n.
func (ge *gen) resolve(n *chainkit.Node) {
	var left []common.Hash
	for _, h := range ge.deploying {
		if rc, _, _, _ := n.BlockStore.GetTransactionReceipt(h); rc != nil && rc.ContractAddress != (common.Address{}) {
			ge.contracts = append(ge.contracts, rc.ContractAddress)
		} else {
			left = append(left, h)
		}
	}
	ge.deploying = left
}

func newGen(g *chainkit.Genesis, r *rng.R, seed uint64) *gen {
	ws := []*chainkit.UWallet{chainkit.NewUWallet(seed, 0, 2), chainkit.NewUWallet(seed, 1, 2)}
	return &gen{g: g, r: r, ws: ws, led: chainkit.NewLedger(ws), nonce: make([]uint64, len(g.Accounts))}
}

var unit20, _ = new(big.Int).SetString("100000000000000000000", 10) // 100 LKC
var unit19, _ = new(big.Int).SetString("10000000000000000000", 10)  // 10 LKC
var unit15 = big.NewInt(1000000000000000)

func (ge *gen) plain(n *chainkit.Node) (string, error) {
	from := ge.r.Intn(len(ge.g.Accounts))
	to := ge.r.Intn(len(ge.g.Accounts))
	val := new(big.Int).Mul(unit15, big.NewInt(int64(1+ge.r.Intn(1000))))
	tx, err := chainkit.NewTransfer(ge.g.Accounts[from], ge.nonce[from], ge.g.Accounts[to].Addr, val)
	if err != nil {
		return "", err
	}
	if err := n.Mempool.AddTx("", tx); err != nil {
		return "", fmt.Errorf("AddTx plain: %v", err)
	}
	ge.nonce[from]++
	return fmt.Sprintf("plain a%d->a%d", from, to), nil
}

// ain: account -> 1..3 confidential outputs.
func (ge *gen) ain(n *chainkit.Node) (string, error) {
	from := ge.r.Intn(len(ge.g.Accounts))
	nout := 1 + ge.r.Intn(3)
	var dests []types.DestEntry
	total := new(big.Int)
	for i := 0; i < nout; i++ {
		amt := new(big.Int).Mul(unit20, big.NewInt(int64(1+ge.r.Intn(3))))
		w := ge.ws[ge.r.Intn(len(ge.ws))]
		dests = append(dests, chainkit.Dest(w, uint64(ge.r.Intn(len(w.Subs))), amt))
		total.Add(total, amt)
	}
	tx, err := chainkit.NewAinTx(ge.g.Accounts[from], ge.nonce[from], dests, chainkit.UtxoFeeAinToU(total))
	if err != nil {
		return "", err
	}
	if err := n.Mempool.AddTx("", tx); err != nil {
		return "", fmt.Errorf("AddTx A->U: %v", err)
	}
	ge.nonce[from]++
	return fmt.Sprintf("A->U a%d outs=%d", from, nout), nil
}

func (ge *gen) pickSpendable() (*chainkit.UWallet, *chainkit.OwnedOut) {
	start := ge.r.Intn(len(ge.ws))
	for i := 0; i < len(ge.ws); i++ {
		w := ge.ws[(start+i)%len(ge.ws)]
		sp := ge.led.Spendable(w, common.EmptyAddress)
		if len(sp) > 0 {
			return w, sp[ge.r.Intn(len(sp))]
		}
	}
	return nil, nil
}

// uinU: confidential -> 1..2 confidential outputs, ring size 1 or 3..5.
func (ge *gen) uinU(n *chainkit.Node) (string, error) {
	w, in := ge.pickSpendable()
	if in == nil {
		return "", nil
	}
	fee := chainkit.UtxoFeeUinToU(n.App.GetUTXOGas())
	rest := new(big.Int).Sub(in.Amount, fee)
	if rest.Sign() <= 0 {
		return "", nil
	}
	ring := 1
	if ge.r.Bool() {
		ring = 3 + ge.r.Intn(3)
	}
	to := ge.ws[ge.r.Intn(len(ge.ws))]
	dests := []types.DestEntry{}
	if ge.r.Bool() && rest.Cmp(unit19) > 0 {
		dests = append(dests, chainkit.Dest(to, uint64(ge.r.Intn(len(to.Subs))), unit19))
		dests = append(dests, chainkit.Dest(w, 0, new(big.Int).Sub(rest, unit19)))
	} else {
		dests = append(dests, chainkit.Dest(to, uint64(ge.r.Intn(len(to.Subs))), rest))
	}
	tx, err := ge.led.NewUinTx(ge.r, w, []*chainkit.OwnedOut{in}, ring, dests)
	if err != nil {
		return "", err
	}
	if err := n.Mempool.AddTx("", tx); err != nil {
		return "", fmt.Errorf("AddTx U->U: %v", err)
	}
	in.Pending = true
	return fmt.Sprintf("U->U w%d ring=%d outs=%d", w.ID, ring, len(dests)), nil
}

// uinA: confidential -> account.
func (ge *gen) uinA(n *chainkit.Node) (string, error) {
	w, in := ge.pickSpendable()
	if in == nil {
		return "", nil
	}
	fee := chainkit.UtxoFeeUinToA(in.Amount)
	out := new(big.Int).Sub(in.Amount, fee)
	if out.Sign() <= 0 {
		return "", nil
	}
	to := ge.r.Intn(len(ge.g.Accounts))
	ring := 1 + 2*ge.r.Intn(2)
	tx, err := ge.led.NewUinTx(ge.r, w, []*chainkit.OwnedOut{in}, ring, []types.DestEntry{&types.AccountDestEntry{To: ge.g.Accounts[to].Addr, Amount: out}})
	if err != nil {
		return "", err
	}
	if err := n.Mempool.AddTx("", tx); err != nil {
		return "", fmt.Errorf("AddTx U->A: %v", err)
	}
	in.Pending = true
	return fmt.Sprintf("U->A w%d ring=%d to=a%d", w.ID, ring, to), nil
}

// fill submits the transactions of one block of the given kind and returns their descriptions.
func (ge *gen) fill(n *chainkit.Node, kind string) ([]string, error) {
	var out []string
	add := func(f func(*chainkit.Node) (string, error), times int) error {
		for i := 0; i < times; i++ {
			d, err := f(n)
			if err != nil {
				return err
			}
			if d != "" {
				out = append(out, d)
			}
		}
		return nil
	}
	var err error
	switch kind {
	case "empty":
	case "plain":
		err = add(ge.plain, 1+ge.r.Intn(3))
	case "ain":
		err = add(ge.ain, 1+ge.r.Intn(2))
	case "uin":
		if err = add(ge.uinU, 1); err == nil && ge.r.Bool() {
			err = add(ge.uinA, 1)
		}
	case "uinA":
		err = add(ge.uinA, 1)
	case "mixed":
		if err = add(ge.plain, 1+ge.r.Intn(2)); err == nil {
			if err = add(ge.ain, 1); err == nil {
				err = add(ge.uinU, 1)
			}
		}
	}
	return out, err
}
