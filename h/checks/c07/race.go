package c07

import (
	"crypto/sha256"
	"fmt"
	"runtime"
	"sort"
	"sync"
	"sync/atomic"

	"github.com/lianxiangcloud/linkchain/libs/common"
	"github.com/lianxiangcloud/linkchain/types"

	"verif/h/internal/chainkit"
	"verif/h/internal/core"
)

// ---------------------------------------------------------------- C07R: the concurrent mempool lane
//
// ONE real node. Eight goroutines submit conflicting spends of a few "hot" outputs, competing transactions at
// the same account nonces, replays of committed transactions and (as separately decoded objects, like copies
// arriving from several peers) replays of each other's submissions to the node's pool, while the main goroutine
// runs commit cycles on the same application (CreateBlock/PreRunBlock/CheckBlock/CommitBlock = the consensus
// caller). This is exactly the concurrency a production node has on one application (DESIGN.md §4.1).
// Oracles: pool snapshot rule during the storm and at every barrier; of the conflicting spends of one output at
// most one submission is ever accepted; submissions that re-use a committed input are refused under every
// interleaving; the history oracle over the chain read back from the block store; the race detector.

const submitters = 8

func init() {
	core.Register(&core.Check{
		ID:        "C07R",
		Level:     "exploration",
		Technique: "race-detector lane of C07: real mempool admission from 8 goroutines against concurrent commit cycles on one real application; pool-snapshot rule, accept log and history oracle over the chain read back from the block store",
		Rule: "case = one node; after funding blocks, 3-4 storms: per storm 3-4 hot outputs with 4-6 conflicting spends each (ring size 1 and >1, some spending two hot outputs), 2 accounts with 3/2/1 competing txs at nonces n/n+1/n+2, replays of committed account and confidential txs, re-spends of committed inputs, in-tx duplicates; " +
			"every tx is handed to 1-3 of 8 goroutines as separately decoded copies in shuffled order; a storm has 2-3 phases, in each the submitters and one commit cycle of the main goroutine start together and end at a barrier; the pool is drained after the last barrier. " +
			"violation = a pool snapshot with two txs sharing a key image, two conflicting spends of one output both accepted, an accepted re-use of a committed input, any refuting event of the C07 history oracle on the read-back chain, or a race report in repository code. " +
			"non-trivial = >=1 hot output was committed while >=1 competing spend of it was refused, and >=1 submission started while a commit cycle was in progress; distinct by hash of the committed tx hashes",
		Assumptions: []string{
			"interleavings are those the Go scheduler produces under -race with GOMAXPROCS of the machine; no schedule is forced",
			"only one application lives in the process during a storm (the repository's process-global singletons would make two applications race in a way no deployment can)",
			"mempool age-based dropping is disabled (GoodTxDropTime = infinity) so that no wall-clock value decides an outcome",
		},
		Race: true,
		Cases: func(tier string) int {
			if tier == "thorough" {
				return thoroughRaceCases
			}
			return quickRaceCases
		},
		Batch:  func(tier string) int { return 2 },
		Run:    runRace,
		Floors: func(tier string) map[string]int64 { return raceFloors(tier) },
		Init:   initProcess,
	})
}

const (
	quickRaceCases    = 24
	thoroughRaceCases = 384
)

// roughly half of the minimum observed over VERIF_SEED=1..5 at the quick tier (24 cases, -race binary)
var quickRaceFloors = map[string]int64{
	"storms": 39,
	"submissions_started_during_a_commit_cycle": 2000,
	"storm_phases":             90,
	"blocks_committed":         109,
	"restarts":                 12,
	"hot_outputs_committed":    130,
	"competing_spends_refused": 960,
	"storm:competing-spend-of-hot-output:double-spend":               750,
	"storm:competing-tx-at-one-nonce:nonce-too-low":                  390,
	"storm:replay-of-committed-account-tx:nonce-too-low":             115,
	"storm:replay-of-committed-confidential-tx:double-spend":         78,
	"storm:respend-of-committed-input:double-spend":                  105,
	"storm:same-key-image-twice-in-one-tx:input-KeyImage-duplicated": 55,
	"pool_snapshots_checked":                                         120,
	"oracle_blocks_read_back":                                        109,
	"oracle_key_images_checked":                                      175,
	"oracle_account_nonces_checked":                                  425,
}

func raceFloors(tier string) map[string]int64 {
	scale := int64(1)
	if tier == "thorough" {
		scale = thoroughRaceCases / quickRaceCases
	}
	out := map[string]int64{}
	for k, v := range quickRaceFloors {
		out[k] = v * scale
	}
	return out
}

type job struct {
	tx     types.Tx
	attack string
	hot    []int // indices of the hot outputs the tx spends
	must   bool  // must be refused under every interleaving
	err    error
	// submitted is set by the submitter goroutine after AddTx returned (read by the main goroutine after the barrier)
	submitted bool
}

type storm struct {
	lists [submitters][]*job
	hot   []*chainkit.OwnedOut
	all   []*job
}

// give hands copies of tx (separately decoded objects) to 1..maxCopies distinct submitters.
func (s *storm) give(e *env, tx types.Tx, attack string, hot []int, must bool, maxCopies int) {
	copies := e.r.Range(1, maxCopies)
	for _, g := range e.r.Perm(submitters)[:copies] {
		j := &job{tx: cloneTx(tx), attack: attack, hot: hot, must: must}
		s.lists[g] = append(s.lists[g], j)
		s.all = append(s.all, j)
	}
}

func (e *env) buildStorm() *storm {
	r := e.r
	s := &storm{}
	// hot outputs: a few free outputs everybody fights over
	free := e.freeOuts()
	k := r.Range(3, 4)
	if k > len(free) {
		k = len(free)
	}
	for _, i := range r.Perm(len(free))[:k] {
		s.hot = append(s.hot, free[i])
	}
	for _, o := range s.hot {
		o.Pending = true // keeps them out of "extra input" choices
	}
	for hi, o := range s.hot {
		m := r.Range(4, 6)
		for i := 0; i < m; i++ {
			ring := 1
			if i%2 == 1 {
				ring = e.otherRing(1)
			}
			tx, err := e.newSpend(e.ownerOf(o), []*chainkit.OwnedOut{o}, ring, r.Chance(0.2))
			if err != nil {
				e.c.Count("attack_build_failed", 1)
				continue
			}
			s.give(e, tx, "competing-spend-of-hot-output", []int{hi}, false, 2)
		}
	}
	// some transactions spend two hot outputs of one owner at once
	for a := 0; a < len(s.hot); a++ {
		for b := a + 1; b < len(s.hot); b++ {
			if s.hot[a].Owner == s.hot[b].Owner && r.Chance(0.6) {
				ins := []*chainkit.OwnedOut{s.hot[a], s.hot[b]}
				if tx, err := e.newSpend(e.ownerOf(s.hot[a]), ins, e.pickRing(), false); err == nil {
					s.give(e, tx, "competing-spend-of-hot-output", []int{a, b}, false, 2)
				}
			}
		}
	}
	// competing account transactions: different signed txs at the same nonces, each possibly arriving several times
	for _, acct := range r.Perm(numAccounts)[:2] {
		n := e.committed[acct]
		for off, cnt := range []int{3, 2, 1} {
			for i := 0; i < cnt; i++ {
				tx, _ := e.newAccountTx(acct, n+uint64(off))
				s.give(e, tx, "competing-tx-at-one-nonce", nil, false, 3)
			}
		}
	}
	// re-use of inputs that are already in the chain: refused whatever the interleaving
	for i := 0; i < 3 && len(e.oldAcct) > 0; i++ {
		s.give(e, e.oldAcct[r.Intn(len(e.oldAcct))], "replay-of-committed-account-tx", nil, true, 2)
	}
	for i := 0; i < 3 && len(e.oldSpends) > 0; i++ {
		s.give(e, e.oldSpends[r.Intn(len(e.oldSpends))], "replay-of-committed-confidential-tx", nil, true, 2)
	}
	if spent := e.spentOuts(); len(spent) > 0 {
		for i := 0; i < 2; i++ {
			o := spent[r.Intn(len(spent))]
			if tx, err := e.newSpend(e.ownerOf(o), []*chainkit.OwnedOut{o}, e.otherRing(e.spentBy[o]), false); err == nil {
				s.give(e, tx, "respend-of-committed-input", nil, true, 2)
			}
		}
	}
	if rest := e.freeOuts(); len(rest) > 0 {
		if tx, err := e.dupInTx(rest[r.Intn(len(rest))], e.pickRing()); err == nil {
			s.give(e, tx, "same-key-image-twice-in-one-tx", nil, true, 2)
		}
	}
	for g := range s.lists {
		l := s.lists[g]
		sh := make([]*job, len(l))
		for i, p := range r.Perm(len(l)) {
			sh[i] = l[p]
		}
		s.lists[g] = sh
	}
	return s
}

func runRace(c *core.Ctx) {
	e, err := newEnv(c, true)
	if err != nil {
		c.Inconclusive("setup: " + err.Error())
		return
	}
	defer e.close()
	r := c.Rng
	A := e.A
	// scheduler pressure: the number of Ps differs from case to case (chosen from the seed, not from the machine)
	defer runtime.GOMAXPROCS(runtime.GOMAXPROCS([]int{2, 4, 8, 16}[r.Intn(4)]))

	commit := func() (*types.Block, bool) {
		b, cm, err := A.Step(e.g, e.lastCommit)
		if err != nil {
			// a proposer that cannot execute the block it reaped from its own pool: look at what the pool holds
			checkPool(c, A.Node, "pool after the proposer failed to execute the block it reaped")
			if !c.Violated() {
				c.Inconclusive(fmt.Sprintf("commit cycle at height %d failed: %v", A.Status.LastBlockHeight+1, err))
			} else {
				c.Logf("commit cycle failed after a recorded violation: %v", err)
			}
			return nil, false
		}
		e.lastCommit = cm
		return b, true
	}

	// funding (sequential)
	for blk := 0; blk < 2; blk++ {
		for i := 0; i < r.Range(5, 7); i++ {
			acct := r.Intn(numAccounts)
			if e.submitHonest(e.newAin(acct, e.next[acct]), "account-to-hidden") {
				e.next[acct]++
			}
		}
		e.honestAccountTxs(2)
		if blk == 1 {
			e.honestSpends(3) // so that later storms have committed key images to replay
		}
		b, ok := commit()
		if !ok {
			return
		}
		e.afterCommit(b)
	}

	// Re-open the node over its databases: the pool (and its dedup cache) is fresh, so replays of what was committed
	// so far reach the state checks instead of the cache, and the spent set the storms run against is the persisted one.
	A.Close()
	nn, err := chainkit.OpenNode(e.g, A.DBs, chainkit.NodeOpts{})
	if err != nil {
		c.Inconclusive("re-open: " + err.Error())
		return
	}
	A.Node = nn
	A.restarted = true
	c.Count("restarts", 1)

	storms := r.Range(3, 4)
	hotCommittedWithLosers := 0
	commitsDuringStorm := 0
	overlapped := int64(0)
	for si := 0; si < storms; si++ {
		copy(e.next, e.committed)
		s := e.buildStorm()
		if len(s.hot) == 0 {
			c.Count("storms_without_hot_outputs", 1)
			break
		}
		// The storm runs in 2-3 phases. In every phase the submitters and one commit cycle start together (so admission
		// overlaps CreateBlock/PreRunBlock/CheckBlock/CommitBlock whatever the machine's speed); the phase ends at a barrier.
		phases := r.Range(2, 3)
		var inCommit int32
		overlap := make([]int64, submitters)
		var blocks []*types.Block
		failed := false
		for p := 0; p < phases && !failed; p++ {
			start := make(chan struct{})
			var wg sync.WaitGroup
			for g := 0; g < submitters; g++ {
				l := s.lists[g]
				wg.Add(1)
				go func(g int, list []*job) {
					defer wg.Done()
					<-start
					for i, j := range list {
						if atomic.LoadInt32(&inCommit) == 1 {
							overlap[g]++
						}
						j.err = A.Mempool.AddTx("", j.tx)
						j.submitted = true
						if i%3 == 2 {
							runtime.Gosched()
						}
					}
				}(g, l[len(l)*p/phases:len(l)*(p+1)/phases])
			}
			atomic.StoreInt32(&inCommit, 1)
			close(start)
			b, ok := commit()
			atomic.StoreInt32(&inCommit, 0)
			if ok {
				blocks = append(blocks, b)
				commitsDuringStorm++
				checkPool(c, A.Node, "pool during the storm")
			} else {
				failed = true
			}
			wg.Wait() // barrier
			checkPool(c, A.Node, "pool at the barrier")
			c.Count("storm_phases", 1)
		}
		for _, n := range overlap {
			overlapped += n
			c.Count("submissions_started_during_a_commit_cycle", n)
		}
		c.Count("storms", 1)
		if !failed {
			// drain the pool
			for d := 0; d < 4; d++ {
				snap := A.Mempool.VerifSnapshot()
				if len(snap.Good)+len(snap.Utxo) == 0 {
					break
				}
				b, ok := commit()
				if !ok {
					failed = true
					break
				}
				blocks = append(blocks, b)
				checkPool(c, A.Node, "pool while draining")
			}
		}
		for _, b := range blocks {
			e.afterCommit(b)
		}
		// accept log of the storm
		accepted := make([]map[common.Hash]bool, len(s.hot))
		refused := make([]int, len(s.hot))
		for i := range accepted {
			accepted[i] = map[common.Hash]bool{}
		}
		for _, j := range s.all {
			if !j.submitted {
				continue // a failed commit cycle ended the storm early
			}
			cls := errClass(j.err)
			c.Count("storm_submissions", 1)
			c.Count("storm:"+j.attack+":"+cls, 1)
			if j.must {
				c.Count("attempts_total", 1)
				if j.err == nil {
					c.Violation("race/mempool/"+j.attack+"/accepted", fmt.Sprintf("the pool accepted a transaction (%s) re-using a committed input under concurrent submission: %s", shortHash(j.tx.Hash()), j.attack),
						map[string]interface{}{"attack": j.attack, "tx": j.tx.Hash().String(), "key_images": kiStrings(j.tx), "height": A.Status.LastBlockHeight, "chain": e.blockLog})
				} else {
					c.Count("refused:"+j.attack, 1)
				}
			}
			for _, h := range j.hot {
				if j.err == nil {
					accepted[h][j.tx.Hash()] = true
				} else {
					refused[h]++
				}
			}
		}
		for h, o := range s.hot {
			if len(accepted[h]) > 1 {
				var hs []string
				for x := range accepted[h] {
					hs = append(hs, x.String())
				}
				sort.Strings(hs)
				c.Violation("race/mempool/two-conflicting-spends-both-accepted", fmt.Sprintf("%d different transactions spending the same output (key image %x) were all accepted by one pool", len(hs), o.KeyImage[:8]),
					map[string]interface{}{"key_image": fmt.Sprintf("%x", o.KeyImage[:]), "accepted": hs, "height": A.Status.LastBlockHeight, "chain": e.blockLog})
			}
			c.Count("hot_outputs", 1)
			if len(accepted[h]) == 1 {
				c.Count("hot_outputs_with_exactly_one_accepted_spend", 1)
			}
			if o.Spent {
				c.Count("hot_outputs_committed", 1)
				if refused[h] > 0 {
					hotCommittedWithLosers++
				}
			} else {
				o.Pending = false
			}
			c.Count("competing_spends_refused", int64(refused[h]))
		}
		if failed {
			break
		}
	}

	st := checkChain(c, A.Node, "node", genesisNonce)
	c.Count("oracle_blocks_read_back", st.Blocks)
	c.Count("oracle_txs_read_back", st.Txs)
	c.Count("oracle_key_images_checked", st.KeyImages)
	c.Count("oracle_account_nonces_checked", st.Nonces)
	c.Max("chain_height", int64(A.BlockStore.Height()))
	if hotCommittedWithLosers > 0 && commitsDuringStorm > 0 && overlapped > 0 {
		c.Nontrivial(chainFingerprint(A.Node))
	}
	if c.Index%8 == 0 {
		c.Sample(map[string]interface{}{"case": c.Index, "chain": e.blockLog, "storms": storms, "commits_during_storms": commitsDuringStorm, "submissions_started_during_a_commit_cycle": overlapped, "hot_outputs_committed_with_refused_competitors": hotCommittedWithLosers})
	}
}

func chainFingerprint(n *chainkit.Node) string {
	hs := sha256.New()
	for h := uint64(1); h <= n.BlockStore.Height(); h++ {
		if b := n.BlockStore.LoadBlock(h); b != nil {
			for _, tx := range b.Data.Txs {
				hs.Write(tx.Hash().Bytes())
			}
		}
	}
	return fmt.Sprintf("%x", hs.Sum(nil)[:8])
}
