package c07

import (
	"fmt"

	"github.com/lianxiangcloud/linkchain/libs/common"
	lt "github.com/lianxiangcloud/linkchain/libs/cryptonote/types"
	"github.com/lianxiangcloud/linkchain/types"

	"verif/h/internal/chainkit"
	"verif/h/internal/core"
)

// ---------------------------------------------------------------- history monitor
//
// The oracle reads the committed chain BACK from the node's block store (never from harness
// memory) and evaluates the three refuting events of the property over it:
//   - a key image that occurs twice in the multiset of key images of all committed
//     confidential transactions,
//   - a sender whose sequence of executed account nonces (plain / token transactions and the
//     AccountInput of confidential transactions share the account nonce) is not n0, n0+1, ...,
//   - a signed transaction hash that was executed twice.
// Nothing else is demanded.

type txLoc struct {
	Height uint64 `json:"height"`
	Index  int    `json:"index"`
	Hash   string `json:"tx"`
}

type chainStats struct {
	Blocks, Txs, KeyImages, Nonces int64
	Senders                        int
}

// genesisNonce returns the nonce the sender had in the genesis state (n0).
type nonceSource func(addr common.Address) uint64

// acctUse returns (sender, nonce, true) if tx consumes an account nonce.
func acctUse(tx types.Tx) (common.Address, uint64, bool, error) {
	switch t := tx.(type) {
	case *types.Transaction:
		from, err := t.From()
		return from, t.Nonce(), true, err
	case *types.TokenTransaction:
		from, err := t.From()
		return from, t.Nonce(), true, err
	case *types.ContractUpgradeTx:
		from, err := t.From()
		return from, t.Nonce(), true, err
	case *types.UTXOTransaction:
		for _, in := range t.Inputs {
			if ai, ok := in.(*types.AccountInput); ok {
				from, err := t.From()
				return from, ai.Nonce, true, err
			}
		}
	}
	return common.Address{}, 0, false, nil
}

// keyImagesOf lists the key images of tx in input order (nil for non-confidential transactions).
func keyImagesOf(tx types.Tx) []lt.Key {
	u, ok := tx.(*types.UTXOTransaction)
	if !ok {
		return nil
	}
	var out []lt.Key
	for _, in := range u.Inputs {
		if ui, ok := in.(*types.UTXOInput); ok {
			out = append(out, ui.KeyImage)
		}
	}
	return out
}

// checkChain evaluates the history oracle over heights 1..node.BlockStore.Height() of node.
// who names the node in keys' details only; the violation keys are stable classes.
func checkChain(c *core.Ctx, node *chainkit.Node, who string, n0 nonceSource) chainStats {
	var st chainStats
	H := node.BlockStore.Height()
	seenKI := map[lt.Key]txLoc{}
	seenTx := map[common.Hash]txLoc{}
	next := map[common.Address]uint64{}
	var order []common.Address
	for h := uint64(1); h <= H; h++ {
		b := node.BlockStore.LoadBlock(h)
		if b == nil {
			c.Inconclusive(fmt.Sprintf("block %d of %s cannot be read back from the block store (height %d)", h, who, H))
			return st
		}
		st.Blocks++
		for i, tx := range b.Data.Txs {
			st.Txs++
			loc := txLoc{h, i, tx.Hash().String()}
			if prev, dup := seenTx[tx.Hash()]; dup {
				pos := "later-block"
				if prev.Height == h {
					pos = "same-block"
				}
				c.Violation("chain/tx-hash-executed-twice/"+pos, fmt.Sprintf("%s: transaction %s committed at height %d index %d and again at height %d index %d",
					who, loc.Hash, prev.Height, prev.Index, h, i), map[string]interface{}{"node": who, "first": prev, "second": loc, "type": tx.TypeName()})
			} else {
				seenTx[tx.Hash()] = loc
			}
			inTx := map[lt.Key]bool{}
			for _, ki := range keyImagesOf(tx) {
				st.KeyImages++
				if inTx[ki] {
					c.Violation("chain/key-image-repeated/same-tx", fmt.Sprintf("%s: key image %x occurs twice inside committed transaction %s (height %d index %d)", who, ki[:8], loc.Hash, h, i),
						map[string]interface{}{"node": who, "tx": loc, "key_image": fmt.Sprintf("%x", ki[:])})
					continue
				}
				inTx[ki] = true
				if prev, dup := seenKI[ki]; dup {
					pos := "later-block"
					if prev.Height == h {
						pos = "same-block"
					}
					c.Violation("chain/key-image-repeated/"+pos, fmt.Sprintf("%s: key image %x committed in %s (height %d index %d) and again in %s (height %d index %d)",
						who, ki[:8], prev.Hash, prev.Height, prev.Index, loc.Hash, h, i), map[string]interface{}{"node": who, "first": prev, "second": loc, "key_image": fmt.Sprintf("%x", ki[:])})
					continue
				}
				seenKI[ki] = loc
			}
			from, nonce, uses, err := acctUse(tx)
			if err != nil {
				c.Violation("chain/committed-tx-without-recoverable-sender", fmt.Sprintf("%s: %s at height %d index %d: %v", who, loc.Hash, h, i, err), loc)
				continue
			}
			if !uses {
				continue
			}
			st.Nonces++
			want, known := next[from]
			if !known {
				want = n0(from)
				order = append(order, from)
			}
			switch {
			case nonce == want:
				next[from] = want + 1
			case nonce < want:
				next[from] = want
				c.Violation("chain/account-nonce-executed-twice", fmt.Sprintf("%s: sender %s executed nonce %d at height %d index %d (tx %s) although its next nonce was %d",
					who, from.String(), nonce, h, i, loc.Hash, want), map[string]interface{}{"node": who, "tx": loc, "sender": from.String(), "nonce": nonce, "expected": want, "type": tx.TypeName()})
			default:
				next[from] = nonce + 1
				c.Violation("chain/account-nonce-gap", fmt.Sprintf("%s: sender %s executed nonce %d at height %d index %d (tx %s) although its next nonce was %d",
					who, from.String(), nonce, h, i, loc.Hash, want), map[string]interface{}{"node": who, "tx": loc, "sender": from.String(), "nonce": nonce, "expected": want, "type": tx.TypeName()})
			}
		}
	}
	// the state's next nonce must be where the executed sequence ended ("only at its sender's exact next nonce")
	if len(order) > 0 {
		sdb := node.App.VerifStoreState()
		for _, a := range order {
			if got := sdb.GetNonce(a); got != next[a] {
				c.Violation("chain/state-nonce-differs-from-executed-sequence", fmt.Sprintf("%s: sender %s has state nonce %d after a committed nonce sequence ending at %d", who, a.String(), got, next[a]),
					map[string]interface{}{"node": who, "sender": a.String(), "state_nonce": got, "sequence_next": next[a]})
			}
		}
	}
	st.Senders = len(order)
	return st
}

// checkPool evaluates the pool rule on a snapshot taken under the pool's own lock:
// no two pooled transactions (pending or queued) may share a key image.
func checkPool(c *core.Ctx, node *chainkit.Node, where string) int {
	s := node.Mempool.VerifSnapshot()
	seen := map[lt.Key]string{}
	n := 0
	visit := func(list string, txs []types.Tx) {
		for _, tx := range txs {
			n++
			inTx := map[lt.Key]bool{}
			for _, ki := range keyImagesOf(tx) {
				if inTx[ki] {
					c.Violation("pool/pooled-tx-repeats-key-image", fmt.Sprintf("%s: pooled transaction %s (%s list) carries key image %x twice", where, tx.Hash().String(), list, ki[:8]),
						map[string]interface{}{"where": where, "tx": tx.Hash().String(), "key_image": fmt.Sprintf("%x", ki[:])})
					continue
				}
				inTx[ki] = true
				if other, dup := seen[ki]; dup {
					c.Violation("pool/two-pooled-txs-share-key-image", fmt.Sprintf("%s: pooled transactions %s and %s both spend key image %x", where, other, tx.Hash().String(), ki[:8]),
						map[string]interface{}{"where": where, "first": other, "second": tx.Hash().String(), "key_image": fmt.Sprintf("%x", ki[:]), "pool_height": s.Height})
					continue
				}
				seen[ki] = tx.Hash().String()
			}
		}
	}
	visit("good", s.Good)
	visit("utxo", s.Utxo)
	visit("spec", s.Spec)
	for _, l := range s.Future {
		visit("future", l)
	}
	c.Count("pool_snapshots_checked", 1)
	c.Count("pool_snapshot_txs_seen", int64(n))
	return n
}
