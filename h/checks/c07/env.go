package c07

import (
	"fmt"
	"math/big"
	"strings"
	"sync"

	"github.com/lianxiangcloud/linkchain/libs/common"
	"github.com/lianxiangcloud/linkchain/libs/log"
	"github.com/lianxiangcloud/linkchain/libs/ser"
	"github.com/lianxiangcloud/linkchain/mempool"
	"github.com/lianxiangcloud/linkchain/types"

	"verif/h/internal/chainkit"
	"verif/h/internal/core"
	"verif/h/internal/rng"
	"verif/shim/goshim"
)

// ---------------------------------------------------------------- process-wide setup

const (
	numAccounts = 6
	numWallets  = 3
	numSubs     = 2
)

var (
	lkc     = common.EmptyAddress
	tokenID = common.HexToAddress("0x00000000000000000000000000000000c07c07c0") // a plain token id funded at genesis (account-based transfers only)
	e15     = big.NewInt(1000000000000000)
	e18     = new(big.Int).Mul(e15, big.NewInt(1000))
	genOnce sync.Once
	gen     *chainkit.Genesis
	genErr  error
	// pristine is a node that stays at the genesis state; the history oracle asks it for n0.
	pristine *chainkit.Node
)

func initProcess() {
	core.QuietLogs()
	// No wall-clock value may decide anything: pooled transactions are never dropped for age.
	mempool.GoodTxDropTime = 1 << 62
}

// genesis is the same for every case (a constant of the check, not of the case): six funded
// accounts, four validators of equal power, the eight system contracts.
func genesis() (*chainkit.Genesis, error) {
	genOnce.Do(func() {
		gen, genErr = chainkit.BuildGenesis(chainkit.GenesisOpts{Seed: 0xC07, NumAccounts: numAccounts, Powers: []int64{10, 10, 10, 10},
			Tokens: []common.Address{tokenID}, TokenBalance: big.NewInt(1000000000000)})
		if genErr == nil {
			pristine, genErr = gen.NewNode(chainkit.NodeOpts{})
		}
	})
	return gen, genErr
}

func genesisNonce(addr common.Address) uint64 { return pristine.App.VerifStoreState().GetNonce(addr) }

// ---------------------------------------------------------------- small helpers

func errClass(err error) string {
	if err == nil {
		return "accepted"
	}
	s := err.Error()
	if len(s) > 48 {
		s = s[:48]
	}
	return strings.Join(strings.Fields(s), "-")
}

const (
	clsDupInTx  = "input-KeyImage-duplicated"
	clsDouble   = "double-spend"
	clsLow      = "nonce-too-low"
	clsHigh     = "nonce-too-high"
	clsCached   = "tx-duplicate-cached"
	clsKIDomain = "image-not-in-valid-domain"
	clsBadSig   = "verify-rct-signature-failed"
)

// cloneTx returns a fresh object decoded from tx's wire form (cold caches), as a peer's copy would be.
func cloneTx(tx types.Tx) types.Tx {
	bz, err := ser.EncodeToBytes(&tx)
	if err != nil {
		panic(fmt.Sprintf("encode tx: %v", err))
	}
	var out types.Tx
	if err := ser.DecodeBytes(bz, &out); err != nil {
		panic(fmt.Sprintf("decode tx: %v", err))
	}
	return out
}

func insertAt(txs types.Txs, pos int, tx types.Tx) types.Txs {
	out := make(types.Txs, 0, len(txs)+1)
	out = append(out, txs[:pos]...)
	out = append(out, tx)
	out = append(out, txs[pos:]...)
	return out
}

func shortHash(h common.Hash) string { return h.String()[:12] }

func mul(a *big.Int, k int64) *big.Int { return new(big.Int).Mul(a, big.NewInt(k)) }

// ---------------------------------------------------------------- case environment

type tnode struct {
	*chainkit.Node
	name      string // "proposer" | "replica"
	restarted bool
	reasons   []string // error classes the application logged while refusing to execute a block
}

// tap attaches a logger to the node's application that records WHY processBlock refused a block
// (the error the application itself reports; CheckBlock only returns a bool).
func (n *tnode) tap() {
	lg := log.New()
	lg.SetHandler(log.FuncHandler(func(r *log.Record) error {
		if r.Lvl > log.LvlError || !strings.HasPrefix(r.Msg, "processBlock:") {
			return nil
		}
		for i := 0; i+1 < len(r.Ctx); i += 2 {
			if k, ok := r.Ctx[i].(string); ok && k == "err" {
				if err, ok := r.Ctx[i+1].(error); ok {
					n.reasons = append(n.reasons, errClass(err))
				} else {
					n.reasons = append(n.reasons, strings.Join(strings.Fields(fmt.Sprint(r.Ctx[i+1])), "-"))
				}
			}
		}
		return nil
	}))
	n.App.SetLogger(lg)
}

func (n *tnode) label(prefix string) string {
	if n.restarted {
		return prefix + "-" + n.name + "-restarted"
	}
	return prefix + "-" + n.name
}

type attempt struct {
	Attack string `json:"attack"`
	Where  string `json:"where"`
	Class  string `json:"class"`
	Tx     string `json:"tx,omitempty"`
	Height uint64 `json:"at_height"`
}

type env struct {
	c   *core.Ctx
	r   *rng.R
	g   *chainkit.Genesis
	A   *tnode
	B   *tnode
	ws  []*chainkit.UWallet
	led *chainkit.Ledger

	lastCommit *types.Commit
	next       []uint64 // per account: next honest nonce (committed + pooled)
	committed  []uint64 // per account: next nonce after the last committed block

	oldAcct   []types.Tx                 // committed transactions that consumed an account nonce
	oldSpends []*types.UTXOTransaction   // committed transactions with confidential inputs
	pooled    map[common.Hash]types.Tx   // honest transactions accepted by the proposer's pool, not yet committed
	spentBy   map[*chainkit.OwnedOut]int // ring size the committed spend of the output used
	pendBy    map[*chainkit.OwnedOut]*types.UTXOTransaction

	gossip   bool
	done     bool // the chain of a node was deliberately forked by an accepted attack block: stop generating
	attempts []attempt
	kinds    map[string]bool
	blockLog []string
}

func newEnv(c *core.Ctx, single bool) (*env, error) {
	g, err := genesis()
	if err != nil {
		return nil, err
	}
	e := &env{c: c, r: c.Rng, g: g, pooled: map[common.Hash]types.Tx{}, kinds: map[string]bool{},
		spentBy: map[*chainkit.OwnedOut]int{}, pendBy: map[*chainkit.OwnedOut]*types.UTXOTransaction{}}
	goshim.Seed(c.Rng.Bytes(32))
	a, err := g.NewNode(chainkit.NodeOpts{})
	if err != nil {
		return nil, err
	}
	e.A = &tnode{Node: a, name: "proposer"}
	if !single {
		b, err := g.NewNode(chainkit.NodeOpts{})
		if err != nil {
			return nil, err
		}
		e.B = &tnode{Node: b, name: "replica"}
		e.B.tap()
	}
	wseed := c.Rng.Uint64()
	for i := 0; i < numWallets; i++ {
		e.ws = append(e.ws, chainkit.NewUWallet(wseed, i, numSubs))
	}
	e.led = chainkit.NewLedger(e.ws)
	e.lastCommit = chainkit.NilCommit()
	e.next = make([]uint64, numAccounts)
	e.committed = make([]uint64, numAccounts)
	e.gossip = c.Rng.Bool() && !single
	return e, nil
}

func (e *env) close() {
	e.A.Close()
	if e.B != nil {
		e.B.Close()
	}
}

func (e *env) acctIndex(addr common.Address) int {
	for i, a := range e.g.Accounts {
		if a.Addr == addr {
			return i
		}
	}
	return -1
}

func (e *env) height() uint64 { return e.A.Status.LastBlockHeight }

// ---------------------------------------------------------------- transaction builders (all really signed / proven)

func (e *env) newTransfer(acct int, nonce uint64) types.Tx {
	to := e.g.Accounts[(acct+1+e.r.Intn(numAccounts-1))%numAccounts].Addr
	value := mul(e15, int64(e.r.Range(1, 5000)))
	tx, err := chainkit.NewTransfer(e.g.Accounts[acct], nonce, to, value)
	if err != nil {
		panic(err)
	}
	return tx
}

func (e *env) newTokenTransfer(acct int, nonce uint64) types.Tx {
	to := e.g.Accounts[(acct+1+e.r.Intn(numAccounts-1))%numAccounts].Addr
	tx, err := chainkit.NewTokenTransfer(e.g.Accounts[acct], tokenID, nonce, to, big.NewInt(int64(e.r.Range(1, 100000))))
	if err != nil {
		panic(err)
	}
	return tx
}

// newAccountTx returns a new transaction of a random account-based kind consuming (acct, nonce):
// plain transfer, token transfer, or account -> hidden (whose AccountInput carries the account nonce).
func (e *env) newAccountTx(acct int, nonce uint64) (types.Tx, string) {
	switch x := e.r.Intn(100); {
	case x < 12:
		// a transaction that is included but whose execution FAILS (contract creation whose init code reverts):
		// it must consume its nonce like any other executed transaction, or it can be replayed
		tx, err := chainkit.NewContractCreation(e.g.Accounts[acct], nonce, big.NewInt(0), 200000, []byte{0x60, 0x00, 0x60, 0x00, 0xfd})
		if err != nil {
			panic(err)
		}
		return tx, "failing-creation"
	case x < 40:
		return e.newAin(acct, nonce), "account-to-hidden"
	case x < 60:
		return e.newTokenTransfer(acct, nonce), "token-transfer"
	default:
		return e.newTransfer(acct, nonce), "transfer"
	}
}

func (e *env) newAin(acct int, nonce uint64) *types.UTXOTransaction {
	k := e.r.Range(1, 3)
	total := new(big.Int)
	var dests []types.DestEntry
	for i := 0; i < k; i++ {
		amt := mul(e18, int64(e.r.Range(400, 2500)))
		total.Add(total, amt)
		dests = append(dests, chainkit.Dest(e.ws[e.r.Intn(numWallets)], uint64(e.r.Intn(numSubs+1)), amt))
	}
	tx, err := chainkit.NewAinTx(e.g.Accounts[acct], nonce, dests, chainkit.UtxoFeeAinToU(total))
	if err != nil {
		panic(err)
	}
	return tx
}

func (e *env) utxoFee() *big.Int { return chainkit.UtxoFeeUinToU(e.A.App.GetUTXOGas()) }

// spendable lists wallet outputs large enough to pay the confidential fee with something left.
func (e *env) spendable(w *chainkit.UWallet) []*chainkit.OwnedOut {
	min := mul(e.utxoFee(), 2)
	var out []*chainkit.OwnedOut
	for _, o := range e.led.Spendable(w, lkc) {
		if o.Amount.Cmp(min) > 0 {
			out = append(out, o)
		}
	}
	return out
}

// maxRing is the largest ring the current hidden pool supports (bounded for cost).
func (e *env) maxRing() int {
	n := len(e.led.Outs[lkc])
	if n > 6 {
		n = 6
	}
	return n
}

func (e *env) pickRing() int {
	if e.maxRing() < 2 || e.r.Chance(0.4) {
		return 1
	}
	return e.r.Range(2, e.maxRing())
}

// otherRing returns a ring size different from ring (ring 1 <-> larger ring), or ring itself if impossible.
func (e *env) otherRing(ring int) int {
	if e.maxRing() < 2 {
		return ring
	}
	if ring == 1 {
		return e.r.Range(2, e.maxRing())
	}
	if e.r.Chance(0.6) {
		return 1
	}
	for i := 0; i < 8; i++ {
		if k := e.r.Range(2, e.maxRing()); k != ring {
			return k
		}
	}
	return 1
}

// newSpend builds a valid confidential spend of ins (all owned by w): to hidden outputs (with change) or to an account.
func (e *env) newSpend(w *chainkit.UWallet, ins []*chainkit.OwnedOut, ring int, toAccount bool) (*types.UTXOTransaction, error) {
	total := new(big.Int)
	for _, o := range ins {
		total.Add(total, o.Amount)
	}
	var dests []types.DestEntry
	if toAccount {
		fee := chainkit.UtxoFeeUinToA(total)
		dests = []types.DestEntry{&types.AccountDestEntry{To: e.g.Accounts[e.r.Intn(numAccounts)].Addr, Amount: new(big.Int).Sub(total, fee)}}
	} else {
		rest := new(big.Int).Sub(total, e.utxoFee())
		if rest.Sign() <= 0 {
			return nil, fmt.Errorf("inputs do not cover the fee")
		}
		units := new(big.Int).Div(rest, e15) // rest is a multiple of 10^15 by construction
		first := new(big.Int).Set(rest)
		if units.Cmp(big.NewInt(2)) >= 0 && e.r.Chance(0.6) {
			p := int64(e.r.Range(1, 99))
			u := new(big.Int).Div(new(big.Int).Mul(units, big.NewInt(p)), big.NewInt(100))
			if u.Sign() > 0 && u.Cmp(units) < 0 {
				first = new(big.Int).Mul(u, e15)
			}
		}
		to := e.ws[e.r.Intn(numWallets)]
		dests = append(dests, chainkit.Dest(to, uint64(e.r.Intn(numSubs+1)), first))
		if change := new(big.Int).Sub(rest, first); change.Sign() > 0 {
			dests = append(dests, chainkit.Dest(w, uint64(e.r.Intn(numSubs+1)), change))
		}
	}
	return e.led.NewUinTx(e.r, w, ins, ring, dests)
}

// ---------------------------------------------------------------- honest traffic

func (e *env) submitHonest(tx types.Tx, kind string) bool {
	err := e.A.Mempool.AddTx("", tx)
	if err != nil {
		e.c.Count("honest_rejected:"+kind+":"+errClass(err), 1)
		e.c.Logf("honest %s %s rejected: %v", kind, shortHash(tx.Hash()), err)
		return false
	}
	e.c.Count("honest_accepted:"+kind, 1)
	e.pooled[tx.Hash()] = tx
	if e.gossip {
		if err := e.B.Mempool.AddTx("", cloneTx(tx)); err != nil {
			e.c.Count("gossip_rejected:"+errClass(err), 1)
		} else {
			e.c.Count("gossip_accepted", 1)
		}
	}
	return true
}

func (e *env) honestAccountTxs(n int) {
	for i := 0; i < n; i++ {
		acct := e.r.Intn(numAccounts)
		mk := func(nonce uint64) (types.Tx, string) { return e.newAccountTx(acct, nonce) }
		if e.r.Chance(0.2) { // out-of-order submission: n+1 is queued, then promoted when n arrives
			t1, k1 := mk(e.next[acct])
			t2, k2 := mk(e.next[acct] + 1)
			ok2 := e.submitHonest(t2, k2+"-queued")
			ok1 := e.submitHonest(t1, k1)
			if ok1 {
				e.next[acct]++
				if ok2 {
					e.next[acct]++
				}
			}
			continue
		}
		tx, k := mk(e.next[acct])
		if e.submitHonest(tx, k) {
			e.next[acct]++
		}
	}
}

func (e *env) honestSpends(n int) {
	for i := 0; i < n; i++ {
		w := e.ws[e.r.Intn(numWallets)]
		sp := e.spendable(w)
		if len(sp) == 0 {
			continue
		}
		k := 1
		if len(sp) >= 2 && e.r.Chance(0.3) {
			k = 2
		}
		var ins []*chainkit.OwnedOut
		for _, j := range e.r.Perm(len(sp))[:k] {
			ins = append(ins, sp[j])
		}
		ring := e.pickRing()
		toAcc := e.r.Chance(0.2)
		tx, err := e.newSpend(w, ins, ring, toAcc)
		if err != nil {
			e.c.Count("honest_build_failed", 1)
			e.c.Logf("honest spend build failed: %v", err)
			continue
		}
		kind := "hidden-to-hidden"
		if toAcc {
			kind = "hidden-to-account"
		}
		if ring == 1 {
			kind += "/ring1"
		} else {
			kind += "/ringN"
		}
		if e.submitHonest(tx, kind) {
			for _, o := range ins {
				o.Pending = true
				e.pendBy[o] = tx
				e.spentBy[o] = ring
			}
		}
	}
}

// afterCommit updates the generator-side knowledge from a committed block.
func (e *env) afterCommit(b *types.Block) {
	e.led.ScanBlock(b)
	kinds := map[string]int{}
	for _, tx := range b.Data.Txs {
		delete(e.pooled, tx.Hash())
		kinds[tx.TypeName()]++
		if from, nonce, uses, err := acctUse(tx); uses && err == nil {
			if i := e.acctIndex(from); i >= 0 && nonce+1 > e.committed[i] {
				e.committed[i] = nonce + 1
			}
			e.oldAcct = append(e.oldAcct, tx)
		}
		if u, ok := tx.(*types.UTXOTransaction); ok && len(keyImagesOf(u)) > 0 {
			e.oldSpends = append(e.oldSpends, u)
			e.c.Count("committed_confidential_spends", 1)
			e.c.Count("committed_key_images", int64(len(keyImagesOf(u))))
		}
	}
	for o := range e.pendBy {
		if o.Spent {
			delete(e.pendBy, o)
		}
	}
	if rs := e.A.BlockStore.GetReceipts(b.Height); rs != nil {
		for _, rc := range *rs {
			if rc != nil && rc.Status == types.ReceiptStatusFailed {
				e.c.Count("committed_txs_with_failed_receipt", 1)
			}
		}
	}
	e.c.Count("blocks_committed", 1)
	e.c.Count("txs_committed", int64(len(b.Data.Txs)))
	e.blockLog = append(e.blockLog, fmt.Sprintf("h%d:%v", b.Height, kinds))
}

func (e *env) note(attack, where, class string, tx types.Tx) {
	a := attempt{Attack: attack, Where: where, Class: class, Height: e.height()}
	if tx != nil {
		a.Tx = shortHash(tx.Hash())
	}
	e.attempts = append(e.attempts, a)
	e.kinds[where+"/"+attack] = true
	e.c.Logf("attempt %-48s at %-28s -> %s", attack, where, class)
}

func (e *env) tail() []attempt {
	if len(e.attempts) > 12 {
		return e.attempts[len(e.attempts)-12:]
	}
	return e.attempts
}
