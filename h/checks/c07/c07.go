// Package c07: every spendable unit is spent at most once across the whole chain (DESIGN.md §5 C07).
//
// Two registered checks:
//
//	C07  - sequential, deterministic: a generated chain with honest confidential / account traffic, an attacker
//	       that re-uses inputs at every position the property names (pool, CheckTx, hand-built blocks of a
//	       Byzantine proposer, after restarts), an accept/reject log and the history oracle over the chain read
//	       back from the block store.
//	C07R - race lane: 8 goroutines submit conflicting spends and replays to ONE node's pool while the main
//	       goroutine commits blocks; pool-snapshot rule at every barrier, history oracle at the end, race detector.
package c07

import (
	"crypto/sha256"
	"fmt"
	"sort"

	"github.com/lianxiangcloud/linkchain/libs/common"
	"github.com/lianxiangcloud/linkchain/types"

	"verif/h/internal/chainkit"
	"verif/h/internal/core"
	_ "verif/shim/goshim"
)

const (
	quickCases    = 32
	thoroughCases = 960
)

func init() {
	core.Register(&core.Check{
		ID:        "C07",
		Also:      []string{"C07R"}, // concurrent mempool lane under the race detector (race.go)
		Level:     "exploration",
		Technique: "history monitor over real executions: generated chains on two real replicas (real application, mempool, stores), an attacker re-using inputs at every position, accept/reject log, and an offline oracle over the committed chain read back from the block store",
		Rule: "case = one generated chain of 5-8 blocks on a proposer and a validator replica (optionally receiving the traffic by gossip) with honest traffic: transfers, token transfers, account->hidden, hidden->hidden with ring size 1 and 2-6, hidden->account, out-of-order nonce submission, late arrivals that stay pooled across a commit; " +
			"per round an attacker tries: the same key image twice in one tx (really signed, commitments balanced); a second spend of a pooled input; a re-spend / literal replay of an input committed earlier, each with the same and with a changed ring size (1 <-> larger); replays of committed and of pooled account txs; new txs / account inputs at used nonces; key images outside the prime-order subgroup; " +
			"hand-built blocks of a Byzantine proposer (valid proposal with an edited tx list, NumTxs/TotalTxs/DataHash recomputed; if the validator's own execution of the list succeeds, the block is re-issued with exactly the result fields that execution produced) containing each of these plus nonce gaps, reordered / swapped nonces, a transfer and an account input sharing one nonce, a tx listed twice; positive controls (one more VALID tx) must be executed and accepted; " +
			"all of it again against nodes re-opened over their databases (fresh pool, empty dedup cache). oracle: every attempt is refused (pool AddTx, CheckTx basic/state, CheckBlock) - the error class is recorded and floors count only refusals with the class of the attacked mechanism - and, over the chain read back from the block store of every node: no key image repeats, every sender's executed nonces are n0,n0+1,..., no tx hash repeats, state nonce = end of the sequence; pool snapshots never hold two txs with one key image. " +
			"non-trivial = >=1 confidential spend committed, a restart happened, and >=8 distinct (position, attack) pairs were attempted; distinct by hash of the committed tx hashes and the attempt log",
		Assumptions: []string{
			"the link-time stand-in for libxcrypto (DESIGN.md §2) provides ring signatures / MLSAG / key images with the real algebraic structure; its soundness is not the subject",
			"hand-built blocks keep the consensus-level fields of the valid proposal (those are C02's subject); a Byzantine proposer can always compute result fields, modelled by reading them from the validator's own execution",
			"mempool age-based dropping is disabled (GoodTxDropTime = infinity) so that no wall-clock value decides an outcome",
		},
		Cases: func(tier string) int {
			if tier == "thorough" {
				return thoroughCases
			}
			return quickCases
		},
		Batch: func(tier string) int { return 2 },
		Run:   run,
		Floors: func(tier string) map[string]int64 {
			return floors(tier)
		},
		Init: initProcess,
	})
}

// quickFloors: roughly half of the minimum observed over VERIF_SEED=1..5 at the quick tier (32 cases).
// Every attack position of the property (and each after a restart) has its own floor, counted only when the
// attempt was refused with the error class of the mechanism under attack.
var quickFloors = map[string]int64{
	"blocks_committed":                  100,
	"committed_txs_with_failed_receipt": 30,
	"committed_confidential_spends":     170,
	"committed_key_images":              220,
	"restarts":                          23,
	"control_blocks_accepted":           39,
	"byzantine_blocks_checked":          440,
	"oracle_blocks_read_back":           200,
	"oracle_txs_read_back":              1100,
	"oracle_key_images_checked":         440,
	"oracle_account_nonces_checked":     780,
	"pool_snapshots_checked":            300,
	"refused_at:mempool":                150,
	"refused_at:mempool-after-restart":  220,
	"refused_at:checktx":                30,
	"refused_at:checktx-state":          35,
	"refused_at:block":                  150,
	"refused_at:block-after-restart":    270,
	// (1) same key image twice inside one transaction
	"refused:same-key-image-twice-in-one-tx":       100,
	"refused:block/same-key-image-twice-in-one-tx": 50,
	// (2) two transactions spending one output: in the pool, in one block
	"refused:second-spend-of-pooled-input":              29,
	"refused:block/two-spends-of-one-output":            32,
	"refused:block/second-spend-next-to-proposed-spend": 27,
	// (3) input committed in an earlier block
	"refused:respend-of-committed-input":                40,
	"refused:replay-of-committed-confidential-tx":       65,
	"refused:block/respend-of-committed-input":          25,
	"refused:block/replay-of-committed-confidential-tx": 45,
	// (5) ring size 1 <-> larger ring
	"refused:second-spend-of-pooled-input/ring-size-changed":              19,
	"refused:respend-of-committed-input/ring-size-changed":                26,
	"refused:block/two-spends-of-one-output/ring-size-changed":            20,
	"refused:block/second-spend-next-to-proposed-spend/ring-size-changed": 17,
	"refused:block/respend-of-committed-input/ring-size-changed":          14,
	// (6) account nonces
	"refused:replay-of-committed-account-tx":               95,
	"refused:replay-of-pooled-tx":                          100,
	"refused:second-tx-at-used-nonce":                      25,
	"refused:account-input-at-used-nonce":                  19,
	"refused:block/tx-listed-twice-in-block":               26,
	"refused:block/confidential-tx-listed-twice-in-block":  18,
	"refused:block/replay-of-committed-account-tx":         50,
	"refused:block/nonce-gap":                              11,
	"refused:block/nonces-reordered":                       12,
	"refused:block/proposal-nonces-swapped":                27,
	"refused:block/second-tx-at-used-nonce":                10,
	"refused:block/transfer-and-account-input-share-nonce": 9,
	// (7) key image outside the prime-order subgroup (error class observation)
	"refused:key-image-outside-prime-subgroup": 17,
}

func floors(tier string) map[string]int64 {
	scale := int64(1)
	if tier == "thorough" {
		scale = thoroughCases / quickCases
	}
	out := map[string]int64{}
	for k, v := range quickFloors {
		out[k] = v * scale
	}
	return out
}

func run(c *core.Ctx) {
	e, err := newEnv(c, false)
	if err != nil {
		c.Inconclusive("setup: " + err.Error())
		return
	}
	defer e.close()
	r := c.Rng
	rounds := r.Range(4, 7)
	restartAt := r.Range(2, rounds-1)
	restartProposer := r.Bool()
	restarted := false

	// step proposes on A, lets the attacker abuse the proposal against B, then commits it on both.
	step := func(attack float64) bool {
		height := e.A.Status.LastBlockHeight + 1
		block, parts, err := e.A.Propose(e.lastCommit, uint64(chainkit.FixedTime.Unix())+height, nil)
		if err != nil {
			checkPool(c, e.A.Node, "pool after the proposer failed to execute the block it reaped")
			if !c.Violated() {
				c.Inconclusive(fmt.Sprintf("proposer could not build block %d: %v", height, err))
			} else {
				c.Logf("proposer could not build block %d after a recorded violation: %v", height, err)
			}
			return false
		}
		if attack > 0 {
			e.blockAttacks(e.B, block, parts, attack)
			if e.done {
				return false
			}
			// late arrivals: honest transactions that reach the pool after the proposal was reaped and before it is
			// committed. They survive the commit (key image reservations are reset and rebuilt by the recheck) and are the
			// "pooled" victims of the next round's attacks.
			if r.Bool() {
				e.honestSpends(r.Range(1, 2))
				e.honestAccountTxs(1)
				c.Count("late_arrival_rounds", 1)
			}
		}
		blockID := types.BlockID{Hash: block.Hash(), PartsHeader: parts.Header()}
		commit, err := e.g.MakeCommit(e.A.Status, e.A.Status.Validators, height, 0, blockID, nil)
		if err != nil {
			c.Inconclusive("MakeCommit: " + err.Error())
			return false
		}
		rp, err := chainkit.RebuildParts(parts)
		if err != nil {
			c.Inconclusive("RebuildParts: " + err.Error())
			return false
		}
		fb, err := chainkit.DecodeBlock(rp, 0)
		if err != nil {
			c.Inconclusive("DecodeBlock: " + err.Error())
			return false
		}
		if ok, err := e.B.Accept(fb, rp, commit, false); err != nil || !ok {
			if !c.Violated() {
				c.Inconclusive(fmt.Sprintf("replica rejected the honest block %d: checked=%v err=%v", height, ok, err))
			}
			return false
		}
		if ok, err := e.A.Accept(block, parts, commit, false); err != nil || !ok {
			if !c.Violated() {
				c.Inconclusive(fmt.Sprintf("proposer rejected its own block %d: checked=%v err=%v", height, ok, err))
			}
			return false
		}
		e.lastCommit = commit
		e.afterCommit(block)
		checkPool(c, e.A.Node, e.A.label("mempool"))
		checkPool(c, e.B.Node, e.B.label("mempool"))
		return true
	}

	// funding block(s): account -> hidden, so that the hidden pool has outputs to spend and to build rings from
	for i := 0; i < r.Range(5, 8); i++ {
		acct := r.Intn(numAccounts)
		if e.submitHonest(e.newAin(acct, e.next[acct]), "account-to-hidden") {
			e.next[acct]++
		}
	}
	e.honestAccountTxs(r.Range(1, 3))
	if !step(0) {
		return
	}

	for round := 1; round <= rounds && !e.done; round++ {
		if round == restartAt {
			if !e.restart(restartProposer) {
				return
			}
			restarted = true
		}
		intensity := 0.55
		if round == restartAt {
			intensity = 0.9 // right after the restart every position is tried against the re-opened stores
		}
		e.honestAccountTxs(r.Range(1, 4))
		e.honestSpends(r.Range(1, 3))
		e.poolAttacks(intensity)
		checkPool(c, e.A.Node, e.A.label("mempool"))
		if !step(intensity) {
			break
		}
	}

	// history oracle over every node's chain, read back from its block store
	if !e.done {
		sa := checkChain(c, e.A.Node, "proposer", genesisNonce)
		sb := checkChain(c, e.B.Node, "replica", genesisNonce)
		c.Count("oracle_blocks_read_back", sa.Blocks+sb.Blocks)
		c.Count("oracle_txs_read_back", sa.Txs+sb.Txs)
		c.Count("oracle_key_images_checked", sa.KeyImages+sb.KeyImages)
		c.Count("oracle_account_nonces_checked", sa.Nonces+sb.Nonces)
		c.Max("chain_height", int64(e.A.BlockStore.Height()))
	}
	c.Count("distinct_attack_positions_in_case", int64(len(e.kinds)))

	spends := 0
	for _, o := range e.led.Outs[lkc] {
		if o.Spent {
			spends++
		}
	}
	if spends > 0 && restarted && len(e.kinds) >= 8 {
		h := sha256.New()
		for hh := uint64(1); hh <= e.A.BlockStore.Height(); hh++ {
			if b := e.A.BlockStore.LoadBlock(hh); b != nil {
				for _, tx := range b.Data.Txs {
					h.Write(tx.Hash().Bytes())
				}
			}
		}
		for _, a := range e.attempts {
			h.Write([]byte(a.Attack + "|" + a.Where + "|" + a.Class + ";"))
		}
		c.Nontrivial(fmt.Sprintf("%x", h.Sum(nil)[:8]))
	}
	if c.Index%8 == 0 {
		var ks []string
		for k := range e.kinds {
			ks = append(ks, k)
		}
		sort.Strings(ks)
		n := len(e.attempts)
		if n > 10 {
			n = 10
		}
		c.Sample(map[string]interface{}{"case": c.Index, "chain": e.blockLog, "gossip_to_replica": e.gossip, "restart_before_round": restartAt, "proposer_restarted_too": restartProposer,
			"hidden_outputs": len(e.led.Outs[lkc]), "hidden_outputs_spent": spends, "attempts": len(e.attempts), "positions_attempted": ks, "first_attempts": e.attempts[:n]})
	}
}

// restart re-opens the replica (and optionally the proposer) over its databases, exactly as node.NewNode would,
// and immediately re-submits spent inputs to the fresh pools.
func (e *env) restart(proposerToo bool) bool {
	reopen := func(n *tnode) bool {
		n.Close()
		nn, err := chainkit.OpenNode(e.g, n.DBs, chainkit.NodeOpts{})
		if err != nil {
			e.c.Inconclusive("re-open " + n.name + ": " + err.Error())
			return false
		}
		if nn.Status.LastBlockHeight != n.Status.LastBlockHeight {
			e.c.Inconclusive(fmt.Sprintf("re-opened %s stands at height %d, expected %d", n.name, nn.Status.LastBlockHeight, n.Status.LastBlockHeight))
			return false
		}
		n.Node = nn
		n.restarted = true
		if n == e.B {
			n.tap()
		}
		e.c.Count("restarts", 1)
		return true
	}
	if !reopen(e.B) {
		return false
	}
	if proposerToo {
		if !reopen(e.A) {
			return false
		}
		// the proposer's pool is gone: forget what was pooled
		copy(e.next, e.committed)
		e.pooled = map[common.Hash]types.Tx{}
		for o := range e.pendBy {
			o.Pending = false
			delete(e.pendBy, o)
		}
	}
	// (4) the spent set must have survived: literal replays and new spends against the fresh pools (empty dedup cache)
	targets := []*tnode{e.B}
	if proposerToo {
		targets = append(targets, e.A)
	}
	for _, n := range targets {
		if len(e.oldSpends) > 0 {
			tx := e.oldSpends[e.r.Intn(len(e.oldSpends))]
			e.judge("replay-of-committed-confidential-tx", n.label("mempool"), tx, e.addTx(n, cloneTx(tx)), clsDouble)
		}
		if spent := e.spentOuts(); len(spent) > 0 {
			o := spent[e.r.Intn(len(spent))]
			before := e.spentBy[o]
			ring := before
			if before == 0 || e.r.Bool() {
				ring = e.otherRing(before)
			}
			if tx, err := e.respend(o, ring); err == nil {
				e.judge(e.ringFlavor("respend-of-committed-input", before, ring), n.label("mempool"), tx, e.addTx(n, tx), clsDouble)
			}
		}
		if len(e.oldAcct) > 0 {
			tx := e.oldAcct[e.r.Intn(len(e.oldAcct))]
			e.judge("replay-of-committed-account-tx", n.label("mempool"), tx, e.addTx(n, cloneTx(tx)), clsLow)
		}
	}
	return true
}
