package c07

import (
	"encoding/hex"
	"fmt"
	"strings"

	"github.com/lianxiangcloud/linkchain/libs/common"
	lt "github.com/lianxiangcloud/linkchain/libs/cryptonote/types"
	"github.com/lianxiangcloud/linkchain/types"

	"verif/h/internal/chainkit"
	"verif/shim/goshim"
)

// ---------------------------------------------------------------- judging one attempt

func in(cls string, set []string) bool {
	for _, s := range set {
		if s == cls {
			return true
		}
	}
	return false
}

// judge records one re-use attempt against a pool / CheckTx entry point. Every attempt must be refused;
// the error class is recorded, and only refusals with the class of the mechanism under attack count
// towards the observation floors.
func (e *env) judge(attack, where string, tx types.Tx, err error, expected ...string) {
	cls := errClass(err)
	e.note(attack, where, cls, tx)
	e.c.Count("attempts_total", 1)
	e.c.Count("attempts:"+where, 1)
	if err == nil {
		e.c.Violation(keyWhere(where)+"/"+attack+"/accepted", fmt.Sprintf("%s accepted a transaction (%s) that breaks the spend-once / exact-nonce rule: %s, chain height %d", where, shortHash(tx.Hash()), attack, e.height()),
			map[string]interface{}{"attack": attack, "where": where, "tx": tx.Hash().String(), "tx_type": tx.TypeName(), "key_images": kiStrings(tx), "height": e.height(), "recent_attempts": e.tail(), "chain": e.blockLog})
		return
	}
	if in(cls, expected) {
		e.c.Count("refused:"+attack, 1)
		e.c.Count("refused_class:"+cls, 1)
		e.c.Count("refused_at:"+keyWhere(where), 1)
	} else {
		e.c.Count("refused_with_unexpected_class:"+attack+":"+cls, 1)
		e.c.Logf("  unexpected class for %s at %s: %v", attack, where, err)
	}
}

// keyWhere turns a position label into the stable class used in violation keys: the entry point
// (mempool / checktx / checktx-state / block) and whether the node had been re-opened over its databases;
// which of the two nodes it was is in the detail only.
func keyWhere(where string) string {
	w := strings.Replace(strings.Replace(where, "-proposer", "", 1), "-replica", "", 1)
	return strings.Replace(w, "-restarted", "-after-restart", 1)
}

func kiStrings(tx types.Tx) []string {
	var out []string
	for _, k := range keyImagesOf(tx) {
		out = append(out, fmt.Sprintf("%x", k[:8]))
	}
	return out
}

func (e *env) addTx(n *tnode, tx types.Tx) error { return n.Mempool.AddTx("", tx) }

// ---------------------------------------------------------------- material for attacks

func (e *env) ownerOf(o *chainkit.OwnedOut) *chainkit.UWallet { return e.ws[o.Owner] }

// spentOuts lists outputs whose key image is in a committed block.
func (e *env) spentOuts() []*chainkit.OwnedOut {
	var out []*chainkit.OwnedOut
	for _, o := range e.led.Outs[lkc] {
		if o.Owner >= 0 && o.Spent && o.Amount.Cmp(mul(e.utxoFee(), 2)) > 0 {
			out = append(out, o)
		}
	}
	return out
}

// pendingOuts lists outputs that a pooled, not yet committed honest transaction spends (deterministic order).
func (e *env) pendingOuts() []*chainkit.OwnedOut {
	var out []*chainkit.OwnedOut
	for _, o := range e.led.Outs[lkc] {
		if o.Owner >= 0 && !o.Spent && e.pendBy[o] != nil {
			out = append(out, o)
		}
	}
	return out
}

// freeOuts lists unspent outputs nobody has tried to spend yet.
func (e *env) freeOuts() []*chainkit.OwnedOut {
	var out []*chainkit.OwnedOut
	for _, w := range e.ws {
		out = append(out, e.spendable(w)...)
	}
	return out
}

// respend builds an otherwise valid new transaction spending o (optionally together with a free output of the
// same owner, so that the re-used key image is not always the first input). ring < 0: choose; sameRing: ring used before.
func (e *env) respend(o *chainkit.OwnedOut, ring int) (*types.UTXOTransaction, error) {
	w := e.ownerOf(o)
	ins := []*chainkit.OwnedOut{o}
	if e.r.Chance(0.35) {
		if sp := e.spendable(w); len(sp) > 0 {
			extra := sp[e.r.Intn(len(sp))]
			if extra != o {
				if e.r.Bool() {
					ins = []*chainkit.OwnedOut{extra, o}
				} else {
					ins = append(ins, extra)
				}
			}
		}
	}
	return e.newSpend(w, ins, ring, e.r.Chance(0.2))
}

// dupInTx builds a transaction that spends output o twice (two inputs with the same key image), everything else
// consistent: both inputs carry valid signatures, the commitments balance (2*amount = outputs + fee).
func (e *env) dupInTx(o *chainkit.OwnedOut, ring int) (*types.UTXOTransaction, error) {
	w := e.ownerOf(o)
	ins := []*chainkit.OwnedOut{o, o}
	if e.r.Chance(0.3) {
		if sp := e.spendable(w); len(sp) > 0 && sp[0] != o {
			ins = []*chainkit.OwnedOut{o, sp[0], o}
		}
	}
	return e.newSpend(w, ins, ring, false)
}

// ---------------------------------------------------------------- pool level attacks

func hexKey(h string) lt.Key {
	var k lt.Key
	b, err := hex.DecodeString(h)
	if err != nil || len(b) != 32 {
		panic("bad key constant")
	}
	copy(k[:], b)
	return k
}

// the small-order points of ed25519 (orders 2, 4, 4, 8, 8)
var smallOrder = []lt.Key{
	hexKey("ecffffffffffffffffffffffffffffffffffffffffffffffffffffffffffff7f"),
	hexKey("0000000000000000000000000000000000000000000000000000000000000000"),
	hexKey("0000000000000000000000000000000000000000000000000000000000000080"),
	hexKey("26e8958fc2b227b045c3f489f2ef98f0d5dfac05d3c63339b13802886d53fc05"),
	hexKey("c7176a703d4dd84fba3c0b760d10670f2a2053fa2c39ccc64ec7fd7792ac037a"),
}

func (e *env) ringFlavor(attack string, before, now int) string {
	if (before == 1) != (now == 1) {
		return attack + "/ring-size-changed"
	}
	return attack
}

// poolAttacks runs the mempool / CheckTx attack positions against the proposer's pool (which holds this round's
// honest traffic) and the replica's pool (which may never have seen the transactions: no dedup cache in the way).
func (e *env) poolAttacks(intensity float64) {
	r := e.r
	// (1) same key image twice inside one transaction
	if free := e.freeOuts(); len(free) > 0 && r.Chance(intensity) {
		o := free[r.Intn(len(free))]
		if tx, err := e.dupInTx(o, e.pickRing()); err == nil {
			e.judge("same-key-image-twice-in-one-tx", e.B.label("checktx"), tx, e.B.App.CheckTx(cloneTx(tx), true), clsDupInTx)
			n := e.A
			if r.Bool() {
				n = e.B
			}
			e.judge("same-key-image-twice-in-one-tx", n.label("mempool"), tx, e.addTx(n, tx), clsDupInTx)
		} else {
			e.c.Count("attack_build_failed", 1)
			e.c.Logf("dupInTx build failed: %v", err)
		}
	}
	// (7) a key image that is the identity, a small-order point, or a valid image shifted by a small-order point
	// (a different byte string for the same spend). The signatures of the edited transaction no longer verify under
	// the stand-in either, so what is observed here is the error CLASS: the subgroup check has to be the one that fires.
	if free := e.freeOuts(); len(free) > 0 && r.Chance(intensity*0.6) {
		o := free[r.Intn(len(free))]
		if tx, err := e.newSpend(e.ownerOf(o), []*chainkit.OwnedOut{o}, e.pickRing(), false); err == nil {
			mod := cloneTx(tx).(*types.UTXOTransaction)
			in0 := mod.Inputs[0].(*types.UTXOInput)
			t := smallOrder[r.Intn(len(smallOrder))]
			attack, expected := "key-image-outside-prime-subgroup", []string{clsKIDomain}
			switch r.Intn(3) {
			case 0: // the identity IS in the prime-order subgroup; it must fail as a signature, not as a domain error
				in0.KeyImage = lt.Key{1}
				attack, expected = "identity-key-image", []string{clsKIDomain, clsBadSig}
			case 1:
				in0.KeyImage = t
			default:
				if k, ok := goshim.PtAdd(in0.KeyImage, t); ok {
					in0.KeyImage = k
				} else {
					in0.KeyImage = t
				}
			}
			e.judge(attack, e.B.label("checktx"), mod, e.B.App.CheckTx(mod, true), expected...)
		}
	}
	// (2)/(5) a second, different transaction spending an output that a pooled transaction already spends
	if pend := e.pendingOuts(); len(pend) > 0 && r.Chance(intensity) {
		o := pend[r.Intn(len(pend))]
		before := e.spentBy[o]
		ring := before
		if r.Bool() {
			ring = e.otherRing(before)
		}
		if tx, err := e.respend(o, ring); err == nil {
			e.judge(e.ringFlavor("second-spend-of-pooled-input", before, ring), e.A.label("mempool"), tx, e.addTx(e.A, tx), clsDouble)
		} else {
			e.c.Count("attack_build_failed", 1)
		}
	}
	// (3)/(5) a new transaction spending an output whose key image is in an earlier block
	if spent := e.spentOuts(); len(spent) > 0 && r.Chance(intensity) {
		o := spent[r.Intn(len(spent))]
		before := e.spentBy[o]
		ring := before
		if before == 0 || r.Bool() {
			ring = e.otherRing(before)
		}
		if tx, err := e.respend(o, ring); err == nil {
			n := e.A
			if r.Bool() {
				n = e.B
			}
			e.judge(e.ringFlavor("respend-of-committed-input", before, ring), n.label("mempool"), tx, e.addTx(n, tx), clsDouble)
		} else {
			e.c.Count("attack_build_failed", 1)
		}
	}
	// (3) literal replay of a committed confidential transaction
	if len(e.oldSpends) > 0 && r.Chance(intensity) {
		tx := e.oldSpends[r.Intn(len(e.oldSpends))]
		n := e.B
		if r.Chance(0.3) {
			n = e.A
		}
		e.judge("replay-of-committed-confidential-tx", n.label("mempool"), tx, e.addTx(n, cloneTx(tx)), clsDouble, clsCached)
	}
	// (6) replay of a committed account transaction (plain transfer or account -> hidden)
	if len(e.oldAcct) > 0 && r.Chance(intensity) {
		tx := e.oldAcct[r.Intn(len(e.oldAcct))]
		n := e.B
		if r.Chance(0.3) {
			n = e.A
		}
		e.judge("replay-of-committed-account-tx", n.label("mempool"), tx, e.addTx(n, cloneTx(tx)), clsLow, clsCached)
		if r.Bool() {
			e.judge("replay-of-committed-account-tx", n.label("checktx-state"), tx, n.App.CheckTx(cloneTx(tx), false), clsLow)
		}
	}
	// (6) replay of a transaction that is still pooled
	if len(e.pooled) > 0 && r.Chance(intensity) {
		var cands []types.Tx
		for _, a := range e.attemptOrderPooled() {
			cands = append(cands, a)
		}
		tx := cands[r.Intn(len(cands))]
		e.judge("replay-of-pooled-tx", e.A.label("mempool"), tx, e.addTx(e.A, cloneTx(tx)), clsCached, clsLow, clsDouble)
		if _, _, uses, _ := acctUse(tx); uses || len(keyImagesOf(tx)) > 0 {
			e.judge("replay-of-pooled-tx", e.A.label("checktx-state"), tx, e.A.App.CheckTx(cloneTx(tx), false), clsLow, clsDouble)
		}
	}
	// (6) a different transaction at a nonce that was already executed / is already taken by a pooled transaction
	if r.Chance(intensity) {
		acct := r.Intn(numAccounts)
		if e.next[acct] > 0 {
			nonce := uint64(r.Intn(int(e.next[acct])))
			tx, kind := e.newAccountTx(acct, nonce)
			attack := "second-tx-at-used-nonce"
			if kind == "account-to-hidden" {
				attack = "account-input-at-used-nonce"
			}
			n := e.A
			if nonce < e.committed[acct] && r.Bool() {
				n = e.B
			}
			e.judge(attack, n.label("mempool"), tx, e.addTx(n, tx), clsLow)
		}
	}
}

// attemptOrderPooled returns the pooled honest transactions in a deterministic order (by hash).
func (e *env) attemptOrderPooled() []types.Tx {
	var hs []common.Hash
	for h := range e.pooled {
		hs = append(hs, h)
	}
	for i := 1; i < len(hs); i++ {
		for j := i; j > 0 && hs[j].String() < hs[j-1].String(); j-- {
			hs[j], hs[j-1] = hs[j-1], hs[j]
		}
	}
	var out []types.Tx
	for _, h := range hs {
		out = append(out, e.pooled[h])
	}
	return out
}

// ---------------------------------------------------------------- hand-built blocks of a Byzantine proposer

// rebuild returns a fresh (decoded) variant of base carrying txs, with NumTxs / TotalTxs / DataHash made consistent
// and, if fix != nil, the execution result fields replaced.
func (e *env) rebuild(base *types.Block, parts *types.PartSet, txs types.Txs, prevTotal uint64, fix *types.TxsResult) (*types.Block, *types.PartSet, error) {
	b, err := chainkit.DecodeBlock(parts, 0)
	if err != nil {
		return nil, nil, err
	}
	cp := make(types.Txs, len(txs))
	copy(cp, txs)
	b.Data = &types.Data{Txs: cp}
	b.Header.NumTxs = uint64(len(cp))
	b.Header.TotalTxs = prevTotal + uint64(len(cp))
	b.Header.DataHash = cp.Hash()
	if fix != nil {
		b.Header.StateHash = fix.StateHash
		b.Header.ReceiptHash = fix.ReceiptHash
		b.Header.GasUsed = fix.GasUsed
	}
	ps := b.MakePartSet(e.A.Status.ConsensusParams.BlockGossip.BlockPartSizeBytes)
	fresh, err := chainkit.DecodeBlock(ps, 0)
	if err != nil {
		return nil, nil, err
	}
	return fresh, ps, nil
}

func (e *env) checkBlock(n *tnode, b *types.Block) (ok bool, panicked interface{}) {
	defer func() {
		if r := recover(); r != nil {
			panicked = r
		}
	}()
	return n.App.CheckBlock(b), nil
}

// byzBlock plays a Byzantine proposer against validator n: the valid proposal (base, parts) is re-issued with the
// transaction list txs. Stage 1: the variant with the honest result fields. If the validator's execution of the
// list succeeded (only the result fields mismatched), stage 2 re-issues the block with exactly the result fields
// that execution produced (what a proposer running modified software would send): CheckBlock must still say no.
func (e *env) byzBlock(n *tnode, attack string, base *types.Block, parts *types.PartSet, txs types.Txs, culprit types.Tx, expected ...string) {
	if strings.HasPrefix(attack, "control-") {
		e.controlBlock(n, attack, base, parts, txs)
		return
	}
	where := n.label("block")
	prevTotal := base.TotalTxs - base.NumTxs
	m1, _, err := e.rebuild(base, parts, txs, prevTotal, nil)
	if err != nil {
		e.c.Count("attack_build_failed", 1)
		e.c.Logf("rebuild failed: %v", err)
		return
	}
	e.c.Count("attempts_total", 1)
	e.c.Count("attempts:"+where, 1)
	e.c.Count("byzantine_blocks_checked", 1)
	n.reasons = nil
	ok1, p := e.checkBlock(n, m1)
	if p != nil {
		e.note(attack, where, "panic", culprit)
		e.c.Count("checkblock_panics", 1)
		e.c.Logf("CheckBlock panicked on %s: %v", attack, p)
		return
	}
	witness := func(stage string) map[string]interface{} {
		var list []string
		for i, tx := range txs {
			s := fmt.Sprintf("%d:%s:%s", i, tx.TypeName(), shortHash(tx.Hash()))
			if f, nn, uses, _ := acctUse(tx); uses {
				s += fmt.Sprintf(":acct%d/nonce%d", e.acctIndex(f), nn)
			}
			if ks := kiStrings(tx); len(ks) > 0 {
				s += fmt.Sprintf(":ki%v", ks)
			}
			list = append(list, s)
		}
		w := map[string]interface{}{"attack": attack, "where": where, "stage": stage, "height": base.Height, "block_txs": list, "chain": e.blockLog, "recent_attempts": e.tail()}
		if culprit != nil {
			w["culprit"] = culprit.Hash().String()
		}
		return w
	}
	if ok1 {
		e.note(attack, where, "accepted", culprit)
		e.c.Violation(keyWhere(where)+"/"+attack+"/accepted", fmt.Sprintf("CheckBlock returned true for a hand-built block at height %d that breaks the spend-once / exact-nonce rule (%s)", base.Height, attack), witness("1"))
		e.commitFork(n, m1, attack)
		return
	}
	_, res, _, processed := n.App.VerifProcessResult(m1.Hash())
	if !processed {
		cls := "no-reason-logged"
		if len(n.reasons) > 0 {
			cls = n.reasons[len(n.reasons)-1]
		}
		e.note(attack, where, "execution-refused:"+cls, culprit)
		if in(cls, expected) {
			e.c.Count("refused:block/"+attack, 1)
			e.c.Count("refused_class:block:"+cls, 1)
			e.c.Count("refused_at:"+keyWhere(where), 1)
		} else {
			e.c.Count("refused_with_unexpected_class:block/"+attack+":"+cls, 1)
		}
		return
	}
	// the list executed; only the header's result fields were "wrong". Re-issue with the matching fields.
	e.c.Count("byzantine_blocks_executed_ok", 1)
	m2, ps2, err := e.rebuild(base, parts, txs, prevTotal, &res)
	if err != nil {
		e.c.Count("attack_build_failed", 1)
		return
	}
	ok2, p := e.checkBlock(n, m2)
	if p != nil {
		e.note(attack, where, "panic-stage2", culprit)
		e.c.Count("checkblock_panics", 1)
		return
	}
	if !ok2 {
		e.note(attack, where, "executed-but-refused", culprit)
		e.c.Count("byzantine_blocks_executed_ok_but_refused", 1)
		return
	}
	e.note(attack, where, "accepted", culprit)
	e.c.Violation(keyWhere(where)+"/"+attack+"/accepted", fmt.Sprintf("CheckBlock returned true for a hand-built block at height %d that breaks the spend-once / exact-nonce rule (%s); result fields taken from the validator's own execution of the list", base.Height, attack), witness("2"))
	_ = ps2
	e.commitFork(n, m2, attack)
}

// controlBlock is the positive control of the two-stage construction: the valid proposal plus one more VALID
// transaction. Stage 1 must fail only on the result fields (execution succeeds), stage 2 must be accepted.
// If that does not happen the hand-built blocks of this case prove nothing and the case is inconclusive.
func (e *env) controlBlock(n *tnode, attack string, base *types.Block, parts *types.PartSet, txs types.Txs) {
	prevTotal := base.TotalTxs - base.NumTxs
	m1, _, err := e.rebuild(base, parts, txs, prevTotal, nil)
	if err != nil {
		e.c.Inconclusive("control block could not be built: " + err.Error())
		return
	}
	n.reasons = nil
	ok1, p := e.checkBlock(n, m1)
	_, res, _, processed := n.App.VerifProcessResult(m1.Hash())
	if p != nil || ok1 || !processed {
		e.c.Count("control_blocks_failed", 1)
		e.c.Inconclusive(fmt.Sprintf("control block (%s) at height %d: stage 1 ok=%v panic=%v executed=%v reasons=%v", attack, base.Height, ok1, p, processed, n.reasons))
		return
	}
	m2, _, err := e.rebuild(base, parts, txs, prevTotal, &res)
	if err != nil {
		e.c.Inconclusive("control block could not be rebuilt: " + err.Error())
		return
	}
	ok2, p := e.checkBlock(n, m2)
	if p != nil || !ok2 {
		e.c.Count("control_blocks_failed", 1)
		e.c.Inconclusive(fmt.Sprintf("control block (%s) at height %d: stage 2 ok=%v panic=%v reasons=%v", attack, base.Height, ok2, p, n.reasons))
		return
	}
	e.c.Count("control_blocks_accepted", 1)
	e.c.Logf("control %-48s at %-28s -> executed, re-issued with its result fields, accepted", attack, n.label("block"))
}

// commitFork lets the fooled validator commit the accepted attack block (with a +2/3 commit, as would happen if
// all validators run the same code), evaluates the history oracle on its chain and ends the case.
func (e *env) commitFork(n *tnode, b *types.Block, attack string) {
	e.done = true
	ps := b.MakePartSet(e.A.Status.ConsensusParams.BlockGossip.BlockPartSizeBytes)
	fb, err := chainkit.DecodeBlock(ps, 0)
	if err != nil {
		return
	}
	blockID := types.BlockID{Hash: fb.Hash(), PartsHeader: ps.Header()}
	commit, err := e.g.MakeCommit(n.Status, n.Status.Validators, fb.Height, 0, blockID, nil)
	if err != nil {
		e.c.Logf("fork commit: %v", err)
		return
	}
	var perr interface{}
	func() {
		defer func() { perr = recover() }()
		_, err = n.Accept(fb, ps, commit, false)
	}()
	if perr != nil || err != nil {
		e.c.Logf("fork block not committed: %v %v", perr, err)
		return
	}
	e.c.Count("attack_blocks_committed", 1)
	checkChain(e.c, n.Node, n.name+" (after committing the accepted attack block: "+attack+")", genesisNonce)
}

// afterBlock returns, for every account, the next nonce after executing the block's list on top of the committed chain,
// and the index after the last transaction of each sender.
func (e *env) afterBlock(txs types.Txs) (next []uint64, lastIdx []int) {
	next = append([]uint64{}, e.committed...)
	lastIdx = make([]int, numAccounts)
	for i, tx := range txs {
		if from, nonce, uses, err := acctUse(tx); uses && err == nil {
			if a := e.acctIndex(from); a >= 0 {
				if nonce+1 > next[a] {
					next[a] = nonce + 1
				}
				lastIdx[a] = i + 1
			}
		}
	}
	return
}

// blockAttacks issues hand-built variants of the valid proposal (base) to validator n, which has not yet seen base.
func (e *env) blockAttacks(n *tnode, base *types.Block, parts *types.PartSet, intensity float64) {
	r := e.r
	vtxs := base.Data.Txs
	anyPos := func() int { return r.Intn(len(vtxs) + 1) }
	try := func(attack string, txs types.Txs, culprit types.Tx, expected ...string) {
		if e.done {
			return
		}
		e.byzBlock(n, attack, base, parts, txs, culprit, expected...)
	}
	// positive controls: one more VALID transaction in the hand-built block must be executed and accepted
	if r.Chance(0.5) {
		if free := e.freeOuts(); len(free) > 0 && r.Bool() {
			if tx, err := e.respend(free[r.Intn(len(free))], e.pickRing()); err == nil {
				try("control-extra-valid-spend", insertAt(vtxs, anyPos(), tx), tx)
			}
		} else {
			acct := r.Intn(numAccounts)
			next, last := e.afterBlock(vtxs)
			tx, _ := e.newAccountTx(acct, next[acct])
			try("control-extra-valid-account-tx", insertAt(vtxs, last[acct]+r.Intn(len(vtxs)-last[acct]+1), tx), tx)
		}
	}
	// (1) same key image twice inside one transaction
	if free := e.freeOuts(); len(free) > 0 && r.Chance(intensity) {
		if tx, err := e.dupInTx(free[r.Intn(len(free))], e.pickRing()); err == nil {
			try("same-key-image-twice-in-one-tx", insertAt(vtxs, anyPos(), tx), tx, clsDupInTx, clsDouble)
		}
	}
	// (2)/(5) two different valid transactions spending the same output, both new to the chain
	if free := e.freeOuts(); len(free) > 0 && r.Chance(intensity) {
		o := free[r.Intn(len(free))]
		ring1 := e.pickRing()
		ring2 := ring1
		if r.Bool() {
			ring2 = e.otherRing(ring1)
		}
		t1, err1 := e.respend(o, ring1)
		t2, err2 := e.respend(o, ring2)
		if err1 == nil && err2 == nil {
			txs := insertAt(vtxs, anyPos(), t1)
			txs = insertAt(txs, r.Intn(len(txs)+1), t2)
			try(e.ringFlavor("two-spends-of-one-output", ring1, ring2), txs, t2, clsDouble)
		}
	}
	// (2)/(5) the proposal already spends the output; a second, different spend is added
	{
		var inBlock []*chainkit.OwnedOut
		for _, o := range e.pendingOuts() {
			if vtxs.IndexByHash(e.pendBy[o].Hash()) >= 0 {
				inBlock = append(inBlock, o)
			}
		}
		if len(inBlock) > 0 && r.Chance(intensity) {
			o := inBlock[r.Intn(len(inBlock))]
			before := e.spentBy[o]
			ring := before
			if r.Bool() {
				ring = e.otherRing(before)
			}
			if tx, err := e.respend(o, ring); err == nil {
				try(e.ringFlavor("second-spend-next-to-proposed-spend", before, ring), insertAt(vtxs, anyPos(), tx), tx, clsDouble)
			}
		}
	}
	// (3)/(5) output spent in an earlier block: new transaction, and literal replay
	if spent := e.spentOuts(); len(spent) > 0 && r.Chance(intensity) {
		o := spent[r.Intn(len(spent))]
		before := e.spentBy[o]
		ring := before
		if before == 0 || r.Bool() {
			ring = e.otherRing(before)
		}
		if tx, err := e.respend(o, ring); err == nil {
			try(e.ringFlavor("respend-of-committed-input", before, ring), insertAt(vtxs, anyPos(), tx), tx, clsDouble)
		}
	}
	if len(e.oldSpends) > 0 && r.Chance(intensity) {
		tx := e.oldSpends[r.Intn(len(e.oldSpends))]
		try("replay-of-committed-confidential-tx", insertAt(vtxs, anyPos(), cloneTx(tx)), tx, clsDouble)
	}
	// (6) one transaction of the proposal listed twice
	if len(vtxs) > 0 && r.Chance(intensity) {
		i := r.Intn(len(vtxs))
		tx := vtxs[i]
		attack := "tx-listed-twice-in-block"
		if len(keyImagesOf(tx)) > 0 {
			attack = "confidential-tx-listed-twice-in-block"
		}
		// behind its first occurrence and behind every transaction of the same sender, so that the repetition is the only defect
		pos := i + 1 + r.Intn(len(vtxs)-i)
		if from, _, uses, _ := acctUse(tx); uses {
			_, last := e.afterBlock(vtxs)
			if a := e.acctIndex(from); a >= 0 && pos < last[a] {
				pos = last[a] + r.Intn(len(vtxs)-last[a]+1)
			}
		}
		try(attack, insertAt(vtxs, pos, cloneTx(tx)), tx, clsLow, clsDouble)
	}
	// (6) replay of an account transaction of an earlier block
	if len(e.oldAcct) > 0 && r.Chance(intensity) {
		tx := e.oldAcct[r.Intn(len(e.oldAcct))]
		from, _, _, _ := acctUse(tx)
		_, last := e.afterBlock(vtxs)
		pos := anyPos()
		if a := e.acctIndex(from); a >= 0 && pos < last[a] {
			pos = last[a] + r.Intn(len(vtxs)-last[a]+1)
		}
		try("replay-of-committed-account-tx", insertAt(vtxs, pos, cloneTx(tx)), tx, clsLow)
	}
	// (6) new transactions at wrong nonces, appended behind the sender's transactions of the proposal
	for rep := 0; rep < 2; rep++ {
		if !r.Chance(intensity) {
			continue
		}
		acct := r.Intn(numAccounts)
		next, last := e.afterBlock(vtxs)
		nx := next[acct]
		pos := last[acct] + r.Intn(len(vtxs)-last[acct]+1)
		mk := func(nonce uint64) types.Tx {
			tx, _ := e.newAccountTx(acct, nonce)
			return tx
		}
		switch r.Intn(4) {
		case 0: // gap: nx is skipped
			tx := mk(nx + 1 + uint64(r.Intn(2)))
			try("nonce-gap", insertAt(vtxs, pos, tx), tx, clsHigh)
		case 1: // reordered: nx+1 before nx
			t1, t0 := mk(nx+1), mk(nx)
			txs := insertAt(vtxs, pos, t1)
			txs = insertAt(txs, pos+1+r.Intn(len(txs)-pos), t0)
			try("nonces-reordered", txs, t1, clsHigh)
		case 2: // a second, different transaction at a nonce that is already used (earlier block or this proposal)
			if nx > 0 {
				tx := mk(uint64(r.Intn(int(nx))))
				try("second-tx-at-used-nonce", insertAt(vtxs, pos, tx), tx, clsLow)
			}
		default: // a transfer and an account -> hidden transaction sharing the next nonce
			t1, t2 := e.newTransfer(acct, nx), types.Tx(e.newAin(acct, nx))
			if r.Bool() {
				t1, t2 = t2, t1
			}
			txs := insertAt(vtxs, pos, t1)
			txs = insertAt(txs, pos+1+r.Intn(len(txs)-pos), t2)
			try("transfer-and-account-input-share-nonce", txs, t2, clsLow)
		}
	}
	// (6) two transactions of one sender inside the proposal swapped
	if r.Chance(intensity) {
		type pair struct{ i, j int }
		var pairs []pair
		first := map[common.Address]int{}
		for i, tx := range vtxs {
			if from, _, uses, err := acctUse(tx); uses && err == nil {
				if j, ok := first[from]; ok {
					pairs = append(pairs, pair{j, i})
				}
				first[from] = i
			}
		}
		if len(pairs) > 0 {
			p := pairs[r.Intn(len(pairs))]
			txs := make(types.Txs, len(vtxs))
			copy(txs, vtxs)
			txs[p.i], txs[p.j] = txs[p.j], txs[p.i]
			try("proposal-nonces-swapped", txs, txs[p.i], clsHigh)
		}
	}
}
