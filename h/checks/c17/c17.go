// Package c17: the proposer schedule and validator-set updates are
// deterministic and path independent (DESIGN.md §5 C17) — library-level part.
package c17

import (
	"crypto/sha256"
	"encoding/binary"
	"fmt"
	"math"
	"sort"

	cfg "github.com/lianxiangcloud/linkchain/config"
	cmn "github.com/lianxiangcloud/linkchain/libs/common"
	"github.com/lianxiangcloud/linkchain/libs/crypto"
	"github.com/lianxiangcloud/linkchain/libs/log"
	"github.com/lianxiangcloud/linkchain/metrics"
	"github.com/lianxiangcloud/linkchain/types"

	"verif/h/internal/core"
	"verif/h/internal/rng"
)

// KeyTimesN is the class of the defect the lead's probe already confirmed on
// the unchanged tree: IncrementAccum(n) is the batch algorithm, not n single steps.
const KeyTimesN = "rotation/times-n-differs-from-n-single-steps"

func init() {
	core.Register(&core.Check{
		ID:        "C17",
		Also:      []string{"C17S"}, // in-simulation lane: round-skipping nodes agree on the proposer (h/checks/c17sim)
		Level:     "exploration",
		Technique: "differential monitoring of the real types.ValidatorSet (and consensus.ApplyBlock / VerifyFaultValEvidence call sites) against a one-step weighted-round-robin reference, pairwise path comparison, exact counting laws and a map model of the set",
		Rule: "case = one generated validator set (thorough: 8 sets per case; 1-30 validators; equal / small / coprime / dominant / wide / extreme / saturating powers; random list order) put through: " +
			"(1) every composition of n<=8 and random compositions of n<=200 rotations, each part IncrementAccum(k) compared with k single steps from the same state and every end state with the round-by-round walk; " +
			"(2) every single step compared with the reference (max accum, lower address wins ties, saturating big.Int arithmetic); " +
			"(3) exact fairness: from a fresh set every window of W*total single steps has exactly W*power proposals per validator, the accum vector is periodic, accum>-total, sum conserved; " +
			"(4) Hash/order vs list order, insertion order, accum and proposer cache; Copy() independence both ways; values handed in/out are copies; " +
			"(5) random add/update/remove/rotate history vs a map model, all permutations (<=5) of one update list; " +
			"(6) TotalVotingPower == min(sum,MaxInt64) and accum bounds under extreme powers; " +
			"(7) consensus.BlockExecutor.ApplyBlock at height 1 with the same application output in different orders / on different status copies; VerifyFaultValEvidence against the round-by-round proposer. " +
			"non-trivial = >=3 validators with >=2 distinct powers (or clipped arithmetic) and >=1 multi-step part compared; distinct by hash of (addresses, powers)",
		Assumptions: []string{
			"voting powers are >= 1 and addresses distinct (what genesis validation and the application's candidate list produce)",
			"the tie-break 'lower address wins' and 'largest accum proposes' documented in types/validator.go are the intended schedule",
			"ed25519 / amino hashing are trusted black boxes",
			"in-simulation agreement of nodes that skip rounds (enterNewRound) is checked elsewhere (detsim part of C17)",
		},
		Cases: func(tier string) int {
			if tier == "thorough" {
				return 60000 // x 8 sets per case
			}
			return 4000
		},
		Run: run,
		Floors: func(tier string) map[string]int64 {
			return floors(tier)
		},
		PanicIsViolation: false,
		Init: func() {
			core.QuietLogs()
			pk := crypto.GenPrivKeyEd25519FromSecret([]byte("c17-metrics"))
			metrics.PrometheusMetricInstance.Init(cfg.DefaultConfig(), pk.PubKey(), log.Root())
		},
	})
}

type kase struct {
	c     *core.Ctx
	r     *rng.R
	vals  []*types.Validator // generated validators (Accum 0) in list order
	class string
	seen  map[string]bool
	keyN  int // counter for fresh keys
	multi int // multi-step parts compared
}

// viol reports a violation once per key and case (the other oracles stay armed).
func (k *kase) viol(key, detail string, w interface{}) {
	if k.seen[key] {
		return
	}
	k.seen[key] = true
	k.c.Violation(key, detail, w)
}

// newVal makes a fresh validator with a deterministic key.
func (k *kase) newVal(power int64) *types.Validator {
	k.keyN++
	secret := append(k.r.Bytes(16), byte(k.keyN))
	pk := crypto.GenPrivKeyEd25519FromSecret(secret)
	var cb cmn.Address
	copy(cb[:], k.r.Bytes(len(cb)))
	return types.NewValidator(pk.PubKey(), cb, power)
}

var primes = []int64{2, 3, 5, 7, 11, 13, 17, 19, 23, 29, 31, 37, 41, 43, 47, 53, 59, 61, 67, 71, 73, 79, 83, 89, 97, 101, 103, 107, 109, 113}

func genPowers(r *rng.R, n int) ([]int64, string) {
	p := make([]int64, n)
	switch x := r.Intn(100); {
	case x < 12:
		c := int64(1)
		if r.Bool() {
			c = int64(r.Range(1, 50))
		}
		for i := range p {
			p[i] = c
		}
		return p, "equal"
	case x < 34:
		for i := range p {
			p[i] = int64(r.Range(1, 10))
		}
		return p, "small"
	case x < 48:
		perm := r.Perm(len(primes))
		for i := range p {
			p[i] = primes[perm[i%len(primes)]]
		}
		return p, "coprime"
	case x < 60:
		sum := int64(0)
		for i := range p {
			p[i] = int64(r.Range(1, 6))
			sum += p[i]
		}
		p[r.Intn(n)] = sum + int64(r.Range(0, 20))
		return p, "dominant"
	case x < 72:
		for i := range p {
			p[i] = 1 + int64(r.Uint64()%uint64([]int{100, 10000, 1000000}[r.Intn(3)]))
		}
		return p, "wide"
	case x < 86:
		for i := range p {
			switch r.Intn(4) {
			case 0:
				p[i] = int64(1) << uint(r.Range(40, 62))
			case 1:
				p[i] = 1 + int64(r.Uint64()>>uint(r.Range(2, 24)))
			case 2:
				p[i] = int64(1)<<62 + int64(r.Range(-2, 2))
			default:
				p[i] = int64(r.Range(1, 1000))
			}
		}
		return p, "extreme"
	default:
		nn := int64(n)
		pool := []int64{math.MaxInt64, math.MaxInt64 - 1, math.MaxInt64 / 2, math.MaxInt64/2 + 1, math.MaxInt64 / nn, math.MaxInt64/nn + 1, math.MaxInt64/nn - 1, 1 << 62, 1<<62 + 1, 1, 2, 3}
		for i := range p {
			p[i] = pool[r.Intn(len(pool))]
			if p[i] < 1 {
				p[i] = 1
			}
		}
		return p, "saturating"
	}
}

func genSize(r *rng.R) int {
	switch x := r.Intn(100); {
	case x < 4:
		return 1
	case x < 12:
		return 2
	case x < 50:
		return r.Range(3, 6)
	case x < 80:
		return r.Range(7, 14)
	default:
		return r.Range(15, 30)
	}
}

func permuted(r *rng.R, vals []*types.Validator) []*types.Validator {
	out := make([]*types.Validator, len(vals))
	for i, j := range r.Perm(len(vals)) {
		out[i] = vals[j]
	}
	return out
}

// setsPerCase: the thorough tier runs more sets per case (the first one is the quick tier's set
// of the same index) to keep the number of result records moderate.
func setsPerCase(tier string) int {
	if tier == "thorough" {
		return 8
	}
	return 1
}

func run(c *core.Ctx) {
	seen := map[string]bool{}
	for j := 0; j < setsPerCase(c.Tier); j++ {
		r := c.Rng
		if j > 0 {
			r = rng.Derive(c.Seed, "C17-extra-set", c.Index, j)
		}
		runSet(c, r, seen, j == 0)
	}
}

func runSet(c *core.Ctx, r *rng.R, seen map[string]bool, first bool) {
	k := &kase{c: c, r: r, seen: seen}
	n := genSize(k.r)
	powers, class := genPowers(k.r, n)
	k.class = class
	for _, p := range powers {
		k.vals = append(k.vals, k.newVal(p))
	}
	c.Count("sets", 1)
	c.Count("sets_class_"+class, 1)

	S := types.NewValidatorSet(k.vals)
	base := snapOf(S)
	_, clippedTotal, exact := refTotal(base.V)
	if clippedTotal {
		c.Count("sets_total_clipped", 1)
	}

	// every section works on its own sets/copies and reports under its own
	// keys; none of them returns early because another one fired.
	k.identity(S)
	k.rotation(S)
	k.fairness(exact)
	k.copies()
	k.history(S)
	k.updateLists(S)
	k.saturation(S)
	k.status()
	k.faultEvidence(S)

	// non-triviality + sample
	distinct := map[int64]bool{}
	for _, p := range powers {
		distinct[p] = true
	}
	if n >= 3 && (len(distinct) >= 2 || clippedTotal) && k.multi > 0 {
		h := sha256.New()
		for _, v := range base.V {
			h.Write(v.Addr)
			var b [8]byte
			binary.LittleEndian.PutUint64(b[:], uint64(v.Power))
			h.Write(b[:])
		}
		c.Nontrivial(fmt.Sprintf("%x", h.Sum(nil)[:8]))
	}
	if first && c.Index%500 == 0 {
		sp := append([]int64{}, powers...)
		sort.Slice(sp, func(i, j int) bool { return sp[i] < sp[j] })
		if len(sp) > 12 {
			sp = sp[:12]
		}
		c.Sample(map[string]interface{}{"validators": n, "class": class, "powers_sorted_prefix": sp, "total_clipped": clippedTotal,
			"first_proposer": short(base.V[maxInt(base.Prop, 0)].Addr), "multi_step_parts_compared": k.multi})
	}
}

func maxInt(a, b int) int {
	if a > b {
		return a
	}
	return b
}

func floors(tier string) map[string]int64 {
	scale := int64(1)
	if tier == "thorough" {
		scale = 60000 * 8 / 4000
	}
	out := map[string]int64{}
	for k, v := range floorTable {
		out[k] = v * scale
	}
	return out
}

// floorTable: roughly half of the minimum observed over VERIF_SEED=1..5 in the quick tier
// (4000 sets); every counter grows linearly with the number of sets.
var floorTable = map[string]int64{
	"multi_step_parts_compared":          275000,
	"compositions_exhaustive":            500000,
	"compositions_random":                4000,
	"single_steps_vs_reference":          120000,
	"steps_with_tie_for_max":             35000,
	"steps_with_saturation":              23000,
	"fairness_windows":                   2300,
	"fairness_steps":                     430000,
	"identity_list_permutations":         3800,
	"identity_built_by_add":              2000,
	"copy_independence_checks":           11000,
	"aliasing_checks":                    8000,
	"history_ops":                        37000,
	"proposer_after_invalidation_checks": 20000,
	"update_list_orders":                 70000,
	"total_power_clipped_checks":         380,
	"accum_bound_checks_saturating":      13000,
	"apply_block_calls":                  6000,
	"status_changed_lists":               3000,
	"fault_evidence_checks_round_ge_2":   1400,
	"fault_evidence_wrong_records":       5000,
}
