package c17

import (
	"bytes"
	"fmt"

	"github.com/lianxiangcloud/linkchain/consensus"
	cmn "github.com/lianxiangcloud/linkchain/libs/common"
	"github.com/lianxiangcloud/linkchain/libs/crypto"
	dbm "github.com/lianxiangcloud/linkchain/libs/db"
	"github.com/lianxiangcloud/linkchain/libs/log"
	"github.com/lianxiangcloud/linkchain/types"
)

const chainID = "c17-chain"

func firstBlock(st consensus.NewStatus) (*types.Block, types.BlockID) {
	block := types.MakeBlock(types.BlockHeightOne, nil, new(types.Commit))
	block.DataHash = block.Data.Hash()
	block.TotalTxs = 0
	block.ChainID = chainID
	block.ConsensusHash = cmn.BytesToHash(st.ConsensusParams.Hash())
	block.ValidatorsHash = cmn.BytesToHash(st.Validators.Hash())
	return block, types.BlockID{Hash: block.Hash()}
}

// apply runs the real ApplyBlock (-> updateStatus) for the first block on a private
// copy of st with its own database and returns the new status re-read from that database too.
func (k *kase) apply(st consensus.NewStatus, list []*types.Validator) (out consensus.NewStatus, reloaded consensus.NewStatus, err error) {
	db := dbm.NewMemDB()
	in := st.Copy()
	consensus.SaveStatus(db, in)
	before := snapOf(in.Validators).clone()
	ex := consensus.NewBlockExecutor(db, log.Root(), consensus.MockEvidencePool{})
	block, id := firstBlock(in)
	out, err = ex.ApplyBlock(in, id, block, list)
	k.c.Count("apply_block_calls", 1)
	if err != nil {
		return
	}
	if d := diff(snapOf(in.Validators), before); d != "" {
		k.viol("status/apply-block-mutates-the-input-status", "ApplyBlock changed the validator set of the status it was given: "+d,
			map[string]interface{}{"before": before.view(), "after": snapOf(in.Validators).view()})
	}
	reloaded, err = consensus.LoadStatus(db)
	return
}

// status: oracle (7a) — the same application output gives the same next validator set.
func (k *kase) status() {
	if k.c.Index%2 != 0 { // every second case: the path is the same for every set, only the list varies
		return
	}
	gv := make([]types.GenesisValidator, len(k.vals))
	for i, v := range k.vals {
		gv[i] = types.GenesisValidator{PubKey: v.PubKey, CoinBase: v.CoinBase, Power: v.VotingPower, Name: fmt.Sprintf("v%d", i)}
	}
	st, err := consensus.MakeGenesisStatus(&types.GenesisDoc{ChainID: chainID, Validators: gv})
	if err != nil {
		k.c.Inconclusive("MakeGenesisStatus: " + err.Error())
		return
	}
	cur := snapOf(st.Validators).clone()
	wantStep := cur.clone()
	refStep(&wantStep)

	fresh := func(vals []*types.Validator) []*types.Validator {
		out := make([]*types.Validator, len(vals))
		for i, v := range vals {
			out[i] = &types.Validator{Address: v.Address, PubKey: v.PubKey, CoinBase: v.CoinBase, VotingPower: v.VotingPower}
		}
		return out
	}
	checkLast := func(ns consensus.NewStatus, what string) {
		if d := diff(snapOf(ns.LastValidators), cur); d != "" {
			k.viol("status/last-validators-not-the-previous-set", what+": LastValidators differs from the set the block was decided with: "+d,
				map[string]interface{}{"previous": cur.view(), "last_validators": snapOf(ns.LastValidators).view()})
		}
	}
	checkReload := func(ns, re consensus.NewStatus, what string) {
		if d := diff(snapOf(re.Validators), snapOf(ns.Validators)); d != "" {
			k.viol("status/reloaded-validators-differ", what+": the status re-read from the database has a different "+d+" (a restarted node would rotate differently)",
				map[string]interface{}{"returned": snapOf(ns.Validators).view(), "reloaded": snapOf(re.Validators).view()})
		}
		if d := diff(snapOf(re.LastValidators), snapOf(ns.LastValidators)); d != "" {
			k.viol("status/reloaded-validators-differ", what+": the LastValidators re-read from the database differ in "+d, nil)
		}
	}

	// (a) unchanged output (nil list, and the same validators in two other orders): rotate by exactly one step
	lists := [][]*types.Validator{nil, permuted(k.r, fresh(k.vals)), permuted(k.r, fresh(k.vals))}
	for i, l := range lists {
		ns, re, err := k.apply(st, l)
		if err != nil {
			k.viol("status/apply-block-refused", "ApplyBlock of a well-formed first block failed: "+err.Error(), nil)
			return
		}
		got := snapOf(ns.Validators)
		if d := diff(got, wantStep); d != "" {
			k.viol("status/unchanged-validators-not-rotated-by-one-step", fmt.Sprintf("application output #%d (same validators): next set differs from one reference step in %s", i, d),
				map[string]interface{}{"previous": cur.view(), "next": got.view(), "one_reference_step": wantStep.view()})
		}
		if !bytes.Equal(ns.Validators.Hash(), st.Validators.Hash()) {
			k.viol("status/unchanged-validators-change-identity", "Hash of the next set differs although the application returned the same validators", nil)
		}
		checkLast(ns, "unchanged output")
		checkReload(ns, re, "unchanged output")
		k.c.Count("status_unchanged_lists", 1)
	}

	// (b) changed output in several orders / on several status copies: identical next set
	changed := fresh(k.vals)
	var what []string
	if len(changed) > 1 && k.r.Chance(0.5) {
		i := k.r.Intn(len(changed))
		what = append(what, "remove "+short(changed[i].Address))
		changed = append(changed[:i], changed[i+1:]...)
	}
	if k.r.Chance(0.6) || len(what) == 0 {
		i := k.r.Intn(len(changed))
		changed[i].VotingPower = changed[i].VotingPower/2 + int64(k.r.Range(1, 40))
		if changed[i].VotingPower == k.vals[0].VotingPower && len(k.vals) == 1 {
			changed[i].VotingPower++
		}
		what = append(what, fmt.Sprintf("power of %s -> %d", short(changed[i].Address), changed[i].VotingPower))
	}
	for i, n := 0, k.r.Range(0, 2); i < n; i++ {
		v := k.newVal(int64(k.r.Range(1, 100)))
		v.Accum = 0
		changed = append(changed, v)
		what = append(what, "add "+short(v.Address))
	}
	wantContent := rset{Prop: -1}
	for _, v := range changed {
		wantContent.V = append(wantContent.V, rv{Addr: v.Address, Power: v.VotingPower})
	}
	sortRV(wantContent.V)
	wantHash := types.NewValidatorSet(changed).Hash()
	var first rset
	for i := 0; i < 3; i++ {
		l := changed
		if i > 0 {
			l = permuted(k.r, fresh(changed))
		}
		ns, re, err := k.apply(st, l)
		if err != nil {
			k.viol("status/apply-block-refused", "ApplyBlock of a well-formed first block failed: "+err.Error(), nil)
			return
		}
		got := snapOf(ns.Validators).clone()
		k.c.Count("status_changed_lists", 1)
		// content = the application's list, canonical order, canonical identity
		content := got.clone()
		content.Prop = -1
		for j := range content.V {
			content.V[j].Accum = 0
		}
		if d := diff(content, wantContent); d != "" || !sortedStrict(got) {
			k.viol("status/next-set-is-not-the-application-output", "next validator set differs from the (address-sorted) application output in "+d,
				map[string]interface{}{"changes": what, "next": got.view(), "application_output_sorted": wantContent.view()})
			return
		}
		if !bytes.Equal(ns.Validators.Hash(), wantHash) {
			k.viol("status/next-set-identity-depends-on-order", "Hash of the next set differs from the Hash of the application output", map[string]interface{}{"changes": what})
		}
		checkLast(ns, "changed output")
		checkReload(ns, re, "changed output")
		if i == 0 {
			first = got
			continue
		}
		if d := diff(got, first); d != "" {
			k.viol("status/next-set-depends-on-order-of-application-output", "the same application output in another order gives a next set with a different "+d,
				map[string]interface{}{"changes": what, "first_order": first.view(), "this_order": got.view()})
		}
	}
}

// faultEvidence: oracle (7b) — the proposer the fault-validators evidence is checked
// against must be the proposer a node walking round by round had in that round.
func (k *kase) faultEvidence(S *types.ValidatorSet) {
	LV := S.Copy()
	for i, n := 0, k.r.Range(0, 6); i < n; i++ {
		LV.IncrementAccum(1)
	}
	before := snapOf(LV).clone()
	R := k.r.Range(0, 6)
	const H = 7
	// Validators = the set of the current height: the last one rotated by one block step
	CV := LV.Copy()
	CV.IncrementAccum(1)
	st := consensus.NewStatus{ChainID: chainID, LastBlockHeight: H, LastValidators: LV, Validators: CV}
	commit := func() *types.Commit {
		pcs := make([]*types.Vote, len(LV.Validators))
		i := k.r.Intn(len(pcs))
		pcs[i] = &types.Vote{ValidatorAddress: LV.Validators[i].Address, ValidatorIndex: i, Height: H, Round: R, Type: types.VoteTypePrecommit}
		return &types.Commit{Precommits: pcs}
	}
	pub := func(s rset) crypto.PubKey {
		return LV.Validators[s.Prop].PubKey // snapshots keep the set's own order
	}
	W := LV.Copy()
	for i := 0; i < R; i++ {
		W.IncrementAccum(1)
	}
	walk := snapOf(W).clone()
	shot := before
	if R > 0 {
		O := LV.Copy()
		O.IncrementAccum(R)
		shot = snapOf(O).clone()
	}
	explained := shot.Prop != walk.Prop // the times-n defect changes the recomputed proposer here
	if before.Prop < 0 || walk.Prop < 0 || shot.Prop < 0 {
		return // reported by the rotation oracles
	}
	w := func() map[string]interface{} {
		return map[string]interface{}{"last_validators_round0": before.view(), "commit_round": R,
			"proposer_walking_round_by_round": short(walk.V[walk.Prop].Addr), "proposer_IncrementAccum_round": short(shot.V[shot.Prop].Addr)}
	}
	mk := func(prop crypto.PubKey, fault crypto.PubKey, round int) *types.FaultValidatorsEvidence {
		e := &types.FaultValidatorsEvidence{BlockHeight: H, Round: round, Proposer: prop}
		if R > 0 {
			e.FaultVal = fault
		}
		return e
	}
	// the true record
	err := consensus.VerifyFaultValEvidence(st, commit(), mk(pub(walk), pub(before), R))
	k.c.Count("fault_evidence_checks", 1)
	if R >= 2 {
		k.c.Count("fault_evidence_checks_round_ge_2", 1)
	}
	if err != nil {
		if explained {
			k.c.Count("fault_evidence_affected_by_times_n", 1)
			k.viol(KeyTimesN, fmt.Sprintf("VerifyFaultValEvidence recomputes the round-%d proposer with IncrementAccum(%d) and therefore rejects the record that names the proposer of a node that walked %d rounds one by one: %v", R, R, R, err), w())
		} else {
			k.viol("faultevidence/true-record-rejected", fmt.Sprintf("record naming the round-0 proposer as fault validator and the round-%d proposer as proposer is rejected: %v", R, err), w())
		}
	}
	// wrong proposer
	if len(before.V) > 1 {
		other := k.r.Intn(len(before.V))
		if explained && k.r.Bool() {
			other = shot.Prop
		}
		if other != walk.Prop {
			o := before.clone()
			o.Prop = other
			err := consensus.VerifyFaultValEvidence(st, commit(), mk(pub(o), pub(before), R))
			k.c.Count("fault_evidence_wrong_records", 1)
			if err == nil {
				if explained && other == shot.Prop {
					k.c.Count("fault_evidence_affected_by_times_n", 1)
					k.viol(KeyTimesN, fmt.Sprintf("VerifyFaultValEvidence accepts a record naming a validator that was not the round-%d proposer of a node walking round by round (it recomputes with IncrementAccum(%d))", R, R), w())
				} else {
					k.viol("faultevidence/wrong-proposer-accepted", fmt.Sprintf("record naming %s as the round-%d proposer is accepted", short(before.V[other].Addr), R), w())
				}
			}
		}
		// wrong fault validator
		if R > 0 {
			other := (before.Prop + 1 + k.r.Intn(len(before.V)-1)) % len(before.V)
			o := before.clone()
			o.Prop = other
			prop := pub(walk)
			if explained {
				prop = pub(shot) // keep this probe independent of the known defect
			}
			err := consensus.VerifyFaultValEvidence(st, commit(), mk(prop, pub(o), R))
			k.c.Count("fault_evidence_wrong_records", 1)
			if err == nil {
				k.viol("faultevidence/wrong-fault-validator-accepted", fmt.Sprintf("record naming %s instead of the round-0 proposer as fault validator is accepted", short(before.V[other].Addr)), w())
			}
		}
	}
	// wrong round
	{
		prop := pub(walk)
		if explained {
			prop = pub(shot)
		}
		e := mk(prop, pub(before), R+1)
		if R == 0 {
			e.FaultVal = pub(before)
		}
		if err := consensus.VerifyFaultValEvidence(st, commit(), e); err == nil {
			k.viol("faultevidence/wrong-round-accepted", fmt.Sprintf("record for round %d accepted against a commit of round %d", R+1, R), w())
		}
		k.c.Count("fault_evidence_wrong_records", 1)
	}
	if d := diff(snapOf(LV), before); d != "" {
		k.viol("faultevidence/verification-mutates-last-validators", "VerifyFaultValEvidence changed status.LastValidators: "+d, w())
	}
}
