package c17

import (
	"bytes"
	"fmt"
	"math"
	"math/big"

	"github.com/lianxiangcloud/linkchain/types"
)

// ---------------------------------------------------------------------------
// Reference model of weighted round robin, written against the documentation
// of types/validator_set.go, with saturating arithmetic done in big.Int.
//
// one step:  every accum += power (saturating); the validator with the largest
// accum (ties: the lower address) is the proposer; its accum -= total power
// (saturating).  total power = min(sum of powers, MaxInt64).

type rv struct {
	Addr  []byte
	Power int64
	Accum int64
}

// rset is a snapshot of a validator set: entries in the set's own order and
// the index of the proposer (-1 = none, -2 = proposer is not a member).
type rset struct {
	V    []rv
	Prop int
}

var (
	bigMax = big.NewInt(math.MaxInt64)
	bigMin = big.NewInt(math.MinInt64)
)

func sat(x *big.Int) (int64, bool) {
	if x.Cmp(bigMax) > 0 {
		return math.MaxInt64, true
	}
	if x.Cmp(bigMin) < 0 {
		return math.MinInt64, true
	}
	return x.Int64(), false
}

func satAdd(a, b int64) (int64, bool) {
	return sat(new(big.Int).Add(big.NewInt(a), big.NewInt(b)))
}
func satSub(a, b int64) (int64, bool) {
	return sat(new(big.Int).Sub(big.NewInt(a), big.NewInt(b)))
}
func satMul(a, b int64) (int64, bool) {
	return sat(new(big.Int).Mul(big.NewInt(a), big.NewInt(b)))
}

// refTotal = min(sum of powers, MaxInt64); exact is the unclipped sum.
func refTotal(v []rv) (total int64, clipped bool, exact *big.Int) {
	exact = new(big.Int)
	for _, x := range v {
		exact.Add(exact, big.NewInt(x.Power))
	}
	total, clipped = sat(exact)
	return
}

func (s rset) clone() rset {
	o := rset{V: make([]rv, len(s.V)), Prop: s.Prop}
	copy(o.V, s.V)
	return o
}

// refMax: index of the largest accum, ties to the lower address.
func refMax(v []rv) (idx int, tie bool) {
	idx = -1
	for i := range v {
		if idx < 0 || v[i].Accum > v[idx].Accum {
			idx, tie = i, false
		} else if v[i].Accum == v[idx].Accum {
			tie = true
			if bytes.Compare(v[i].Addr, v[idx].Addr) < 0 {
				idx = i
			}
		}
	}
	return
}

type stepInfo struct{ Tie, Clipped bool }

// refStep applies one rotation step in place.
func refStep(s *rset) (info stepInfo) {
	total, tc, _ := refTotal(s.V)
	info.Clipped = tc
	for i := range s.V {
		var c bool
		s.V[i].Accum, c = satAdd(s.V[i].Accum, s.V[i].Power)
		info.Clipped = info.Clipped || c
	}
	w, tie := refMax(s.V)
	info.Tie = tie
	var c bool
	s.V[w].Accum, c = satSub(s.V[w].Accum, total)
	info.Clipped = info.Clipped || c
	s.Prop = w
	return
}

// refBatch is the algorithm the comment of IncrementAccum describes for
// times > 1 (add power*times to everybody, then `times` times take the total
// off the running maximum). The property does NOT demand this; it is used only
// to classify a mismatch between IncrementAccum(n) and n single steps.
func refBatch(s *rset, times int) {
	total, _, _ := refTotal(s.V)
	for i := range s.V {
		m, _ := satMul(s.V[i].Power, int64(times))
		s.V[i].Accum, _ = satAdd(s.V[i].Accum, m)
	}
	for i := 0; i < times; i++ {
		w, _ := refMax(s.V)
		s.V[w].Accum, _ = satSub(s.V[w].Accum, total)
		s.Prop = w
	}
}

// snapOf reads the observable rotation state of a real set.
func snapOf(vs *types.ValidatorSet) rset {
	s := rset{Prop: -1, V: make([]rv, 0, len(vs.Validators))}
	for _, v := range vs.Validators {
		s.V = append(s.V, rv{Addr: v.Address, Power: v.VotingPower, Accum: v.Accum})
	}
	if p := vs.GetProposer(); p != nil {
		s.Prop = -2
		for i := range s.V {
			if bytes.Equal(s.V[i].Addr, p.Address) {
				s.Prop = i
				break
			}
		}
	}
	return s
}

// diff returns "" when the two snapshots are equal, else what differs first.
func diff(a, b rset) string {
	if len(a.V) != len(b.V) {
		return "size"
	}
	for i := range a.V {
		if !bytes.Equal(a.V[i].Addr, b.V[i].Addr) {
			return "order"
		}
	}
	for i := range a.V {
		if a.V[i].Power != b.V[i].Power {
			return "power"
		}
	}
	if a.Prop != b.Prop {
		return "proposer"
	}
	for i := range a.V {
		if a.V[i].Accum != b.V[i].Accum {
			return "accum"
		}
	}
	return ""
}

func short(a []byte) string {
	if len(a) > 4 {
		a = a[:4]
	}
	return fmt.Sprintf("%x", a)
}

// view is the JSON form used in witnesses and samples.
func (s rset) view() map[string]interface{} {
	addrs := make([]string, len(s.V))
	pw := make([]int64, len(s.V))
	ac := make([]int64, len(s.V))
	for i, v := range s.V {
		addrs[i], pw[i], ac[i] = short(v.Addr), v.Power, v.Accum
	}
	m := map[string]interface{}{"addr": addrs, "power": pw, "accum": ac, "proposer_index": s.Prop}
	if s.Prop >= 0 {
		m["proposer"] = addrs[s.Prop]
	}
	return m
}

func sortedStrict(s rset) bool {
	for i := 1; i < len(s.V); i++ {
		if bytes.Compare(s.V[i-1].Addr, s.V[i].Addr) >= 0 {
			return false
		}
	}
	return true
}
