package c17

import (
	"fmt"
	"math/big"

	"github.com/lianxiangcloud/linkchain/types"
)

// checkStep performs one real single step on vs and the same step on the
// reference, and compares them.
func (k *kase) checkStep(vs *types.ValidatorSet, ref *rset, where string) {
	before := ref.clone()
	vs.IncrementAccum(1)
	info := refStep(ref)
	k.c.Count("single_steps_vs_reference", 1)
	if info.Tie {
		k.c.Count("steps_with_tie_for_max", 1)
	}
	if info.Clipped {
		k.c.Count("steps_with_saturation", 1)
	}
	got := snapOf(vs)
	if d := diff(got, *ref); d != "" {
		key := "rotation/step-" + d + "-differs-from-reference"
		k.viol(key, fmt.Sprintf("%s: IncrementAccum(1) and the reference step disagree on %s (tie=%v saturated=%v)", where, d, info.Tie, info.Clipped),
			map[string]interface{}{"before": before.view(), "real_after": got.view(), "reference_after": ref.view()})
		// resynchronise so that one mismatch is reported once
		*ref = got.clone()
		if ref.Prop < 0 {
			ref.Prop = 0
		}
	}
	// the cached proposer must be a member with the member's data
	p := vs.GetProposer()
	if got.Prop < 0 {
		k.viol("rotation/proposer-not-a-member", where+": GetProposer() names an address that is not in the set", got.view())
	} else if p.VotingPower != got.V[got.Prop].Power {
		k.viol("rotation/proposer-cache-stale-power", fmt.Sprintf("%s: GetProposer().VotingPower=%d, member has %d", where, p.VotingPower, got.V[got.Prop].Power), got.view())
	}
}

func (k *kase) freshRef() rset {
	vs := make([]rv, 0, len(k.vals))
	for _, v := range k.vals {
		vs = append(vs, rv{Addr: v.Address, Power: v.VotingPower})
	}
	sortRV(vs)
	return rset{V: vs, Prop: -1}
}

func sortRV(v []rv) {
	for i := 1; i < len(v); i++ {
		for j := i; j > 0 && string(v[j].Addr) < string(v[j-1].Addr); j-- {
			v[j], v[j-1] = v[j-1], v[j]
		}
	}
}

// rotation: oracle (2) on a prefix of single steps, then oracle (1) on all
// compositions of 8 and random compositions of up to 200.
func (k *kase) rotation(S *types.ValidatorSet) {
	// the state NewValidatorSet leaves behind is "zero accums + one step"
	ref := k.freshRef()
	refStep(&ref)
	if d := diff(snapOf(S), ref); d != "" {
		k.viol("rotation/new-set-"+d+"-differs-from-reference", "NewValidatorSet(list) is not the sorted list with zero accums after one reference step: "+d,
			map[string]interface{}{"real": snapOf(S).view(), "reference": ref.view()})
		ref = snapOf(S).clone()
	}
	X := S.Copy()
	pre := k.r.Range(0, 40)
	for i := 0; i < pre; i++ {
		k.checkStep(X, &ref, "pre-rotation")
	}

	// --- exhaustive compositions of n <= 8 from X
	const N = 8
	rootWalk := k.walk(X, N)
	k.dfs(X, 0, N, rootWalk, false, nil)

	// --- random compositions of n <= 200
	for t := 0; t < 2; t++ {
		n := k.r.Range(9, 200)
		w := X.Copy()
		for i := 0; i < n; i++ {
			w.IncrementAccum(1)
		}
		want := snapOf(w)
		cur := X.Copy()
		rem := n
		var parts []int
		mism := false
		for rem > 0 {
			j := 1
			switch k.r.Intn(3) {
			case 0:
				j = k.r.Range(1, 4)
			case 1:
				j = k.r.Range(2, 30)
			default:
				j = k.r.Range(1, rem)
			}
			if j > rem {
				j = rem
			}
			if j > 1 {
				if k.part(cur, j, nil, parts) {
					mism = true
				}
			}
			cur.IncrementAccum(j)
			parts = append(parts, j)
			rem -= j
		}
		k.c.Count("compositions_random", 1)
		if d := diff(snapOf(cur), want); d != "" && !mism {
			k.viol("rotation/composition-differs-without-part-mismatch",
				fmt.Sprintf("composition of n=%d ends with a different %s than the round-by-round walk although every part equalled its own single steps", n, d),
				map[string]interface{}{"start": snapOf(X).view(), "parts": parts, "composition_end": snapOf(cur).view(), "walk_end": want.view()})
		}
	}

	// keep stepping the reference twin a little further from the walk's start (ties, clipping)
	more := k.r.Range(10, 60)
	for i := 0; i < more; i++ {
		k.checkStep(X, &ref, "long-walk")
	}
}

// walk returns the snapshots after 0..n single steps from X (X untouched).
func (k *kase) walk(X *types.ValidatorSet, n int) []rset {
	out := make([]rset, n+1)
	w := X.Copy()
	out[0] = snapOf(w)
	for i := 1; i <= n; i++ {
		w.IncrementAccum(1)
		out[i] = snapOf(w).clone()
	}
	return out
}

// part compares IncrementAccum(j) from X with j single steps from X; returns true on mismatch.
// walk may carry precomputed single-step snapshots from X (walk[j]).
func (k *kase) part(X *types.ValidatorSet, j int, walk []rset, path []int) bool {
	var want rset
	if walk != nil {
		want = walk[j]
	} else {
		w := X.Copy()
		for i := 0; i < j; i++ {
			w.IncrementAccum(1)
		}
		want = snapOf(w)
	}
	Y := X.Copy()
	Y.IncrementAccum(j)
	got := snapOf(Y)
	k.multi++
	k.c.Count("multi_step_parts_compared", 1)
	d := diff(got, want)
	if d == "" {
		return false
	}
	k.c.Count("multi_step_parts_differing", 1)
	before := snapOf(X).clone()
	batch := before.clone()
	refBatch(&batch, j)
	if diff(got, batch) == "" {
		// exactly the documented batch algorithm: the known class
		if !k.seen[KeyTimesN] {
			w := map[string]interface{}{"before": before.view(), "times": j, "after_IncrementAccum_times": got.view(), "after_single_steps": want.view(),
				"differs_in": d, "parts_before": append([]int{}, path...)}
			if m := k.minimise(); m != nil {
				w["minimised"] = m
			}
			k.viol(KeyTimesN, fmt.Sprintf("IncrementAccum(%d) != %d x IncrementAccum(1) from the same state (%s differs; %d validators); the result equals the batch algorithm 'add %d*power, then take the total off the running maximum %d times'", j, j, d, len(before.V), j, j), w)
		}
	} else {
		k.viol("rotation/times-n-matches-neither-single-steps-nor-batch-algorithm",
			fmt.Sprintf("IncrementAccum(%d) differs from %d single steps (%s) and also from the documented batch algorithm", j, j, d),
			map[string]interface{}{"before": before.view(), "times": j, "real": got.view(), "single_steps": want.view(), "batch_reference": batch.view()})
	}
	return true
}

// dfs enumerates every composition of every n <= total from the root state.
func (k *kase) dfs(X *types.ValidatorSet, used, total int, rootWalk []rset, mism bool, path []int) {
	k.c.Count("compositions_exhaustive", 1)
	if used > 0 && !mism {
		if d := diff(snapOf(X), rootWalk[used]); d != "" {
			k.viol("rotation/composition-differs-without-part-mismatch",
				fmt.Sprintf("composition %v of n=%d ends with a different %s than the round-by-round walk although every part equalled its own single steps", path, used, d),
				map[string]interface{}{"start": rootWalk[0].view(), "parts": append([]int{}, path...), "composition_end": snapOf(X).view(), "walk_end": rootWalk[used].view()})
		}
	}
	rem := total - used
	if rem == 0 {
		return
	}
	walk := k.walk(X, rem)
	for j := 1; j <= rem; j++ {
		m := false
		if j > 1 {
			m = k.part(X, j, walk, path)
		}
		Y := X.Copy()
		Y.IncrementAccum(j)
		k.dfs(Y, used+j, total, rootWalk, mism || m, append(path, j))
	}
}

// minimise searches, with this case's validators, for a small reachable
// witness of "IncrementAccum(j) != j single steps": a fresh set (zero accums)
// of a subset of the validators with reduced powers, s single steps, then j.
func (k *kase) minimise() map[string]interface{} {
	type cand struct {
		idx   []int // indices into k.vals
		power []int64
	}
	build := func(cd cand) *types.ValidatorSet {
		vs := make([]*types.Validator, len(cd.idx))
		for i, ix := range cd.idx {
			v := k.vals[ix].Copy()
			v.VotingPower = cd.power[i]
			v.Accum = 0
			vs[i] = v
		}
		return types.NewValidatorSet(vs)
	}
	// fails returns the smallest (s+j, s, j) witness for the candidate; strong = the proposers
	// differ (not only the accums).
	strong := true
	fails := func(cd cand) (bool, int, int) {
		if len(cd.idx) < 2 {
			return false, 0, 0
		}
		base := build(cd)
		for sum := 2; sum <= 9; sum++ {
			for j := 2; j <= sum && j <= 5; j++ {
				s := sum - j
				X := base.Copy()
				for i := 0; i < s; i++ {
					X.IncrementAccum(1)
				}
				a, b := X.Copy(), X.Copy()
				a.IncrementAccum(j)
				for i := 0; i < j; i++ {
					b.IncrementAccum(1)
				}
				sa, sb := snapOf(a), snapOf(b)
				if (strong && sa.Prop != sb.Prop) || (!strong && diff(sa, sb) != "") {
					return true, s, j
				}
			}
		}
		return false, 0, 0
	}
	cur := cand{}
	for i, v := range k.vals {
		cur.idx = append(cur.idx, i)
		cur.power = append(cur.power, v.VotingPower)
	}
	if ok, _, _ := fails(cur); !ok {
		strong = false
		if ok, _, _ := fails(cur); !ok {
			return nil
		}
	}
	budget := 600
	for changed := true; changed && budget > 0; {
		changed = false
		// drop validators
		for i := 0; i < len(cur.idx) && budget > 0; i++ {
			nc := cand{append(append([]int{}, cur.idx[:i]...), cur.idx[i+1:]...), append(append([]int64{}, cur.power[:i]...), cur.power[i+1:]...)}
			budget--
			if ok, _, _ := fails(nc); ok {
				cur, changed = nc, true
				i--
			}
		}
		// shrink powers
		for i := 0; i < len(cur.idx) && budget > 0; i++ {
			for _, np := range []int64{1, 2, 3, cur.power[i] / 1024, cur.power[i] / 2, cur.power[i] - 1} {
				if np < 1 || np >= cur.power[i] {
					continue
				}
				nc := cand{cur.idx, append([]int64{}, cur.power...)}
				nc.power[i] = np
				budget--
				if ok, _, _ := fails(nc); ok {
					cur, changed = nc, true
					break
				}
			}
		}
	}
	_, s, j := fails(cur)
	X := build(cur)
	for i := 0; i < s; i++ {
		X.IncrementAccum(1)
	}
	a, b := X.Copy(), X.Copy()
	a.IncrementAccum(j)
	for i := 0; i < j; i++ {
		b.IncrementAccum(1)
	}
	return map[string]interface{}{
		"how":                        fmt.Sprintf("NewValidatorSet(powers in address order), %d x IncrementAccum(1), then IncrementAccum(%d) vs %d x IncrementAccum(1)", s, j, j),
		"state_before":               snapOf(X).view(),
		"times":                      j,
		"after_IncrementAccum_times": snapOf(a).view(),
		"after_single_steps":         snapOf(b).view(),
	}
}

// fairness: oracle (3). For a fresh set (zero accums) without clipping the
// schedule is exactly periodic: after `total` single steps every accum is back
// and validator i proposed exactly power_i times (proof: sum of accums is 0,
// so the maximum before the subtraction is > 0 and every accum stays > -total;
// accum_i(t) = t*power_i - total*count_i(t); at t = total this gives
// count_i <= power_i for all i and the counts sum to total). Hence every window
// of W*total steps, at any offset, contains exactly W*power_i proposals of i,
// and from the zero state count_i(t)*total < t*power_i + total for every t.
func (k *kase) fairness(exact *big.Int) {
	n := len(k.vals)
	if !exact.IsInt64() || exact.Int64() > 3000 || exact.Int64()*int64(n) > 45000 {
		return
	}
	T := int(exact.Int64())
	W := 1
	if T*n <= 8000 {
		W = k.r.Range(1, 3)
	}
	off := k.r.Range(0, T)
	S := types.NewValidatorSet(permuted(k.r, k.vals)) // state after step 1 of the cycle
	start := snapOf(S).clone()
	power := make([]int64, n)
	for i, v := range start.V {
		power[i] = v.Power
	}
	steps := off + W*T // the set is observed at t = 1 .. steps+1
	seq := make([]int, 0, steps+1)
	seq = append(seq, start.Prop)
	count := make([]int64, n)
	count[start.Prop]++
	bad := func(key, detail string, w map[string]interface{}) {
		w["powers_in_address_order"] = power
		w["total"] = T
		k.viol(key, detail, w)
	}
	check := func(t int, s rset) {
		// t = number of steps done since the zero state
		var sum int64
		for i, v := range s.V {
			sum += v.Accum
			if v.Accum <= -int64(T) {
				bad("fairness/accum-at-or-below-minus-total", fmt.Sprintf("after %d steps accum[%d]=%d <= -total=%d", t, i, v.Accum, -T), map[string]interface{}{"state": s.view()})
			}
			if v.Accum != int64(t)*v.Power-int64(T)*count[i] {
				bad("fairness/accum-not-steps-times-power-minus-total-times-proposals",
					fmt.Sprintf("after %d steps validator %d (power %d) proposed %d times but accum=%d (law: t*power - total*count = %d)", t, i, v.Power, count[i], v.Accum, int64(t)*v.Power-int64(T)*count[i]),
					map[string]interface{}{"state": s.view(), "counts": append([]int64{}, count...)})
			}
		}
		if sum != 0 {
			bad("fairness/accum-sum-not-conserved", fmt.Sprintf("after %d steps the accums sum to %d, not 0", t, sum), map[string]interface{}{"state": s.view()})
		}
		p := s.Prop
		if p >= 0 && count[p]*int64(T) >= int64(t)*s.V[p].Power+int64(T) {
			bad("fairness/over-proposed", fmt.Sprintf("after %d steps validator %d (power %d of %d) proposed %d times, a full slot more than its share", t, p, s.V[p].Power, T, count[p]),
				map[string]interface{}{"state": s.view()})
		}
	}
	check(1, start)
	var atT rset
	for t := 2; t <= steps+1; t++ {
		S.IncrementAccum(1)
		s := snapOf(S)
		if s.Prop < 0 {
			bad("rotation/proposer-not-a-member", "GetProposer() names an address that is not in the set", map[string]interface{}{"state": s.view()})
			return
		}
		seq = append(seq, s.Prop)
		count[s.Prop]++
		check(t, s)
		if t == T+1 {
			atT = s.clone()
		}
	}
	k.c.Count("fairness_steps", int64(steps))
	// periodicity: the state after total more steps equals the start
	if T+1 <= steps+1 && atT.V != nil {
		if d := diff(atT, start); d != "" {
			bad("fairness/schedule-not-periodic-in-total-power", fmt.Sprintf("%d single steps after a fresh set the %s differs from the start (must be identical)", T, d),
				map[string]interface{}{"start": start.view(), "after_total_steps": atT.view()})
		}
	}
	// windows of W*T at offset 0.. and at the random offset: exact proportionality.
	for _, o := range []int{0, off} {
		cnt := make([]int64, n)
		// window covers observed proposers seq[o+1 .. o+W*T] (the steps after the state at index o)
		for i := o + 1; i <= o+W*T && i < len(seq); i++ {
			cnt[seq[i]]++
		}
		k.c.Count("fairness_windows", 1)
		for i := range cnt {
			if cnt[i] != int64(W)*power[i] {
				bad("fairness/window-count-differs-from-power-share",
					fmt.Sprintf("window of %d*total=%d single steps at offset %d: validator %d (power %d) proposed %d times, exact share is %d", W, W*T, o, i, power[i], cnt[i], int64(W)*power[i]),
					map[string]interface{}{"start": start.view(), "offset": o, "window": W * T, "counts": cnt})
				break
			}
		}
	}
}
