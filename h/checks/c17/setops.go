package c17

import (
	"bytes"
	"fmt"
	"math"
	"math/big"
	"sort"

	"github.com/lianxiangcloud/linkchain/libs/ser"
	"github.com/lianxiangcloud/linkchain/types"
)

// ---------------------------------------------------------------- (4) identity

func (k *kase) identity(S *types.ValidatorSet) {
	base := snapOf(S).clone()
	h0 := S.Hash()
	if !sortedStrict(base) {
		k.viol("identity/order-not-sorted-by-address", "NewValidatorSet does not keep the validators strictly sorted by address", base.view())
	}
	// the same list in other orders
	for t := 0; t < 2 && len(k.vals) > 1; t++ {
		P := types.NewValidatorSet(permuted(k.r, k.vals))
		k.c.Count("identity_list_permutations", 1)
		if d := diff(snapOf(P), base); d != "" {
			k.viol("identity/new-set-depends-on-list-order", "NewValidatorSet of a permuted list differs in "+d, map[string]interface{}{"a": base.view(), "b": snapOf(P).view()})
		}
		if !bytes.Equal(P.Hash(), h0) {
			k.viol("identity/hash-depends-on-list-order", fmt.Sprintf("Hash %x vs %x for the same validators in another list order", P.Hash(), h0), base.view())
		}
	}
	// built by Add, one at a time, in random order (no rotation ever applied, no cached proposer)
	A := types.NewValidatorSet(nil)
	for _, v := range permuted(k.r, k.vals) {
		if !A.Add(v) {
			k.viol("ops/add-of-absent-address-refused", "Add returned false for an address that is not in the set", nil)
		}
	}
	k.c.Count("identity_built_by_add", 1)
	sa := snapOf(A)
	if !sortedStrict(sa) || len(sa.V) != len(base.V) {
		k.viol("identity/order-not-sorted-by-address", "a set built by Add in random order is not strictly sorted by address / has the wrong size", map[string]interface{}{"by_add": sa.view(), "by_new": base.view()})
	}
	if !bytes.Equal(A.Hash(), h0) {
		k.viol("identity/hash-depends-on-insertion-order-or-bookkeeping", fmt.Sprintf("set built by Add (zero accums, no rotation): Hash %x; NewValidatorSet of the same validators: %x", A.Hash(), h0), base.view())
	}
	// Hash must not depend on accum / proposer bookkeeping
	R := S.Copy()
	R.IncrementAccum(k.r.Range(1, 7))
	R.IncrementAccum(1)
	k.c.Count("identity_hash_after_rotation", 1)
	if !bytes.Equal(R.Hash(), h0) {
		k.viol("identity/hash-depends-on-accum", fmt.Sprintf("Hash changed from %x to %x by rotating", h0, R.Hash()), base.view())
	}
	Q := S.Copy()
	Q.Proposer = nil
	if !bytes.Equal(Q.Hash(), h0) {
		k.viol("identity/hash-depends-on-proposer-cache", "Hash changed by clearing the cached proposer", base.view())
	}
	if len(Q.Validators) > 1 {
		Q.Proposer = Q.Validators[k.r.Intn(len(Q.Validators))]
		if !bytes.Equal(Q.Hash(), h0) {
			k.viol("identity/hash-depends-on-proposer-cache", "Hash changed by pointing the cached proposer at another member", base.view())
		}
	}
	// ... and must depend on membership and power
	if len(k.vals) > 0 {
		U := S.Copy()
		i := k.r.Intn(len(U.Validators))
		nv := U.Validators[i].Copy()
		if nv.VotingPower == math.MaxInt64 {
			nv.VotingPower--
		} else {
			nv.VotingPower++
		}
		U.Update(nv)
		if bytes.Equal(U.Hash(), h0) {
			k.viol("identity/hash-ignores-voting-power", "Hash unchanged after changing one voting power", base.view())
		}
		if len(k.vals) > 1 {
			D := S.Copy()
			D.Remove(D.Validators[i].Address)
			if bytes.Equal(D.Hash(), h0) {
				k.viol("identity/hash-ignores-membership", "Hash unchanged after removing a validator", base.view())
			}
		}
		k.c.Count("identity_hash_sensitivity", 1)
	}
}

// ---------------------------------------------------------------- (4) Copy()

type obs struct {
	s     rset
	hash  []byte
	total int64
}

func observe(vs *types.ValidatorSet) obs {
	return obs{snapOf(vs).clone(), vs.Hash(), vs.TotalVotingPower()}
}

func (o obs) diff(p obs) string {
	if d := diff(o.s, p.s); d != "" {
		return d
	}
	if !bytes.Equal(o.hash, p.hash) {
		return "hash"
	}
	if o.total != p.total {
		return "total"
	}
	return ""
}

// mutate applies one random in-place change to vs; returns a description.
func (k *kase) mutate(vs *types.ValidatorSet) string {
	switch x := k.r.Intn(6); {
	case x == 0 && len(vs.Validators) > 0:
		vs.IncrementAccum(1)
		return "IncrementAccum(1)"
	case x == 1 && len(vs.Validators) > 0:
		n := k.r.Range(2, 9)
		vs.IncrementAccum(n)
		return fmt.Sprintf("IncrementAccum(%d)", n)
	case x == 2 && len(vs.Validators) > 0:
		v := vs.Validators[k.r.Intn(len(vs.Validators))].Copy()
		v.VotingPower = v.VotingPower/2 + int64(k.r.Range(1, 9))
		v.Accum = int64(k.r.Range(-5, 5))
		vs.Update(v)
		return "Update"
	case x == 3 && len(vs.Validators) > 1:
		vs.Remove(vs.Validators[k.r.Intn(len(vs.Validators))].Address)
		return "Remove"
	case x == 4 && len(vs.Validators) > 0:
		// what the proposer-selection code does: write Accum of a member in place
		vs.Validators[k.r.Intn(len(vs.Validators))].Accum += int64(k.r.Range(1, 1000))
		return "member.Accum+="
	default:
		vs.Add(k.newVal(int64(k.r.Range(1, 100))))
		return "Add"
	}
}

// aliasing: values handed in or out must be copies ("All get/set to validators should copy the value").
func (k *kase) aliasing() {
	in := make([]*types.Validator, len(k.vals))
	for i, v := range k.vals {
		in[i] = v.Copy()
	}
	vs := types.NewValidatorSet(in)
	for i, n := 0, k.r.Range(0, 3); i < n; i++ {
		vs.IncrementAccum(1)
	}
	before := observe(vs)
	scribble := func(v *types.Validator) {
		if v != nil {
			v.Accum += 12345
			v.VotingPower = v.VotingPower/2 + 7
		}
	}
	check := func(what string) bool {
		k.c.Count("aliasing_checks", 1)
		if d := observe(vs).diff(before); d != "" {
			k.viol("copy/value-handed-in-or-out-aliases-the-set", "writing to "+what+" changed the set's "+d, map[string]interface{}{"before": before.s.view(), "after": snapOf(vs).view()})
			return false
		}
		return true
	}
	scribble(in[k.r.Intn(len(in))])
	if !check("a validator of the list given to NewValidatorSet") {
		return
	}
	scribble(vs.GetProposer())
	if !check("the value returned by GetProposer()") {
		return
	}
	_, v := vs.GetByIndex(k.r.Intn(vs.Size()))
	scribble(v)
	_, v = vs.GetByAddress(vs.Validators[k.r.Intn(vs.Size())].Address)
	scribble(v)
	vs.Iterate(func(i int, v *types.Validator) bool { scribble(v); return false })
	if !check("the values returned by GetByIndex/GetByAddress/Iterate") {
		return
	}
	nv := k.newVal(int64(k.r.Range(1, 50)))
	vs.Add(nv)
	uv := vs.Validators[k.r.Intn(vs.Size())].Copy()
	uv.VotingPower = uv.VotingPower/2 + 3
	vs.Update(uv)
	before = observe(vs)
	scribble(nv)
	scribble(uv)
	check("a validator previously given to Add/Update")
}

// reloadedCopies: the path of a restarted node. The set comes back from its stored encoding (LoadStatus /
// LoadValidators decode it: the cached proposer is then an object of its own, no element of the list) and is
// copied before the consensus state, the evidence pool and the fast-sync reactor use it. The copy of the
// reloaded set must name the proposer the running nodes have, now and after further rotation.
func (k *kase) reloadedCopies() {
	O := types.NewValidatorSet(k.vals)
	for i, n := 0, k.r.Range(0, 6); i < n; i++ {
		O.IncrementAccum(1)
	}
	O.GetProposer() // as a running node has it cached
	enc, err := ser.EncodeToBytes(O)
	if err != nil {
		k.viol("copy/validator-set-not-encodable", err.Error(), nil)
		return
	}
	L := &types.ValidatorSet{}
	if err := ser.DecodeBytes(enc, L); err != nil {
		k.viol("copy/validator-set-not-decodable", err.Error(), nil)
		return
	}
	k.c.Count("copy_of_reloaded_set_checks", 1)
	chain := []*types.ValidatorSet{L.Copy()}
	chain = append(chain, chain[0].Copy())
	for steps := 0; steps < 3; steps++ {
		want := snapOf(O)
		for ci, C := range chain {
			if d := diff(snapOf(C), want); d != "" {
				k.viol("copy/copy-of-reloaded-set-differs-from-running-set", fmt.Sprintf("a set decoded from its stored encoding and copied (%d times) differs from the set that kept running in %s after %d further rotation steps", ci+1, d, steps),
					map[string]interface{}{"running": want.view(), "reloaded_copy": snapOf(C).view()})
				return
			}
		}
		n := k.r.Range(1, 3)
		for i := 0; i < n; i++ {
			O.IncrementAccum(1)
			for _, C := range chain {
				C.IncrementAccum(1)
			}
		}
	}
}

func (k *kase) copies() {
	k.aliasing()
	k.reloadedCopies()
	for dir := 0; dir < 2; dir++ {
		O := types.NewValidatorSet(k.vals)
		for i, n := 0, k.r.Range(0, 5); i < n; i++ {
			O.IncrementAccum(1)
		}
		C := O.Copy()
		keep, mut := C, O // mutate the original, watch the copy
		what := "copy/mutating-the-original-changes-the-copy"
		if dir == 1 {
			keep, mut = O, C
			what = "copy/mutating-the-copy-changes-the-original"
		}
		before := observe(keep)
		if d := observe(mut).diff(before); d != "" {
			k.viol("copy/copy-differs-from-original", "Copy() differs from its original in "+d, map[string]interface{}{"original": snapOf(O).view(), "copy": snapOf(C).view()})
		}
		var ops []string
		for i, n := 0, k.r.Range(1, 5); i < n; i++ {
			ops = append(ops, k.mutate(mut))
			k.c.Count("copy_independence_checks", 1)
			after := observe(keep)
			if d := after.diff(before); d != "" {
				k.viol(what, fmt.Sprintf("after %v on the other set the untouched one changed in %s", ops, d),
					map[string]interface{}{"ops_on_other": ops, "before": before.s.view(), "after": after.s.view()})
				break
			}
			// diagnostic only (not demanded by the property): the cached proposer of a copy
			// points into the original, so its Accum can be stale.
			if p := keep.GetProposer(); p != nil && after.s.Prop >= 0 && p.Accum != after.s.V[after.s.Prop].Accum {
				k.c.Count("diag_copy_cached_proposer_accum_stale", 1)
			}
		}
	}
}

// ---------------------------------------------------------------- (5) histories vs a map model

type model map[string]rv

func (m model) sorted() []rv {
	out := make([]rv, 0, len(m))
	for _, v := range m {
		out = append(out, v)
	}
	sort.Slice(out, func(i, j int) bool { return bytes.Compare(out[i].Addr, out[j].Addr) < 0 })
	return out
}

// compareModel checks content, order, lookups, total and Hash (against a fresh set of the same content).
func (k *kase) compareModel(vs *types.ValidatorSet, m model, byAddr map[string]*types.Validator, hist []string) bool {
	want := m.sorted()
	got := snapOf(vs)
	w := func() map[string]interface{} {
		return map[string]interface{}{"history": hist, "real": got.view(), "model": rset{V: want, Prop: -1}.view()}
	}
	if len(got.V) != len(want) || vs.Size() != len(want) {
		k.viol("ops/content-differs-from-model", fmt.Sprintf("size %d (Size()=%d), model has %d", len(got.V), vs.Size(), len(want)), w())
		return false
	}
	for i := range want {
		if !bytes.Equal(got.V[i].Addr, want[i].Addr) {
			k.viol("ops/order-or-membership-differs-from-model", fmt.Sprintf("position %d: %s, model %s", i, short(got.V[i].Addr), short(want[i].Addr)), w())
			return false
		}
		if got.V[i].Power != want[i].Power || got.V[i].Accum != want[i].Accum {
			k.viol("ops/content-differs-from-model", fmt.Sprintf("validator %s: power/accum %d/%d, model %d/%d", short(want[i].Addr), got.V[i].Power, got.V[i].Accum, want[i].Power, want[i].Accum), w())
			return false
		}
		ix, gv := vs.GetByAddress(want[i].Addr)
		ad, iv := vs.GetByIndex(i)
		if ix != i || gv == nil || gv.VotingPower != want[i].Power || !vs.HasAddress(want[i].Addr) || !bytes.Equal(ad, want[i].Addr) || iv == nil || iv.VotingPower != want[i].Power {
			k.viol("ops/lookup-inconsistent", fmt.Sprintf("GetByAddress/GetByIndex/HasAddress disagree with the content for %s at %d", short(want[i].Addr), i), w())
			return false
		}
	}
	total, _, _ := refTotal(want)
	if len(want) > 0 && vs.TotalVotingPower() != total {
		k.viol("ops/total-voting-power-differs-from-model", fmt.Sprintf("TotalVotingPower()=%d, min(sum,MaxInt64)=%d", vs.TotalVotingPower(), total), w())
		return false
	}
	// identity independent of history: equals the Hash of a fresh set with this content
	if len(want) > 0 {
		fresh := make([]*types.Validator, 0, len(want))
		for _, x := range want {
			v := byAddr[string(x.Addr)].Copy()
			v.VotingPower = x.Power
			v.Accum = 0
			fresh = append(fresh, v)
		}
		F := types.NewValidatorSet(permuted(k.r, fresh))
		if !bytes.Equal(F.Hash(), vs.Hash()) {
			k.viol("identity/hash-depends-on-insertion-order-or-bookkeeping", fmt.Sprintf("after a history Hash=%x, a fresh set of the same content has %x", vs.Hash(), F.Hash()), w())
			return false
		}
	} else if vs.Hash() != nil || vs.GetProposer() != nil {
		k.viol("ops/empty-set-not-empty", "the emptied set still has a Hash or a proposer", w())
		return false
	}
	return true
}

func (k *kase) history(S *types.ValidatorSet) {
	vs := S.Copy()
	m := model{}
	byAddr := map[string]*types.Validator{}
	for _, v := range vs.Validators {
		m[string(v.Address)] = rv{Addr: v.Address, Power: v.VotingPower, Accum: v.Accum}
		byAddr[string(v.Address)] = v.Copy()
	}
	var gone []*types.Validator // removed ones, candidates for re-adding
	extreme := k.class == "extreme" || k.class == "saturating"
	pw := func() int64 {
		if extreme && k.r.Chance(0.5) {
			return []int64{math.MaxInt64, 1 << 62, math.MaxInt64 / 3, 1<<62 - 1}[k.r.Intn(4)]
		}
		return int64(k.r.Range(1, 60))
	}
	var hist []string
	cacheValid := true // proposer cache set by a rotation and not invalidated since
	refProp := snapOf(vs).Prop
	nops := k.r.Range(8, 30)
	for i := 0; i < nops; i++ {
		keys := m.sorted()
		switch x := k.r.Intn(100); {
		case x < 22: // add (new, re-add, or present)
			var v *types.Validator
			switch {
			case len(keys) > 0 && k.r.Chance(0.25):
				v = byAddr[string(keys[k.r.Intn(len(keys))].Addr)].Copy()
			case len(gone) > 0 && k.r.Chance(0.4):
				v = gone[k.r.Intn(len(gone))].Copy()
			default:
				v = k.newVal(1)
				byAddr[string(v.Address)] = v.Copy()
			}
			v.VotingPower, v.Accum = pw(), 0
			_, present := m[string(v.Address)]
			ok := vs.Add(v)
			hist = append(hist, fmt.Sprintf("add %s p=%d -> %v", short(v.Address), v.VotingPower, ok))
			if ok == present {
				k.viol("ops/add-result-differs-from-model", fmt.Sprintf("Add returned %v, address present before: %v", ok, present), hist)
			}
			if !present {
				m[string(v.Address)] = rv{Addr: v.Address, Power: v.VotingPower, Accum: 0}
				cacheValid = false
			}
		case x < 44: // update
			var v *types.Validator
			if len(keys) > 0 && k.r.Chance(0.8) {
				v = byAddr[string(keys[k.r.Intn(len(keys))].Addr)].Copy()
			} else if len(gone) > 0 {
				v = gone[k.r.Intn(len(gone))].Copy()
			} else {
				v = k.newVal(1)
				byAddr[string(v.Address)] = v.Copy()
			}
			old, present := m[string(v.Address)]
			v.VotingPower = pw()
			if present && k.r.Bool() {
				v.Accum = old.Accum
			} else {
				v.Accum = 0
			}
			ok := vs.Update(v)
			hist = append(hist, fmt.Sprintf("update %s p=%d -> %v", short(v.Address), v.VotingPower, ok))
			if ok != present {
				k.viol("ops/update-result-differs-from-model", fmt.Sprintf("Update returned %v, address present before: %v", ok, present), hist)
			}
			if present {
				m[string(v.Address)] = rv{Addr: v.Address, Power: v.VotingPower, Accum: v.Accum}
				cacheValid = false
			}
		case x < 62: // remove
			var addr []byte
			if len(keys) > 0 && k.r.Chance(0.8) {
				addr = keys[k.r.Intn(len(keys))].Addr
			} else {
				v := k.newVal(1)
				addr = v.Address
			}
			old, present := m[string(addr)]
			rem, ok := vs.Remove(addr)
			hist = append(hist, fmt.Sprintf("remove %s -> %v", short(addr), ok))
			if ok != present || (ok && (rem == nil || !bytes.Equal(rem.Address, addr) || rem.VotingPower != old.Power)) {
				k.viol("ops/remove-result-differs-from-model", fmt.Sprintf("Remove returned %v (validator %v), address present before: %v", ok, rem, present), hist)
			}
			if present {
				delete(m, string(addr))
				gone = append(gone, byAddr[string(addr)].Copy())
				cacheValid = false
			}
		default: // rotate one step: real vs reference on the model
			if len(m) == 0 {
				continue
			}
			ref := rset{V: m.sorted(), Prop: -1}
			info := refStep(&ref)
			vs.IncrementAccum(1)
			hist = append(hist, "rotate")
			k.c.Count("single_steps_vs_reference", 1)
			if info.Clipped {
				k.c.Count("steps_with_saturation", 1)
			}
			for _, v := range ref.V {
				m[string(v.Addr)] = v
			}
			cacheValid = true
			refProp = ref.Prop
			got := snapOf(vs)
			if d := diff(got, ref); d != "" {
				k.viol("ops/rotation-after-updates-"+d+"-differs-from-reference", "a rotation step after add/update/remove differs from the reference in "+d,
					map[string]interface{}{"history": hist, "real": got.view(), "reference": ref.view()})
				return
			}
		}
		k.c.Count("history_ops", 1)
		if !k.compareModel(vs, m, byAddr, hist) {
			return
		}
		// proposer: after a rotation the one the reference chose; after an invalidation the
		// documented rule of GetProposer (largest accum, lower address on ties).
		if len(m) > 0 {
			sn := snapOf(vs)
			want := refProp
			rule := "the proposer chosen by the last rotation"
			if !cacheValid {
				want, _ = refMax(sn.V)
				rule = "largest accum, lower address on ties (cache invalidated by an update)"
				k.c.Count("proposer_after_invalidation_checks", 1)
			}
			if sn.Prop != want {
				k.viol("ops/proposer-after-updates-differs-from-reference", fmt.Sprintf("GetProposer() is member %d, expected %d (%s)", sn.Prop, want, rule),
					map[string]interface{}{"history": hist, "real": sn.view()})
				return
			}
			// GetProposer has just cached the answer; a later rotation overwrites it anyway
		}
	}
}

// ---------------------------------------------------------------- (5) orders of one update list

type upd struct {
	v    *types.Validator
	kind string
}

// applyUpdates is the documented protocol of an update list (consensus/execution.go
// updateValidators): power 0 removes, an absent address is added, otherwise updated.
func applyUpdates(vs *types.ValidatorSet, list []upd) error {
	for _, u := range list {
		_, old := vs.GetByAddress(u.v.Address)
		switch {
		case old == nil && u.v.VotingPower <= 0:
		case old == nil:
			if !vs.Add(u.v) {
				return fmt.Errorf("add refused")
			}
		case u.v.VotingPower == 0:
			if _, ok := vs.Remove(u.v.Address); !ok {
				return fmt.Errorf("remove refused")
			}
		case u.v.VotingPower != old.VotingPower:
			if !vs.Update(u.v) {
				return fmt.Errorf("update refused")
			}
		}
	}
	return nil
}

func permutations(n int) [][]int {
	var out [][]int
	var rec func(cur []int, used []bool)
	rec = func(cur []int, used []bool) {
		if len(cur) == n {
			out = append(out, append([]int{}, cur...))
			return
		}
		for i := 0; i < n; i++ {
			if !used[i] {
				used[i] = true
				rec(append(cur, i), used)
				used[i] = false
			}
		}
	}
	rec(nil, make([]bool, n))
	return out
}

func (k *kase) updateLists(S *types.ValidatorSet) {
	B := S.Copy()
	for i, n := 0, k.r.Range(0, 4); i < n; i++ {
		B.IncrementAccum(1)
	}
	// a list of up to 5 entries with distinct addresses
	ln := k.r.Range(2, 5)
	var list []upd
	usedIdx := map[int]bool{}
	for len(list) < ln {
		x := k.r.Intn(4)
		if x <= 1 && len(usedIdx) < len(B.Validators) && len(usedIdx) < len(B.Validators)-1+x {
			i := k.r.Intn(len(B.Validators))
			if usedIdx[i] {
				continue
			}
			usedIdx[i] = true
			v := B.Validators[i].Copy()
			v.Accum = 0
			if x == 0 { // remove (never all of them: x==0 needs one more spare member)
				v.VotingPower = 0
				list = append(list, upd{v, "remove"})
			} else {
				v.VotingPower = v.VotingPower/2 + int64(k.r.Range(1, 50))
				list = append(list, upd{v, "update"})
			}
		} else if x == 2 {
			list = append(list, upd{k.newVal(int64(k.r.Range(1, 100))), "add"})
		} else {
			list = append(list, upd{k.newVal(0), "noop"})
		}
	}
	var kinds []string
	for _, u := range list {
		kinds = append(kinds, fmt.Sprintf("%s %s p=%d", u.kind, short(u.v.Address), u.v.VotingPower))
	}
	var first obs
	for pi, perm := range permutations(len(list)) {
		pl := make([]upd, len(list))
		for i, j := range perm {
			pl[i] = list[j]
		}
		V := B.Copy()
		if err := applyUpdates(V, pl); err != nil {
			k.viol("ops/update-list-refused", err.Error(), map[string]interface{}{"list": kinds, "order": perm, "base": snapOf(B).view()})
			return
		}
		o := observe(V)
		k.c.Count("update_list_orders", 1)
		if !sortedStrict(o.s) {
			k.viol("identity/order-not-sorted-by-address", "after an update list the set is not strictly sorted by address", map[string]interface{}{"list": kinds, "order": perm, "result": o.s.view()})
			return
		}
		if pi == 0 {
			first = o
			continue
		}
		if d := o.diff(first); d != "" {
			k.viol("ops/update-list-order-dependent", fmt.Sprintf("the same update list applied in order %v gives a different %s than in order 0..n", perm, d),
				map[string]interface{}{"list": kinds, "order": perm, "base": snapOf(B).view(), "result_first_order": first.s.view(), "result_this_order": o.s.view()})
			return
		}
	}
}

// ---------------------------------------------------------------- (6) saturation

func (k *kase) saturation(S *types.ValidatorSet) {
	s := snapOf(S)
	total, clipped, exact := refTotal(s.V)
	got := S.TotalVotingPower()
	k.c.Count("total_power_checks", 1)
	if got != total {
		key := "saturate/total-voting-power-differs-from-clipped-sum"
		for _, v := range s.V {
			if got < v.Power {
				key = "saturate/total-voting-power-wrapped"
			}
		}
		k.viol(key, fmt.Sprintf("TotalVotingPower()=%d; exact sum %s, min(sum,MaxInt64)=%d", got, exact.String(), total), s.view())
	}
	if clipped {
		k.c.Count("total_power_clipped_checks", 1)
	}
	// a fresh computation on a copy with the cache cleared by an update to the same value
	C := S.Copy()
	if len(C.Validators) > 0 {
		C.Update(C.Validators[0].Copy())
		if C.TotalVotingPower() != total {
			k.viol("saturate/total-voting-power-differs-from-clipped-sum", fmt.Sprintf("recomputed TotalVotingPower()=%d, min(sum,MaxInt64)=%d", C.TotalVotingPower(), total), s.view())
		}
	}
	// accum bounds after IncrementAccum(times): whatever the path, nothing may wrap.
	// upper: min(Max, a + times*p); lower: max(Min, upper - times*total) (both in big.Int); the bounds hold
	// for the batch algorithm and for `times` saturating single steps alike.
	for t := 0; t < 3; t++ {
		times := []int{1, k.r.Range(2, 9), k.r.Range(10, 300)}[t]
		X := S.Copy()
		for i, n := 0, k.r.Range(0, 3); i < n; i++ {
			X.IncrementAccum(k.r.Range(1, 50))
		}
		before := snapOf(X).clone()
		X.IncrementAccum(times)
		after := snapOf(X)
		k.c.Count("accum_bound_checks", 1)
		bt := big.NewInt(int64(times))
		for i := range before.V {
			up := new(big.Int).Mul(big.NewInt(before.V[i].Power), bt)
			up.Add(up, big.NewInt(before.V[i].Accum))
			hi, c1 := sat(up)
			// the subtractions (at most `times`, each of the clipped total) act on a saturated value; the
			// product times*power may saturate on its own before it is added (batch algorithm)
			pm, _ := satMul(before.V[i].Power, int64(times))
			upc, _ := satAdd(before.V[i].Accum, pm)
			lo := new(big.Int).Sub(big.NewInt(upc), new(big.Int).Mul(big.NewInt(total), bt))
			low, c2 := sat(lo)
			if c1 || c2 {
				k.c.Count("accum_bound_checks_saturating", 1)
			}
			a := after.V[i].Accum
			if a > hi || a < low {
				k.viol("saturate/accum-outside-saturating-bounds",
					fmt.Sprintf("IncrementAccum(%d): validator %d power %d accum %d -> %d, outside [%d,%d] (a wrapped addition/subtraction)", times, i, before.V[i].Power, before.V[i].Accum, a, low, hi),
					map[string]interface{}{"before": before.view(), "after": after.view(), "times": times})
				break
			}
		}
		if after.Prop < 0 {
			k.viol("rotation/proposer-not-a-member", "GetProposer() names an address that is not in the set", after.view())
		}
	}
}
