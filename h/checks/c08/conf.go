package c08

import (
	"bytes"
	"fmt"
	"math/big"
	"reflect"
	"runtime/debug"
	"strings"

	"github.com/lianxiangcloud/linkchain/libs/common"
	"github.com/lianxiangcloud/linkchain/libs/crypto"
	"github.com/lianxiangcloud/linkchain/libs/cryptonote/ringct"
	lt "github.com/lianxiangcloud/linkchain/libs/cryptonote/types"
	"github.com/lianxiangcloud/linkchain/libs/cryptonote/xcrypto"
	"github.com/lianxiangcloud/linkchain/libs/ser"
	"github.com/lianxiangcloud/linkchain/types"

	"verif/h/internal/chainkit"
	"verif/h/internal/core"
)

var e18 = big.NewInt(1e18)

// ---------------------------------------------------------------- ownership scan

type scanRes struct {
	Recognised bool
	Sub        uint64
	Opened     bool // the decoded (mask, amount) opens the on-chain commitment
	Units      uint64
	KeyImage   lt.Key
	HasImage   bool
}

// scanOutput is what a wallet holding keys does with output number outputID of tx (the
// repository's wallet: wallet/wallet/linkaccount.go), written with the exported functions.
// With force the ownership test is skipped and every derivation is tried for decoding: the
// strongest thing a non-owner can attempt.
func scanOutput(keys *lt.AccountKey, keyIndex map[lt.PublicKey]uint64, tx *types.UTXOTransaction, out *types.UTXOOutput, outputID int, force bool) (res scanRes) {
	var derivs []lt.KeyDerivation
	if d, err := xcrypto.GenerateKeyDerivation(tx.RKey, keys.ViewSKey); err == nil {
		derivs = append(derivs, d)
	}
	for _, ak := range tx.AddKeys {
		if d, err := xcrypto.GenerateKeyDerivation(ak, keys.ViewSKey); err == nil {
			derivs = append(derivs, d)
		}
	}
	if len(derivs) == 0 || outputID >= len(tx.RCTSig.EcdhInfo) || outputID >= len(tx.RCTSig.OutPk) {
		return res
	}
	try := derivs
	real, sub, err := types.IsOutputBelongToAccount(keys, keyIndex, out.OTAddr, derivs, uint64(outputID))
	if err == nil {
		res.Recognised, res.Sub = true, sub
		try = []lt.KeyDerivation{real}
	} else if !force {
		return res
	}
	for _, d := range try {
		scalar, err := xcrypto.DerivationToScalar(d, outputID)
		if err != nil {
			continue
		}
		ecdh := &lt.EcdhTuple{Mask: tx.RCTSig.EcdhInfo[outputID].Mask, Amount: tx.RCTSig.EcdhInfo[outputID].Amount}
		if !xcrypto.EcdhDecode(ecdh, lt.Key(scalar), false) {
			continue
		}
		units := types.Hash2BigInt(ecdh.Amount)
		if !units.IsUint64() {
			continue
		}
		cm, err := xcrypto.GenC(ecdh.Mask, lt.Lk_amount(units.Uint64()))
		if err != nil || cm != tx.RCTSig.OutPk[outputID].Mask {
			continue
		}
		res.Opened, res.Units = true, units.Uint64()
		break
	}
	if res.Recognised {
		sk, err := xcrypto.DeriveSecretKey(real, outputID, keys.SpendSKey)
		if err == nil {
			if sub > 0 {
				sk = xcrypto.SecretAdd(sk, xcrypto.GetSubaddressSecretKey(keys.ViewSKey, uint32(sub)))
			}
			if ki, err := xcrypto.GenerateKeyImage(lt.PublicKey(out.OTAddr), sk); err == nil {
				res.KeyImage, res.HasImage = lt.Key(ki), true
			}
		}
	}
	return res
}

type destInfo struct {
	Wallet int
	Sub    uint64
	Amount *big.Int
}

// ---------------------------------------------------------------- the lane

type confEnv struct {
	c          *core.Ctx
	e          *env
	P, V       *chainkit.Node
	wallets    []*chainkit.UWallet // funded wallets first, then strangers
	funded     int
	led        *chainkit.Ledger
	lastCommit *types.Commit
	nonces     map[int]uint64
}

func (cf *confEnv) step() (*types.Block, error) {
	blk, cm, err := cf.P.Step(cf.e.g, cf.lastCommit, cf.V)
	if err != nil {
		return nil, err
	}
	cf.lastCommit = cm
	cf.led.ScanBlock(blk)
	return blk, nil
}

func utxoKindName(tx *types.UTXOTransaction) (name string, ain bool, ring1 bool) {
	ring := 0
	for _, in := range tx.Inputs {
		switch x := in.(type) {
		case *types.AccountInput:
			ain = true
		case *types.UTXOInput:
			if ring == 0 || len(x.KeyOffset) < ring {
				ring = len(x.KeyOffset)
			}
		}
	}
	aout := false
	for _, o := range tx.Outputs {
		if _, ok := o.(*types.AccountOutput); ok {
			aout = true
		}
	}
	switch {
	case ain:
		return "ain-uout", true, false
	case ring == 1 && aout:
		return "uin-aout-ring1", false, true
	case ring == 1:
		return "uin-uout-ring1", false, true
	case aout:
		return "uin-aout-ringN", false, false
	}
	return "uin-uout-ringN", false, false
}

// deadField reports whether no consumer of the transaction reads the wire field of this class
// for this kind (it is neither hashed, nor verified, nor stored, nor shown to a wallet), so that
// a change of it alters nothing but the transaction hash. Such fields are not among those the
// property names; accepted mutants of them are counted, not reported.
func deadField(class, op string, ain, ring1 bool) bool {
	switch {
	case class == "RCTSig.P.Ss" && strings.HasPrefix(op, "slice-append"): // surplus entries behind the ones the inputs index
		return true
	case class == "RCTSig.P.MGs" && ring1 && strings.HasPrefix(op, "slice-swap"): // only the number of entries is read on the ring-size-1 path
		return true
	case strings.HasPrefix(class, "RCTSig.RctSigBase.PseudoOuts"): // the prunable copy is the one used
		return true
	case strings.HasSuffix(class, ".SenderPK"), strings.HasSuffix(class, "OutPk[].Dest"):
		return true
	case strings.HasPrefix(class, "RCTSig.P.RangeSigs"):
		return true
	case strings.HasPrefix(class, "RCTSig.P.MGs[]."): // scalars of a signature form the ring-size-1 path does not use
		return ring1
	case strings.HasPrefix(class, "RCTSig.P.Ss"): // ring-size-1 signatures, unused by MLSAG spends and by account spends
		return !ring1
	case class == "RCTSig.RctSigBase.Type", class == "RCTSig.RctSigBase.TxnFee": // hashed by the pre-MLSAG hash only
		return ain
	}
	return false
}

// bindKey is the field group of a site class, used in violation keys.
func bindKey(class string) string {
	s := strings.TrimPrefix(class, "RCTSig.RctSigBase.")
	s = strings.TrimPrefix(s, "RCTSig.P.")
	for i, ch := range s {
		if ch == '.' || ch == '[' || ch == '<' {
			return s[:i]
		}
	}
	return s
}

type spend struct {
	Name   string
	Wire   []byte
	Tx     *types.UTXOTransaction
	Ain    bool
	Ring1  bool
	Sender common.Address // account that signed (ain)
	Desc   string
}

func decodeUtx(b []byte) (*types.UTXOTransaction, error) {
	t := new(types.UTXOTransaction)
	if err := ser.DecodeBytes(b, t); err != nil {
		return nil, err
	}
	return t, nil
}

type uverdict struct {
	Stage    string // decode | identity | basic | other-sender | proposer | block | accepted | panic
	Err      string
	From     common.Address
	BasicOK  bool
	BlockOK  bool
	Panicked string
}

// judgeUtx decides whether the chain accepts the transaction encoded by wire.
func (cf *confEnv) judgeUtx(sp *spend, wire []byte) (v uverdict) {
	tx, err := decodeUtx(wire)
	if err != nil {
		return uverdict{Stage: "decode", Err: err.Error()}
	}
	if re, err := ser.EncodeToBytes(tx); err == nil && bytes.Equal(re, sp.Wire) {
		return uverdict{Stage: "identity"}
	}
	var berr error
	func() {
		defer func() {
			if p := recover(); p != nil {
				st := string(debug.Stack())
				if len(st) > 2500 {
					st = st[:2500]
				}
				v.Panicked = fmt.Sprint(p) + "\n" + st
			}
		}()
		berr = cf.V.App.CheckTx(tx, true)
		if berr == nil {
			v.From, _ = tx.From()
		}
	}()
	if v.Panicked != "" {
		v.Stage = "panic"
		return v
	}
	if berr != nil {
		v.Stage, v.Err = "basic", berr.Error()
		return v
	}
	v.BasicOK = true
	if sp.Ain && v.From != sp.Sender {
		v.Stage = "other-sender" // somebody else's (nobody's) account would be charged: not this signer's funds
		return v
	}
	// confirmation by block processing on a second replica (includes the state checks)
	fresh, err := decodeUtx(wire)
	if err != nil {
		v.Stage = "decode"
		return v
	}
	blk, _, err := buildBlock(cf.P, cf.lastCommit, types.Txs{fresh}, true)
	if err != nil {
		v.Stage, v.Err = "proposer", err.Error()
		return v
	}
	ok, pan := safeCheckBlock(cf.V, blk)
	if pan != "" {
		v.Stage, v.Panicked = "panic", pan
		return v
	}
	if !ok {
		v.Stage = "block"
		return v
	}
	v.BlockOK = true
	v.Stage = "accepted"
	return v
}

func (cf *confEnv) report(sp *spend, class, op string, v uverdict, wire []byte) {
	c := cf.c
	c.Count("utxo_mutants", 1)
	c.Count("utxo_mutants_"+sp.Name, 1)
	switch v.Stage {
	case "decode":
		c.Count("utxo_rejected_at_decode", 1)
	case "identity":
		c.Count("utxo_identity_mutants", 1)
	case "panic":
		c.Count("utxo_mutant_panics", 1)
		c.Sample(map[string]string{"panic_on_mutant": v.Panicked, "spend": sp.Name, "class": class, "op": op})
	case "basic":
		c.Count("utxo_rejected_by_basic", 1)
	case "other-sender":
		c.Count("utxo_other_sender", 1)
	case "proposer", "block":
		c.Count("utxo_rejected_by_block_processing", 1)
	case "accepted":
		if deadField(class, op, sp.Ain, sp.Ring1) {
			c.Count("utxo_dead_field_mutant_accepted", 1)
			return
		}
		viol(c, "utxo-binding/"+sp.Name+"/"+bindKey(class),
			fmt.Sprintf("%s (%s): changing %s (%s) leaves the spend valid: CheckBasic passes and a second replica accepts a block containing the mutant", sp.Name, sp.Desc, class, op),
			map[string]string{"spend": sp.Name, "field": class, "op": op, "original_wire": hexShort(sp.Wire), "mutant_wire": hexShort(wire)})
	}
}

// typedMutants applies every operation to every site of the spend.
func (cf *confEnv) typedMutants(sp *spend) {
	r := cf.c.Rng
	base, err := decodeUtx(sp.Wire)
	if err != nil {
		return
	}
	sites := sitesOf(base)
	for si := range sites {
		for _, op := range opsFor(sites[si]) {
			cp, err := decodeUtx(sp.Wire)
			if err != nil {
				return
			}
			cs := sitesOf(cp)
			if len(cs) != len(sites) || cs[si].Path != sites[si].Path {
				cf.c.Inconclusive("site walk is not deterministic")
				return
			}
			ok := false
			func() {
				defer func() {
					if recover() != nil {
						ok = false
					}
				}()
				ok = applyOp(r, cs[si], op)
			}()
			if !ok {
				continue
			}
			wire, err := ser.EncodeToBytes(cp)
			if err != nil {
				cf.c.Count("utxo_mutant_not_encodable", 1)
				continue
			}
			class := classOf(sites[si].Path)
			cf.report(sp, class, op+" at "+sites[si].Path, cf.judgeUtx(sp, wire), wire)
		}
	}
}

// multiSiteMutants changes 2..3 random sites at once.
func (cf *confEnv) multiSiteMutants(sp *spend, n int) {
	r := cf.c.Rng
	base, err := decodeUtx(sp.Wire)
	if err != nil {
		return
	}
	bs := sitesOf(base)
	nsites := len(bs)
	for i := 0; i < n; i++ {
		cp, err := decodeUtx(sp.Wire)
		if err != nil {
			return
		}
		cs := sitesOf(cp)
		if len(cs) != nsites {
			return
		}
		var desc []string
		allDead := true
		first := ""
		used := map[int]bool{}
		for j := 0; j < 2+r.Intn(2); j++ {
			si := r.Intn(len(cs))
			if used[si] { // two operations on one site can cancel each other
				continue
			}
			used[si] = true
			ops := opsFor(cs[si])
			op := ops[r.Intn(len(ops))]
			ok := false
			func() {
				defer func() {
					if recover() != nil {
						ok = false
					}
				}()
				ok = applyOp(r, cs[si], op)
			}()
			if !ok || reflect.DeepEqual(cs[si].Val.Interface(), bs[si].Val.Interface()) {
				continue // not applicable, or it changed nothing (e.g. swapping two equal elements)
			}
			class := classOf(cs[si].Path)
			if !deadField(class, op, sp.Ain, sp.Ring1) {
				allDead = false
				if first == "" {
					first = class
				}
			}
			desc = append(desc, op+" at "+cs[si].Path)
			if cs[si].Slice {
				break // the walk order is stale after a structural change
			}
		}
		if len(desc) == 0 {
			continue
		}
		wire, err := ser.EncodeToBytes(cp)
		if err != nil {
			continue
		}
		class := first
		if allDead {
			class = "RCTSig.P.RangeSigs" // every changed site is one nobody reads
		}
		cf.c.Count("utxo_multi_site_mutants", 1)
		cf.report(sp, class, "multi: "+strings.Join(desc, "; "), cf.judgeUtx(sp, wire), wire)
	}
}

// sigFormMutants: hostile encodings of the account signature of an account->confidential spend.
func (cf *confEnv) sigFormMutants(sp *spend) {
	if !sp.Ain {
		return
	}
	base, err := decodeUtx(sp.Wire)
	if err != nil || base.Sigs.R == nil {
		return
	}
	for _, f := range sigForms(cf.c.Rng, base.Sigs.R, base.Sigs.S, base.Sigs.V) {
		cp, _ := decodeUtx(sp.Wire)
		cp.Sigs.R, cp.Sigs.S, cp.Sigs.V = f.R, f.S, f.V
		wire, err := ser.EncodeToBytes(cp)
		if err != nil {
			continue
		}
		cf.c.Count("utxo_signature_forms", 1)
		v := cf.judgeUtx(sp, wire)
		if v.Stage == "accepted" {
			viol(cf.c, "utxo-binding/"+sp.Name+"/signature/"+f.Class, fmt.Sprintf("account signature form %s accepted and charges the signer", f.Class),
				map[string]string{"r": f.R.Text(16), "s": f.S.Text(16), "v": f.V.String(), "original_wire": hexShort(sp.Wire)})
		} else {
			cf.report(sp, "Sigs", "form "+f.Class, v, wire)
		}
	}
	// signed by the same key for another / no chain parameter
	key := cf.keyOf(sp.Sender)
	if key == nil {
		return
	}
	// The list the account signature covers is not exported; the harness rebuilds it and the
	// self check (a hand-made signature for this chain must be accepted) tells whether it did.
	// Second candidate: the list extended by the confidential half of the outputs.
	prefix := []interface{}{base.Inputs, base.Outputs, base.TokenID, base.RKey, base.AddKeys, base.Fee, base.Extra}
	candidates := [][]interface{}{prefix, append(append([]interface{}{}, prefix...), base.RCTSig.EcdhInfo, base.RCTSig.OutPk, base.RCTSig.P.Bulletproofs)}
	judgeForm := func(va chainForm) (uverdict, []byte, *big.Int) {
		sig, err := crypto.Sign(va.Hash, key.Key)
		if err != nil {
			return uverdict{Stage: "decode"}, nil, nil
		}
		cp, _ := decodeUtx(sp.Wire)
		cp.Sigs.R, cp.Sigs.S, cp.Sigs.V = new(big.Int).SetBytes(sig[:32]), new(big.Int).SetBytes(sig[32:64]), va.V(int64(sig[64]))
		wire, err := ser.EncodeToBytes(cp)
		if err != nil {
			return uverdict{Stage: "decode"}, nil, nil
		}
		return cf.judgeUtx(sp, wire), wire, cp.Sigs.V
	}
	var forms []chainForm
	for _, fields := range candidates {
		fs := chainForms(cf.c.Rng, fields)
		for _, va := range fs {
			if va.self() {
				if v, _, _ := judgeForm(va); v.Stage == "accepted" || v.Stage == "identity" {
					forms = fs
				}
			}
		}
		if forms != nil {
			break
		}
	}
	if forms == nil {
		cf.c.Inconclusive("harness cannot reproduce the signing hash of an account->confidential transaction")
		return
	}
	cf.c.Count("foreign_self_check_ok", 1)
	for _, va := range forms {
		if va.self() {
			continue
		}
		v, wire, vv := judgeForm(va)
		cf.c.Count("foreign_chain_forms", 1)
		if v.Stage == "accepted" {
			viol(cf.c, "chain-param/"+va.class(), fmt.Sprintf("utx account->confidential: a signature the key holder %x made over these fields with hash suffix '%s' and %s is accepted on this chain (parameter %s) and charges the signer", sp.Sender, va.Suffix, va.VForm, types.SignParam),
				map[string]string{"kind": "utx-ain", "wire": hexShort(wire), "v": fmt.Sprint(vv)})
		} else {
			cf.c.Count("foreign_chain_rejected_or_other_sender", 1)
		}
	}
}

func (cf *confEnv) keyOf(a common.Address) *chainkit.Account {
	for i := range cf.e.g.Accounts {
		if cf.e.g.Accounts[i].Addr == a {
			return &cf.e.g.Accounts[i]
		}
	}
	return nil
}

// rebalancedPseudoOuts: P0 += xG, P1 -= xG keeps the commitment balance; the spend
// authorisation has to notice that its input commitments changed.
func (cf *confEnv) rebalancedPseudoOuts(sp *spend) {
	cp, err := decodeUtx(sp.Wire)
	if err != nil || len(cp.RCTSig.P.PseudoOuts) < 2 {
		return
	}
	x := ringct.SkGen()
	negx := ringct.ScSub(lt.EcScalar(ringct.Z), lt.EcScalar(x))
	p0, err0 := ringct.AddKeys(cp.RCTSig.P.PseudoOuts[0], ringct.ScalarmultBase(x))
	p1, err1 := ringct.AddKeys(cp.RCTSig.P.PseudoOuts[1], ringct.ScalarmultBase(negx))
	if err0 != nil || err1 != nil {
		return
	}
	cp.RCTSig.P.PseudoOuts[0], cp.RCTSig.P.PseudoOuts[1] = p0, p1
	wire, err := ser.EncodeToBytes(cp)
	if err != nil {
		return
	}
	cf.c.Count("utxo_rebalanced_pseudoouts", 1)
	cf.report(sp, "RCTSig.P.PseudoOuts[]", "re-balanced pair (P0+xG, P1-xG)", cf.judgeUtx(sp, wire), wire)
}

// feeWithCompensatedPseudoOut raises the fee by d and adds d*H to the first pseudo-out, so that
// the commitment balance still holds: only the hash the spend signature covers protects the fee.
func (cf *confEnv) feeWithCompensatedPseudoOut(sp *spend) {
	cp, err := decodeUtx(sp.Wire)
	if err != nil || len(cp.RCTSig.P.PseudoOuts) < 1 || cp.Fee == nil {
		return
	}
	k := int64(1 + cf.c.Rng.Intn(1000))
	delta := new(big.Int).Mul(big.NewInt(k), big.NewInt(types.ParGasPrice))
	units, err := types.BigInt2Hash(new(big.Int).Div(delta, big.NewInt(types.UTXO_COMMITMENT_CHANGE_RATE)))
	if err != nil {
		return
	}
	p0, err := ringct.AddKeys(cp.RCTSig.P.PseudoOuts[0], ringct.ScalarmultH(units))
	if err != nil {
		return
	}
	cp.RCTSig.P.PseudoOuts[0] = p0
	cp.Fee = new(big.Int).Add(cp.Fee, delta)
	wire, err := ser.EncodeToBytes(cp)
	if err != nil {
		return
	}
	cf.c.Count("utxo_fee_compensated", 1)
	cf.report(sp, "Fee", fmt.Sprintf("fee raised by %s with the first pseudo-out compensated", delta), cf.judgeUtx(sp, wire), wire)
}

// forgedSpend: wallet thief (not the owner) builds a spend of o with its own keys, given
// everything else an attacker could possibly know (ring, true amount and mask).
func (cf *confEnv) forgedSpend(thief *chainkit.UWallet, o *chainkit.OwnedOut, ringSize int) {
	c := cf.c
	src := cf.led.Source(c.Rng, o, ringSize)
	deriv, err := xcrypto.GenerateKeyDerivation(src.RKey, thief.Keys.ViewSKey)
	if err != nil {
		return
	}
	spendPub, err := xcrypto.DeriveSubaddressPublicKey(lt.PublicKey(o.OTAddr), deriv, int(o.OutIndex))
	if err != nil {
		return
	}
	idx := map[lt.PublicKey]uint64{spendPub: 0} // make the thief's own ownership test pass
	for k, v := range thief.KeyIndex {
		idx[k] = v
	}
	fee := chainkit.UtxoFeeUinToU(cf.V.App.GetUTXOGas())
	out := new(big.Int).Sub(o.Amount, fee)
	dests := []types.DestEntry{chainkit.Dest(thief, 0, out)}
	var tx *types.UTXOTransaction
	var berr error
	func() {
		defer func() {
			if p := recover(); p != nil {
				berr = fmt.Errorf("panic: %v", p)
			}
		}()
		t, ephs, mkeys, _, err := types.NewUinTokenTransaction(thief.Keys, idx, []*types.UTXOSourceEntry{src}, dests, common.EmptyAddress, common.EmptyAddress, big.NewInt(0), nil)
		if err != nil {
			berr = err
			return
		}
		if err := types.UInTransWithRctSig(t, []*types.UTXOSourceEntry{src}, ephs, dests, mkeys); err != nil {
			berr = err
			return
		}
		tx = t
	}()
	c.Count("forged_spend_attempts", 1)
	if tx == nil {
		c.Count("forged_spend_unbuildable", 1)
		c.Logf("forged spend not buildable: %v", berr)
		return
	}
	wire, err := ser.EncodeToBytes(tx)
	if err != nil {
		return
	}
	sp := &spend{Name: "forged", Wire: nil, Tx: tx, Ring1: ringSize == 1}
	v := cf.judgeUtx(sp, wire)
	if v.Stage == "accepted" {
		viol(c, "ownership/spend-with-non-owner-keys-accepted", fmt.Sprintf("wallet %d spends output %d of wallet %d (ring size %d) with its own keys", thief.ID, o.GIndex, o.Owner, ringSize),
			map[string]string{"wire": hexShort(wire)})
	} else {
		c.Count("forged_spend_rejected", 1)
	}
}

func runConf(c *core.Ctx, e *env) {
	r := c.Rng
	cf := &confEnv{c: c, e: e, lastCommit: chainkit.NilCommit(), nonces: map[int]uint64{}}
	var err error
	if cf.P, err = e.newNode(false); err != nil {
		c.Inconclusive("node: " + err.Error())
		return
	}
	defer cf.P.Close()
	if cf.V, err = e.newNode(false); err != nil {
		c.Inconclusive("node: " + err.Error())
		return
	}
	defer cf.V.Close()
	const nsub = 3
	cf.funded = 3
	wseed := r.Uint64()
	for i := 0; i < cf.funded+2; i++ {
		cf.wallets = append(cf.wallets, chainkit.NewUWallet(wseed, i, nsub))
	}
	cf.led = chainkit.NewLedger(cf.wallets[:cf.funded])

	// ---- funding block: account -> confidential, destinations known to the generator
	type fundTx struct {
		hash  common.Hash
		dests []destInfo
	}
	var funds []fundTx
	nfund := 4
	for a := 0; a < nfund; a++ {
		nd := 2 + r.Intn(2)
		if a == 0 {
			nd = 4
		}
		var dests []types.DestEntry
		var infos []destInfo
		total := new(big.Int)
		for d := 0; d < nd; d++ {
			w := r.Intn(cf.funded)
			if a == 0 {
				w = 0 // wallet 0 certainly owns enough outputs for the spends below
			}
			sub := uint64(r.Intn(nsub + 1))
			amt := new(big.Int).Mul(big.NewInt(int64(100+r.Intn(200))), e18)
			amt.Add(amt, new(big.Int).Mul(big.NewInt(int64(r.Intn(1000))), big.NewInt(1e10)))
			dests = append(dests, chainkit.Dest(cf.wallets[w], sub, amt))
			infos = append(infos, destInfo{w, sub, amt})
			total.Add(total, amt)
		}
		tx, err := chainkit.NewAinTx(e.g.Accounts[a], 0, dests, chainkit.UtxoFeeAinToU(total))
		if err != nil {
			c.Inconclusive("NewAinTx: " + err.Error())
			return
		}
		if err := cf.P.Mempool.AddTx("", tx); err != nil {
			c.Inconclusive("funding tx rejected: " + err.Error())
			return
		}
		cf.nonces[a] = 1
		funds = append(funds, fundTx{tx.Hash(), infos})
	}
	blk, err := cf.step()
	if err != nil {
		c.Inconclusive("funding block: " + err.Error())
		return
	}
	// a second funding round for wallet 0 so that rings have members from two blocks
	{
		var dests []types.DestEntry
		var infos []destInfo
		total := new(big.Int)
		for d := 0; d < 3; d++ {
			sub := uint64(r.Intn(nsub + 1))
			amt := new(big.Int).Mul(big.NewInt(int64(100+r.Intn(200))), e18)
			dests = append(dests, chainkit.Dest(cf.wallets[0], sub, amt))
			infos = append(infos, destInfo{0, sub, amt})
			total.Add(total, amt)
		}
		tx, err := chainkit.NewAinTx(e.g.Accounts[4], 0, dests, chainkit.UtxoFeeAinToU(total))
		if err == nil {
			err = cf.P.Mempool.AddTx("", tx)
		}
		if err != nil {
			c.Inconclusive("second funding tx: " + err.Error())
			return
		}
		funds = append(funds, fundTx{tx.Hash(), infos})
	}
	blk2, err := cf.step()
	if err != nil {
		c.Inconclusive("second funding block: " + err.Error())
		return
	}

	// ---- ownership: every wallet scans every generated output
	images := map[lt.Key]string{}
	for _, b := range []*types.Block{blk, blk2} {
		for _, t := range b.Data.Txs {
			tx, ok := t.(*types.UTXOTransaction)
			if !ok {
				continue
			}
			var infos []destInfo
			for _, f := range funds {
				if f.hash == tx.Hash() {
					infos = f.dests
				}
			}
			outputID := -1
			for _, o := range tx.Outputs {
				uo, ok := o.(*types.UTXOOutput)
				if !ok {
					continue
				}
				outputID++
				if outputID >= len(infos) {
					c.Inconclusive("generator lost track of an output")
					return
				}
				want := infos[outputID]
				wantUnits := new(big.Int).Div(want.Amount, big.NewInt(types.UTXO_COMMITMENT_CHANGE_RATE)).Uint64()
				wit := map[string]string{"tx": tx.Hash().Hex(), "output": fmt.Sprint(outputID), "dest_wallet": fmt.Sprint(want.Wallet), "dest_sub": fmt.Sprint(want.Sub)}
				for wi, w := range cf.wallets {
					res := scanOutput(w.Keys, w.KeyIndex, tx, uo, outputID, false)
					c.Count("ownership_scans", 1)
					if wi == want.Wallet {
						switch {
						case !res.Recognised:
							viol(c, "ownership/destination-does-not-recognise", fmt.Sprintf("wallet %d sub %d does not recognise its output", wi, want.Sub), wit)
						case res.Sub != want.Sub:
							viol(c, "ownership/wrong-sub-address", fmt.Sprintf("recognised as sub-address %d, sent to %d", res.Sub, want.Sub), wit)
						case !res.Opened || res.Units != wantUnits:
							viol(c, "ownership/destination-decodes-wrong-amount", fmt.Sprintf("opened=%v units=%d, sent %d", res.Opened, res.Units, wantUnits), wit)
						case !res.HasImage:
							viol(c, "ownership/destination-cannot-derive-key-image", "", wit)
						default:
							c.Count("ownership_owner_ok", 1)
							if prev, dup := images[res.KeyImage]; dup {
								viol(c, "ownership/key-image-collision", "two outputs give the same key image: "+prev, wit)
							}
							images[res.KeyImage] = tx.Hash().Hex() + "/" + fmt.Sprint(outputID)
						}
						// the owner with the destination sub-address removed from its table must not claim it under another index
						idx := map[lt.PublicKey]uint64{}
						for k, v := range w.KeyIndex {
							if v != want.Sub {
								idx[k] = v
							}
						}
						if r2 := scanOutput(w.Keys, idx, tx, uo, outputID, false); r2.Recognised {
							viol(c, "ownership/recognised-under-other-sub-address", fmt.Sprintf("sub %d claimed as %d", want.Sub, r2.Sub), wit)
						}
						c.Count("ownership_subaddress_exclusions", 1)
						continue
					}
					if res.Recognised {
						wit["wallet"] = fmt.Sprint(wi)
						viol(c, "ownership/non-owner-recognises", fmt.Sprintf("wallet %d recognises an output sent to wallet %d sub %d", wi, want.Wallet, want.Sub), wit)
						continue
					}
					forced := scanOutput(w.Keys, w.KeyIndex, tx, uo, outputID, true)
					if forced.Opened {
						wit["wallet"] = fmt.Sprint(wi)
						viol(c, "ownership/non-owner-decodes-amount", fmt.Sprintf("wallet %d opens the commitment (units %d)", wi, forced.Units), wit)
						continue
					}
					// the key image the non-owner's keys give for this output is not the owner's
					ow := cf.wallets[want.Wallet]
					if own := scanOutput(ow.Keys, ow.KeyIndex, tx, uo, outputID, false); own.HasImage {
						for _, pk := range append([]lt.PublicKey{tx.RKey}, tx.AddKeys...) {
							d, err := xcrypto.GenerateKeyDerivation(pk, w.Keys.ViewSKey)
							if err != nil {
								continue
							}
							sk, err := xcrypto.DeriveSecretKey(d, outputID, w.Keys.SpendSKey)
							if err != nil {
								continue
							}
							if ki, err := xcrypto.GenerateKeyImage(lt.PublicKey(uo.OTAddr), sk); err == nil && lt.Key(ki) == own.KeyImage {
								wit["wallet"] = fmt.Sprint(wi)
								viol(c, "ownership/non-owner-derives-key-image", fmt.Sprintf("wallet %d derives the owner's key image", wi), wit)
							}
						}
					}
					c.Count("ownership_non_owner_blind", 1)
				}
			}
		}
	}

	// ---- spends
	w0 := cf.wallets[0]
	spendable := cf.led.Spendable(w0, common.EmptyAddress)
	if len(spendable) < 7 {
		c.Inconclusive(fmt.Sprintf("wallet 0 owns only %d outputs", len(spendable)))
		return
	}
	take := func(n int) []*chainkit.OwnedOut {
		o := spendable[:n]
		spendable = spendable[n:]
		return o
	}
	sum := func(os []*chainkit.OwnedOut) *big.Int {
		s := new(big.Int)
		for _, o := range os {
			s.Add(s, o.Amount)
		}
		return s
	}
	uFee := chainkit.UtxoFeeUinToU(cf.V.App.GetUTXOGas())
	ringN := 2 + r.Intn(4)
	var spends []*spend
	mk := func(tx *types.UTXOTransaction, err error, desc string, sender common.Address) bool {
		if err != nil {
			c.Inconclusive("building " + desc + ": " + err.Error())
			return false
		}
		w, err := ser.EncodeToBytes(tx)
		if err != nil {
			c.Inconclusive("encoding " + desc + ": " + err.Error())
			return false
		}
		d, err := decodeUtx(w)
		if err != nil {
			c.Inconclusive("decoding " + desc + ": " + err.Error())
			return false
		}
		name, ain, ring1 := utxoKindName(d)
		spends = append(spends, &spend{Name: name, Wire: w, Tx: d, Ain: ain, Ring1: ring1, Sender: sender, Desc: desc})
		return true
	}
	// account -> confidential (two outputs: a payment and the sender's own change)
	{
		a := 5
		amt1 := new(big.Int).Mul(big.NewInt(int64(100+r.Intn(100))), e18)
		amt2 := new(big.Int).Mul(big.NewInt(int64(100+r.Intn(100))), e18)
		dests := []types.DestEntry{chainkit.Dest(cf.wallets[1], uint64(r.Intn(nsub+1)), amt1), chainkit.Dest(cf.wallets[2], uint64(r.Intn(nsub+1)), amt2)}
		tx, err := chainkit.NewAinTx(e.g.Accounts[a], 0, dests, chainkit.UtxoFeeAinToU(new(big.Int).Add(amt1, amt2)))
		if !mk(tx, err, "account->confidential, 2 outputs", e.g.Accounts[a].Addr) {
			return
		}
	}
	{
		ins := take(1)
		tx, err := cf.led.NewUinTx(r, w0, ins, 1, []types.DestEntry{chainkit.Dest(cf.wallets[1], uint64(r.Intn(nsub+1)), new(big.Int).Sub(sum(ins), uFee))})
		if !mk(tx, err, "confidential->confidential, ring size 1, 1 input", common.EmptyAddress) {
			return
		}
	}
	{
		ins := take(2)
		half := new(big.Int).Mul(big.NewInt(60), e18)
		rest := new(big.Int).Sub(new(big.Int).Sub(sum(ins), uFee), half)
		tx, err := cf.led.NewUinTx(r, w0, ins, 1, []types.DestEntry{chainkit.Dest(cf.wallets[2], uint64(r.Intn(nsub+1)), half), chainkit.Dest(w0, 0, rest)})
		if !mk(tx, err, "confidential->confidential, ring size 1, 2 inputs, 2 outputs", common.EmptyAddress) {
			return
		}
	}
	{
		ins := take(2)
		tx, err := cf.led.NewUinTx(r, w0, ins, ringN, []types.DestEntry{chainkit.Dest(cf.wallets[1], uint64(r.Intn(nsub+1)), new(big.Int).Sub(sum(ins), uFee))})
		if !mk(tx, err, fmt.Sprintf("confidential->confidential, ring size %d, 2 inputs", ringN), common.EmptyAddress) {
			return
		}
	}
	{
		ins := take(1)
		rs := ringN
		if r.Chance(0.3) {
			rs = 1
		}
		out := new(big.Int).Sub(ins[0].Amount, chainkit.UtxoFeeUinToA(ins[0].Amount))
		tx, err := cf.led.NewUinTx(r, w0, ins, rs, []types.DestEntry{&types.AccountDestEntry{To: e.g.Accounts[6].Addr, Amount: out}})
		if !mk(tx, err, fmt.Sprintf("confidential->account, ring size %d", rs), common.EmptyAddress) {
			return
		}
	}
	var fp []byte
	total := 0
	for _, sp := range spends {
		// the original must be accepted at both stages, otherwise rejections of mutants mean nothing
		orig := &spend{Name: sp.Name, Wire: nil, Ain: sp.Ain, Ring1: sp.Ring1, Sender: sp.Sender}
		v := cf.judgeUtx(orig, sp.Wire)
		if v.Stage != "accepted" {
			c.Inconclusive(fmt.Sprintf("honest spend %s (%s) not accepted: stage %s %s %s", sp.Name, sp.Desc, v.Stage, v.Err, v.Panicked))
			return
		}
		c.Count("utxo_honest_accepted", 1)
		c.Count("utxo_honest_"+sp.Name, 1)
		fp = append(fp, sp.Tx.Hash().Bytes()...)
		cf.typedMutants(sp)
		nm := 8
		if c.Tier == "thorough" {
			nm = 40
		}
		cf.multiSiteMutants(sp, nm)
		cf.sigFormMutants(sp)
		if !sp.Ain {
			cf.rebalancedPseudoOuts(sp)
			cf.feeWithCompensatedPseudoOut(sp)
		}
		total += len(sitesOf(sp.Tx))
	}
	// spends forged with non-owner keys (funded wallet and stranger), ring size 1 and N
	victim := take(1)[0]
	for _, thief := range []*chainkit.UWallet{cf.wallets[1], cf.wallets[cf.funded]} {
		cf.forgedSpend(thief, victim, 1)
		cf.forgedSpend(thief, victim, ringN)
	}
	if total >= 100 {
		c.Nontrivial(fmt.Sprintf("conf-%x", crypto.Keccak256(fp)[:8]))
	}
	if c.Index%40 == 1 {
		var names []string
		for _, sp := range spends {
			names = append(names, sp.Name+": "+sp.Desc)
		}
		c.Sample(map[string]interface{}{"lane": "confidential", "spends": names, "sites": total, "outputs_scanned": len(images)})
	}
}
