package c08

import (
	"bytes"
	"fmt"

	"github.com/lianxiangcloud/linkchain/libs/ser"
)

// node is one value of the wire encoding (the repository's ser format is RLP-framed):
// a byte string or a list of values. Account-based transactions (tx, txt, cut, mst) are
// pure trees of this kind, so every field of the signed wire form is a leaf an attacker
// can rewrite without any knowledge of the Go types.
type node struct {
	list bool
	str  []byte
	kids []*node
}

func parseOne(b []byte) (*node, []byte, error) {
	k, content, rest, err := ser.Split(b)
	if err != nil {
		return nil, nil, err
	}
	if k != ser.List {
		return &node{str: append([]byte{}, content...)}, rest, nil
	}
	n := &node{list: true}
	for len(content) > 0 {
		kid, r, err := parseOne(content)
		if err != nil {
			return nil, nil, err
		}
		n.kids = append(n.kids, kid)
		content = r
	}
	return n, rest, nil
}

// parseTree parses exactly one value.
func parseTree(b []byte) (*node, error) {
	n, rest, err := parseOne(b)
	if err != nil {
		return nil, err
	}
	if len(rest) != 0 {
		return nil, fmt.Errorf("%d trailing bytes", len(rest))
	}
	return n, nil
}

func putHead(buf *bytes.Buffer, small, large byte, size int) {
	if size < 56 {
		buf.WriteByte(small + byte(size))
		return
	}
	var lb []byte
	for s := size; s > 0; s >>= 8 {
		lb = append([]byte{byte(s)}, lb...)
	}
	buf.WriteByte(large + byte(len(lb)))
	buf.Write(lb)
}

func (n *node) encodeTo(buf *bytes.Buffer) {
	if !n.list {
		if len(n.str) == 1 && n.str[0] < 0x80 {
			buf.WriteByte(n.str[0])
			return
		}
		putHead(buf, 0x80, 0xb7, len(n.str))
		buf.Write(n.str)
		return
	}
	var inner bytes.Buffer
	for _, k := range n.kids {
		k.encodeTo(&inner)
	}
	putHead(buf, 0xc0, 0xf7, inner.Len())
	buf.Write(inner.Bytes())
}

func (n *node) encode() []byte {
	var buf bytes.Buffer
	n.encodeTo(&buf)
	return buf.Bytes()
}

func (n *node) clone() *node {
	c := &node{list: n.list, str: append([]byte{}, n.str...)}
	for _, k := range n.kids {
		c.kids = append(c.kids, k.clone())
	}
	return c
}

func (n *node) at(path []int) *node {
	cur := n
	for _, i := range path {
		if !cur.list || i < 0 || i >= len(cur.kids) {
			return nil
		}
		cur = cur.kids[i]
	}
	return cur
}

// leafPaths lists the paths of all byte-string leaves and of all empty lists, in encoding order.
func (n *node) leafPaths() [][]int {
	var out [][]int
	var walk func(cur *node, path []int)
	walk = func(cur *node, path []int) {
		if !cur.list || len(cur.kids) == 0 {
			out = append(out, append([]int{}, path...))
			return
		}
		for i, k := range cur.kids {
			walk(k, append(path, i))
		}
	}
	walk(n, nil)
	return out
}

// listPaths lists the paths of all lists (including the root).
func (n *node) listPaths() [][]int {
	var out [][]int
	var walk func(cur *node, path []int)
	walk = func(cur *node, path []int) {
		if !cur.list {
			return
		}
		out = append(out, append([]int{}, path...))
		for i, k := range cur.kids {
			walk(k, append(path, i))
		}
	}
	walk(n, nil)
	return out
}
