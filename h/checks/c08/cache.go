package c08

import (
	"bytes"
	"crypto/ecdsa"
	"fmt"
	"math/big"

	"github.com/lianxiangcloud/linkchain/libs/common"
	"github.com/lianxiangcloud/linkchain/libs/crypto"
	"github.com/lianxiangcloud/linkchain/libs/ser"
	"github.com/lianxiangcloud/linkchain/types"

	"verif/h/internal/chainkit"
	"verif/h/internal/core"
	"verif/h/internal/rng"
)

// cacheKind abstracts what the cache lane needs of a transaction kind that carries one
// account signature.
type cacheKind struct {
	Name   string
	Decode func(b []byte) (types.Tx, error)
	// GetSig / SetSig read and replace (r, s, v) in wire form.
	GetSig func(b []byte) (r, s, v *big.Int, err error)
	SetSig func(b []byte, r, s, v *big.Int) ([]byte, error)
	// Tweak changes one signed field and keeps the signature.
	Tweak func(r *rng.R, b []byte) ([]byte, error)
}

type signer interface {
	Sign(signer types.STDSigner, prv *ecdsa.PrivateKey) error
}

func treeKind(name string, dec func([]byte) (types.Tx, error), sig [3][]int, tweak []int) cacheKind {
	return cacheKind{
		Name: name, Decode: dec,
		GetSig: func(b []byte) (*big.Int, *big.Int, *big.Int, error) {
			t, err := parseTree(b)
			if err != nil {
				return nil, nil, nil, err
			}
			return new(big.Int).SetBytes(t.at(sig[1]).str), new(big.Int).SetBytes(t.at(sig[2]).str), new(big.Int).SetBytes(t.at(sig[0]).str), nil
		},
		SetSig: func(b []byte, r, s, v *big.Int) ([]byte, error) {
			t, err := parseTree(b)
			if err != nil {
				return nil, err
			}
			t.at(sig[0]).str, t.at(sig[1]).str, t.at(sig[2]).str = v.Bytes(), r.Bytes(), s.Bytes()
			return t.encode(), nil
		},
		Tweak: func(r *rng.R, b []byte) ([]byte, error) {
			t, err := parseTree(b)
			if err != nil {
				return nil, err
			}
			l := t.at(tweak)
			l.str = append(append([]byte{}, l.str...), r.Bytes(1)...) // the payload grows by one byte
			return t.encode(), nil
		},
	}
}

var utxKind = cacheKind{
	Name: "utx-ain",
	Decode: func(b []byte) (types.Tx, error) {
		t, err := decodeUtx(b)
		if err != nil {
			return nil, err
		}
		return t, nil
	},
	GetSig: func(b []byte) (*big.Int, *big.Int, *big.Int, error) {
		t, err := decodeUtx(b)
		if err != nil {
			return nil, nil, nil, err
		}
		return t.Sigs.R, t.Sigs.S, t.Sigs.V, nil
	},
	SetSig: func(b []byte, r, s, v *big.Int) ([]byte, error) {
		t, err := decodeUtx(b)
		if err != nil {
			return nil, err
		}
		t.Sigs.R, t.Sigs.S, t.Sigs.V = r, s, v
		return ser.EncodeToBytes(t)
	},
	Tweak: func(r *rng.R, b []byte) ([]byte, error) {
		t, err := decodeUtx(b)
		if err != nil {
			return nil, err
		}
		t.Extra = append(t.Extra, r.Bytes(1)...)
		return ser.EncodeToBytes(t)
	},
}

func cacheKinds() []cacheKind {
	return []cacheKind{
		treeKind("tx-transfer", decodeTx, [3][]int{{6}, {7}, {8}}, []int{5}),
		treeKind("txt", decodeTxt, [3][]int{{7, 0}, {7, 1}, {7, 2}}, []int{6}),
		utxKind,
	}
}

// freshSender decodes wire into a new object and recovers the sender: the reference every
// cached answer is compared with.
func freshSender(k cacheKind, wire []byte) (from common.Address, err error) {
	defer func() {
		if p := recover(); p != nil {
			err = fmt.Errorf("panic: %v", p)
		}
	}()
	tx, err := k.Decode(wire)
	if err != nil {
		return common.EmptyAddress, err
	}
	return tx.From()
}

func genCacheTx(e *env, r *rng.R, kind string, acct chainkit.Account, wallets []*chainkit.UWallet) (types.Tx, error) {
	switch kind {
	case "tx-transfer":
		value := new(big.Int).Mul(big.NewInt(int64(1+r.Intn(50))), e18)
		tx := types.NewTransaction(0, common.BytesToAddress(r.Bytes(20)), value, chainkit.TransferGas(value), nil, nil)
		return tx, tx.Sign(types.GlobalSTDSigner, acct.Key)
	case "txt":
		tx := types.NewTokenTransaction(tokenAddr, 0, common.BytesToAddress(r.Bytes(20)), big.NewInt(int64(1+r.Intn(1000))), uint64(types.MinGasLimit), nil, nil)
		return tx, tx.Sign(types.GlobalSTDSigner, acct.Key)
	}
	amt := new(big.Int).Mul(big.NewInt(int64(100+r.Intn(100))), e18)
	dests := []types.DestEntry{chainkit.Dest(wallets[r.Intn(len(wallets))], uint64(r.Intn(3)), amt)}
	return chainkit.NewAinTx(acct, 0, dests, chainkit.UtxoFeeAinToU(amt))
}

// objectCaches: re-signing an object whose sender has been recovered before. The sender an
// object reports must be the one a fresh recovery on its current bytes gives.
func objectCaches(c *core.Ctx, e *env, wallets []*chainkit.UWallet) {
	r := c.Rng
	for _, k := range cacheKinds() {
		ai := r.Intn(len(e.g.Accounts))
		bi := (ai + 1 + r.Intn(len(e.g.Accounts)-1)) % len(e.g.Accounts)
		a, b := e.g.Accounts[ai], e.g.Accounts[bi]
		tx, err := genCacheTx(e, r, k.Name, a, wallets)
		if err != nil {
			c.Inconclusive("generator: " + err.Error())
			return
		}
		if f, err := tx.From(); err != nil || f != a.Addr { // warm
			viol(c, "honest/"+k.Name+"/sender-differs-from-signer", fmt.Sprintf("%x %v", f, err), nil)
			continue
		}
		check := func(how string, obj types.Tx) {
			wire, err := ser.EncodeToBytes(obj)
			if err != nil {
				return
			}
			got, gerr := obj.From()
			want, werr := freshSender(k, wire)
			c.Count("object_cache_checks", 1)
			if (gerr == nil) != (werr == nil) || got != want {
				viol(c, "sender-cache/stale-after-resign/"+k.Name, fmt.Sprintf("object signed by %x, sender recovered, then %s with the key of %x: the object still reports %x (%v); a fresh recovery on its bytes gives %x (%v)", a.Addr, how, b.Addr, got, gerr, want, werr),
					map[string]string{"kind": k.Name, "wire_after": hexShort(wire), "reported": fmt.Sprintf("%x", got), "fresh": fmt.Sprintf("%x", want)})
			}
		}
		if t, ok := tx.(*types.Transaction); ok {
			// WithSignature with b's signature over the same signing hash
			sig, err := crypto.Sign(t.SignHash().Bytes(), b.Key)
			if err == nil {
				if t2, err := t.WithSignature(types.GlobalSTDSigner, sig); err == nil {
					check("WithSignature", t2)
				}
			}
		}
		if s, ok := tx.(signer); ok {
			if err := s.Sign(types.GlobalSTDSigner, b.Key); err == nil {
				check("Sign", tx)
			}
		}
	}
}

type blockCand struct {
	Name string
	Wire []byte
}

// blockCaches: a transaction of a is in the validator's pool (so its hash and sender are
// cached); blocks then carry that transaction, re-encodings of its signature, a changed field
// under the original signature, and the same fields signed by b. A cold replica sees the same blocks.
func blockCaches(c *core.Ctx, e *env, wallets []*chainkit.UWallet) {
	r := c.Rng
	kinds := cacheKinds()
	k := kinds[r.Intn(len(kinds))]
	ai := r.Intn(len(e.g.Accounts))
	bi := (ai + 1 + r.Intn(len(e.g.Accounts)-1)) % len(e.g.Accounts)
	a, b := e.g.Accounts[ai], e.g.Accounts[bi]
	P, err := e.newNode(false)
	if err != nil {
		c.Inconclusive("node: " + err.Error())
		return
	}
	defer P.Close()
	warm, err := e.newNodeOpt(false, true)
	if err != nil {
		c.Inconclusive("node: " + err.Error())
		return
	}
	defer warm.Close()
	cold, err := e.newNode(false)
	if err != nil {
		c.Inconclusive("node: " + err.Error())
		return
	}
	defer cold.Close()

	tx, err := genCacheTx(e, r, k.Name, a, wallets)
	if err != nil {
		c.Inconclusive("generator: " + err.Error())
		return
	}
	wireA, err := ser.EncodeToBytes(tx)
	if err != nil {
		c.Inconclusive("encode: " + err.Error())
		return
	}
	pooled, err := k.Decode(wireA)
	if err != nil {
		c.Inconclusive("decode: " + err.Error())
		return
	}
	if err := warm.Mempool.AddTx("", pooled); err != nil {
		c.Inconclusive("pool rejected the honest transaction: " + err.Error())
		return
	}
	if warm.Mempool.GetTxFromCache(pooled.Hash()) == nil {
		c.Inconclusive("honest transaction not in the pool cache")
		return
	}
	c.Count("cache_pool_admissions", 1)

	rr, ss, vv, err := k.GetSig(wireA)
	if err != nil {
		c.Inconclusive("GetSig: " + err.Error())
		return
	}
	recid := new(big.Int).Sub(vv, chainV(0)).Int64()
	cands := []blockCand{{"same-bytes", wireA}}
	addSig := func(name string, r2, s2, v2 *big.Int) {
		if w, err := k.SetSig(wireA, r2, s2, v2); err == nil {
			cands = append(cands, blockCand{name, w})
		}
	}
	addSig("high-s-twin", rr, new(big.Int).Sub(secpN, ss), chainV(recid^1))
	addSig("high-s-same-v", rr, new(big.Int).Sub(secpN, ss), vv)
	addSig("v-flipped", rr, ss, chainV(recid^1))
	addSig("garbage-signature", new(big.Int).SetBytes(r.Bytes(32)), new(big.Int).Mod(new(big.Int).SetBytes(r.Bytes(32)), secpHalf), vv)
	if w, err := k.Tweak(r, wireA); err == nil {
		cands = append(cands, blockCand{"field-changed-original-signature", w})
	}
	// the same fields signed by b (a cold copy is re-signed, so no object cache is involved)
	var wireB []byte
	if cp, err := k.Decode(wireA); err == nil {
		if s, ok := cp.(signer); ok && s.Sign(types.GlobalSTDSigner, b.Key) == nil {
			if w, err := ser.EncodeToBytes(cp); err == nil {
				wireB = w
				cands = append(cands, blockCand{"same-fields-signed-by-other-account", w})
			}
		}
	}

	verdicts := 0
	for _, cd := range cands {
		wantFrom, wantErr := freshSender(k, cd.Wire)
		obj, err := k.Decode(cd.Wire)
		if err != nil {
			c.Count("cache_candidate_undecodable", 1)
			continue
		}
		executed := true
		blk, parts, err := buildBlock(P, chainkit.NilCommit(), types.Txs{obj}, true)
		if err != nil {
			// the proposer's own execution fails; a Byzantine proposer can still send the block
			executed = false
			obj, _ = k.Decode(cd.Wire)
			blk, parts, err = buildBlock(P, chainkit.NilCommit(), types.Txs{obj}, false)
			if err != nil {
				c.Inconclusive("cannot build a block: " + err.Error())
				return
			}
		}
		_ = blk
		type seen struct {
			ok      bool
			from    common.Address
			fromErr bool
		}
		var res [2]seen
		for ni, n := range []*chainkit.Node{warm, cold} {
			rp, err := chainkit.RebuildParts(parts)
			if err != nil {
				c.Inconclusive("parts: " + err.Error())
				return
			}
			fb, err := chainkit.DecodeBlock(rp, 0)
			if err != nil || len(fb.Data.Txs) != 1 {
				c.Inconclusive("block does not decode")
				return
			}
			ok, pan := safeCheckBlock(n, fb)
			if pan != "" {
				c.Count("cache_checkblock_panics", 1)
			}
			var from common.Address
			var ferr error
			func() {
				defer func() {
					if p := recover(); p != nil {
						ferr = fmt.Errorf("panic: %v", p)
					}
				}()
				from, ferr = fb.Data.Txs[0].From() // what this replica attributes (cached by verifyTxsOnProcess on a pool hit)
			}()
			res[ni] = seen{ok, from, ferr != nil}
			c.Count("cache_block_verdicts", 1)
			verdicts++
			who := []string{"warm", "cold"}[ni]
			wit := map[string]string{"kind": k.Name, "candidate": cd.Name, "replica": who, "pooled_wire": hexShort(wireA), "block_tx_wire": hexShort(cd.Wire), "a": fmt.Sprintf("%x", a.Addr), "b": fmt.Sprintf("%x", b.Addr)}
			if ferr == nil && (wantErr != nil || from != wantFrom) {
				viol(c, "sender-cache/block-attributes-sender-not-recovered-from-these-bytes", fmt.Sprintf("%s replica, candidate %s: the block's transaction object reports sender %x, a fresh recovery on its bytes gives %x (%v)", who, cd.Name, from, wantFrom, wantErr), wit)
			}
			if ok && !bytes.Equal(cd.Wire, wireA) && wantErr == nil && wantFrom == a.Addr {
				viol(c, "block/mutant-of-signed-transaction-accepted/"+cd.Name, fmt.Sprintf("%s replica accepts a block whose transaction (%s) differs from what %x signed and charges %x", who, cd.Name, a.Addr, a.Addr), wit)
			}
			if ok && wantErr != nil {
				viol(c, "block/transaction-without-recoverable-sender-accepted", fmt.Sprintf("%s replica, candidate %s: %v", who, cd.Name, wantErr), wit)
			}
			if ok && !executed {
				viol(c, "block/unexecutable-block-accepted", fmt.Sprintf("%s replica, candidate %s", who, cd.Name), wit)
			}
		}
		if res[0] != res[1] {
			viol(c, "sender-cache/warm-and-cold-replicas-disagree", fmt.Sprintf("candidate %s: warm pool replica says ok=%v sender=%x, cold replica ok=%v sender=%x", cd.Name, res[0].ok, res[0].from, res[1].ok, res[1].from),
				map[string]string{"kind": k.Name, "candidate": cd.Name, "pooled_wire": hexShort(wireA), "block_tx_wire": hexShort(cd.Wire)})
		}
		switch cd.Name {
		case "same-bytes":
			if !res[0].ok || !res[1].ok {
				c.Inconclusive(fmt.Sprintf("block with the honest %s rejected (warm %v cold %v)", k.Name, res[0].ok, res[1].ok))
				return
			}
			c.Count("cache_warm_hit_blocks_accepted", 1)
		case "same-fields-signed-by-other-account":
			if res[0].ok {
				c.Count("cache_other_signer_blocks_accepted", 1)
			}
		default:
			if !res[0].ok && !res[1].ok {
				c.Count("cache_mutant_blocks_rejected", 1)
			}
		}
	}

	// observe the charge once: commit the block signed by b on the warm replica; a (whose
	// transaction is still pooled there) must not pay
	if wireB != nil {
		obj, _ := k.Decode(wireB)
		blk, parts, err := buildBlock(P, chainkit.NilCommit(), types.Txs{obj}, true)
		if err == nil {
			bal := func(n *chainkit.Node, ad common.Address) string {
				st := n.App.VerifStoreState()
				return fmt.Sprintf("%s/%s/%d", st.GetBalance(ad), st.GetTokenBalance(ad, tokenAddr), st.GetNonce(ad))
			}
			beforeA, beforeB := bal(warm, a.Addr), bal(warm, b.Addr)
			blockID := types.BlockID{Hash: blk.Hash(), PartsHeader: parts.Header()}
			commit, cerr := e.g.MakeCommit(warm.Status, warm.Status.Validators, blk.Height, 0, blockID, nil)
			rp, perr := chainkit.RebuildParts(parts)
			if cerr == nil && perr == nil {
				fb, derr := chainkit.DecodeBlock(rp, 0)
				if derr == nil {
					ok, aerr := warm.Accept(fb, rp, commit, false)
					if ok && aerr == nil {
						afterA, afterB := bal(warm, a.Addr), bal(warm, b.Addr)
						c.Count("cache_commits_observed", 1)
						if afterA != beforeA {
							viol(c, "block/signer-of-pooled-transaction-charged-for-other-transaction", fmt.Sprintf("a %x: %s -> %s although the committed transaction was signed by b", a.Addr, beforeA, afterA),
								map[string]string{"kind": k.Name, "pooled_wire": hexShort(wireA), "block_tx_wire": hexShort(wireB)})
						}
						if afterB == beforeB {
							viol(c, "block/signer-not-charged", fmt.Sprintf("b %x unchanged (%s) after its transaction was committed", b.Addr, afterB), nil)
						}
					}
				}
			}
		}
	}
	if verdicts >= 4 {
		c.Nontrivial(fmt.Sprintf("cache-%x", crypto.Keccak256(wireA)[:8]))
	}
	if c.Index%40 == 2 {
		var names []string
		for _, cd := range cands {
			names = append(names, cd.Name)
		}
		c.Sample(map[string]interface{}{"lane": "cache", "kind": k.Name, "candidates": names})
	}
}

func runCache(c *core.Ctx, e *env) {
	wseed := c.Rng.Uint64()
	wallets := []*chainkit.UWallet{chainkit.NewUWallet(wseed, 0, 2), chainkit.NewUWallet(wseed, 1, 2)}
	objectCaches(c, e, wallets)
	blockCaches(c, e, wallets)
	inflightCache(c, e, wallets)
}
