package c08

import (
	"math/big"
	"reflect"
	"regexp"
	"strings"

	"verif/h/internal/rng"
)

// Typed mutation of a decoded UTXOTransaction (all wire fields are exported): a deterministic
// walk enumerates every encoded leaf (byte arrays, byte slices, integers, big integers) and
// every encoded slice; a mutation is (index of the site in walk order, operation). It is
// applied to a fresh re-decoded copy, the copy is re-encoded, and only the bytes travel on.

var bigIntType = reflect.TypeOf(big.Int{})

type site struct {
	Path  string // with indices, e.g. RCTSig.P.MGs[0].Ss[1][0]
	Val   reflect.Value
	Slice bool // a slice site (structural operations), otherwise a leaf
}

func isByteSeq(t reflect.Type) bool {
	return (t.Kind() == reflect.Array || t.Kind() == reflect.Slice) && t.Elem().Kind() == reflect.Uint8
}

func walkSites(v reflect.Value, path string, out *[]site) {
	switch v.Kind() {
	case reflect.Ptr:
		if v.Type().Elem() == bigIntType {
			*out = append(*out, site{Path: path, Val: v})
			return
		}
		if v.IsNil() {
			return
		}
		walkSites(v.Elem(), path, out)
	case reflect.Interface:
		if v.IsNil() {
			return
		}
		walkSites(v.Elem(), path+"("+v.Elem().Type().String()+")", out)
	case reflect.Struct:
		t := v.Type()
		for i := 0; i < t.NumField(); i++ {
			f := t.Field(i)
			if f.PkgPath != "" { // unexported: not on the wire
				continue
			}
			if strings.Contains(string(f.Tag), `rlp:"-"`) {
				continue
			}
			p := f.Name
			if path != "" {
				p = path + "." + f.Name
			}
			walkSites(v.Field(i), p, out)
		}
	case reflect.Array, reflect.Slice:
		if isByteSeq(v.Type()) {
			*out = append(*out, site{Path: path, Val: v})
			return
		}
		if v.Kind() == reflect.Slice {
			*out = append(*out, site{Path: path, Val: v, Slice: true})
		}
		for i := 0; i < v.Len(); i++ {
			walkSites(v.Index(i), path+"["+itoa(i)+"]", out)
		}
	case reflect.Uint8, reflect.Uint16, reflect.Uint32, reflect.Uint64, reflect.Uint, reflect.Int, reflect.Int8, reflect.Int16, reflect.Int32, reflect.Int64, reflect.Bool:
		*out = append(*out, site{Path: path, Val: v})
	}
}

func itoa(i int) string {
	if i == 0 {
		return "0"
	}
	s := ""
	for i > 0 {
		s = string(rune('0'+i%10)) + s
		i /= 10
	}
	return s
}

var idxRe = regexp.MustCompile(`\[\d+\]`)
var typRe = regexp.MustCompile(`\(\*?types\.(\w+)\)`)

// classOf strips indices from a site path: the stable field class used in violation keys.
func classOf(path string) string {
	p := idxRe.ReplaceAllString(path, "[]")
	return typRe.ReplaceAllString(p, "<$1>")
}

func sitesOf(tx interface{}) []site {
	var out []site
	walkSites(reflect.ValueOf(tx), "", &out)
	return out
}

// opsFor lists the operations applicable to a site.
func opsFor(s site) []string {
	if s.Slice {
		ops := []string{"slice-append-copy-or-zero"}
		if s.Val.Len() > 0 {
			ops = append(ops, "slice-drop-last", "slice-clear")
		}
		if s.Val.Len() > 1 {
			ops = append(ops, "slice-swap-first-two")
		}
		return ops
	}
	v := s.Val
	switch {
	case v.Kind() == reflect.Ptr: // *big.Int
		return []string{"big-increment", "big-set-random", "big-set-zero-or-one"}
	case v.Kind() == reflect.Array:
		return []string{"bitflip", "random", "zero-or-ff"}
	case v.Kind() == reflect.Slice:
		return []string{"bytes-append", "bytes-flip-or-set", "bytes-clear-or-set"}
	case v.Kind() == reflect.Bool:
		return []string{"negate"}
	default:
		return []string{"int-increment", "int-xor-random"}
	}
}

// applyOp changes the site in place; returns false if the operation is not applicable.
func applyOp(r *rng.R, s site, op string) bool {
	v := s.Val
	if s.Slice {
		switch op {
		case "slice-append-copy-or-zero":
			var el reflect.Value
			if v.Len() > 0 {
				el = v.Index(v.Len() - 1)
			} else {
				el = reflect.Zero(v.Type().Elem())
				if el.Kind() == reflect.Interface || el.Kind() == reflect.Ptr {
					return false // a nil interface element cannot be encoded
				}
			}
			v.Set(reflect.Append(v, el))
		case "slice-drop-last":
			v.Set(v.Slice(0, v.Len()-1))
		case "slice-clear":
			v.Set(reflect.Zero(v.Type()))
		case "slice-swap-first-two":
			a := reflect.New(v.Type().Elem()).Elem()
			a.Set(v.Index(0))
			v.Index(0).Set(v.Index(1))
			v.Index(1).Set(a)
		default:
			return false
		}
		return true
	}
	switch {
	case v.Kind() == reflect.Ptr:
		cur := new(big.Int)
		if !v.IsNil() {
			cur.Set(v.Interface().(*big.Int))
		}
		switch op {
		case "big-increment":
			cur.Add(cur, big1)
		case "big-set-random":
			cur.SetBytes(r.Bytes(1 + r.Intn(32)))
		case "big-set-zero-or-one":
			if cur.Sign() == 0 {
				cur.SetInt64(1)
			} else {
				cur.SetInt64(0)
			}
		default:
			return false
		}
		v.Set(reflect.ValueOf(cur))
	case v.Kind() == reflect.Array:
		n := v.Len()
		switch op {
		case "bitflip":
			i := r.Intn(n)
			v.Index(i).SetUint(v.Index(i).Uint() ^ uint64(1<<uint(r.Intn(8))))
		case "random":
			b := r.Bytes(n)
			for i := 0; i < n; i++ {
				v.Index(i).SetUint(uint64(b[i]))
			}
		case "zero-or-ff":
			allZero := true
			for i := 0; i < n; i++ {
				if v.Index(i).Uint() != 0 {
					allZero = false
				}
			}
			for i := 0; i < n; i++ {
				if allZero {
					v.Index(i).SetUint(0xff)
				} else {
					v.Index(i).SetUint(0)
				}
			}
		default:
			return false
		}
	case v.Kind() == reflect.Slice: // []byte
		b := append([]byte{}, v.Bytes()...)
		switch op {
		case "bytes-append":
			b = append(b, r.Bytes(1)...)
		case "bytes-flip-or-set":
			if len(b) == 0 {
				b = []byte{1}
			} else {
				b[r.Intn(len(b))] ^= byte(1 << uint(r.Intn(8)))
			}
		case "bytes-clear-or-set":
			if len(b) == 0 {
				b = r.Bytes(3)
			} else {
				b = nil
			}
		default:
			return false
		}
		v.SetBytes(b)
	case v.Kind() == reflect.Bool:
		v.SetBool(!v.Bool())
	case v.Kind() >= reflect.Int && v.Kind() <= reflect.Int64:
		switch op {
		case "int-increment":
			v.SetInt(v.Int() + 1)
		case "int-xor-random":
			v.SetInt(v.Int() ^ int64(1+r.Intn(255)))
		default:
			return false
		}
	default:
		switch op {
		case "int-increment":
			v.SetUint(v.Uint() + 1)
		case "int-xor-random":
			v.SetUint(v.Uint() ^ uint64(1+r.Intn(255)))
		default:
			return false
		}
	}
	return true
}
