package c08

import (
	"bytes"
	"crypto/ecdsa"
	"fmt"
	"math/big"
	"sort"

	cfg "github.com/lianxiangcloud/linkchain/config"
	"github.com/lianxiangcloud/linkchain/libs/common"
	"github.com/lianxiangcloud/linkchain/libs/crypto"
	"github.com/lianxiangcloud/linkchain/libs/ser"
	"github.com/lianxiangcloud/linkchain/types"

	"verif/h/internal/chainkit"
	"verif/h/internal/core"
	"verif/h/internal/rng"
)

// honest is one honestly built and signed account-based transaction in wire form,
// together with what the generator knows about it.
type honest struct {
	Kind   string
	Wire   []byte
	Sender common.Address // the account whose key holder authorised it (the account the chain charges)
	Strict bool           // the charged account is a signed field (cut) or a constant (mst): every accepted non-identity mutant refutes
	Key    *ecdsa.PrivateKey
	// Sigs lists the tree paths of the secp256k1 signature triples (v, r, s) that are all NEEDED.
	Sigs   [][3][]int
	Names  func(path []int) string
	Decode func(b []byte) (types.Tx, error)
	// SignFields returns the list the signing hash is computed over (without the chain parameter suffix).
	SignFields func(tx types.Tx) []interface{}
	Desc       string
}

func decodeTx(b []byte) (types.Tx, error) {
	t := new(types.Transaction)
	if err := ser.DecodeBytes(b, t); err != nil {
		return nil, err
	}
	return t, nil
}
func decodeTxt(b []byte) (types.Tx, error) {
	t := new(types.TokenTransaction)
	if err := ser.DecodeBytes(b, t); err != nil {
		return nil, err
	}
	return t, nil
}
func decodeCut(b []byte) (types.Tx, error) {
	t := new(types.ContractUpgradeTx)
	if err := ser.DecodeBytes(b, t); err != nil {
		return nil, err
	}
	return t, nil
}
func decodeMst(b []byte) (types.Tx, error) {
	t := new(types.MultiSignAccountTx)
	if err := ser.DecodeBytes(b, t); err != nil {
		return nil, err
	}
	return t, nil
}

func pathIs(p []int, q ...int) bool {
	if len(p) != len(q) {
		return false
	}
	for i := range p {
		if q[i] >= 0 && p[i] != q[i] {
			return false
		}
	}
	return true
}

var txFieldNames = []string{"nonce", "gasPrice", "gas", "to", "value", "input", "sig.v", "sig.r", "sig.s"}

func namesTx(p []int) string {
	if len(p) == 1 && p[0] < len(txFieldNames) {
		return txFieldNames[p[0]]
	}
	return "structure"
}

var txtFieldNames = []string{"token", "nonce", "gasPrice", "gas", "to", "value", "input", "sig"}

func namesTxt(p []int) string {
	if len(p) == 1 && p[0] < len(txtFieldNames) {
		return txtFieldNames[p[0]]
	}
	if len(p) == 2 && p[0] == 7 && p[1] < 3 {
		return "sig." + []string{"v", "r", "s"}[p[1]]
	}
	return "structure"
}

func namesCut(p []int) string {
	switch {
	case len(p) == 2 && p[0] == 0 && p[1] < 4:
		return "main." + []string{"from", "contract", "nonce", "input"}[p[1]]
	case len(p) == 3 && p[0] == 1 && p[2] < 3:
		return "sigs[]." + []string{"v", "r", "s"}[p[2]]
	case len(p) == 2 && p[0] == 1:
		return "sigs[]"
	case len(p) == 1 && p[0] == 0:
		return "main"
	case len(p) == 1 && p[0] == 1:
		return "sigs"
	}
	return "structure"
}

func namesMst(p []int) string {
	switch {
	case pathIs(p, 0, 0):
		return "main.nonce"
	case pathIs(p, 0, 1):
		return "main.txType"
	case pathIs(p, 0, 2, 0):
		return "main.minSignerPower"
	case pathIs(p, 0, 2, 1, -1, 0):
		return "main.signers[].power"
	case pathIs(p, 0, 2, 1, -1, 1):
		return "main.signers[].addr"
	case pathIs(p, 0, 2, 1, -1):
		return "main.signers[]"
	case pathIs(p, 0, 2, 1):
		return "main.signers"
	case pathIs(p, 0, 2):
		return "main.signersInfo"
	case pathIs(p, 0):
		return "main"
	case pathIs(p, 1, -1, 0):
		return "sigs[].addr"
	case pathIs(p, 1, -1, 1):
		return "sigs[].signature"
	case pathIs(p, 1, -1):
		return "sigs[]"
	case pathIs(p, 1):
		return "sigs"
	}
	return "structure"
}

func randValue(r *rng.R) *big.Int {
	switch r.Intn(5) {
	case 0:
		return big.NewInt(int64(r.Intn(100000)))
	case 1:
		return new(big.Int).Mul(big.NewInt(int64(1+r.Intn(5000))), big.NewInt(1e18))
	case 2:
		return new(big.Int).SetBytes(r.Bytes(1 + r.Intn(9)))
	case 3:
		return big.NewInt(0)
	}
	return new(big.Int).Mul(big.NewInt(int64(1+r.Intn(1000))), big.NewInt(1e10))
}

func randAddr(r *rng.R, g *chainkit.Genesis) common.Address {
	if r.Chance(0.5) {
		return g.Accounts[r.Intn(len(g.Accounts))].Addr
	}
	return common.BytesToAddress(r.Bytes(20))
}

func randPayload(r *rng.R, max int) []byte {
	if r.Chance(0.4) {
		return nil
	}
	b := r.Bytes(1 + r.Intn(max))
	b[0] |= 0x80 // never JSON, never the wasm magic
	return b
}

func sortedInnerContracts() []common.Address {
	var out []common.Address
	for a := range cfg.InnerContracts {
		out = append(out, a)
	}
	sort.Slice(out, func(i, j int) bool { return bytes.Compare(out[i][:], out[j][:]) < 0 })
	return out
}

// genHonest builds one honest transaction of the given kind.
func genHonest(e *env, r *rng.R, kind string) (*honest, error) {
	g := e.g
	switch kind {
	case "tx-transfer", "tx-create":
		acct := g.Accounts[r.Intn(len(g.Accounts))]
		value := randValue(r)
		var tx *types.Transaction
		if kind == "tx-transfer" {
			tx = types.NewTransaction(uint64(r.Intn(6)), randAddr(r, g), value, chainkit.TransferGas(value), nil, randPayload(r, 40))
		} else {
			code := r.Bytes(10 + r.Intn(70))
			code[0] |= 0x80
			// any gas limit >= intrinsic gas and >= the value fee is legal for a creation: a free signed field
			tx = types.NewContractCreation(uint64(r.Intn(6)), value, chainkit.TransferGas(value)+uint64(500000+r.Intn(1000000)), nil, code)
		}
		if err := tx.Sign(types.GlobalSTDSigner, acct.Key); err != nil {
			return nil, err
		}
		tx.From() // the sender is memoised on this object; everything below works from its bytes
		w, err := ser.EncodeToBytes(tx)
		if err != nil {
			return nil, err
		}
		return &honest{Kind: kind, Wire: w, Sender: acct.Addr, Key: acct.Key, Names: namesTx, Decode: decodeTx,
			Sigs: [][3][]int{{{6}, {7}, {8}}},
			SignFields: func(t types.Tx) []interface{} {
				x := t.(*types.Transaction)
				return []interface{}{x.Nonce(), x.GasPrice(), x.Gas(), x.To(), x.Value(), x.Data()}
			}, Desc: fmt.Sprintf("nonce %d value %s", tx.Nonce(), value)}, nil
	case "txt":
		acct := g.Accounts[r.Intn(len(g.Accounts))]
		value := randValue(r)
		token := tokenAddr
		gas := uint64(types.MinGasLimit)
		if r.Chance(0.3) {
			token = common.EmptyAddress
			gas = chainkit.TransferGas(value)
		}
		tx := types.NewTokenTransaction(token, uint64(r.Intn(6)), randAddr(r, g), value, gas, nil, randPayload(r, 30))
		if err := tx.Sign(types.GlobalSTDSigner, acct.Key); err != nil {
			return nil, err
		}
		tx.From()
		w, err := ser.EncodeToBytes(tx)
		if err != nil {
			return nil, err
		}
		return &honest{Kind: kind, Wire: w, Sender: acct.Addr, Key: acct.Key, Names: namesTxt, Decode: decodeTxt,
			Sigs: [][3][]int{{{7, 0}, {7, 1}, {7, 2}}},
			SignFields: func(t types.Tx) []interface{} {
				x := t.(*types.TokenTransaction)
				return []interface{}{x.TokenAddress(), x.Nonce(), x.GasPrice(), x.Gas(), x.To(), x.Value(), x.Data()}
			}, Desc: fmt.Sprintf("token %x nonce %d value %s", token[16:], tx.Nonce(), value)}, nil
	case "cut":
		inner := sortedInnerContracts()
		fi := r.Intn(3)
		co := (fi + 1 + r.Intn(2)) % 3
		payload := append([]byte{0x00, 0x61, 0x73, 0x6d}, r.Bytes(4+r.Intn(40))...)
		mi := &types.ContractUpgradeMainInfo{FromAddr: g.Accounts[fi].Addr, Recipient: inner[r.Intn(len(inner))], AccountNonce: uint64(r.Intn(4)), Payload: payload}
		s0, err := types.SignContractUpgradeTx(g.Accounts[fi].Key, mi)
		if err != nil {
			return nil, err
		}
		s1, err := types.SignContractUpgradeTx(g.Accounts[co].Key, mi)
		if err != nil {
			return nil, err
		}
		sigs := [][]byte{s0, s1}
		if r.Bool() {
			sigs = [][]byte{s1, s0}
		}
		tx := types.UpgradeContractTx(mi, sigs)
		if tx == nil {
			return nil, fmt.Errorf("UpgradeContractTx returned nil")
		}
		w, err := ser.EncodeToBytes(tx)
		if err != nil {
			return nil, err
		}
		return &honest{Kind: kind, Wire: w, Sender: mi.FromAddr, Strict: true, Names: namesCut, Decode: decodeCut,
			Sigs: [][3][]int{{{1, 0, 0}, {1, 0, 1}, {1, 0, 2}}, {{1, 1, 0}, {1, 1, 1}, {1, 1, 2}}},
			Desc: fmt.Sprintf("from acct %d cosigner %d contract %x", fi, co, mi.Recipient[12:])}, nil
	case "mst":
		si := types.SignersInfo{MinSignerPower: int32(1 + r.Intn(3))}
		for i := 0; i < 2+r.Intn(3); i++ {
			si.Signers = append(si.Signers, &types.SignerEntry{Power: int32(1 + r.Intn(3)), Addr: randAddr(r, g)})
		}
		mmi := &types.MultiSignMainInfo{AccountNonce: uint64(r.Intn(4)), SupportTxType: types.SupportType(r.Intn(2)), SignersInfo: si}
		sb, err := types.GenMultiSignBytes(*mmi)
		if err != nil {
			return nil, err
		}
		var vs []types.ValidatorSign
		perm := r.Perm(len(g.Vals))
		for _, vi := range perm[:3] { // 30 of 40 voting power: exactly the minimum above 2/3
			sig, err := g.Vals[vi].Priv.Sign(sb)
			if err != nil {
				return nil, err
			}
			vs = append(vs, types.ValidatorSign{Addr: g.Vals[vi].Address(), Signature: sig.Bytes()})
		}
		tx := types.NewMultiSignAccountTx(mmi, vs)
		w, err := ser.EncodeToBytes(tx)
		if err != nil {
			return nil, err
		}
		return &honest{Kind: kind, Wire: w, Sender: types.MultiSignNonceAddr, Strict: true, Names: namesMst, Decode: decodeMst,
			Desc: fmt.Sprintf("nonce %d type %d signers %d validators %v", mmi.AccountNonce, mmi.SupportTxType, len(si.Signers), perm[:3])}, nil
	}
	return nil, fmt.Errorf("unknown kind %s", kind)
}

type mutant struct {
	Field string // stable field name (part of the violation key)
	Op    string // how it was changed (detail)
	Wire  []byte
}

func beInc(b []byte, d int64) []byte {
	x := new(big.Int).SetBytes(b)
	x.Add(x, big.NewInt(d))
	if x.Sign() < 0 {
		return nil
	}
	return x.Bytes()
}

// leafOps returns the rewritten forms of one byte-string leaf.
func leafOps(r *rng.R, b []byte) map[string][]byte {
	out := map[string][]byte{}
	if len(b) > 0 {
		f := append([]byte{}, b...)
		f[r.Intn(len(f))] ^= byte(1 << uint(r.Intn(8)))
		out["bitflip"] = f
		out["empty"] = []byte{}
		out["truncate"] = append([]byte{}, b[:len(b)-1]...)
		out["random-same-length"] = r.Bytes(len(b))
		if d := beInc(b, -1); d != nil {
			out["decrement"] = d
		}
	} else {
		out["set-one"] = []byte{1}
		out["random"] = r.Bytes(1 + r.Intn(4))
	}
	out["increment"] = beInc(b, 1)
	out["append-00"] = append(append([]byte{}, b...), 0)
	out["prepend-00"] = append([]byte{0}, b...)
	out["append-random"] = append(append([]byte{}, b...), r.Bytes(1)...)
	return out
}

func sortedKeys(m map[string][]byte) []string {
	var ks []string
	for k := range m {
		ks = append(ks, k)
	}
	sort.Strings(ks)
	return ks
}

func removeKid(parent *node, i int) {
	parent.kids = append(append([]*node{}, parent.kids[:i]...), parent.kids[i+1:]...)
}
func insertKid(parent *node, i int, k *node) {
	ks := append([]*node{}, parent.kids[:i]...)
	ks = append(ks, k)
	parent.kids = append(ks, parent.kids[i:]...)
}

// containerPath reports whether a structural edit at path p only re-arranges a list of
// signatures (cut.sigs, mst.sigs): adding, repeating or re-ordering entries of such a list
// leaves every needed signature in place and is not a change of a signed field or of a
// signature value. Deleting an entry or changing one is not a container edit.
func containerEdit(kind string, p []int, op string) bool {
	if kind != "cut" && kind != "mst" {
		return false
	}
	inSigList := (len(p) == 2 && p[0] == 1) || (len(p) == 1 && p[0] == 1)
	return inSigList && (op == "list-duplicate" || op == "list-swap-first-two" || op == "append-junk-entry")
}

// wireMutants enumerates single-field rewrites of the wire tree: every leaf with every leaf
// operation, every list with the structural operations.
func wireMutants(r *rng.R, h *honest, root *node) []mutant {
	var out []mutant
	add := func(field, op string, t *node) {
		out = append(out, mutant{Field: field, Op: op, Wire: t.encode()})
	}
	for _, p := range root.leafPaths() {
		leaf := root.at(p)
		name := h.Names(p)
		if !leaf.list {
			ops := leafOps(r, leaf.str)
			for _, op := range sortedKeys(ops) {
				t := root.clone()
				t.at(p).str = ops[op]
				add(name, op, t)
			}
			t := root.clone()
			l := t.at(p)
			l.list, l.kids, l.str = true, []*node{{str: append([]byte{}, leaf.str...)}}, nil
			add(name, "wrap-in-list", t)
		} else {
			t := root.clone()
			l := t.at(p)
			l.list, l.kids, l.str = false, nil, []byte{}
			add(name, "empty-list-to-empty-string", t)
		}
		if len(p) > 0 {
			t := root.clone()
			removeKid(t.at(p[:len(p)-1]), p[len(p)-1])
			add(name, "delete", t)
			t = root.clone()
			insertKid(t.at(p[:len(p)-1]), p[len(p)-1], root.at(p).clone())
			add(name, "duplicate", t)
		}
	}
	for _, p := range root.listPaths() {
		l := root.at(p)
		name := h.Names(p)
		if len(p) == 0 {
			name = "structure"
		}
		if len(p) > 0 && len(l.kids) > 0 {
			if !containerEdit(h.Kind, p, "list-duplicate") {
				t := root.clone()
				insertKid(t.at(p[:len(p)-1]), p[len(p)-1], l.clone())
				add(name, "list-duplicate", t)
			}
			t := root.clone()
			removeKid(t.at(p[:len(p)-1]), p[len(p)-1])
			add(name, "list-delete", t)
			t = root.clone()
			x := t.at(p)
			x.kids = nil
			add(name, "list-empty", t)
		}
		if len(l.kids) >= 2 && !containerEdit(h.Kind, p, "list-swap-first-two") {
			t := root.clone()
			x := t.at(p)
			x.kids[0], x.kids[1] = x.kids[1], x.kids[0]
			add(name, "list-swap-first-two", t)
		}
		if len(l.kids) >= 1 {
			t := root.clone()
			x := t.at(p)
			x.kids = x.kids[:len(x.kids)-1]
			add(name, "list-drop-last", t)
		}
		if !containerEdit(h.Kind, p, "append-junk-entry") {
			t := root.clone()
			x := t.at(p)
			x.kids = append(x.kids, &node{str: r.Bytes(1 + r.Intn(3))})
			add(name, "list-append-junk", t)
		}
	}
	return out
}

// multiMutants combines 2..3 leaf rewrites.
func multiMutants(r *rng.R, h *honest, root *node, n int) []mutant {
	var out []mutant
	leaves := root.leafPaths()
	for i := 0; i < n; i++ {
		t := root.clone()
		k := 2 + r.Intn(2)
		field := "multi"
		var ops []string
		for j := 0; j < k; j++ {
			p := leaves[r.Intn(len(leaves))]
			l := t.at(p)
			if l == nil || l.list {
				continue
			}
			m := leafOps(r, l.str)
			ks := sortedKeys(m)
			op := ks[r.Intn(len(ks))]
			l.str = m[op]
			ops = append(ops, h.Names(p)+":"+op)
		}
		out = append(out, mutant{Field: field, Op: fmt.Sprint(ops), Wire: t.encode()})
	}
	return out
}

func chainV(recid int64) *big.Int {
	v := new(big.Int).Mul(types.SignParam, big.NewInt(2))
	return v.Add(v, big.NewInt(35+recid))
}

type sigForm struct {
	Class   string
	R, S, V *big.Int
}

// sigForms derives hostile (r, s, v) encodings around the honest triple of this chain parameter.
func sigForms(rg *rng.R, r, s, v *big.Int) []sigForm {
	c2 := new(big.Int).Mul(types.SignParam, big.NewInt(2))
	recid := new(big.Int).Sub(v, chainV(0)).Int64()
	nS := new(big.Int).Sub(secpN, s)
	addc := func(d int64) *big.Int { return new(big.Int).Add(c2, big.NewInt(d)) }
	two := func(n uint) *big.Int { return new(big.Int).Lsh(big1, n) }
	out := []sigForm{
		{"high-s-twin", r, nS, chainV(recid ^ 1)},
		{"high-s-same-v", r, nS, v},
		{"v-flipped", r, s, chainV(recid ^ 1)},
		{"r-zero", big.NewInt(0), s, v},
		{"s-zero", r, big.NewInt(0), v},
		{"r-and-s-zero", big.NewInt(0), big.NewInt(0), v},
		{"r-eq-n", secpN, s, v},
		{"s-eq-n", r, secpN, v},
		{"r-plus-n", new(big.Int).Add(r, secpN), s, v},
		{"s-plus-n", r, new(big.Int).Add(s, secpN), v},
		{"s-eq-n-minus-1", r, new(big.Int).Sub(secpN, big1), v},
		{"s-eq-half-plus-1", r, new(big.Int).Add(secpHalf, big1), v},
		{"r-plus-2^256", new(big.Int).Add(r, two(256)), s, v},
		{"s-plus-2^256", r, new(big.Int).Add(s, two(256)), v},
	}
	for _, d := range []int64{0, 1, 2, 3, 26, 27, 28, 29, 35, 36} {
		out = append(out, sigForm{"v-small", r, s, big.NewInt(d)})
	}
	for _, d := range []int64{33, 34, 37, 38, 8 - 27, 8 - 28, 8 + 27, 8 + 28, 8, 0, 27, 28} {
		out = append(out, sigForm{"v-near-chain-value", r, s, addc(d)})
	}
	for _, dc := range []int64{-2, 2, -4, 4, 2 * 1000} { // chain parameter c-1, c+1, c-2, c+2, c+1000 with both recovery ids
		out = append(out, sigForm{"v-of-other-chain-parameter", r, s, addc(35 + recid + dc)})
		out = append(out, sigForm{"v-of-other-chain-parameter", r, s, addc(35 + (recid ^ 1) + dc)})
	}
	for _, n := range []uint{8, 16, 32, 63, 64, 65, 128, 256} {
		out = append(out, sigForm{"v-plus-2^k", r, s, new(big.Int).Add(v, two(n))})
	}
	for i := 0; i < 4; i++ {
		rr := new(big.Int).SetBytes(rg.Bytes(32))
		ss := new(big.Int).SetBytes(rg.Bytes(32))
		if i >= 2 {
			rr.Mod(rr, secpN)
			ss.Mod(ss, secpHalf)
		}
		out = append(out, sigForm{"garbage-65-bytes", rr, ss, chainV(int64(rg.Intn(2)))})
	}
	return out
}

func sigMutants(r *rng.R, h *honest, root *node) []mutant {
	var out []mutant
	for si, sp := range h.Sigs {
		lv, lr, ls := root.at(sp[0]), root.at(sp[1]), root.at(sp[2])
		if lv == nil || lr == nil || ls == nil {
			continue
		}
		v, rr, ss := new(big.Int).SetBytes(lv.str), new(big.Int).SetBytes(lr.str), new(big.Int).SetBytes(ls.str)
		for _, f := range sigForms(r, rr, ss, v) {
			t := root.clone()
			t.at(sp[0]).str = f.V.Bytes()
			t.at(sp[1]).str = f.R.Bytes()
			t.at(sp[2]).str = f.S.Bytes()
			out = append(out, mutant{Field: "signature/" + f.Class, Op: fmt.Sprintf("sig %d: r=%s s=%s v=%s", si, f.R.Text(16), f.S.Text(16), f.V.Text(10)), Wire: t.encode()})
		}
	}
	return out
}

type verdict struct {
	Decoded  bool
	Identity bool
	From     common.Address
	FromErr  string
	BasicErr string
	Panic    string
	Tx       types.Tx
}

func (v verdict) basicOK() bool { return v.Decoded && v.BasicErr == "" && v.Panic == "" }
func (v verdict) fromOK() bool  { return v.Decoded && v.FromErr == "" && v.Panic == "" }

// judge decodes wire into a fresh object (cold caches) and observes sender and CheckBasic.
func judge(n *chainkit.Node, h *honest, wire []byte) (v verdict) {
	tx, err := h.Decode(wire)
	if err != nil {
		return v
	}
	v.Decoded = true
	v.Tx = tx
	if re, err := ser.EncodeToBytes(tx); err == nil && bytes.Equal(re, h.Wire) {
		v.Identity = true
		return v
	}
	func() {
		defer func() {
			if p := recover(); p != nil {
				v.Panic = fmt.Sprint(p)
			}
		}()
		from, ferr := tx.From()
		v.From = from
		if ferr != nil {
			v.FromErr = ferr.Error()
		}
		if berr := n.App.CheckTx(tx, true); berr != nil {
			v.BasicErr = berr.Error()
		}
	}()
	return v
}

func hexShort(b []byte) string {
	if len(b) > 600 {
		return fmt.Sprintf("%x...(%d bytes)", b[:600], len(b))
	}
	return fmt.Sprintf("%x", b)
}

// runAcct is the account lane: honest transactions of every account-based kind, every
// single-field wire rewrite, hostile signature encodings, multi-field rewrites, and
// signatures made for another (or no) chain parameter.
func runAcct(c *core.Ctx, e *env) {
	r := c.Rng
	n, err := e.newNode(true)
	if err != nil {
		c.Inconclusive("node: " + err.Error())
		return
	}
	defer n.Close()
	kinds := []string{"tx-transfer", "tx-create", "txt", "cut", "mst"}
	var fps []byte
	total := 0
	for _, kind := range kinds {
		reps := 1
		if c.Tier == "thorough" {
			reps = 2
		}
		for rep := 0; rep < reps; rep++ {
			h, err := genHonest(e, r, kind)
			if err != nil {
				c.Inconclusive("generator " + kind + ": " + err.Error())
				return
			}
			root, err := parseTree(h.Wire)
			if err != nil || !bytes.Equal(root.encode(), h.Wire) {
				viol(c, "harness/wire-tree-roundtrip", fmt.Sprintf("kind %s: tree re-encoding differs (%v)", kind, err), hexShort(h.Wire))
				return
			}
			fresh, err := h.Decode(h.Wire)
			if err != nil {
				c.Inconclusive("honest " + kind + " does not decode: " + err.Error())
				return
			}
			from, ferr := fresh.From()
			if ferr != nil || from != h.Sender {
				viol(c, "honest/"+kind+"/sender-differs-from-signer", fmt.Sprintf("fresh recovery gives %x (%v), the generator signed with %x", from, ferr, h.Sender), hexShort(h.Wire))
				continue
			}
			if berr := n.App.CheckTx(fresh, true); berr != nil {
				c.Inconclusive(fmt.Sprintf("honest %s (%s) rejected by CheckBasic: %v", kind, h.Desc, berr))
				return
			}
			c.Count("acct_honest_accepted", 1)
			c.Count("acct_honest_"+kind, 1)
			fps = append(fps, fresh.Hash().Bytes()...)

			muts := wireMutants(r, h, root)
			muts = append(muts, sigMutants(r, h, root)...)
			nm := 12
			if c.Tier == "thorough" {
				nm = 60
			}
			muts = append(muts, multiMutants(r, h, root, nm)...)
			for _, m := range muts {
				v := judge(n, h, m.Wire)
				total++
				c.Count("acct_mutants", 1)
				switch {
				case !v.Decoded:
					c.Count("acct_rejected_at_decode", 1)
					continue
				case v.Identity:
					c.Count("acct_identity_mutants", 1)
					continue
				case v.Panic != "":
					c.Count("acct_mutant_panics", 1)
					c.Sample(map[string]string{"panic_on_mutant": v.Panic, "kind": kind, "field": m.Field, "op": m.Op, "wire": hexShort(m.Wire)})
					continue
				}
				c.Count("acct_evaluated_"+kind, 1)
				if len(m.Field) > 10 && m.Field[:10] == "signature/" {
					c.Count("acct_signature_forms", 1)
				}
				refuted := false
				if h.Strict {
					refuted = v.basicOK()
				} else {
					refuted = v.basicOK() && v.fromOK() && v.From == h.Sender
				}
				switch {
				case refuted:
					viol(c, "acct/"+kind+"/"+m.Field, fmt.Sprintf("mutant (%s) of a transaction authorised by %x is accepted by CheckBasic and charges the same account", m.Op, h.Sender),
						map[string]string{"kind": kind, "honest": h.Desc, "honest_wire": hexShort(h.Wire), "mutant_wire": hexShort(m.Wire), "field": m.Field, "op": m.Op, "mutant_sender": fmt.Sprintf("%x", v.From)})
				case !v.fromOK():
					c.Count("acct_sender_unrecoverable", 1)
				case v.From != h.Sender:
					c.Count("acct_other_sender", 1)
					if v.basicOK() {
						c.Count("acct_other_sender_basic_ok", 1)
					}
				default:
					c.Count("acct_same_sender_rejected_by_basic", 1)
				}
			}
			if h.Key != nil {
				runForeignChain(c, n, h)
			}
			if kind == "cut" {
				cutWithoutSenderSignature(c, e, n)
			}
		}
	}
	if total >= 50 {
		c.Nontrivial(fmt.Sprintf("acct-%x", crypto.Keccak256(fps)[:8]))
	}
	if c.Index%40 == 0 {
		c.Sample(map[string]interface{}{"lane": "account", "kinds": kinds, "mutants": total})
	}
}

// cutWithoutSenderSignature: a contract upgrade names the account it charges (FromAddr) inside
// the signed main info; enough registered signers sign, but not the named account itself.
func cutWithoutSenderSignature(c *core.Ctx, e *env, n *chainkit.Node) {
	r := c.Rng
	g := e.g
	inner := sortedInnerContracts()
	perm := r.Perm(3)
	victim := g.Accounts[perm[2]].Addr // a registered signer that does not sign
	if r.Bool() {
		victim = g.Accounts[3+r.Intn(len(g.Accounts)-3)].Addr // or an unrelated account
	}
	mi := &types.ContractUpgradeMainInfo{FromAddr: victim, Recipient: inner[r.Intn(len(inner))], AccountNonce: uint64(r.Intn(4)),
		Payload: append([]byte{0x00, 0x61, 0x73, 0x6d}, r.Bytes(4+r.Intn(20))...)}
	s0, err0 := types.SignContractUpgradeTx(g.Accounts[perm[0]].Key, mi)
	s1, err1 := types.SignContractUpgradeTx(g.Accounts[perm[1]].Key, mi)
	if err0 != nil || err1 != nil {
		return
	}
	tx := types.UpgradeContractTx(mi, [][]byte{s0, s1})
	if tx == nil {
		return
	}
	w, err := ser.EncodeToBytes(tx)
	if err != nil {
		return
	}
	fresh, err := decodeCut(w)
	if err != nil {
		return
	}
	c.Count("acct_cut_without_sender_signature", 1)
	if err := n.App.CheckTx(fresh, true); err == nil {
		viol(c, "acct/cut/charged-account-did-not-sign", fmt.Sprintf("contract upgrade charging %x accepted with signatures of signers %d and %d only", victim, perm[0], perm[1]), map[string]string{"wire": hexShort(w)})
	}
}

// chainForm is one way the key holder's signature over the same fields can have been made
// for something else than this chain: the list the hash covers ends in Suffix, and v is
// written in VForm.
type chainForm struct {
	Suffix, VForm string
	Hash          []byte
	V             func(recid int64) *big.Int
}

func (f chainForm) self() bool { return f.Suffix == "this-chain" && f.VForm == "this-chain-v" }

// class is the stable name of the form in violation keys.
func (f chainForm) class() string {
	if f.Suffix == "none" && f.VForm == "unprotected-v" {
		return "unprotected-v27-28"
	}
	return "hash-suffix-" + f.Suffix + "+" + f.VForm
}

func eipV(p *big.Int) func(int64) *big.Int {
	return func(recid int64) *big.Int {
		v := new(big.Int).Mul(p, big.NewInt(2))
		return v.Add(v, big.NewInt(35+recid))
	}
}

// chainForms enumerates hash suffixes x v encodings. Exactly one combination is a signature
// for this chain (suffix [c,0,0], v = 35+2c+id): it serves as the self check of the harness'
// reconstruction of the signing hash.
func chainForms(r *rng.R, fields []interface{}) []chainForm {
	c0 := types.SignParam
	others := []*big.Int{new(big.Int).Add(c0, big1), new(big.Int).Sub(c0, big1), big.NewInt(1), big.NewInt(types.TestNetSignParam), new(big.Int).SetBytes(r.Bytes(1 + r.Intn(9)))}
	other := others[r.Intn(len(others))]
	hashOf := func(suffix ...interface{}) []byte {
		b, err := ser.EncodeToBytes(append(append([]interface{}{}, fields...), suffix...))
		if err != nil {
			return nil
		}
		return crypto.Keccak256(b)
	}
	suffixes := []struct {
		name string
		hash []byte
	}{
		{"this-chain", hashOf(c0, uint(0), uint(0))},
		{"other-chain", hashOf(other, uint(0), uint(0))},
		{"none", hashOf()},
		{"zeros-only", hashOf(uint(0), uint(0))},
		{"zero-parameter", hashOf(uint(0), uint(0), uint(0))},
		{"parameter-only", hashOf(c0)},
	}
	vforms := []struct {
		name string
		v    func(int64) *big.Int
	}{
		{"this-chain-v", chainV},
		{"other-chain-v", eipV(other)},
		{"unprotected-v", func(id int64) *big.Int { return big.NewInt(27 + id) }},
	}
	var out []chainForm
	for _, su := range suffixes {
		for _, vf := range vforms {
			if su.hash != nil {
				out = append(out, chainForm{su.name, vf.name, su.hash, vf.v})
			}
		}
	}
	return out
}

// runForeignChain presents the same fields signed by the same key holder for another chain
// parameter, or for none at all (unprotected v = 27/28): this chain must not charge the signer.
func runForeignChain(c *core.Ctx, n *chainkit.Node, h *honest) {
	orig, err := h.Decode(h.Wire)
	if err != nil {
		return
	}
	root, _ := parseTree(h.Wire)
	for _, va := range chainForms(c.Rng, h.SignFields(orig)) {
		sig, err := crypto.Sign(va.Hash, h.Key)
		if err != nil {
			continue
		}
		t := root.clone()
		sp := h.Sigs[0]
		t.at(sp[0]).str = va.V(int64(sig[64])).Bytes()
		t.at(sp[1]).str = new(big.Int).SetBytes(sig[:32]).Bytes()
		t.at(sp[2]).str = new(big.Int).SetBytes(sig[32:64]).Bytes()
		wire := t.encode()
		tx, err := h.Decode(wire)
		if err != nil {
			c.Count("foreign_rejected_at_decode", 1)
			continue
		}
		var from common.Address
		var ferr, berr error
		func() {
			defer func() {
				if p := recover(); p != nil {
					ferr = fmt.Errorf("panic: %v", p)
				}
			}()
			from, ferr = tx.From()
			berr = n.App.CheckTx(tx, true)
		}()
		if va.self() {
			if ferr != nil || from != h.Sender || berr != nil {
				c.Inconclusive(fmt.Sprintf("harness signing hash for %s does not reproduce a valid signature (%v %v)", h.Kind, ferr, berr))
			} else {
				c.Count("foreign_self_check_ok", 1)
			}
			continue
		}
		c.Count("foreign_chain_forms", 1)
		// the malleable twin (r, N-s, v^1) of the same form: whatever this chain thinks of the form itself,
		// the high-s encoding of it must never be accepted for the signer
		{
			secpN, _ := new(big.Int).SetString("fffffffffffffffffffffffffffffffebaaedce6af48a03bbfd25e8cd0364141", 16)
			t2 := root.clone()
			t2.at(sp[0]).str = va.V(int64(sig[64] ^ 1)).Bytes()
			t2.at(sp[1]).str = new(big.Int).SetBytes(sig[:32]).Bytes()
			t2.at(sp[2]).str = new(big.Int).Sub(secpN, new(big.Int).SetBytes(sig[32:64])).Bytes()
			if tx2, err := h.Decode(t2.encode()); err == nil {
				var from2 common.Address
				var f2, b2 error
				func() {
					defer func() {
						if p := recover(); p != nil {
							f2 = fmt.Errorf("panic: %v", p)
						}
					}()
					from2, f2 = tx2.From()
					b2 = n.App.CheckTx(tx2, true)
				}()
				c.Count("foreign_chain_high_s_twins", 1)
				if f2 == nil && from2 == h.Sender && b2 == nil {
					viol(c, "chain-param/"+va.class()+"/high-s-twin", fmt.Sprintf("%s: the high-s twin (r, N-s, v^1) of a signature made with hash suffix '%s' and %s is accepted by CheckBasic and charges the signer %x", h.Kind, va.Suffix, va.VForm, h.Sender),
						map[string]string{"kind": h.Kind, "honest": h.Desc, "wire": hexShort(t2.encode())})
				}
			}
		}
		if ferr == nil && from == h.Sender && berr == nil {
			viol(c, "chain-param/"+va.class(), fmt.Sprintf("%s: a signature the key holder %x made over these fields with hash suffix '%s' and %s is accepted by CheckBasic on this chain (parameter %s) and charges the signer", h.Kind, h.Sender, va.Suffix, va.VForm, types.SignParam),
				map[string]string{"kind": h.Kind, "honest": h.Desc, "wire": hexShort(wire), "v": new(big.Int).SetBytes(t.at(sp[0]).str).String()})
		} else {
			c.Count("foreign_chain_rejected_or_other_sender", 1)
		}
	}
}
