package c08

import (
	"bytes"
	"fmt"
	"math/big"

	"github.com/lianxiangcloud/linkchain/libs/common"
	"github.com/lianxiangcloud/linkchain/libs/crypto"
	"github.com/lianxiangcloud/linkchain/types"

	"verif/h/internal/rng"
)

// ---------------------------------------------------------------- pure-Go secp256k1 reference
//
// An implementation of public-key recovery that shares nothing with the code under test
// (libsecp256k1 through cgo, the repository's curve wrapper): math/big and textbook Jacobian
// formulas only. It is the oracle of the signature lane.

var (
	secpP, _  = new(big.Int).SetString("fffffffffffffffffffffffffffffffffffffffffffffffffffffffefffffc2f", 16)
	secpN, _  = new(big.Int).SetString("fffffffffffffffffffffffffffffffebaaedce6af48a03bbfd25e8cd0364141", 16)
	secpGx, _ = new(big.Int).SetString("79be667ef9dcbbac55a06295ce870b07029bfcdb2dce28d959f2815b16f81798", 16)
	secpGy, _ = new(big.Int).SetString("483ada7726a3c4655da4fbfc0e1108a8fd17b448a68554199c47d08ffb10d4b8", 16)
	secpHalf  = new(big.Int).Rsh(secpN, 1)
	secpSqrtE = new(big.Int).Rsh(new(big.Int).Add(secpP, big.NewInt(1)), 2)
	big0      = big.NewInt(0)
	big1      = big.NewInt(1)
	big7      = big.NewInt(7)
)

type jpt struct{ x, y, z *big.Int } // z == 0: point at infinity

func jinf() jpt         { return jpt{big.NewInt(0), big.NewInt(1), big.NewInt(0)} }
func (p jpt) inf() bool { return p.z.Sign() == 0 }

func fmul(a, b *big.Int) *big.Int { r := new(big.Int).Mul(a, b); return r.Mod(r, secpP) }
func fsub(a, b *big.Int) *big.Int { r := new(big.Int).Sub(a, b); return r.Mod(r, secpP) }
func fadd(a, b *big.Int) *big.Int { r := new(big.Int).Add(a, b); return r.Mod(r, secpP) }
func fmuli(a *big.Int, k int64) *big.Int {
	r := new(big.Int).Mul(a, big.NewInt(k))
	return r.Mod(r, secpP)
}

func jdouble(p jpt) jpt {
	if p.inf() || p.y.Sign() == 0 {
		return jinf()
	}
	a := fmul(p.x, p.x)
	b := fmul(p.y, p.y)
	c := fmul(b, b)
	t := fadd(p.x, b)
	d := fmuli(fsub(fsub(fmul(t, t), a), c), 2)
	e := fmuli(a, 3)
	f := fmul(e, e)
	x3 := fsub(f, fmuli(d, 2))
	y3 := fsub(fmul(e, fsub(d, x3)), fmuli(c, 8))
	z3 := fmuli(fmul(p.y, p.z), 2)
	return jpt{x3, y3, z3}
}

func jadd(p, q jpt) jpt {
	if p.inf() {
		return q
	}
	if q.inf() {
		return p
	}
	z1z1 := fmul(p.z, p.z)
	z2z2 := fmul(q.z, q.z)
	u1 := fmul(p.x, z2z2)
	u2 := fmul(q.x, z1z1)
	s1 := fmul(fmul(p.y, q.z), z2z2)
	s2 := fmul(fmul(q.y, p.z), z1z1)
	if u1.Cmp(u2) == 0 {
		if s1.Cmp(s2) == 0 {
			return jdouble(p)
		}
		return jinf()
	}
	h := fsub(u2, u1)
	i := fmul(fmuli(h, 2), fmuli(h, 2))
	j := fmul(h, i)
	r := fmuli(fsub(s2, s1), 2)
	v := fmul(u1, i)
	x3 := fsub(fsub(fmul(r, r), j), fmuli(v, 2))
	y3 := fsub(fmul(r, fsub(v, x3)), fmuli(fmul(s1, j), 2))
	zs := fadd(p.z, q.z)
	z3 := fmul(fsub(fsub(fmul(zs, zs), z1z1), z2z2), h)
	return jpt{x3, y3, z3}
}

// jmul2 returns a*P + b*Q (interleaved double-and-add).
func jmul2(a *big.Int, p jpt, b *big.Int, q jpt) jpt {
	pq := jadd(p, q)
	acc := jinf()
	n := a.BitLen()
	if b.BitLen() > n {
		n = b.BitLen()
	}
	for i := n - 1; i >= 0; i-- {
		acc = jdouble(acc)
		ba, bb := a.Bit(i), b.Bit(i)
		switch {
		case ba == 1 && bb == 1:
			acc = jadd(acc, pq)
		case ba == 1:
			acc = jadd(acc, p)
		case bb == 1:
			acc = jadd(acc, q)
		}
	}
	return acc
}

func (p jpt) affine() (x, y *big.Int) {
	zi := new(big.Int).ModInverse(p.z, secpP)
	zi2 := fmul(zi, zi)
	return fmul(p.x, zi2), fmul(p.y, fmul(zi2, zi))
}

func pad32(x *big.Int) []byte {
	b := x.Bytes()
	if len(b) >= 32 {
		return b[len(b)-32:]
	}
	return append(make([]byte, 32-len(b)), b...)
}

// refPubOfKey returns the uncompressed public key of secret d (1 <= d < n).
func refPubOfKey(d *big.Int) []byte {
	q := jmul2(d, jpt{secpGx, secpGy, big.NewInt(1)}, big0, jinf())
	x, y := q.affine()
	return append(append([]byte{4}, pad32(x)...), pad32(y)...)
}

// refRecover is the specification of ECDSA public key recovery (SEC 1, 4.1.6) with the range
// rules libsecp256k1 documents: 1 <= r,s < n, recid in 0..3, r + (recid>>1)*n < p, R on the
// curve, Q != infinity. ok=false means "no public key".
func refRecover(hash []byte, r, s *big.Int, recid int) (pub []byte, ok bool) {
	if len(hash) != 32 || recid < 0 || recid > 3 {
		return nil, false
	}
	if r.Sign() <= 0 || s.Sign() <= 0 || r.Cmp(secpN) >= 0 || s.Cmp(secpN) >= 0 {
		return nil, false
	}
	x := new(big.Int).Set(r)
	if recid&2 != 0 {
		x.Add(x, secpN)
	}
	if x.Cmp(secpP) >= 0 {
		return nil, false
	}
	y2 := fadd(fmul(fmul(x, x), x), big7)
	y := new(big.Int).Exp(y2, secpSqrtE, secpP)
	if fmul(y, y).Cmp(y2) != 0 {
		return nil, false
	}
	if int(y.Bit(0)) != recid&1 {
		y.Sub(secpP, y)
	}
	e := new(big.Int).SetBytes(hash)
	e.Mod(e, secpN)
	rinv := new(big.Int).ModInverse(r, secpN)
	u1 := new(big.Int).Mul(e, rinv)
	u1.Neg(u1)
	u1.Mod(u1, secpN)
	u2 := new(big.Int).Mul(s, rinv)
	u2.Mod(u2, secpN)
	q := jmul2(u1, jpt{secpGx, secpGy, big.NewInt(1)}, u2, jpt{x, y, big.NewInt(1)})
	if q.inf() {
		return nil, false
	}
	qx, qy := q.affine()
	return append(append([]byte{4}, pad32(qx)...), pad32(qy)...), true
}

func refAddress(pub []byte) common.Address {
	var a common.Address
	copy(a[:], crypto.Keccak256(pub[1:])[12:])
	return a
}

// specAcceptable is the rule the property states for transaction signatures:
// r, s in [1, n-1], s not in the upper half (malleable twin), recovery id 0 or 1.
func specAcceptable(r, s *big.Int, recid int) bool {
	return r.Sign() > 0 && s.Sign() > 0 && r.Cmp(secpN) < 0 && s.Cmp(secpHalf) <= 0 && (recid == 0 || recid == 1)
}

// ---------------------------------------------------------------- the lane

// SigReport receives a violation of the signature lane.
type SigReport func(key, detail string, witness interface{})

type sigVariant struct {
	Class string
	R, S  *big.Int
	V     int // recovery id byte as put on the wire of the library (sig[64])
}

func sig65(r, s *big.Int, v int) []byte {
	out := make([]byte, 65)
	copy(out[0:32], pad32(r))
	copy(out[32:64], pad32(s))
	out[64] = byte(v)
	return out
}

func fits32(x *big.Int) bool { return x.Sign() >= 0 && x.BitLen() <= 256 }

// hostileVariants derives signature encodings around an honest (r, s, v).
func hostileVariants(rg *rng.R, r, s *big.Int, v int) []sigVariant {
	nS := new(big.Int).Sub(secpN, s)
	out := []sigVariant{
		{"honest", r, s, v},
		{"high-s-twin", r, nS, v ^ 1},
		{"high-s-same-v", r, nS, v},
		{"v-flipped", r, s, v ^ 1},
		{"r-zero", big.NewInt(0), s, v},
		{"s-zero", r, big.NewInt(0), v},
		{"r-eq-n", new(big.Int).Set(secpN), s, v},
		{"s-eq-n", r, new(big.Int).Set(secpN), v},
		{"s-eq-n-1", r, new(big.Int).Sub(secpN, big1), v},
		{"s-eq-half+1", r, new(big.Int).Add(secpHalf, big1), v},
		{"s-eq-half", r, new(big.Int).Set(secpHalf), v},
		{"r-one", big.NewInt(1), s, v},
		{"v-2", r, s, 2 + (v & 1)},
		{"v-ge-4", r, s, 4 + rg.Intn(252)},
		{"v-27", r, s, 27 + v},
	}
	if x := new(big.Int).Add(r, secpN); fits32(x) {
		out = append(out, sigVariant{"r-plus-n", x, s, v})
	}
	if x := new(big.Int).Add(s, secpN); fits32(x) {
		out = append(out, sigVariant{"s-plus-n", r, x, v})
	}
	rr := new(big.Int).SetBytes(rg.Bytes(32))
	ss := new(big.Int).SetBytes(rg.Bytes(32))
	out = append(out, sigVariant{"garbage", rr, ss, rg.Intn(2)})
	ss2 := new(big.Int).Mod(ss, secpHalf)
	ss2.Add(ss2, big1)
	out = append(out, sigVariant{"garbage-in-range", new(big.Int).Mod(rr, secpN), ss2, rg.Intn(2)})
	out = append(out, sigVariant{"r-bitflip", new(big.Int).Xor(r, new(big.Int).Lsh(big1, uint(rg.Intn(256)))), s, v})
	out = append(out, sigVariant{"s-bitflip", r, new(big.Int).Xor(s, new(big.Int).Lsh(big1, uint(rg.Intn(256)))), v})
	out = append(out, sigVariant{"all-ff", new(big.Int).Sub(new(big.Int).Lsh(big1, 256), big1), new(big.Int).Sub(new(big.Int).Lsh(big1, 256), big1), v})
	return out
}

// SigLane runs iters rounds of: honest key + message + signature from the library, a set of
// hostile encodings around it, and for each encoding three observations compared with the
// pure-Go reference:
//
//	(1) crypto.Ecrecover (libsecp256k1 via cgo) returns the reference public key or fails exactly
//	    when the reference says there is none;
//	(2) crypto.VerifySignature(pub, hash, r||s) is true iff pub is recoverable from (r, s) and s is low;
//	(3) a Transaction carrying (r, s, v) for this chain parameter yields From() == reference
//	    address iff the encoding is acceptable by the stated rule (range, low s, v in {0,1}),
//	    and an error otherwise; crypto.ValidateSignatureValues agrees with the rule.
//
// It is a separable function so that it can also be run alone under a sanitizer build.
func SigLane(rg *rng.R, iters int, report SigReport) map[string]int64 {
	cnt := map[string]int64{}
	for it := 0; it < iters; it++ {
		var d *big.Int
		for {
			d = new(big.Int).SetBytes(rg.Bytes(32))
			if d.Sign() > 0 && d.Cmp(secpN) < 0 {
				break
			}
		}
		key, err := crypto.ToECDSA(pad32(d))
		if err != nil {
			report("siglane/ToECDSA-rejects-valid-scalar", err.Error(), fmt.Sprintf("%x", pad32(d)))
			continue
		}
		refPub := refPubOfKey(d)
		libPub := crypto.FromECDSAPub(&key.PublicKey)
		if !bytes.Equal(refPub, libPub) {
			report("siglane/pubkey-derivation-differs", "library public key != reference", map[string]string{"d": fmt.Sprintf("%x", pad32(d)), "lib": fmt.Sprintf("%x", libPub), "ref": fmt.Sprintf("%x", refPub)})
			continue
		}
		hash := rg.Bytes(32)
		if rg.Chance(0.05) {
			hash = make([]byte, 32) // zero message
		} else if rg.Chance(0.05) {
			for i := range hash {
				hash[i] = 0xff // e >= n
			}
		}
		sig, err := crypto.Sign(hash, key)
		if err != nil || len(sig) != 65 {
			report("siglane/sign-failed", fmt.Sprintf("%v len=%d", err, len(sig)), nil)
			continue
		}
		r := new(big.Int).SetBytes(sig[:32])
		s := new(big.Int).SetBytes(sig[32:64])
		v := int(sig[64])
		cnt["sig_signed"]++
		if s.Cmp(secpHalf) > 0 {
			report("siglane/library-signs-high-s", "crypto.Sign produced s > n/2", fmt.Sprintf("%x", sig))
		}
		tx := types.NewTransaction(uint64(it), common.BytesToAddress(hash[:20]), big.NewInt(int64(rg.Intn(1000))), 0, nil, hash[:rg.Intn(8)])
		txHash := tx.SignHash().Bytes()
		txSig, err := crypto.Sign(txHash, key)
		if err != nil {
			report("siglane/sign-failed", err.Error(), nil)
			continue
		}
		tr := new(big.Int).SetBytes(txSig[:32])
		ts := new(big.Int).SetBytes(txSig[32:64])
		tv := int(txSig[64])

		type memoRes struct {
			pub []byte
			ok  bool
		}
		memo := map[string]memoRes{}
		recoverMemo := func(rr, ss *big.Int, id int) ([]byte, bool) {
			k := rr.Text(16) + "/" + ss.Text(16) + "/" + fmt.Sprint(id)
			if m, ok := memo[k]; ok {
				return m.pub, m.ok
			}
			p, ok := refRecover(hash, rr, ss, id)
			memo[k] = memoRes{p, ok}
			return p, ok
		}
		for _, hv := range hostileVariants(rg, r, s, v) {
			w := map[string]string{"class": hv.Class, "hash": fmt.Sprintf("%x", hash), "r": hv.R.Text(16), "s": hv.S.Text(16), "v": fmt.Sprint(hv.V)}
			// (1) recovery
			wantPub, wantOK := recoverMemo(hv.R, hv.S, hv.V)
			gotPub, gerr := crypto.Ecrecover(hash, sig65(hv.R, hv.S, hv.V))
			cnt["sig_recover_calls"]++
			switch {
			case wantOK && gerr != nil:
				report("siglane/recover-fails-on-valid-encoding", fmt.Sprintf("class %s: library error %v, reference recovers a key", hv.Class, gerr), w)
			case !wantOK && gerr == nil:
				report("siglane/recover-accepts-invalid-encoding", fmt.Sprintf("class %s: library returned a key, reference says there is none", hv.Class), w)
			case wantOK && !bytes.Equal(wantPub, gotPub):
				report("siglane/recover-wrong-key", fmt.Sprintf("class %s: library key != reference key", hv.Class), w)
			}
			if wantOK {
				cnt["sig_recover_valid"]++
			} else {
				cnt["sig_recover_invalid"]++
			}
			// (2) verification against the honest public key
			if fits32(hv.R) && fits32(hv.S) {
				expect := false
				if hv.S.Cmp(secpHalf) <= 0 {
					for id := 0; id < 4 && !expect; id++ {
						if p, ok := recoverMemo(hv.R, hv.S, id); ok && bytes.Equal(p, refPub) {
							expect = true
						}
					}
				}
				got := crypto.VerifySignature(libPub, hash, sig65(hv.R, hv.S, 0)[:64])
				cnt["sig_verify_calls"]++
				if got != expect {
					report("siglane/verify-disagrees", fmt.Sprintf("class %s: VerifySignature=%v reference=%v", hv.Class, got, expect), w)
				}
			}
		}
		// (3) transaction level, with the signature made over the transaction's signing hash
		for _, hv := range hostileVariants(rg, tr, ts, tv) {
			w := map[string]string{"class": hv.Class, "sighash": fmt.Sprintf("%x", txHash), "r": hv.R.Text(16), "s": hv.S.Text(16), "v": fmt.Sprint(hv.V)}
			acceptable := specAcceptable(hv.R, hv.S, hv.V)
			if hv.V <= 1 && fits32(hv.R) && fits32(hv.S) {
				if got := crypto.ValidateSignatureValues(byte(hv.V), hv.R, hv.S, true); got != acceptable {
					report("siglane/ValidateSignatureValues-disagrees", fmt.Sprintf("class %s: got %v, rule says %v", hv.Class, got, acceptable), w)
				}
				cnt["sig_validate_calls"]++
			}
			if hv.V > 1 || !fits32(hv.R) || !fits32(hv.S) {
				continue // WithSignature takes the recovery id as a byte 0/1 and 32-byte scalars; wider forms are produced on the wire by the account lane
			}
			stx, err := tx.WithSignature(types.GlobalSTDSigner, sig65(hv.R, hv.S, hv.V))
			if err != nil {
				continue
			}
			from, ferr := stx.From()
			cnt["sig_tx_from_calls"]++
			if !acceptable {
				if ferr == nil {
					report("siglane/tx-accepts-unacceptable-signature", fmt.Sprintf("class %s: From() = %x without error", hv.Class, from), w)
				} else {
					cnt["sig_tx_rejected"]++
				}
				continue
			}
			wantPub, wantOK := refRecover(txHash, hv.R, hv.S, hv.V)
			switch {
			case wantOK && ferr != nil:
				report("siglane/tx-rejects-acceptable-signature", fmt.Sprintf("class %s: %v", hv.Class, ferr), w)
			case !wantOK && ferr == nil:
				report("siglane/tx-sender-from-unrecoverable-signature", fmt.Sprintf("class %s: From() = %x", hv.Class, from), w)
			case wantOK && from != refAddress(wantPub):
				report("siglane/tx-wrong-sender", fmt.Sprintf("class %s: From() = %x, reference %x", hv.Class, from, refAddress(wantPub)), w)
			case wantOK:
				cnt["sig_tx_sender_matches_reference"]++
				if hv.Class != "honest" && from == refAddress(refPub) {
					report("siglane/tx-second-encoding-same-sender", fmt.Sprintf("class %s recovers the honest signer", hv.Class), w)
				}
			}
		}
	}
	return cnt
}
