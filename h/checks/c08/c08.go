// Package c08: only the key holder can move funds; signatures bind every transaction field
// (DESIGN.md §5 C08).
package c08

import (
	"fmt"
	"sync"

	cfg "github.com/lianxiangcloud/linkchain/config"
	"github.com/lianxiangcloud/linkchain/libs/common"
	"github.com/lianxiangcloud/linkchain/libs/log"
	"github.com/lianxiangcloud/linkchain/libs/ser"
	"github.com/lianxiangcloud/linkchain/types"

	"verif/h/internal/chainkit"
	"verif/h/internal/core"
	"verif/shim/goshim"
)

var tokenAddr = common.HexToAddress("0x00000000000000000000000000000000c08c0801")

const lanes = 4

func init() {
	core.Register(&core.Check{
		ID:        "C08",
		Also:      []string{"C08A"}, // the signature lane + wrapper shape sweep under AddressSanitizer (asanlane.go)
		Level:     "exploration",
		Technique: "mutation of honestly signed transactions on the wire against a real application (CheckBasic, block processing), with the generator's knowledge of the signing key as oracle; differential secp256k1 recovery against a pure-Go reference; ownership scan of generated confidential outputs with owner and non-owner wallets",
		Rule: "case index mod 4 selects the lane. account: honest tx/txt/cut/mst, every single-field wire rewrite + hostile (r,s,v) forms + multi-field rewrites + signatures made for another or no chain parameter; oracle: no non-identity mutant is accepted by CheckBasic while charging the signer. " +
			"confidential: chain with generated confidential outputs; every wallet scans every output (only the destination recognises, decodes, derives the key image); spends (account->confidential, ring size 1 with 1 and 2 inputs, ring size > 1, confidential->account) with every typed single-field change, hostile account signatures, re-balanced pseudo-outs, a spend forged with non-owner keys; oracle: rejected by CheckBasic or by block processing, or identity, or a wire field no consumer reads. " +
			"cache: sender caches (object level after re-signing; mempool cache hit during block verification with warm and cold pools); oracle: attributed sender == fresh recovery on re-decoded bytes, only the fresh sender is charged. " +
			"signature: library recovery / verification / transaction sender versus the reference over hostile encodings. " +
			"non-trivial = the lane's honest originals were all accepted and >= 50 (account), >= 100 (confidential) mutants or >= 200 recover calls or >= 4 block verdicts were evaluated; distinct by hash of the originals",
		Assumptions: []string{
			"libxcrypto is the /verif stand-in: its range proof is a transparent placeholder, so acceptance of a changed bulletproof field would not be meaningful and rejection is by checksum; which RingCT fields enter the pre-MLSAG hash follows Monero (message, type, fee, ecdhInfo, outPk masks, bulletproof fields)",
			"only LKC confidential transfers (no token contract answers the rate query), hence no transaction kind that carries both ring signatures and a needed account signature",
			"keccak and the ser codec are trusted as black boxes",
		},
		Cases: func(tier string) int {
			if tier == "thorough" {
				return 3200
			}
			return 160
		},
		// one warm replica per cache-lane case keeps ~50 MB for the life of the process (see newNodeOpt)
		Batch: func(tier string) int {
			if tier == "thorough" {
				return 20
			}
			return 0
		},
		Run: run,
		Floors: func(tier string) map[string]int64 {
			return floors(tier)
		},
		Init: core.QuietLogs,
	})
}

type env struct {
	g       *chainkit.Genesis
	signers *types.SignersInfo
}

var (
	envOnce sync.Once
	theEnv  *env
	envErr  error
)

func getEnv() (*env, error) {
	envOnce.Do(func() {
		g, err := chainkit.BuildGenesis(chainkit.GenesisOpts{Seed: 0xC08, NumAccounts: 8, Powers: []int64{10, 10, 10, 10}, Tokens: []common.Address{tokenAddr}})
		if err != nil {
			envErr = err
			return
		}
		e := &env{g: g}
		e.signers = &types.SignersInfo{MinSignerPower: 2}
		for i := 0; i < 3; i++ {
			e.signers.Signers = append(e.signers.Signers, &types.SignerEntry{Power: 1, Addr: g.Accounts[i].Addr})
		}
		theEnv = e
	})
	return theEnv, envErr
}

// newNode opens a node on fresh copies of the genesis databases. With signers, the
// contract-upgrade signer set is present in the transaction manager's store the way a
// committed MultiSignAccountTx leaves it (txmgr.saveMultiSignersInfo).
func (e *env) newNode(withSigners bool) (*chainkit.Node, error) {
	return e.newNodeOpt(withSigners, false)
}

// newNodeOpt: only a node whose pool cache is observed (the warm replica of the cache lane)
// gets the real transaction cache. mempool.NewMempool allocates four 100000-entry heaps for it
// and starts a goroutine per heap that never ends, i.e. ~50 MB per pool that the process
// never gets back; the other nodes of this check never consult the cache (their pools are
// empty when they verify blocks), so they run with the repository's no-op cache (CacheSize 0).
func (e *env) newNodeOpt(withSigners, poolCache bool) (*chainkit.Node, error) {
	dbs := e.g.CloneDBs()
	if withSigners {
		b, err := ser.EncodeToBytes(e.signers)
		if err != nil {
			return nil, err
		}
		dbs["txmgr"].Set([]byte(types.DBcontractCreateKey), b)
	}
	mc := cfg.DefaultMempoolConfig()
	mc.Broadcast = false
	if !poolCache {
		mc.CacheSize = 0
	}
	n, err := chainkit.OpenNode(e.g, dbs, chainkit.NodeOpts{MemCfg: mc})
	if err != nil {
		return nil, err
	}
	// node.NewNode gives the confidential output store a logger; chainkit does not, and the store's
	// error paths (e.g. a ring member index that does not exist) would dereference the nil logger
	n.UtxoStore.SetLogger(log.NewNopLogger())
	// consensus hands the validator set to the application at start-up (consensus/state.go updateToStatus)
	n.App.SetLastChangedVals(n.Status.LastHeightValidatorsChanged, n.Status.Validators.Copy().Validators)
	return n, nil
}

// viol reports the first violation of a key per case and counts the repeats: the same
// unbound field shows up once per operation and per index, and the runner keeps at most 20
// violations per case, so repeats of one class must not crowd out another class.
var reported = map[*core.Ctx]map[string]int{}

func viol(c *core.Ctx, key, detail string, w interface{}) {
	m := reported[c]
	if m == nil {
		m = map[string]int{}
		reported[c] = m
	}
	m[key]++
	if m[key] == 1 {
		c.Violation(key, detail, w)
		return
	}
	c.Count("violation_repeats_of_a_reported_key", 1)
	c.Logf("repeat of %s: %s", key, detail)
}

func run(c *core.Ctx) {
	defer delete(reported, c)
	e, err := getEnv()
	if err != nil {
		c.Inconclusive("genesis: " + err.Error())
		return
	}
	goshim.Seed(c.Rng.Bytes(32))
	switch c.Index % lanes {
	case 0:
		runAcct(c, e)
	case 1:
		runConf(c, e)
	case 2:
		runCache(c, e)
	case 3:
		runSig(c)
	}
}

func runSig(c *core.Ctx) {
	iters := 24
	if c.Tier == "thorough" {
		iters = 48
	}
	cnt := SigLane(c.Rng, iters, func(key, detail string, w interface{}) { viol(c, key, detail, w) })
	for k, v := range cnt {
		c.Count(k, v)
	}
	if cnt["sig_recover_calls"] >= 200 {
		c.Nontrivial(fmt.Sprintf("sig-%d-%d", c.Index, cnt["sig_recover_valid"]))
	}
	if c.Index%40 == 3 {
		c.Sample(map[string]interface{}{"lane": "signature", "counters": cnt})
	}
}

// buildBlock runs the proposer path of chainkit.Node.Propose for a hand-picked transaction
// list instead of the mempool's: CreateBlock -> header fields -> PreRunBlock -> part set ->
// fresh decode. A panic of PreRunBlock (the proposer's own execution fails) is returned as an error.
// With execute=false the header keeps the result fields of an empty block (what a Byzantine
// proposer can always send).
func buildBlock(n *chainkit.Node, lastCommit *types.Commit, txs types.Txs, execute bool) (*types.Block, *types.PartSet, error) {
	st := n.Status
	height := st.LastBlockHeight + 1
	if lastCommit == nil {
		lastCommit = &types.Commit{}
	}
	block := n.App.CreateBlock(height, st.ConsensusParams.BlockSize.MaxTxs, st.ConsensusParams.BlockSize.MaxGas, uint64(chainkit.FixedTime.Unix())+height)
	if block == nil {
		return nil, nil, fmt.Errorf("CreateBlock returned nil")
	}
	reaped := uint64(len(block.Data.Txs))
	block.Header.Coinbase = st.Validators.GetProposer().CoinBase
	if evi := chainkit.FaultValEvidence(st, lastCommit); evi != nil {
		block.AddEvidence([]types.Evidence{evi})
	}
	block.Recover = 0
	block.ChainID = st.ChainID
	block.LastCommit = lastCommit
	block.LastBlockID = st.LastBlockID
	block.LastCommitHash = block.LastCommit.Hash()
	block.EvidenceHash = block.Evidence.Hash()
	block.ConsensusHash = common.BytesToHash(st.ConsensusParams.Hash())
	block.ValidatorsHash = common.BytesToHash(st.Validators.Hash())
	setTxs := func() {
		block.Data = &types.Data{Txs: txs}
		block.Header.NumTxs = uint64(len(txs))
		block.Header.TotalTxs = block.Header.TotalTxs - reaped + uint64(len(txs))
		block.Header.DataHash = block.Data.Hash()
	}
	if execute {
		setTxs()
	} else {
		block.Data = &types.Data{}
		block.Header.NumTxs = 0
		block.Header.TotalTxs -= reaped
		block.Header.DataHash = block.Data.Hash()
		reaped = 0
	}
	var perr interface{}
	func() {
		defer func() { perr = recover() }()
		n.App.PreRunBlock(block)
	}()
	if perr != nil {
		return nil, nil, fmt.Errorf("PreRunBlock: %v", perr)
	}
	if !execute {
		setTxs()
	}
	parts := block.MakePartSet(st.ConsensusParams.BlockGossip.BlockPartSizeBytes)
	fresh, err := chainkit.DecodeBlock(parts, 0)
	if err != nil {
		return nil, nil, fmt.Errorf("decode own block: %v", err)
	}
	return fresh, parts, nil
}

func safeCheckBlock(n *chainkit.Node, b *types.Block) (ok bool, panicked string) {
	defer func() {
		if p := recover(); p != nil {
			ok, panicked = false, fmt.Sprint(p)
		}
	}()
	return n.App.CheckBlock(b), ""
}
