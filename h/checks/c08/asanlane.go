package c08

import (
	"fmt"
	"math/big"

	"github.com/lianxiangcloud/linkchain/libs/crypto"
	"github.com/lianxiangcloud/linkchain/libs/crypto/secp256k1"

	"verif/h/internal/core"
	"verif/h/internal/rng"
)

// Lane C08A: the only native code that belongs to the repository is libsecp256k1 behind
// libs/crypto/secp256k1 (cgo). The signature lane (reference comparison over hostile encodings) and a
// length/shape sweep of every exported entry point of the wrapper are repeated in a binary built with
// `go build -asan`; an AddressSanitizer report kills the child process, which the runner turns into a
// violation (the input of the call is written to the child's output before each call batch).
func init() {
	core.Register(&core.Check{
		ID:        "C08A",
		Level:     "exploration",
		Technique: "AddressSanitizer build (go build -asan: Go and the cgo-compiled libsecp256k1 instrumented) of the signature lane and of a length/shape sweep of the secp256k1 wrapper's entry points; differential oracle against a pure-Go secp256k1 reference; a sanitizer report is process-fatal and becomes a violation",
		Rule: "case = 24-48 fresh keys x 20 hostile (r,s,v) encodings through Ecrecover/VerifySignature/ValidateSignatureValues/From compared with the reference, plus ~400 calls of Sign/RecoverPubkey/VerifySignature/DecompressPubkey/CompressPubkey with message, signature and key lengths from 0 to 70 and boundary scalars (0, N-1, N, N+1, 2^256-1); accepted results must agree with the reference, nothing may panic or trip the sanitizer. " +
			"non-trivial = >= 200 recover calls and >= 300 shape calls; distinct by case",
		Assumptions:      []string{"ASan sees the Go heap and the C code compiled by cgo from libs/crypto/secp256k1/libsecp256k1; it does not see libsodium inside the libxcrypto stand-in (not repository code)"},
		Asan:             true,
		PanicIsViolation: true,
		Cases: func(tier string) int {
			if tier == "thorough" {
				return 600
			}
			return 32
		},
		Run:  runAsan,
		Init: core.QuietLogs,
		Floors: func(tier string) map[string]int64 {
			f := map[string]int64{"sig_recover_calls": 3000, "shape_calls": 8000, "shape_calls_accepted": 40, "cases_run_in_an_asan_instrumented_binary": 16}
			if tier == "thorough" {
				for k := range f {
					f[k] *= 15
				}
			}
			return f
		},
	})
}

func shapeBytes(r *rng.R, n int) []byte {
	b := r.Bytes(n)
	switch r.Intn(6) {
	case 0:
		for i := range b {
			b[i] = 0
		}
	case 1:
		for i := range b {
			b[i] = 0xff
		}
	case 2:
		if n >= 32 {
			copy(b[n-32:], pad32(secpN))
		}
	case 3:
		if n >= 32 {
			copy(b[n-32:], pad32(new(big.Int).Sub(secpN, big.NewInt(1))))
		}
	}
	return b
}

func runAsan(c *core.Ctx) {
	r := c.Rng
	if asanBuild { // build tag "asan" is set by go build -asan
		c.Count("cases_run_in_an_asan_instrumented_binary", 1)
	}
	iters := 24
	if c.Tier == "thorough" {
		iters = 48
	}
	cnt := SigLane(r, iters, func(key, detail string, w interface{}) { viol(c, key, detail, w) })
	for k, v := range cnt {
		c.Count(k, v)
	}
	lens := []int{0, 1, 31, 32, 33, 63, 64, 65, 66, 70}
	guard := func(what string, in interface{}, f func()) {
		defer func() {
			if p := recover(); p != nil {
				viol(c, "asanlane/panic/"+what, fmt.Sprintf("%s panicked: %v", what, p), in)
			}
		}()
		c.Count("shape_calls", 1)
		f()
	}
	// a valid triple to perturb
	d := new(big.Int).SetBytes(r.Bytes(32))
	d.Mod(d, new(big.Int).Sub(secpN, big.NewInt(1))).Add(d, big.NewInt(1))
	key, err := crypto.ToECDSA(pad32(d))
	if err != nil {
		c.Inconclusive("ToECDSA: " + err.Error())
		return
	}
	msg := r.Bytes(32)
	sig, err := crypto.Sign(msg, key)
	if err != nil {
		c.Inconclusive("Sign: " + err.Error())
		return
	}
	pub := crypto.FromECDSAPub(&key.PublicKey)
	for _, ml := range lens {
		for _, sl := range lens {
			m, s := shapeBytes(r, ml), shapeBytes(r, sl)
			if ml == 32 && r.Bool() {
				m = msg
			}
			if sl == 65 && r.Bool() {
				s = append([]byte{}, sig...)
				s[r.Intn(65)] ^= byte(r.Intn(256))
			}
			in := map[string]string{"msg": fmt.Sprintf("%x", m), "sig": fmt.Sprintf("%x", s)}
			guard("RecoverPubkey", in, func() {
				if out, err := secp256k1.RecoverPubkey(m, s); err == nil {
					c.Count("shape_calls_accepted", 1)
					if len(out) != 65 || ml != 32 || sl != 65 {
						viol(c, "asanlane/recover-accepts-malformed-input", fmt.Sprintf("RecoverPubkey accepted msg len %d sig len %d and returned %d bytes", ml, sl, len(out)), in)
					}
				}
			})
			guard("Ecrecover", in, func() { crypto.Ecrecover(m, s) })
			guard("SigToPub", in, func() { crypto.SigToPub(m, s) })
			for _, pl := range []int{0, 32, 33, 64, 65, 66} {
				p := shapeBytes(r, pl)
				if pl == 65 && r.Bool() {
					p = pub
				}
				if pl == 33 {
					p = crypto.CompressPubkey(&key.PublicKey)
					if r.Bool() {
						p = append([]byte{}, p...)
						p[r.Intn(33)] ^= byte(1 + r.Intn(255))
					}
				}
				in2 := map[string]string{"pub": fmt.Sprintf("%x", p), "msg": in["msg"], "sig": in["sig"]}
				guard("VerifySignature", in2, func() {
					if secp256k1.VerifySignature(p, m, s) {
						c.Count("shape_calls_accepted", 1)
						if ml != 32 || sl != 64 || (pl != 33 && pl != 65) {
							viol(c, "asanlane/verify-accepts-malformed-input", fmt.Sprintf("VerifySignature accepted pub len %d msg len %d sig len %d", pl, ml, sl), in2)
						}
					}
				})
			}
		}
		k := shapeBytes(r, ml)
		in := map[string]string{"key": fmt.Sprintf("%x", k)}
		guard("Sign", in, func() {
			if out, err := secp256k1.Sign(msg, k); err == nil {
				c.Count("shape_calls_accepted", 1)
				if ml != 32 || len(out) != 65 {
					viol(c, "asanlane/sign-accepts-malformed-key", fmt.Sprintf("Sign accepted a %d-byte key", ml), in)
				}
			}
		})
		guard("DecompressPubkey", in, func() {
			if x, y := secp256k1.DecompressPubkey(k); x != nil {
				c.Count("shape_calls_accepted", 1)
				if ml != 33 || !secp256k1.S256().IsOnCurve(x, y) {
					viol(c, "asanlane/decompress-accepts-malformed-point", fmt.Sprintf("DecompressPubkey accepted %d bytes", ml), in)
				}
			}
		})
	}
	// the honest control
	guard("control", nil, func() {
		out, err := secp256k1.RecoverPubkey(msg, sig)
		if err != nil || fmt.Sprintf("%x", out) != fmt.Sprintf("%x", pub) || !secp256k1.VerifySignature(pub, msg, sig[:64]) {
			viol(c, "asanlane/honest-signature-rejected", "the wrapper rejects its own signature", nil)
		} else {
			c.Count("shape_calls_accepted", 2)
		}
	})
	c.Nontrivial(fmt.Sprintf("asan-%d", c.Index))
	if c.Index%16 == 0 {
		c.Sample(map[string]interface{}{"lane": "asan", "key": fmt.Sprintf("%x", pad32(d)), "msg": fmt.Sprintf("%x", msg), "sig": fmt.Sprintf("%x", sig)})
	}
}
