package c08

import (
	"fmt"
	"sync"
	"time"

	"github.com/lianxiangcloud/linkchain/libs/common"
	"github.com/lianxiangcloud/linkchain/libs/ser"
	"github.com/lianxiangcloud/linkchain/mempool"
	"github.com/lianxiangcloud/linkchain/types"

	"verif/h/internal/chainkit"
	"verif/h/internal/core"
)

// In-flight lane of the sender/signature cache: a forged confidential transaction (valid account
// signature, commitments that do not balance) is held INSIDE Mempool.AddTx - after the dedup cache took
// it, before the basic check has a verdict - while a block carrying the same bytes is validated on the
// same node. The block checker may take a shortcut through the pool cache only for fully checked
// entries, so the block must be refused exactly as on a node that never saw the transaction.
// The schedule is injected at the pool's application interface (no sleeps): the wrapper parks the basic
// check of that one hash until the block verdict is in.

type pausingApp struct {
	mempool.App
	hash     common.Hash
	entered  chan struct{}
	release  chan struct{}
	once     sync.Once
	observed int
}

func (p *pausingApp) CheckTx(tx types.Tx, checkType bool) error {
	if checkType == mempool.BasicCheck && tx.Hash() == p.hash {
		p.once.Do(func() { close(p.entered) })
		<-p.release
	}
	return p.App.CheckTx(tx, checkType)
}

func inflightCache(c *core.Ctx, e *env, wallets []*chainkit.UWallet) {
	r := c.Rng
	a := e.g.Accounts[r.Intn(len(e.g.Accounts))]
	P, err := e.newNode(false)
	if err != nil {
		c.Inconclusive("node: " + err.Error())
		return
	}
	defer P.Close()
	warm, err := e.newNodeOpt(false, true)
	if err != nil {
		c.Inconclusive("node: " + err.Error())
		return
	}
	defer warm.Close()
	honest, err := genCacheTx(e, r, "utx-ain", a, wallets)
	if err != nil {
		c.Inconclusive("generator: " + err.Error())
		return
	}
	u, ok := honest.(*types.UTXOTransaction)
	if !ok || len(u.RCTSig.OutPk) == 0 {
		c.Inconclusive("generator did not return an account->confidential transaction")
		return
	}
	// the forgery: an output commitment that no longer balances (the account signature does not cover it)
	wireH, err := ser.EncodeToBytes(u)
	if err != nil {
		c.Inconclusive("encode: " + err.Error())
		return
	}
	dec := func(w []byte) *types.UTXOTransaction {
		var t types.UTXOTransaction
		if err := ser.DecodeBytes(w, &t); err != nil {
			return nil
		}
		return &t
	}
	f := dec(wireH)
	if f == nil {
		c.Inconclusive("decode")
		return
	}
	i := r.Intn(len(f.RCTSig.OutPk))
	f.RCTSig.OutPk[i].Mask[r.Intn(32)] ^= byte(1 << uint(r.Intn(8)))
	wireF, err := ser.EncodeToBytes(f)
	if err != nil {
		c.Inconclusive("encode: " + err.Error())
		return
	}
	pooled, inBlock, probe := dec(wireF), dec(wireF), dec(wireF)
	if pooled == nil || inBlock == nil || probe == nil {
		c.Inconclusive("forgery does not decode")
		return
	}
	if _, err := probe.From(); err != nil {
		c.Inconclusive("forgery lost its account signature: " + err.Error())
		return
	}
	if err := warm.App.CheckTx(probe, mempool.BasicCheck); err == nil {
		c.Inconclusive("the forged commitment passes the basic check; nothing to observe")
		return
	}
	// a block with the forgery (the proposer path executes it: execution does not look at commitments)
	_, parts, err := buildBlock(P, chainkit.NilCommit(), types.Txs{inBlock}, true)
	if err != nil {
		if _, parts, err = buildBlock(P, chainkit.NilCommit(), types.Txs{dec(wireF)}, false); err != nil {
			c.Inconclusive("cannot build a block: " + err.Error())
			return
		}
	}
	rp, err := chainkit.RebuildParts(parts)
	if err != nil {
		c.Inconclusive("parts: " + err.Error())
		return
	}
	fb, err := chainkit.DecodeBlock(rp, 0)
	if err != nil || len(fb.Data.Txs) != 1 {
		c.Inconclusive("block does not decode")
		return
	}
	// control: the same block on a node that never sees the transaction (a separate node: CheckBlock
	// memoises its verdict per block hash)
	cold, err := e.newNode(false)
	if err != nil {
		c.Inconclusive("node: " + err.Error())
		return
	}
	defer cold.Close()
	if ok, _ := safeCheckBlock(cold, fb); ok {
		viol(c, "sender-cache/forged-commitment-block-accepted-cold", "a block carrying an account->confidential transaction whose output commitment does not balance passes CheckBlock on a node that never saw the transaction",
			map[string]string{"wire": hexShort(wireF)})
		return
	}
	fb2, err := func() (*types.Block, error) {
		rp2, err := chainkit.RebuildParts(parts)
		if err != nil {
			return nil, err
		}
		return chainkit.DecodeBlock(rp2, 0)
	}()
	if err != nil {
		c.Inconclusive("block does not decode")
		return
	}
	pa := &pausingApp{App: warm.App, hash: pooled.Hash(), entered: make(chan struct{}), release: make(chan struct{})}
	warm.Mempool.SetApp(pa)
	defer warm.Mempool.SetApp(warm.App)
	errc := make(chan error, 1)
	go func() { errc <- warm.Mempool.AddTx("", pooled) }()
	select {
	case <-pa.entered:
	case err := <-errc:
		close(pa.release)
		c.Inconclusive(fmt.Sprintf("AddTx returned before the basic check was reached: %v", err))
		return
	case <-time.After(2 * time.Minute): // watchdog only
		close(pa.release)
		c.Inconclusive("AddTx did not reach the basic check")
		return
	}
	inCache := warm.Mempool.VerifInCache(pooled.Hash())
	accepted, pn := safeCheckBlock(warm, fb2)
	if c.Verbose {
		c.Logf("inflight: accepted=%v panic=%q inCache=%v get=%v", accepted, pn, inCache, warm.Mempool.GetTxFromCache(pooled.Hash()) != nil)
	}
	close(pa.release)
	addErr := <-errc
	c.Count("cache_inflight_forgeries_checked", 1)
	if inCache {
		c.Count("cache_inflight_entry_present_unchecked", 1)
	}
	if addErr != nil {
		c.Count("cache_inflight_pool_rejected_afterwards", 1)
	}
	if accepted {
		viol(c, "sender-cache/block-checker-trusted-unchecked-pool-entry", "while AddTx of a forged account->confidential transaction (output commitment does not balance) was between the dedup cache and its basic check, CheckBlock on the same node accepted a block carrying the same bytes; the same block is refused when the node has not seen the transaction",
			map[string]string{"wire": hexShort(wireF), "pool_verdict": fmt.Sprint(addErr)})
	}
}
