package c08

// floors: about half of the minimum observed over VERIF_SEED=1..5 on the unchanged tree
// (quick: 160 cases = 40 per lane). The thorough tier runs 20 times as many cases with larger
// per-case workloads; its floors are 15 times the quick ones.
func floors(tier string) map[string]int64 {
	q := map[string]int64{
		// account lane
		"acct_honest_accepted":               100,
		"acct_mutants":                       20000,
		"acct_signature_forms":               5000,
		"acct_other_sender":                  3500,
		"acct_sender_unrecoverable":          4000,
		"acct_same_sender_rejected_by_basic": 6000,
		"acct_cut_without_sender_signature":  20,
		"foreign_chain_forms":                1300,
		"foreign_self_check_ok":              80,
		// cache lane
		"object_cache_checks":                80,
		"cache_block_verdicts":               280,
		"cache_warm_hit_blocks_accepted":     20,
		"cache_other_signer_blocks_accepted": 20,
		"cache_mutant_blocks_rejected":       100,
		"cache_commits_observed":             20,
		"cache_inflight_forgeries_checked":   20,
		// confidential lane
		"ownership_scans":                 1400,
		"ownership_owner_ok":              280,
		"ownership_non_owner_blind":       1100,
		"forged_spend_rejected":           80,
		"utxo_honest_accepted":            100,
		"utxo_honest_ain-uout":            20,
		"utxo_honest_uin-uout-ring1":      40,
		"utxo_honest_uin-uout-ringN":      20,
		"utxo_mutants":                    21000,
		"utxo_rejected_by_basic":          18000,
		"utxo_signature_forms":            1100,
		"utxo_rebalanced_pseudoouts":      40,
		"utxo_fee_compensated":            80,
		"utxo_dead_field_mutant_accepted": 1500,
		// signature lane
		"sig_recover_calls":               9600,
		"sig_recover_valid":               5000,
		"sig_recover_invalid":             4500,
		"sig_verify_calls":                9600,
		"sig_tx_from_calls":               8000,
		"sig_tx_sender_matches_reference": 2900,
	}
	if tier != "thorough" {
		return q
	}
	t := map[string]int64{}
	for k, v := range q {
		t[k] = v * 15
	}
	return t
}
