package c08

func floors(tier string) map[string]int64 {
	return map[string]int64{}
}
