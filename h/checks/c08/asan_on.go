//go:build asan

package c08

const asanBuild = true
