package c19

import (
	"bytes"
	"sort"
)

// refMap is the reference ordered map: byte-string keys in bytes.Compare
// order, nil and empty key are the same key, values are opaque.
type refMap struct {
	m map[string][]byte
}

type kv struct {
	K []byte
	V []byte
}

func newRef() *refMap { return &refMap{m: map[string][]byte{}} }

func (r *refMap) set(k, v []byte) { r.m[string(k)] = append([]byte{}, v...) }
func (r *refMap) del(k []byte)    { delete(r.m, string(k)) }
func (r *refMap) get(k []byte) ([]byte, bool) {
	v, ok := r.m[string(k)]
	return v, ok
}
func (r *refMap) len() int { return len(r.m) }

func (r *refMap) clone() *refMap {
	n := newRef()
	for k, v := range r.m {
		n.m[k] = v
	}
	return n
}

func (r *refMap) sortedKeys() []string {
	keys := make([]string, 0, len(r.m))
	for k := range r.m {
		keys = append(keys, k)
	}
	sort.Strings(keys) // Go string comparison is bytewise == bytes.Compare
	return keys
}

// forward: keys k with start <= k (nil start = smallest) and k < end (nil end = unbounded), ascending.
func (r *refMap) forward(start, end []byte) []kv {
	var out []kv
	for _, k := range r.sortedKeys() {
		kb := []byte(k)
		if start != nil && bytes.Compare(kb, start) < 0 {
			continue
		}
		if end != nil && bytes.Compare(kb, end) >= 0 {
			continue
		}
		out = append(out, kv{kb, r.m[k]})
	}
	return out
}

// reverse: keys k with k <= start (nil start = unbounded) and k > end (nil end = unbounded), descending.
// This is the contract of libs/db/types.go (descending, start inclusive, end exclusive).
func (r *refMap) reverse(start, end []byte) []kv {
	var out []kv
	keys := r.sortedKeys()
	for i := len(keys) - 1; i >= 0; i-- {
		kb := []byte(keys[i])
		if start != nil && bytes.Compare(kb, start) > 0 {
			continue
		}
		if end != nil && bytes.Compare(kb, end) <= 0 {
			continue
		}
		out = append(out, kv{kb, r.m[keys[i]]})
	}
	return out
}

// prefix: keys that have the prefix, ascending.
func (r *refMap) prefix(p []byte) []kv {
	var out []kv
	for _, k := range r.sortedKeys() {
		kb := []byte(k)
		if bytes.HasPrefix(kb, p) {
			out = append(out, kv{kb, r.m[k]})
		}
	}
	return out
}
