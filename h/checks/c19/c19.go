// Package c19: all storage backends implement one ordered map with atomic
// batches (DESIGN.md §5 C19).
//
// C19  – sequential differential lane: one generated history per case, run on
//
//	one backend configuration, every observable answer compared with a
//	reference sorted map after every operation.
//
// C19R – concurrent lane under the race detector (race.go).
package c19

import (
	"bytes"
	"crypto/sha256"
	"encoding/hex"
	"fmt"
	"sort"
	"strings"
	"time"

	dbm "github.com/lianxiangcloud/linkchain/libs/db"

	"verif/h/internal/core"
	"verif/h/internal/rng"
)

func init() {
	core.Register(&core.Check{
		ID:        "C19",
		Also:      []string{"C19R"}, // concurrent batch-visibility lane under the race detector (race.go)
		Level:     "exploration",
		Technique: "differential monitoring of the real libs/db backends (memdb, goleveldb, bolt, badger, prefix views) against a reference sorted byte-string map, compared after every operation",
		Rule: "case = one generated history (direct and batched set/delete, up to two batches open at once, batch write/commit/reset/reuse/abandon, close+reopen) on one backend configuration " +
			"(backend x direct|prefix view x shard count), keys from the quantifier's shapes (nil, empty, binary, shared prefixes, 0xFF-terminated, prefix boundaries), values non-empty; " +
			"after EVERY operation: full forward scan == reference, Get/Has/Load/Exist (found + value) on touched, present and absent keys == reference, one random forward/reverse/prefix/IteratePrefix " +
			"iterator with bounds from the key set +-1 byte == reference stream; for views the underlying store must equal outside keys + prefixed view content. " +
			"Two special case kinds (1 in 40 each): big batches of 30k-120k operations (nothing visible while staged / after Reset / abandon, exact net effect after Write) and " +
			"batch life-cycle scripts (ONE batch object staged, written, Reset and used again; run in a probe process so that a panic inside a backend goroutine is an observable outcome). " +
			"Excluded as the property says: error values, empty values (never written); a batch is never re-written without Reset. " +
			"non-trivial = the history committed >=1 batch that wrote one key more than once, compared >=1 non-empty reverse and >=1 non-empty prefix stream and (persistent backends) reopened >=1 time; distinct by hash of the op sequence",
		Assumptions: []string{
			"the reference semantics of ReverseIterator(start,end) is the one documented in libs/db/types.go and util.go IsKeyInDomain: descending, start inclusive, end exclusive",
			"iterators are consumed with the documented loop (for ; Valid(); Next()) and closed; no write happens while an iterator is open (the DB contract)",
			"goleveldb/bolt/badger libraries themselves are trusted only as far as the comparison with the reference goes (they run for real)",
		},
		Cases: func(tier string) int {
			if tier == "thorough" {
				return 30000
			}
			return 1500
		},
		// short children: a child is done in well under a minute, so the 6 min watchdog only catches real hangs
		Batch: func(tier string) int {
			if tier == "thorough" {
				return 50
			}
			return 25
		},
		Run: run,
		Floors: func(tier string) map[string]int64 {
			return floors(tier)
		},
		// a panic inside a backend goroutine (not recoverable by the caller) kills the process: that is not the
		// answer of an ordered map, so an unexpected child death counts as a violation with its crash key
		PanicIsViolation: true,
		Init:             core.QuietLogs,
		BatchTimeout:     6 * time.Minute, // watchdog only (a child runs ~50 cases of < 1 s each); x3 in thorough
	})
}

// ------------------------------------------------------------------ config

type caseCfg struct {
	Kind      string `json:"kind"` // history | bigbatch | lifecycle
	Backend   string `json:"backend"`
	View      bool   `json:"view"`
	Prefix    string `json:"view_prefix_hex,omitempty"`
	Counts    uint64 `json:"shards"`
	EmptyKeys bool   `json:"nil_and_empty_keys"`
	EdgeBound bool   `json:"empty_nonnil_bounds"`
	Reuse     bool   `json:"reuse_batch_after_reset"`
	Ops       int    `json:"ops"`
}

var backendTypes = map[string]dbm.DBBackendType{
	"memdb":     dbm.MemDBBackend,
	"goleveldb": dbm.GoLevelDBBackend,
	"bolt":      dbm.BoltBackend,
	"badger":    dbm.BadgerBackend,
}

func persistent(b string) bool { return b != "memdb" }

// schedule of backends per case index (badger/bolt are ~10x slower per write: fewer cases, fewer ops)
var backendWheel = []string{"memdb", "goleveldb", "bolt", "memdb", "goleveldb", "badger", "goleveldb", "memdb", "bolt", "badger"}

func makeCfg(c *core.Ctx) caseCfg {
	r := c.Rng
	cfg := caseCfg{Kind: "history", Counts: 1}
	cfg.Backend = backendWheel[c.Index%len(backendWheel)]
	if c.Index%40 == 39 {
		cfg.Kind = "bigbatch"
		cfg.Backend = []string{"memdb", "goleveldb", "bolt", "badger"}[(c.Index/40)%4]
		return cfg
	}
	if c.Index%40 == 19 {
		cfg.Kind = "lifecycle"
		cfg.Backend = []string{"badger", "badger", "memdb", "goleveldb", "bolt"}[r.Intn(5)]
		return cfg
	}
	cfg.View = r.Chance(0.5)
	if cfg.View {
		cfg.Prefix = hex.EncodeToString(genViewPrefix(r))
	}
	if c.Index%25 == 7 {
		// the operator-visible "db_counts" split; memdb ignores it
		cfg.Backend = []string{"goleveldb", "bolt", "badger"}[(c.Index/25)%3]
		cfg.Counts = uint64(r.Range(2, 3))
	}
	cfg.EmptyKeys = r.Chance(0.3)
	cfg.EdgeBound = r.Chance(0.3)
	// Reset-then-reuse of one batch object kills the process on badger (panic in a goroutine of the adapter);
	// that path is exercised for every backend by the isolated "lifecycle" cases, here only where it is survivable.
	cfg.Reuse = cfg.Backend != "badger"
	switch cfg.Backend {
	case "memdb", "goleveldb":
		cfg.Ops = r.Range(60, 200)
	default:
		cfg.Ops = r.Range(40, 110)
	}
	return cfg
}

func genViewPrefix(r *rng.R) []byte {
	switch r.Intn(8) {
	case 0:
		return []byte{0xFF}
	case 1:
		return []byte{0xFF, 0xFF}
	case 2:
		return []byte{0x00}
	case 3:
		return []byte{0x61, 0xFF}
	case 4:
		return []byte{0x61, 0x00}
	case 5:
		return []byte("p/")
	default:
		return r.Bytes(r.Range(1, 4))
	}
}

// ------------------------------------------------------------------ env

type bop struct {
	del  bool
	k, v []byte
}

type parkedBatch struct {
	batch  dbm.Batch
	pend   []bop
	reused bool
	name   string
}

type env struct {
	c   *core.Ctx
	r   *rng.R
	cfg caseCfg
	tag string // stable prefix of violation keys

	dir    string
	under  dbm.DB
	db     dbm.DB
	prefix []byte

	ref     *refMap // content of db (view-relative keys)
	outside *refMap // keys of the underlying store that are outside the view

	pool [][]byte

	// the current batch and, optionally, a second open batch that is parked (opBatchSwap exchanges them)
	batch       dbm.Batch
	pend        []bop
	bname       string
	other       *parkedBatch
	batchSeq    int
	batchReused bool // the open batch went through Reset and is being used again
	lastOp      string
	hist        []string
	opid        int
	stopped     bool
	reported    map[string]bool
	multiWrites int
	revNonEmpty int
	preNonEmpty int
	reopens     int
}

func hx(b []byte) string {
	if b == nil {
		return "nil"
	}
	if len(b) == 0 {
		return "empty"
	}
	if len(b) > 24 {
		return fmt.Sprintf("%x..(%d bytes)", b[:12], len(b))
	}
	return hex.EncodeToString(b)
}

func (e *env) log(format string, a ...interface{}) {
	s := fmt.Sprintf(format, a...)
	if len(e.hist) < 600 {
		e.hist = append(e.hist, s)
	}
	e.c.Logf("%s", s)
}

func (e *env) witness(extra map[string]interface{}) map[string]interface{} {
	// the reference content at the moment of the observation: with the query it explains a read divergence
	// without walking through the history
	w := map[string]interface{}{"config": e.cfg, "history": e.hist, "reference_content": fmtStream(e.ref.forward(nil, nil), 80)}
	if e.cfg.View && e.outside.len() > 0 {
		w["underlying_keys_outside_view"] = fmtStream(e.outside.forward(nil, nil), 20)
	}
	for k, v := range extra {
		w[k] = v
	}
	return w
}

// violate reports an unclassified divergence under the configuration tag and ends the case
// (the reference and the store may have diverged for good).
func (e *env) violate(key, detail string, extra map[string]interface{}) {
	e.c.Violation(e.tag+"/"+key, detail, e.witness(extra))
	e.stopped = true
}

// classified reports a divergence that a recogniser attributed to one precise defect class.
// Read-only classes do not end the case (stop=false) and are reported once per case.
func (e *env) classified(key, detail string, extra map[string]interface{}, stop bool) {
	if e.reported == nil {
		e.reported = map[string]bool{}
	}
	if !e.reported[key] {
		e.reported[key] = true
		e.c.Violation(key, detail, e.witness(extra))
		e.c.Count("classified_divergences", 1)
	}
	if stop {
		e.stopped = true
	}
}

// guard runs f and turns a panic into a classified violation.
func (e *env) guard(opClass string, f func()) (ok bool) {
	defer func() {
		if r := recover(); r != nil {
			ok = false
			msg := fmt.Sprintf("%v", r)
			if len(msg) > 300 {
				msg = msg[:300]
			}
			if e.cfg.Backend == "badger" && !e.cfg.View && e.cfg.Counts == 1 && strings.Contains(opClass, "emptykey") && strings.Contains(msg, "Key cannot be empty") {
				e.classified("badger/emptykey/delete-or-lookup-panics", "panic: "+msg+" ("+opClass+")", nil, true)
				return
			}
			if e.cfg.Counts > 1 {
				e.classified(e.cfg.Backend+"+split/panic", "panic: "+msg+" ("+opClass+")", nil, true)
				return
			}
			e.violate(opClass+"/panic", "panic: "+msg, nil)
		}
	}()
	f()
	return true
}

func keyShape(k []byte) string {
	if len(k) == 0 {
		return "emptykey"
	}
	return "key"
}

func boundShape(b []byte) string {
	if b == nil {
		return "nil"
	}
	if len(b) == 0 {
		return "empty"
	}
	return "key"
}

func (e *env) open() bool {
	return e.guard("open", func() {
		e.under = dbm.NewDB("c19", backendTypes[e.cfg.Backend], e.dir, e.cfg.Counts)
		if e.cfg.View {
			// callers hand in prefixes of every provenance: exact-capacity slices, string conversions and
			// slices with spare capacity (built by append). A view must never write into that spare capacity.
			pfx := e.prefix
			if e.cfg.Ops%2 == 0 {
				pfx = append(make([]byte, 0, len(e.prefix)+8+e.cfg.Ops%5), e.prefix...)
			}
			e.db = dbm.NewPrefixDB(e.under, pfx)
		} else {
			e.db = e.under
		}
	})
}

func (e *env) close() {
	if e.db == nil {
		return
	}
	db := e.db
	e.db, e.under, e.batch, e.pend, e.other = nil, nil, nil, nil, nil
	e.guard("close", func() { db.Close() })
}

// ------------------------------------------------------------------ generators

var smallAlphabet = []byte{0x00, 0x01, 0x61, 0x62, 0xFE, 0xFF}

func (e *env) freshKey() []byte {
	r := e.r
	n := []int{1, 1, 2, 2, 3, 4, 8, 16, 33}[r.Intn(9)]
	k := r.Bytes(n)
	if r.Chance(0.6) {
		for i := range k {
			k[i] = smallAlphabet[int(k[i])%len(smallAlphabet)]
		}
	}
	if r.Chance(0.15) {
		k[len(k)-1] = 0xFF
	}
	return k
}

func mutateKey(r *rng.R, base []byte) []byte {
	k := append([]byte{}, base...)
	switch r.Intn(8) {
	case 0:
		return k
	case 1: // extend
		ext := []byte{0x00, 0xFF, 0x01, byte(r.Intn(256))}[r.Intn(4)]
		return append(k, ext)
	case 2: // truncate
		if len(k) > 1 {
			return k[:r.Range(1, len(k)-1)]
		}
		return k
	case 3: // last byte +1 (with carry = the exclusive end of the prefix range)
		if e := dbm.PrefixToEnd(k); e != nil {
			return e
		}
		return k
	case 4: // last byte -1
		if len(k) > 0 && k[len(k)-1] > 0 {
			k[len(k)-1]--
			return k
		}
		return append(k, 0x00)
	case 5:
		return append(k, 0xFF)
	case 6:
		return append(k, 0xFF, 0xFF)
	default:
		if len(k) > 0 {
			k[r.Intn(len(k))] = byte(r.Intn(256))
		}
		return k
	}
}

func (e *env) genKey() []byte {
	r := e.r
	if e.cfg.EmptyKeys && r.Chance(0.08) {
		if r.Bool() {
			return nil
		}
		return []byte{}
	}
	var k []byte
	if len(e.pool) > 0 && r.Chance(0.65) {
		k = mutateKey(r, e.pool[r.Intn(len(e.pool))])
	} else {
		k = e.freshKey()
	}
	if len(k) == 0 {
		k = []byte{0x00}
	}
	if len(e.pool) < 28 {
		e.pool = append(e.pool, k)
	} else if r.Chance(0.2) {
		e.pool[r.Intn(len(e.pool))] = k
	}
	return k
}

// existingOrGen prefers a key that is present in the reference.
func (e *env) existingOrGen(p float64) []byte {
	if e.ref.len() > 0 && e.r.Chance(p) {
		keys := e.ref.sortedKeys()
		k := []byte(keys[e.r.Intn(len(keys))])
		if len(k) == 0 && !e.cfg.EmptyKeys {
			return e.genKey()
		}
		return k
	}
	return e.genKey()
}

func (e *env) genValue() []byte {
	r := e.r
	e.opid++
	var n int
	switch x := r.Intn(100); {
	case x < 70:
		n = r.Range(1, 24)
	case x < 93:
		n = r.Range(25, 300) // beyond badger's ValueThreshold (32): value log path
	case x < 99:
		n = r.Range(1000, 9000)
	default:
		n = r.Range(40000, 90000)
	}
	v := make([]byte, n)
	if r.Bool() { // compressible
		b := byte(r.Intn(256))
		for i := range v {
			v[i] = b
		}
	} else {
		copy(v, r.Bytes(n))
	}
	// stamp with the op id so that a stale value is never equal to a newer one
	v[0] = byte(e.opid)
	if n > 1 {
		v[1] = byte(e.opid >> 8)
	}
	return v
}

func (e *env) genBound() []byte {
	r := e.r
	x := r.Intn(100)
	switch {
	case x < 18:
		return nil
	case x < 24:
		if e.cfg.EdgeBound {
			return []byte{}
		}
		return nil
	case x < 50:
		if e.ref.len() > 0 {
			keys := e.ref.sortedKeys()
			k := []byte(keys[r.Intn(len(keys))])
			if len(k) == 0 {
				return nil
			}
			return k
		}
		return e.freshKey()
	case x < 85:
		var base []byte
		if e.ref.len() > 0 {
			keys := e.ref.sortedKeys()
			base = []byte(keys[r.Intn(len(keys))])
		} else if len(e.pool) > 0 {
			base = e.pool[r.Intn(len(e.pool))]
		} else {
			base = e.freshKey()
		}
		k := mutateKey(r, base)
		if len(k) == 0 {
			return nil
		}
		return k
	default:
		return e.freshKey()
	}
}

func (e *env) genPrefix() []byte {
	r := e.r
	x := r.Intn(100)
	switch {
	case x < 8:
		return nil
	case x < 12:
		if e.cfg.EdgeBound {
			return []byte{}
		}
		return nil
	case x < 75:
		var base []byte
		if e.ref.len() > 0 {
			keys := e.ref.sortedKeys()
			base = []byte(keys[r.Intn(len(keys))])
		} else {
			base = e.freshKey()
		}
		if len(base) == 0 {
			return nil
		}
		switch r.Intn(4) {
		case 0:
			return base
		case 1:
			return base[:r.Range(1, len(base))]
		case 2:
			return append(append([]byte{}, base[:r.Range(1, len(base))]...), 0xFF)
		default:
			return base[:1]
		}
	case x < 85:
		return []byte{0xFF}
	case x < 90:
		return []byte{0xFF, 0xFF}
	default:
		return e.freshKey()
	}
}

// ------------------------------------------------------------------ observation

func sameKey(a, b []byte) bool { return bytes.Equal(a, b) }

// drain consumes an iterator with the documented loop.
func (e *env) drain(opClass string, limit int, mk func() dbm.Iterator) (out []kv, ok bool) {
	ok = e.guard(opClass, func() {
		it := mk()
		defer it.Close()
		for ; it.Valid(); it.Next() {
			k := it.Key()
			v := it.Value()
			out = append(out, kv{append([]byte{}, k...), append([]byte{}, v...)})
			if len(out) > limit {
				break
			}
		}
	})
	return
}

func fmtStream(s []kv, max int) []string {
	var out []string
	for i, x := range s {
		if i >= max {
			out = append(out, fmt.Sprintf("... %d more", len(s)-max))
			break
		}
		out = append(out, hx(x.K)+"="+hx(x.V))
	}
	return out
}

// diffStreams classifies the first difference between an observed and an expected stream.
func diffStreams(got, want []kv, limit int) (kind string, detail string) {
	if len(got) > limit {
		return "unbounded-stream", fmt.Sprintf("iterator yielded more than %d items, reference has %d", limit, len(want))
	}
	wantSet := map[string][]byte{}
	for _, x := range want {
		wantSet[string(x.K)] = x.V
	}
	gotSet := map[string]int{}
	for _, x := range got {
		gotSet[string(x.K)]++
	}
	shape := func(k []byte) string {
		if len(k) == 0 {
			return "-emptykey"
		}
		return ""
	}
	for _, x := range got {
		if gotSet[string(x.K)] > 1 {
			return "duplicate-key" + shape(x.K), fmt.Sprintf("key %s yielded %d times", hx(x.K), gotSet[string(x.K)])
		}
	}
	for _, x := range got {
		if _, ok := wantSet[string(x.K)]; !ok {
			return "extra-key" + shape(x.K), fmt.Sprintf("iterator yielded key %s which the reference stream does not contain (got %d items, want %d)", hx(x.K), len(got), len(want))
		}
	}
	for _, x := range want {
		if gotSet[string(x.K)] == 0 {
			return "missing-key" + shape(x.K), fmt.Sprintf("iterator did not yield key %s (got %d items, want %d)", hx(x.K), len(got), len(want))
		}
	}
	for i := range want {
		if !sameKey(got[i].K, want[i].K) {
			return "wrong-order", fmt.Sprintf("position %d: got key %s want %s (same key set)", i, hx(got[i].K), hx(want[i].K))
		}
	}
	for i := range want {
		if !bytes.Equal(got[i].V, want[i].V) {
			return "wrong-value" + shape(want[i].K), fmt.Sprintf("key %s: got value %s want %s", hx(want[i].K), hx(got[i].V), hx(want[i].V))
		}
	}
	return "", ""
}

func (e *env) limit() int { return e.ref.len() + e.outside.len() + 8 }

// query describes one iterator observation.
type query struct {
	kind               string // scan | underlying-scan | iter-forward | iter-reverse | iter-prefix | iterate-prefix-helper
	start, end, prefix []byte
}

func (q query) class() string {
	switch q.kind {
	case "iter-forward", "iter-reverse":
		return fmt.Sprintf("%s[start=%s,end=%s]", q.kind, boundShape(q.start), boundShape(q.end))
	case "iter-prefix", "iterate-prefix-helper":
		return fmt.Sprintf("%s[prefix=%s]", q.kind, boundShape(q.prefix))
	}
	return q.kind
}

func (q query) extra() map[string]interface{} {
	switch q.kind {
	case "iter-forward", "iter-reverse":
		return map[string]interface{}{"start": hx(q.start), "end": hx(q.end)}
	case "iter-prefix", "iterate-prefix-helper":
		return map[string]interface{}{"prefix": hx(q.prefix)}
	}
	return map[string]interface{}{}
}

// sameLengthIncrement is what util.go cpIncr computes (big-endian +1 keeping the length, nil on overflow);
// re-stated here only to RECOGNISE one defect class, never to decide whether something is a violation.
func sameLengthIncrement(b []byte) []byte {
	r := append([]byte{}, b...)
	for i := len(r) - 1; i >= 0; i-- {
		if r[i] < 0xFF {
			r[i]++
			return r
		}
		r[i] = 0
	}
	return nil
}

// betweenRangeEndAndIncr: PrefixToEnd(p) <= k < cpIncr(p): keys that do NOT have prefix p but lie below
// the same-length increment of p. Non-empty only for prefixes that end in 0xFF.
func betweenRangeEndAndIncr(k, p []byte) bool {
	lo, hi := dbm.PrefixToEnd(p), sameLengthIncrement(p)
	if lo == nil || hi == nil || bytes.Equal(lo, hi) {
		return false
	}
	return bytes.Compare(k, lo) >= 0 && bytes.Compare(k, hi) < 0
}

// classify attributes a stream divergence to a precise defect class when the whole divergence is explained by it.
// Returns key=="" when no recogniser applies.
func (e *env) classify(q query, got, want []kv, kind string) (key string, stop bool) {
	if e.cfg.Counts > 1 {
		// split stores iterate shard after shard; coarse keys on purpose (auxiliary lane)
		return e.cfg.Backend + "+split/iteration-diverges", true
	}
	wantSet := map[string]bool{}
	for _, x := range want {
		wantSet[string(x.K)] = true
	}
	switch {
	case q.kind == "iterate-prefix-helper" && len(q.prefix) > 0 && q.prefix[len(q.prefix)-1] == 0xFF && len(got) > len(want):
		// got == want ++ (keys between the end of the prefix range and cpIncr(prefix))
		for i, x := range got {
			if i < len(want) {
				if !bytes.Equal(x.K, want[i].K) || !bytes.Equal(x.V, want[i].V) {
					return "", true
				}
				continue
			}
			if !betweenRangeEndAndIncr(x.K, q.prefix) {
				return "", true
			}
		}
		return "iterate-prefix-helper/ff-terminated-prefix/keys-beyond-prefix-range-included", false
	case e.cfg.View && q.kind == "iter-reverse" && q.start == nil && len(got) == 0 && len(want) > 0 &&
		len(e.prefix) > 0 && e.prefix[len(e.prefix)-1] == 0xFF:
		for k := range e.outside.m {
			if betweenRangeEndAndIncr([]byte(k), e.prefix) {
				return "prefixview/iter-reverse-nil-start/ff-terminated-view-prefix/empty-stream", false
			}
		}
	case e.cfg.Backend == "badger" && !e.cfg.View && q.kind == "iter-reverse" && q.start != nil && len(q.start) == 0 && len(got) > len(want):
		// an empty non-nil start is the smallest key: only the empty key could be yielded
		return "badger/iter-reverse/empty-nonnil-start/treated-as-unbounded", false
	case (e.cfg.Backend == "bolt" || e.cfg.Backend == "badger") && !e.cfg.View && kind == "missing-key-emptykey" && len(got) == len(want)-1:
		return e.cfg.Backend + "/emptykey/write-silently-dropped", true
	}
	return "", true
}

func (e *env) checkStream(q query, got, want []kv) bool {
	e.c.Count("iter_items_compared", int64(len(got)))
	kind, detail := diffStreams(got, want, e.limit())
	if kind == "" {
		return true
	}
	extra := q.extra()
	extra["got"] = fmtStream(got, 40)
	extra["want"] = fmtStream(want, 40)
	extra["after_operation"] = e.lastOp
	extra["observation"] = q.class()
	if key, stop := e.classify(q, got, want, kind); key != "" {
		e.classified(key, fmt.Sprintf("%s (%s after %s)", detail, q.class(), e.lastOp), extra, stop)
		return !stop
	}
	e.violate("after-"+e.lastOp+"/"+q.class()+"/"+kind, detail, extra)
	return false
}

func (e *env) observe(q query, mk func() dbm.Iterator) ([]kv, bool) {
	return e.drain("after-"+e.lastOp+"/"+q.class(), e.limit(), mk)
}

// scan: full forward iteration == complete reference content.
func (e *env) scan() bool {
	q := query{kind: "scan"}
	got, ok := e.observe(q, func() dbm.Iterator { return e.db.Iterator(nil, nil) })
	if !ok {
		return false
	}
	e.c.Count("full_scans", 1)
	return e.checkStream(q, got, e.ref.forward(nil, nil))
}

// scanUnder: for views, the underlying store == outside keys + prefixed view content.
func (e *env) scanUnder() bool {
	if !e.cfg.View || e.cfg.Counts > 1 || e.stopped {
		return !e.stopped
	}
	q := query{kind: "underlying-scan"}
	got, ok := e.observe(q, func() dbm.Iterator { return e.under.Iterator(nil, nil) })
	if !ok {
		return false
	}
	all := e.outside.clone()
	for k, v := range e.ref.m {
		all.m[string(e.prefix)+k] = v
	}
	e.c.Count("underlying_scans", 1)
	return e.checkStream(q, got, all.forward(nil, nil))
}

func (e *env) lookup(k []byte) bool {
	wantV, wantFound := e.ref.get(k)
	type obs struct {
		name  string
		found bool
		val   []byte
		hasV  bool
		err   error
	}
	var o []obs
	ok := e.guard("after-"+e.lastOp+"/lookup-"+keyShape(k), func() {
		v := e.db.Get(k)
		o = append(o, obs{"Get", v != nil, v, true, nil})
		o = append(o, obs{"Has", e.db.Has(k), nil, false, nil})
		// Load signals "missing" by a nil value (memdb) or by an error (the others); which error is excluded
		// by the property, so: found <=> no error and a non-nil value.
		v2, err := e.db.Load(k)
		o = append(o, obs{"Load", err == nil && v2 != nil, v2, true, err})
		ex, err2 := e.db.Exist(k)
		o = append(o, obs{"Exist", ex, nil, false, err2})
	})
	if !ok {
		return false
	}
	e.c.Count("lookups_compared", int64(len(o)))
	if wantFound {
		e.c.Count("lookups_found", 1)
	} else {
		e.c.Count("lookups_absent", 1)
	}
	for _, x := range o {
		if x.found != wantFound {
			extra := map[string]interface{}{"method": x.name, "key": hx(k), "want_value": hx(wantV), "after_operation": e.lastOp}
			detail := fmt.Sprintf("%s(%s): found=%v, reference found=%v", x.name, hx(k), x.found, wantFound)
			if x.name == "Exist" && x.found && x.err != nil && e.cfg.Backend == "goleveldb" {
				// read-only, classified: callers such as libs/trie/sync.go use `ok, _ := db.Exist(k)`
				e.classified("goleveldb/exist/true-with-error-for-absent-key", detail+fmt.Sprintf(" (err=%v)", x.err), extra, false)
				continue
			}
			if (e.cfg.Backend == "bolt" || e.cfg.Backend == "badger") && !e.cfg.View && e.cfg.Counts == 1 && len(k) == 0 && wantFound {
				e.classified(e.cfg.Backend+"/emptykey/write-silently-dropped", detail, extra, true)
				return false
			}
			what := "found-but-absent"
			if wantFound {
				what = "not-found-but-present"
			}
			if e.cfg.Counts > 1 {
				e.classified(e.cfg.Backend+"+split/lookup/"+what, detail, extra, true)
				return false
			}
			e.violate("after-"+e.lastOp+"/lookup-"+keyShape(k)+"/"+x.name+"-"+what, detail, extra)
			return false
		}
		if x.hasV && wantFound && !bytes.Equal(x.val, wantV) {
			e.violate("after-"+e.lastOp+"/lookup-"+keyShape(k)+"/"+x.name+"-wrong-value",
				fmt.Sprintf("%s(%s) = %s, reference %s", x.name, hx(k), hx(x.val), hx(wantV)),
				map[string]interface{}{"method": x.name, "key": hx(k)})
			return false
		}
	}
	return true
}

func orderBounds(r *rng.R, a, b []byte, ascending bool) ([]byte, []byte) {
	if a != nil && b != nil && r.Chance(0.85) {
		c := bytes.Compare(a, b)
		if (ascending && c > 0) || (!ascending && c < 0) {
			return b, a
		}
	}
	return a, b
}

func (e *env) randomIter() bool {
	r := e.r
	switch r.Intn(10) {
	case 0, 1, 2: // forward
		s, en := orderBounds(r, e.genBound(), e.genBound(), true)
		q := query{kind: "iter-forward", start: s, end: en}
		got, ok := e.observe(q, func() dbm.Iterator { return e.db.Iterator(s, en) })
		if !ok {
			return false
		}
		want := e.ref.forward(s, en)
		e.c.Count("iter_forward", 1)
		if len(want) > 0 {
			e.c.Count("iter_forward_nonempty", 1)
		}
		return e.checkStream(q, got, want)
	case 3, 4, 5, 6: // reverse
		s, en := orderBounds(r, e.genBound(), e.genBound(), false)
		q := query{kind: "iter-reverse", start: s, end: en}
		got, ok := e.observe(q, func() dbm.Iterator { return e.db.ReverseIterator(s, en) })
		if !ok {
			return false
		}
		want := e.ref.reverse(s, en)
		e.c.Count("iter_reverse", 1)
		if len(want) > 0 {
			e.c.Count("iter_reverse_nonempty", 1)
			e.revNonEmpty++
		}
		return e.checkStream(q, got, want)
	case 7, 8: // prefix via the DB method
		p := e.genPrefix()
		q := query{kind: "iter-prefix", prefix: p}
		got, ok := e.observe(q, func() dbm.Iterator { return e.db.NewIteratorWithPrefix(p) })
		if !ok {
			return false
		}
		want := e.ref.prefix(p)
		e.c.Count("iter_prefix", 1)
		if len(want) > 0 {
			e.c.Count("iter_prefix_nonempty", 1)
			e.preNonEmpty++
		}
		return e.checkStream(q, got, want)
	default: // prefix via util.go IteratePrefix (cpIncr)
		p := e.genPrefix()
		q := query{kind: "iterate-prefix-helper", prefix: p}
		got, ok := e.observe(q, func() dbm.Iterator { return dbm.IteratePrefix(e.db, p) })
		if !ok {
			return false
		}
		want := e.ref.prefix(p)
		e.c.Count("iter_prefix_helper", 1)
		if len(want) > 0 {
			e.c.Count("iter_prefix_nonempty", 1)
			e.preNonEmpty++
		}
		return e.checkStream(q, got, want)
	}
}

// verify is what runs after EVERY operation.
func (e *env) verify(touched [][]byte) bool {
	if e.stopped {
		return false
	}
	if !e.scan() {
		return false
	}
	for _, k := range touched {
		if !e.lookup(k) {
			return false
		}
	}
	// one present and one (probably) absent key
	if e.ref.len() > 0 {
		keys := e.ref.sortedKeys()
		k := []byte(keys[e.r.Intn(len(keys))])
		if !e.lookup(k) {
			return false
		}
		if !e.lookup(mutateKey(e.r, k)) {
			return false
		}
	} else if !e.lookup(e.freshKey()) {
		return false
	}
	if !e.randomIter() {
		return false
	}
	if e.cfg.View && e.r.Chance(0.15) {
		if !e.scanUnder() {
			return false
		}
	}
	return true
}

// ------------------------------------------------------------------ operations

func (e *env) opSet() bool {
	k, v := e.existingOrGen(0.35), e.genValue()
	how := e.r.Intn(3)
	name := []string{"Set", "Put", "SetSync"}[how]
	e.log("%s(%s, %s)", name, hx(k), hx(v))
	e.lastOp = "set-" + keyShape(k)
	ok := e.guard(e.lastOp, func() {
		switch how {
		case 0:
			e.db.Set(k, v)
		case 1:
			e.db.Put(k, v) // the error value is not judged; the visible effect is
		default:
			e.db.SetSync(k, v)
		}
	})
	if !ok {
		return false
	}
	e.ref.set(k, v)
	e.c.Count("sets", 1)
	if len(k) == 0 {
		e.c.Count("empty_key_ops", 1)
	}
	return e.verify([][]byte{k})
}

func (e *env) opDelete() bool {
	k := e.existingOrGen(0.75)
	how := e.r.Intn(3)
	name := []string{"Delete", "Del", "DeleteSync"}[how]
	_, existed := e.ref.get(k)
	e.log("%s(%s) [present in reference: %v]", name, hx(k), existed)
	e.lastOp = "delete-" + keyShape(k)
	ok := e.guard(e.lastOp, func() {
		switch how {
		case 0:
			e.db.Delete(k)
		case 1:
			e.db.Del(k)
		default:
			e.db.DeleteSync(k)
		}
	})
	if !ok {
		return false
	}
	e.ref.del(k)
	e.c.Count("deletes", 1)
	if existed {
		e.c.Count("deletes_of_present", 1)
	}
	if len(k) == 0 {
		e.c.Count("empty_key_ops", 1)
	}
	return e.verify([][]byte{k})
}

// opOutside writes next to the view's key range in the underlying store.
func (e *env) opOutside() bool {
	p := e.prefix
	var k []byte
	switch e.r.Intn(7) {
	case 0: // exactly the exclusive end of the prefix range (skipOne path of the reverse iterator)
		k = dbm.PrefixToEnd(p)
	case 1: // end of range + suffix
		if x := dbm.PrefixToEnd(p); x != nil {
			k = append(x, byte(e.r.Intn(256)))
		}
	case 2: // just below the prefix
		k = append([]byte{}, p...)
		if k[len(k)-1] > 0 {
			k[len(k)-1]--
			k = append(k, 0xFF)
		} else {
			k = k[:len(k)-1]
		}
	case 3: // strict prefix of the view prefix
		k = append([]byte{}, p[:len(p)-1]...)
	case 4:
		k = e.r.Bytes(e.r.Range(1, 4))
	case 5:
		k = []byte{0xFF, 0xFF, 0xFF}
	default:
		k = []byte{0x00}
	}
	if len(k) == 0 || bytes.HasPrefix(k, p) {
		return true
	}
	if e.r.Chance(0.75) {
		v := e.genValue()
		e.log("underlying.Set(%s, %s) [outside the view]", hx(k), hx(v))
		e.lastOp = "outside-set"
		if !e.guard(e.lastOp, func() { e.under.Set(k, v) }) {
			return false
		}
		e.outside.set(k, v)
	} else {
		e.log("underlying.Delete(%s) [outside the view]", hx(k))
		e.lastOp = "outside-delete"
		if !e.guard(e.lastOp, func() { e.under.Delete(k) }) {
			return false
		}
		e.outside.del(k)
	}
	e.c.Count("outside_writes", 1)
	return e.verify(nil) && e.scanUnder()
}

// opBatchSwap parks the current batch and makes the parked one (if any) current: two batches can be
// open at once; each must become visible on its own Write only, in the order the Writes happen.
func (e *env) opBatchSwap() bool {
	cur := e.other
	if e.batch != nil {
		e.other = &parkedBatch{e.batch, e.pend, e.batchReused, e.bname}
	} else {
		e.other = nil
	}
	if cur != nil {
		e.batch, e.pend, e.batchReused, e.bname = cur.batch, cur.pend, cur.reused, cur.name
		e.log("(continue with open batch %s, %d staged ops)", e.bname, len(e.pend))
	} else {
		e.batch, e.pend, e.batchReused, e.bname = nil, nil, false, ""
		e.log("(current batch parked)")
	}
	if e.batch != nil && e.other != nil {
		e.c.Count("two_batches_open", 1)
	}
	return true
}

func (e *env) opBatchBegin() bool {
	e.batchSeq++
	e.bname = fmt.Sprintf("b%d", e.batchSeq)
	e.log("%s = NewBatch()", e.bname)
	e.lastOp = "batch-new"
	if !e.guard(e.lastOp, func() { e.batch = e.db.NewBatch() }) {
		return false
	}
	e.pend = nil
	e.c.Count("batches_begun", 1)
	return e.verify(nil)
}

func (e *env) opBatchStage() bool {
	r := e.r
	var k []byte
	if len(e.pend) > 0 && r.Chance(0.45) {
		k = e.pend[r.Intn(len(e.pend))].k // same key again inside the batch
	} else {
		k = e.existingOrGen(0.4)
	}
	if r.Chance(0.68) {
		v := e.genValue()
		e.log("%s.Set(%s, %s)", e.bname, hx(k), hx(v))
		e.lastOp = "batch-stage-" + keyShape(k)
		if !e.guard(e.lastOp, func() { e.batch.Set(k, v) }) {
			return false
		}
		e.pend = append(e.pend, bop{false, k, v})
	} else {
		e.log("%s.Delete(%s)", e.bname, hx(k))
		e.lastOp = "batch-stage-" + keyShape(k)
		if !e.guard(e.lastOp, func() { e.batch.Delete(k) }) {
			return false
		}
		e.pend = append(e.pend, bop{true, k, nil})
	}
	e.c.Count("batch_ops_staged", 1)
	if len(k) == 0 {
		e.c.Count("empty_key_ops", 1)
	}
	// a staged operation must not be visible
	return e.verify([][]byte{k})
}

func (e *env) applyPend() (touched [][]byte) {
	seen := map[string]int{}
	for _, o := range e.pend {
		if o.del {
			e.ref.del(o.k)
		} else {
			e.ref.set(o.k, o.v)
		}
		seen[string(o.k)]++
	}
	multi := false
	for k, n := range seen {
		touched = append(touched, []byte(k))
		if n > 1 {
			multi = true
		}
	}
	sort.Slice(touched, func(i, j int) bool { return bytes.Compare(touched[i], touched[j]) < 0 })
	if multi {
		e.multiWrites++
		e.c.Count("batches_written_with_repeated_key", 1)
	}
	return touched
}

func (e *env) pendShape() string {
	for _, o := range e.pend {
		if len(o.k) == 0 {
			return "-with-emptykey"
		}
	}
	return ""
}

func (e *env) opBatchEnd() bool {
	r := e.r
	x := r.Intn(100)
	switch {
	case x < 60: // write
		how := r.Intn(3)
		name := []string{"Write", "Commit", "WriteSync"}[how]
		e.log("%s.%s() [%d staged ops]", e.bname, name, len(e.pend))
		e.lastOp = "batch-write" + e.pendShape()
		if e.batchReused {
			e.lastOp = "batch-reset-reuse-write" + e.pendShape()
		}
		ok := e.guard(e.lastOp, func() {
			switch how {
			case 0:
				e.batch.Write()
			case 1:
				e.batch.Commit()
			default:
				e.batch.WriteSync()
			}
		})
		if !ok {
			return false
		}
		touched := e.applyPend()
		e.c.Count("batches_written", 1)
		if e.batchReused {
			e.c.Count("batches_written_after_reset", 1)
		}
		e.c.Count("batch_ops_written", int64(len(e.pend)))
		e.pend = nil
		e.batch = nil
		e.batchReused = false
		if len(touched) > 6 {
			touched = touched[:6]
		}
		return e.verify(touched)
	case x < 82: // reset, keep the batch for reuse
		keep := e.cfg.Reuse
		if keep {
			e.log("%s.Reset() [%d staged ops dropped, batch kept for reuse]", e.bname, len(e.pend))
		} else {
			e.log("%s.Reset() [%d staged ops dropped, batch then abandoned]", e.bname, len(e.pend))
		}
		e.lastOp = "batch-reset"
		if !e.guard(e.lastOp, func() { e.batch.Reset() }) {
			return false
		}
		var touched [][]byte
		for _, o := range e.pend {
			touched = append(touched, o.k)
		}
		e.pend = nil
		e.batchReused = true
		if !keep {
			e.batch = nil
			e.batchReused = false
		}
		e.c.Count("batches_reset", 1)
		if len(touched) > 4 {
			touched = touched[:4]
		}
		return e.verify(touched)
	default: // abandon
		e.log("%s abandoned [%d staged ops]", e.bname, len(e.pend))
		e.lastOp = "batch-abandon"
		var touched [][]byte
		for _, o := range e.pend {
			touched = append(touched, o.k)
		}
		e.pend = nil
		e.batch = nil
		e.batchReused = false
		e.c.Count("batches_abandoned", 1)
		if len(touched) > 4 {
			touched = touched[:4]
		}
		return e.verify(touched)
	}
}

func (e *env) opReopen() bool {
	pending := len(e.pend)
	if e.other != nil {
		pending += len(e.other.pend)
	}
	e.log("Close(); reopen [%d staged ops of open batches are abandoned]", pending)
	e.lastOp = "reopen"
	if e.batch != nil || e.other != nil {
		e.c.Count("reopens_with_open_batch", 1)
	}
	e.close()
	if e.stopped {
		return false
	}
	e.batchReused = false
	if !e.open() {
		return false
	}
	e.reopens++
	e.c.Count("reopens", 1)
	var touched [][]byte
	if e.ref.len() > 0 {
		keys := e.ref.sortedKeys()
		for i := 0; i < 3; i++ {
			touched = append(touched, []byte(keys[e.r.Intn(len(keys))]))
		}
	}
	return e.verify(touched) && e.scanUnder()
}

// ------------------------------------------------------------------ case

func run(c *core.Ctx) {
	cfg := makeCfg(c)
	if cfg.Kind == "bigbatch" {
		runBigBatch(c, cfg)
		return
	}
	if cfg.Kind == "lifecycle" {
		runLifecycle(c, cfg)
		return
	}
	e := &env{c: c, r: c.Rng, cfg: cfg, dir: c.Scratch, ref: newRef(), outside: newRef()}
	e.tag = cfg.Backend
	if cfg.Counts > 1 {
		e.tag += "+split"
	}
	if cfg.View {
		e.tag += "+prefixview"
		e.prefix, _ = hex.DecodeString(cfg.Prefix)
	}
	c.Count("cases_"+e.tag, 1)
	if c.Index%53 == 0 {
		defer func() {
			n := len(e.hist)
			if n > 14 {
				n = 14
			}
			c.Sample(map[string]interface{}{"config": cfg, "first_ops": e.hist[:n], "final_keys": e.ref.len()})
		}()
	}
	if !e.open() {
		return
	}
	defer e.close()
	e.lastOp = "open"
	if !e.verify(nil) {
		return
	}
	r := e.r
	for i := 0; i < cfg.Ops && !e.stopped; i++ {
		x := r.Intn(100)
		ok := true
		switch {
		case e.batch != nil && x < 42:
			ok = e.opBatchStage()
		case e.batch != nil && x < 52:
			ok = e.opBatchEnd()
		case (e.batch != nil || e.other != nil) && x >= 52 && x < 57:
			ok = e.opBatchSwap()
		case e.batch == nil && x < 14:
			ok = e.opBatchBegin()
		case x < 72:
			ok = e.opSet()
		case x < 90:
			ok = e.opDelete()
		case x < 96:
			if cfg.View {
				ok = e.opOutside()
			} else {
				ok = e.opSet()
			}
		default:
			if persistent(cfg.Backend) {
				ok = e.opReopen()
			} else {
				ok = e.opDelete()
			}
		}
		c.Count("ops", 1)
		if !ok {
			return
		}
	}
	// finish: settle an open batch, final reopen for persistent backends, final complete comparison
	for i := 0; i < 2; i++ {
		if e.batch != nil && len(e.pend) > 0 {
			if !e.opBatchEnd() {
				return
			}
		}
		e.opBatchSwap()
	}
	if persistent(cfg.Backend) {
		if !e.opReopen() {
			return
		}
	}
	if !e.scanUnder() {
		return
	}
	for _, k := range e.ref.sortedKeys() {
		if !e.lookup([]byte(k)) {
			return
		}
	}
	c.Count("histories_completed", 1)
	c.Max("keys_in_final_state", int64(e.ref.len()))
	if e.multiWrites > 0 && e.revNonEmpty > 0 && e.preNonEmpty > 0 && (!persistent(cfg.Backend) || e.reopens > 1) {
		h := sha256.Sum256([]byte(e.tag + "\n" + strings.Join(e.hist, "\n")))
		c.Nontrivial(hex.EncodeToString(h[:8]))
	}
}

// floors: about half of the minimum observed over VERIF_SEED=1..5 at quick (1500 cases), scaled by the case count.
func floors(tier string) map[string]int64 {
	q := map[string]int64{
		"ops": 70000, "full_scans": 70000, "lookups_compared": 900000, "lookups_found": 135000, "lookups_absent": 85000,
		"iter_forward_nonempty": 16000, "iter_reverse_nonempty": 22000, "iter_prefix_nonempty": 14000, "iter_prefix_helper": 7000,
		"batches_written": 2500, "batches_written_with_repeated_key": 1100, "batches_written_after_reset": 350, "two_batches_open": 600,
		"batches_reset": 900, "batches_abandoned": 700, "reopens": 2200, "reopens_with_open_batch": 1000,
		"underlying_scans": 8000, "outside_writes": 1700, "empty_key_ops": 1000, "histories_completed": 640,
		"cases_memdb": 95, "cases_memdb+prefixview": 95, "cases_goleveldb": 100, "cases_goleveldb+prefixview": 100,
		"cases_bolt": 60, "cases_bolt+prefixview": 65, "cases_badger": 50, "cases_badger+prefixview": 48,
		"bigbatch_completed": 11, "lifecycle_probes": 19, "lifecycle_writes_after_reset": 50,
	}
	if tier == "thorough" {
		for k, v := range q {
			q[k] = v * 20 // 30000 / 1500 cases
		}
	}
	return q
}
