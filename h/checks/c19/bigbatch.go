package c19

import (
	"bytes"
	"encoding/binary"
	"fmt"

	dbm "github.com/lianxiangcloud/linkchain/libs/db"

	"verif/h/internal/core"
)

// runBigBatch: "a batch becomes visible entirely ... or not at all" for batches
// that are large (tens of thousands of operations). The oracle is the same
// reference map; only the comparison is streamed instead of materialised.
//
//	stage N unique keys (+ overwrite / delete some of them inside the batch)
//	-> nothing may be visible while staged
//	-> Reset | abandon : nothing visible afterwards
//	-> Write           : exactly the batch's net effect visible, in key order
func runBigBatch(c *core.Ctx, cfg caseCfg) {
	r := c.Rng
	tag := cfg.Backend
	c.Count("cases_bigbatch_"+tag, 1)
	n := []int{30000, 60000, 100000 + r.Intn(2000), 120000}[r.Intn(4)]
	end := []string{"reset", "abandon", "write", "reset", "write"}[r.Intn(5)]
	pre := r.Range(1, 6)
	desc := map[string]interface{}{"config": cfg, "staged_sets": n, "ending": end, "preexisting_keys": pre}
	if c.Index%80 == 39 {
		c.Sample(desc)
	}
	fail := func(key, detail string) {
		c.Violation(tag+"/bigbatch/"+key, detail, desc)
	}
	var db dbm.DB
	defer func() {
		if rec := recover(); rec != nil {
			msg := fmt.Sprintf("%v", rec)
			if len(msg) > 300 {
				msg = msg[:300]
			}
			fail("panic", "panic: "+msg)
		}
		if db != nil {
			func() {
				defer func() { recover() }()
				db.Close()
			}()
		}
	}()
	db = dbm.NewDB("c19big", backendTypes[cfg.Backend], c.Scratch, 1)

	ref := newRef()
	for i := 0; i < pre; i++ {
		k := append([]byte("a-pre/"), byte(i))
		v := []byte{byte(i + 1), 0x55}
		db.Set(k, v)
		ref.set(k, v)
	}
	keyOf := func(i int) []byte {
		k := make([]byte, 2+8)
		copy(k, "k/")
		binary.BigEndian.PutUint64(k[2:], uint64(i))
		return k
	}
	valOf := func(i int, gen byte) []byte { return []byte{gen, byte(i), byte(i >> 8), byte(i >> 16)} }

	// small prefix of the store must equal the reference while the batch is only staged
	smallEqual := func(phase string) bool {
		it := db.Iterator(nil, nil)
		defer it.Close()
		var got []kv
		for ; it.Valid(); it.Next() {
			got = append(got, kv{append([]byte{}, it.Key()...), append([]byte{}, it.Value()...)})
			if len(got) > ref.len()+3 {
				break
			}
		}
		kind, detail := diffStreams(got, ref.forward(nil, nil), ref.len()+3)
		if kind != "" {
			if kind == "unbounded-stream" || kind[:5] == "extra" {
				kind = "staged-ops-visible"
			}
			fail(phase+"/"+kind, fmt.Sprintf("%s; %d sets staged, reference holds %d keys; first items seen: %v", detail, n, ref.len(), fmtStream(got, 8)))
			return false
		}
		return true
	}

	b := db.NewBatch()
	for i := 0; i < n; i++ {
		b.Set(keyOf(i), valOf(i, 1))
	}
	// last write wins inside the batch: overwrite every 1000th, delete every 1500th, re-set every 3000th
	for i := 0; i < n; i += 1000 {
		b.Set(keyOf(i), valOf(i, 2))
	}
	for i := 0; i < n; i += 1500 {
		b.Delete(keyOf(i))
	}
	for i := 0; i < n; i += 3000 {
		b.Set(keyOf(i), valOf(i, 3))
	}
	expect := func(i int) []byte { // nil = absent
		switch {
		case i%3000 == 0:
			return valOf(i, 3)
		case i%1500 == 0:
			return nil
		case i%1000 == 0:
			return valOf(i, 2)
		}
		return valOf(i, 1)
	}
	c.Count("bigbatch_ops_staged", int64(n))
	if !smallEqual("while-staged") {
		return
	}
	switch end {
	case "reset":
		b.Reset()
		c.Count("bigbatch_reset", 1)
		if smallEqual("after-reset") {
			c.Count("bigbatch_completed", 1)
			c.Nontrivial(fmt.Sprintf("big-%s-%s-%d", tag, end, n))
		}
		return
	case "abandon":
		b = nil
		c.Count("bigbatch_abandoned", 1)
		if smallEqual("after-abandon") {
			c.Count("bigbatch_completed", 1)
			c.Nontrivial(fmt.Sprintf("big-%s-%s-%d", tag, end, n))
		}
		return
	}
	b.Write()
	c.Count("bigbatch_written", 1)
	// streamed comparison: pre-existing keys ("a-pre/..") sort before "k/.."
	it := db.Iterator(nil, nil)
	defer it.Close()
	want := ref.forward(nil, nil)
	pos := 0
	next := 0 // next batch index expected
	advance := func() {
		for next < n && expect(next) == nil {
			next++
		}
	}
	advance()
	items := 0
	for ; it.Valid(); it.Next() {
		k, v := it.Key(), it.Value()
		items++
		if pos < len(want) {
			if !bytes.Equal(k, want[pos].K) || !bytes.Equal(v, want[pos].V) {
				fail("after-write/preexisting-mismatch", fmt.Sprintf("item %d: got %s=%s want %s=%s", items, hx(k), hx(v), hx(want[pos].K), hx(want[pos].V)))
				return
			}
			pos++
			continue
		}
		if next >= n {
			fail("after-write/extra-key", fmt.Sprintf("item %d: unexpected key %s after the last expected one", items, hx(k)))
			return
		}
		if !bytes.Equal(k, keyOf(next)) {
			fail("after-write/missing-or-misordered-key", fmt.Sprintf("item %d: got key %s want %s (batch index %d of %d)", items, hx(k), hx(keyOf(next)), next, n))
			return
		}
		if !bytes.Equal(v, expect(next)) {
			fail("after-write/wrong-value-not-last-write", fmt.Sprintf("key %s (batch index %d): got %s want %s", hx(k), next, hx(v), hx(expect(next))))
			return
		}
		next++
		advance()
	}
	if pos < len(want) || next < n {
		fail("after-write/missing-key", fmt.Sprintf("stream ended after %d items; next expected batch index %d of %d", items, next, n))
		return
	}
	c.Count("iter_items_compared", int64(items))
	c.Count("bigbatch_completed", 1)
	c.Nontrivial(fmt.Sprintf("big-%s-%s-%d", tag, end, n))
}
