package c19

import (
	"bytes"
	"crypto/sha256"
	"encoding/hex"
	"fmt"
	"runtime"
	"sync"
	"sync/atomic"

	dbm "github.com/lianxiangcloud/linkchain/libs/db"

	"verif/h/internal/core"
)

// C19R – concurrent lane (memdb and goleveldb, optionally through a prefix
// view), run with the race detector.
//
// W writers commit batches; batch s of writer w carries the unique id (w,s):
//
//	delete the 3 "generation" keys of (w,s-1), set the 3 generation keys of
//	(w,s) (one of them as set-junk / delete / set inside the batch), set the
//	writer's counter key and set the 2 keys that ALL writers share.
//
// Readers take iterator snapshots. Because every batch replaces one generation
// by the next, each snapshot determines, per writer, which prefix of that
// writer's batch sequence it reflects; the oracle is: it reflects exactly a
// prefix (no torn generation, no intermediate value), prefixes never go
// backwards for one reader, the shared keys carry one id and that id is the
// last batch of its writer's prefix (whole batch visible at once).
//
// memdb iterators snapshot the KEY LIST at creation and read values live
// (mem_db.go memDBIterator.Value -> db.Get), and the DB contract forbids
// relying on iterator values under concurrent writes; therefore on memdb only
// the key list is judged as a snapshot and a value only has to be one that was
// written for that key (or gone). goleveldb iterators are full snapshots and
// are judged completely.
func init() {
	core.Register(&core.Check{
		ID:        "C19R",
		Level:     "exploration",
		Technique: "concurrent writers committing batches with unique ids and readers taking iterator snapshots on the real memdb/goleveldb (direct and prefix view) under the Go race detector; every snapshot must reflect a prefix of every writer's batch sequence",
		Rule: "case = W writers x B generation-replacing batches, R snapshot readers (forward, reverse, prefix iterators), one noise goroutine of direct Set/Delete/Get/Has; " +
			"non-trivial = at least one snapshot was taken while some writer was strictly between its first and last batch; distinct by hash of the case parameters",
		Assumptions: []string{
			"memdb: only the iterator's key list is a snapshot (values are read live by design); goleveldb: key list and values",
			"schedules are whatever the Go scheduler produces on this machine; the race detector reports unsynchronised accesses even when the outcome happened to be consistent",
		},
		Race: true,
		Cases: func(tier string) int {
			if tier == "thorough" {
				return 1600
			}
			return 96
		},
		Run: runRace,
		// batches_committed is fixed by the generator; the snapshot counters depend on the scheduler, so their floors
		// are a third / a quarter of the minimum seen over VERIF_SEED=1..5 instead of a half
		Floors: func(tier string) map[string]int64 {
			if tier == "thorough" {
				return map[string]int64{"snapshots_judged": 130000, "snapshots_mid_history": 50000, "batches_committed": 80000, "cases_memdb": 600, "cases_goleveldb": 600, "cases_prefixview": 250}
			}
			return map[string]int64{"snapshots_judged": 8000, "snapshots_mid_history": 3000, "batches_committed": 5000, "cases_memdb": 40, "cases_goleveldb": 40, "cases_prefixview": 14}
		},
		PanicIsViolation: true, // "DBs are goroutine safe": a fatal concurrent map access is a refutation
		Init:             core.QuietLogs,
	})
}

const genMembers = 3

func genKeyOf(w, s, m int) []byte { return []byte(fmt.Sprintf("w%d/g/%05d/%c", w, s, 'a'+m)) }
func ctrKeyOf(w int) []byte       { return []byte(fmt.Sprintf("w%d/n", w)) }
func commonKeyOf(i int) []byte    { return []byte(fmt.Sprintf("c/%d", i)) }
func idOf(w, s int) []byte        { return []byte(fmt.Sprintf("w%d:s%05d", w, s)) }

func parseID(v []byte) (w, s int, ok bool) {
	n, err := fmt.Sscanf(string(v), "w%d:s%05d", &w, &s)
	return w, s, err == nil && n == 2
}

type raceCfg struct {
	Backend string `json:"backend"`
	View    bool   `json:"view"`
	Writers int    `json:"writers"`
	Batches int    `json:"batches_per_writer"`
	Readers int    `json:"readers"`
	MaxSnap int    `json:"max_snapshots_per_reader"`
}

type snapFail struct {
	key, detail string
	stream      []string
	mode        string
}

// judge one snapshot. prev[w] is the reader's last seen generation of writer w (-1 none); it is updated.
func judgeSnapshot(cfg raceCfg, mode string, onlyWriter int, items []kv, fullValues bool, prev []int) (f *snapFail, mid bool) {
	fail := func(key, format string, a ...interface{}) (*snapFail, bool) {
		return &snapFail{key: key, detail: fmt.Sprintf(format, a...), stream: fmtStream(items, 60), mode: mode}, false
	}
	// order
	for i := 1; i < len(items); i++ {
		c := bytes.Compare(items[i-1].K, items[i].K)
		if (mode == "reverse" && c <= 0) || (mode != "reverse" && c >= 0) {
			return fail("wrong-order", "items %d,%d out of order: %s then %s", i-1, i, hx(items[i-1].K), hx(items[i].K))
		}
	}
	type wstate struct {
		gens map[int]int // generation -> members seen
		ctr  []byte
		hasN bool
	}
	ws := make([]wstate, cfg.Writers)
	for i := range ws {
		ws[i].gens = map[int]int{}
	}
	var common [][]byte
	commonSeen := 0
	for _, it := range items {
		k := string(it.K)
		var w, s int
		var m byte
		switch {
		case len(k) > 2 && k[:2] == "c/":
			commonSeen++
			common = append(common, it.V)
		case len(k) > 2 && k[:2] == "z/":
			// noise keys: direct single-key traffic, only there for the race detector
		default:
			if n, _ := fmt.Sscanf(k, "w%d/g/%05d/%c", &w, &s, &m); n == 3 {
				if w < 0 || w >= cfg.Writers {
					return fail("foreign-key", "key %q was never written", k)
				}
				ws[w].gens[s]++
				if len(it.V) == 0 {
					if fullValues {
						return fail("snapshot-value-missing", "key %q has no value inside a snapshot iterator", k)
					}
					continue // memdb: deleted after the key list was taken
				}
				if !bytes.Equal(it.V, idOf(w, s)) {
					return fail("intermediate-value-visible", "key %q carries %q, the only committed value is %q (set/delete/set inside one batch must show the last write only)", k, it.V, idOf(w, s))
				}
			} else if n, _ := fmt.Sscanf(k, "w%d/n", &w); n == 1 && w >= 0 && w < cfg.Writers {
				ws[w].hasN = true
				ws[w].ctr = it.V
			} else {
				return fail("foreign-key", "key %q was never written", k)
			}
		}
	}
	for w := range ws {
		if onlyWriter >= 0 && w != onlyWriter {
			continue
		}
		if mode == "prefix-common" {
			continue
		}
		st := ws[w]
		if len(st.gens) > 1 {
			return fail("torn-batch/two-generations", "writer %d: generation keys of %d different batches are visible together: %v", w, len(st.gens), st.gens)
		}
		cur := -1
		for s, n := range st.gens {
			cur = s
			if n != genMembers {
				return fail("torn-batch/partial-generation", "writer %d: only %d of %d keys of batch %d are visible", w, n, genMembers, s)
			}
		}
		if (cur >= 0) != st.hasN {
			return fail("torn-batch/counter-key", "writer %d: generation visible=%v but counter key visible=%v (both are written by every batch)", w, cur >= 0, st.hasN)
		}
		if st.hasN {
			cw, cs, ok := parseID(st.ctr)
			if len(st.ctr) == 0 && !fullValues {
				ok, cw, cs = true, w, cur
			}
			if !ok || cw != w || cs >= cfg.Batches {
				return fail("garbage-value", "writer %d counter key carries %q", w, st.ctr)
			}
			if fullValues && cs != cur {
				return fail("torn-batch/counter-value", "writer %d: generation %d visible but counter key carries batch %d", w, cur, cs)
			}
			if !fullValues && cs < cur {
				return fail("value-older-than-key-list", "writer %d: key list shows batch %d but live counter value is of older batch %d", w, cur, cs)
			}
		}
		if cur < prev[w] {
			return fail("non-monotonic", "writer %d: this reader saw batch %d before and now sees batch %d", w, prev[w], cur)
		}
		prev[w] = cur
		if cur > 0 && cur < cfg.Batches-1 {
			mid = true
		}
	}
	if onlyWriter < 0 {
		any := false
		for w := range ws {
			if len(ws[w].gens) > 0 {
				any = true
			}
		}
		if mode == "prefix-common" {
			any = commonSeen > 0
		}
		if any && commonSeen != 2 || !any && commonSeen != 0 {
			return fail("torn-batch/shared-keys", "%d of 2 shared keys visible while some batch visible=%v", commonSeen, any)
		}
		if commonSeen == 2 && fullValues {
			if !bytes.Equal(common[0], common[1]) {
				return fail("torn-batch/shared-keys-differ", "shared keys carry %q and %q; every batch writes both", common[0], common[1])
			}
			cw, cs, ok := parseID(common[0])
			if !ok || cw < 0 || cw >= cfg.Writers {
				return fail("garbage-value", "shared key carries %q", common[0])
			}
			if mode != "prefix-common" {
				cur := -1
				for s := range ws[cw].gens {
					cur = s
				}
				if cur != cs {
					return fail("torn-batch/shared-vs-group", "shared keys carry batch (%d,%d) but writer %d's visible generation is %d: one batch is partly visible", cw, cs, cw, cur)
				}
			}
		}
		if commonSeen == 2 && !fullValues {
			for _, v := range common {
				if len(v) == 0 {
					continue
				}
				if cw, cs, ok := parseID(v); !ok || cw < 0 || cw >= cfg.Writers || cs >= cfg.Batches {
					return fail("garbage-value", "shared key carries %q", v)
				}
			}
		}
	}
	return nil, mid
}

func runRace(c *core.Ctx) {
	r := c.Rng
	cfg := raceCfg{
		Backend: []string{"memdb", "goleveldb"}[c.Index%2],
		View:    r.Chance(0.35),
		Writers: r.Range(2, 3),
		Batches: r.Range(25, 60),
		Readers: r.Range(2, 3),
		MaxSnap: 400,
	}
	tag := "race/" + cfg.Backend
	if cfg.View {
		tag += "+prefixview"
	}
	c.Count("cases_"+cfg.Backend, 1)
	if cfg.View {
		c.Count("cases_prefixview", 1)
	}
	if c.Index%24 == 0 {
		c.Sample(cfg)
	}
	under := dbm.NewDB("c19r", backendTypes[cfg.Backend], c.Scratch, 1)
	defer under.Close()
	var db dbm.DB = under
	if cfg.View {
		db = dbm.NewPrefixDB(under, []byte("v/"))
		under.Set([]byte("v"), []byte("below"))
		under.Set([]byte("v0"), []byte("above")) // '0' == '/'+1: the exclusive end of the view
	}
	fullValues := cfg.Backend == "goleveldb"

	var writersDone int32
	var midSeen int64
	var wg, wwg sync.WaitGroup
	start := make(chan struct{})
	var fmu sync.Mutex
	var fails []*snapFail
	report := func(f *snapFail) {
		fmu.Lock()
		if len(fails) < 4 {
			fails = append(fails, f)
		}
		fmu.Unlock()
	}

	for w := 0; w < cfg.Writers; w++ {
		w := w
		how := r.Intn(3)
		wg.Add(1)
		wwg.Add(1)
		go func() {
			defer wg.Done()
			defer wwg.Done()
			<-start
			for s := 0; s < cfg.Batches; s++ {
				b := db.NewBatch()
				if s > 0 {
					for m := 0; m < genMembers; m++ {
						b.Delete(genKeyOf(w, s-1, m))
					}
				}
				b.Set(genKeyOf(w, s, 0), []byte("junk-intermediate"))
				b.Set(genKeyOf(w, s, 1), idOf(w, s))
				b.Delete(genKeyOf(w, s, 0))
				b.Set(commonKeyOf(0), idOf(w, s))
				b.Set(genKeyOf(w, s, 0), idOf(w, s))
				b.Set(ctrKeyOf(w), idOf(w, s))
				b.Set(genKeyOf(w, s, 2), idOf(w, s))
				b.Set(commonKeyOf(1), idOf(w, s))
				switch (how + s) % 3 {
				case 0:
					b.Write()
				case 1:
					b.Commit()
				default:
					b.WriteSync()
				}
				c.Count("batches_committed", 1)
				runtime.Gosched()
			}
		}()
	}
	go func() { wwg.Wait(); atomic.StoreInt32(&writersDone, 1) }()

	for rd := 0; rd < cfg.Readers; rd++ {
		rr := r.Split()
		wg.Add(1)
		go func() {
			defer wg.Done()
			prev := make([]int, cfg.Writers)
			for i := range prev {
				prev[i] = -1
			}
			<-start
			for n := 0; n < cfg.MaxSnap; n++ {
				finished := atomic.LoadInt32(&writersDone) == 1
				mode := []string{"forward", "reverse", "prefix-writer", "prefix-common", "forward"}[rr.Intn(5)]
				only := -1
				var it dbm.Iterator
				switch mode {
				case "forward":
					it = db.Iterator(nil, nil)
				case "reverse":
					it = db.ReverseIterator(nil, nil)
				case "prefix-writer":
					only = rr.Intn(cfg.Writers)
					it = db.NewIteratorWithPrefix([]byte(fmt.Sprintf("w%d/", only)))
				default:
					it = db.NewIteratorWithPrefix([]byte("c/"))
				}
				var items []kv
				for ; it.Valid(); it.Next() {
					items = append(items, kv{append([]byte{}, it.Key()...), append([]byte{}, it.Value()...)})
					if len(items) > 4096 {
						break
					}
				}
				it.Close()
				f, mid := judgeSnapshot(cfg, mode, only, items, fullValues, prev)
				c.Count("snapshots_judged", 1)
				c.Count("snapshot_items", int64(len(items)))
				if mid {
					c.Count("snapshots_mid_history", 1)
					atomic.AddInt64(&midSeen, 1)
				}
				if f != nil {
					report(f)
					return
				}
				if finished && n >= 8 {
					return
				}
				runtime.Gosched()
			}
		}()
	}

	// noise: direct single-key traffic and point reads of batch-written keys
	nr := r.Split()
	wg.Add(1)
	go func() {
		defer wg.Done()
		<-start
		for i := 0; i < 300; i++ {
			k := []byte(fmt.Sprintf("z/%d", nr.Intn(6)))
			switch nr.Intn(5) {
			case 0:
				db.Set(k, []byte("noise"))
			case 1:
				db.Delete(k)
			case 2:
				db.Has(k)
			case 3:
				w := nr.Intn(cfg.Writers)
				v := db.Get(ctrKeyOf(w))
				if v != nil {
					if cw, cs, ok := parseID(v); !ok || cw != w || cs >= cfg.Batches {
						report(&snapFail{key: "garbage-value", detail: fmt.Sprintf("Get(counter of writer %d) = %q", w, v), mode: "get"})
						return
					}
				}
				c.Count("concurrent_gets", 1)
			default:
				if cfg.View {
					under.Set([]byte("v0"), []byte("above"))
				} else {
					db.Get(commonKeyOf(0))
				}
			}
			if i%8 == 0 {
				runtime.Gosched()
			}
		}
	}()

	close(start)
	wg.Wait()

	for _, f := range fails {
		c.Violation(tag+"/snapshot/"+f.key, f.detail, map[string]interface{}{"config": cfg, "iterator": f.mode, "stream": f.stream})
	}
	if len(fails) > 0 {
		return
	}
	// quiescent final state: every writer's last batch, nothing else
	it := db.Iterator(nil, nil)
	var items []kv
	for ; it.Valid(); it.Next() {
		items = append(items, kv{append([]byte{}, it.Key()...), append([]byte{}, it.Value()...)})
	}
	it.Close()
	prev := make([]int, cfg.Writers)
	for i := range prev {
		prev[i] = cfg.Batches - 1 // anything older than the last batch is "non-monotonic"
	}
	if f, _ := judgeSnapshot(cfg, "forward", -1, items, true, prev); f != nil {
		c.Violation(tag+"/final-state/"+f.key, f.detail, map[string]interface{}{"config": cfg, "stream": f.stream})
		return
	}
	c.Count("cases_completed", 1)
	if atomic.LoadInt64(&midSeen) > 0 {
		h := sha256.Sum256([]byte(fmt.Sprintf("%+v/%d/%d", cfg, c.Seed, c.Index)))
		c.Nontrivial(hex.EncodeToString(h[:8]))
	}
}
