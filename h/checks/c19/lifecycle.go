package c19

import (
	"bytes"
	"crypto/sha256"
	"encoding/hex"
	"encoding/json"
	"fmt"
	"io/ioutil"
	"os"
	"os/exec"
	"path/filepath"
	"strings"
	"syscall"
	"time"

	dbm "github.com/lianxiangcloud/linkchain/libs/db"

	"verif/h/internal/core"
)

// Batch life cycle lane: ONE batch object is staged, written, Reset and used
// again ("Reset resets the batch for reuse", types.go; this is what
// libs/trie/database.go does while flushing: Write(); Reset(); keep going).
//
// Some backends start goroutines inside Write/Commit; a panic there cannot be
// recovered by the caller and kills the process. To observe that as an
// ordinary, classifiable outcome the generated script is executed by a probe
// process (this same binary, selected by an environment variable) and the
// case judges the probe's report or its death.

const probeEnv = "VERIF_C19_PROBE"

func init() {
	if p := os.Getenv(probeEnv); p != "" {
		core.QuietLogs()
		os.Exit(probeMain(p))
	}
}

type lcOp struct {
	Op string `json:"op"` // set | delete | direct-set | write | commit | writesync | reset
	K  string `json:"k,omitempty"`
	V  string `json:"v,omitempty"`
}

type lcScript struct {
	Backend string `json:"backend"`
	Dir     string `json:"dir"`
	Ops     []lcOp `json:"ops"`
}

type lcResult struct {
	Done   bool   `json:"done"`
	Key    string `json:"key,omitempty"`
	Detail string `json:"detail,omitempty"`
	Steps  int    `json:"steps"`
}

func isWrite(op string) bool { return op == "write" || op == "commit" || op == "writesync" }

// trail: the last life-cycle transitions up to and including op i, e.g. "reset>write".
func trail(ops []lcOp, i int) string {
	var t []string
	for j := 0; j <= i; j++ {
		switch {
		case isWrite(ops[j].Op):
			t = append(t, "write")
		case ops[j].Op == "reset":
			t = append(t, "reset")
		}
	}
	if len(t) > 2 {
		t = t[len(t)-2:]
	}
	if len(t) == 0 {
		return "fresh"
	}
	return strings.Join(t, ">")
}

func probeMain(path string) int {
	raw, err := ioutil.ReadFile(path)
	if err != nil {
		fmt.Fprintln(os.Stderr, "probe:", err)
		return 2
	}
	var sc lcScript
	if err := json.Unmarshal(raw, &sc); err != nil {
		fmt.Fprintln(os.Stderr, "probe:", err)
		return 2
	}
	progress, _ := os.OpenFile(path+".progress", os.O_CREATE|os.O_WRONLY|os.O_APPEND, 0644)
	finish := func(r lcResult) int {
		b, _ := json.Marshal(r)
		ioutil.WriteFile(path+".result", b, 0644)
		return 0
	}
	db := dbm.NewDB("c19lc", backendTypes[sc.Backend], sc.Dir, 1)
	ref := newRef()
	var pend []bop
	b := db.NewBatch()
	for i, op := range sc.Ops {
		fmt.Fprintf(progress, "%d\n", i)
		before := ref.clone()
		k, _ := hex.DecodeString(op.K)
		v, _ := hex.DecodeString(op.V)
		switch op.Op {
		case "set":
			b.Set(k, v)
			pend = append(pend, bop{false, k, v})
		case "delete":
			b.Delete(k)
			pend = append(pend, bop{true, k, nil})
		case "direct-set":
			db.Set(k, v)
			ref.set(k, v)
		case "write", "commit", "writesync":
			switch op.Op {
			case "write":
				b.Write()
			case "commit":
				b.Commit()
			default:
				b.WriteSync()
			}
			for _, o := range pend {
				if o.del {
					ref.del(o.k)
				} else {
					ref.set(o.k, o.v)
				}
			}
			pend = nil
		case "reset":
			b.Reset()
			pend = nil
		}
		// full comparison after every operation
		var got []kv
		it := db.Iterator(nil, nil)
		for ; it.Valid(); it.Next() {
			got = append(got, kv{append([]byte{}, it.Key()...), append([]byte{}, it.Value()...)})
			if len(got) > ref.len()+8 {
				break
			}
		}
		it.Close()
		if kind, detail := diffStreams(got, ref.forward(nil, nil), ref.len()+8); kind != "" {
			if isWrite(op.Op) {
				if k2, _ := diffStreams(got, before.forward(nil, nil), before.len()+8); k2 == "" {
					kind = "batch-not-applied" // the store is exactly what it was before the write
				} else {
					kind = "batch-misapplied/" + kind
				}
			}
			return finish(lcResult{Key: trail(sc.Ops, i) + "/" + kind, Detail: fmt.Sprintf("after op %d (%s): %s", i, op.Op, detail), Steps: i})
		}
		for _, key := range ref.sortedKeys() {
			if g := db.Get([]byte(key)); !bytes.Equal(g, ref.m[key]) {
				kind := "get-mismatch"
				return finish(lcResult{Key: trail(sc.Ops, i) + "/" + kind, Detail: fmt.Sprintf("after op %d (%s): Get(%s)=%s want %s", i, op.Op, hx([]byte(key)), hx(g), hx(ref.m[key])), Steps: i})
			}
		}
	}
	db.Close()
	return finish(lcResult{Done: true, Steps: len(sc.Ops)})
}

func runLifecycle(c *core.Ctx, cfg caseCfg) {
	r := c.Rng
	tag := cfg.Backend
	c.Count("cases_lifecycle_"+tag, 1)
	sc := lcScript{Backend: cfg.Backend, Dir: filepath.Join(c.Scratch, "db")}
	os.MkdirAll(sc.Dir, 0755)
	keys := [][]byte{[]byte("a"), []byte("b"), []byte("b\xff"), []byte("c\x00"), []byte("d"), r.Bytes(4), r.Bytes(9)}
	n := r.Range(8, 36)
	needReset := false // after a write the batch is Reset before it is staged or written again (never re-written as is)
	id := 0
	resets, writesAfterReset, sawReset := 0, 0, false
	for len(sc.Ops) < n {
		x := r.Intn(100)
		switch {
		case needReset:
			sc.Ops = append(sc.Ops, lcOp{Op: "reset"})
			needReset = false
			sawReset = true
			resets++
		case x < 45:
			id++
			v := append([]byte{byte(id), byte(id >> 8)}, r.Bytes(r.Range(0, 40))...)
			sc.Ops = append(sc.Ops, lcOp{Op: "set", K: hex.EncodeToString(keys[r.Intn(len(keys))]), V: hex.EncodeToString(v)})
		case x < 60:
			sc.Ops = append(sc.Ops, lcOp{Op: "delete", K: hex.EncodeToString(keys[r.Intn(len(keys))])})
		case x < 68:
			id++
			v := append([]byte{byte(id), byte(id >> 8)}, r.Bytes(r.Range(0, 40))...)
			sc.Ops = append(sc.Ops, lcOp{Op: "direct-set", K: hex.EncodeToString(keys[r.Intn(len(keys))]), V: hex.EncodeToString(v)})
		case x < 88:
			sc.Ops = append(sc.Ops, lcOp{Op: []string{"write", "commit", "writesync"}[r.Intn(3)]})
			needReset = true
			if sawReset {
				writesAfterReset++
			}
		default:
			sc.Ops = append(sc.Ops, lcOp{Op: "reset"})
			sawReset = true
			resets++
		}
	}
	path := filepath.Join(c.Scratch, "lifecycle.json")
	raw, _ := json.Marshal(sc)
	ioutil.WriteFile(path, raw, 0644)
	if c.Index%80 == 19 {
		m := len(sc.Ops)
		if m > 16 {
			m = 16
		}
		c.Sample(map[string]interface{}{"config": cfg, "first_ops": sc.Ops[:m]})
	}
	exe, _ := os.Executable()
	cmd := exec.Command(exe)
	cmd.Env = append(os.Environ(), probeEnv+"="+path)
	var out bytes.Buffer
	cmd.Stdout, cmd.Stderr = &out, &out
	cmd.SysProcAttr = &syscall.SysProcAttr{Setpgid: true}
	if err := cmd.Start(); err != nil {
		c.Inconclusive("lifecycle probe could not be started: " + err.Error())
		return
	}
	done := make(chan error, 1)
	go func() { done <- cmd.Wait() }()
	var werr error
	select {
	case werr = <-done:
	case <-time.After(3 * time.Minute): // watchdog only: its firing is inconclusive, never a verdict
		syscall.Kill(-cmd.Process.Pid, syscall.SIGKILL)
		<-done
		c.Inconclusive("lifecycle probe watchdog")
		return
	}
	c.Count("lifecycle_probes", 1)
	c.Count("lifecycle_resets", int64(resets))
	c.Count("lifecycle_writes_after_reset", int64(writesAfterReset))
	witness := map[string]interface{}{"config": cfg, "script": sc.Ops}
	var res lcResult
	died := werr != nil || strings.Contains(out.String(), "panic:") || strings.Contains(out.String(), "fatal error:")
	if b, err := ioutil.ReadFile(path + ".result"); !died && err == nil && json.Unmarshal(b, &res) == nil {
		c.Count("lifecycle_ops", int64(res.Steps))
		if res.Done {
			c.Count("lifecycle_completed", 1)
			if writesAfterReset > 0 {
				h := sha256.Sum256(raw)
				c.Nontrivial(fmt.Sprintf("lc-%s-%x", tag, h[:6]))
			}
			return
		}
		c.Violation(tag+"/batch-lifecycle/"+res.Key, res.Detail, witness)
		return
	}
	// the probe died: which operation was it executing?
	step := -1
	if b, err := ioutil.ReadFile(path + ".progress"); err == nil {
		lines := strings.Fields(string(b))
		if len(lines) > 0 {
			fmt.Sscanf(lines[len(lines)-1], "%d", &step)
		}
	}
	tail := out.String()
	if i := strings.Index(tail, "panic:"); i >= 0 {
		tail = tail[i:]
	} else if i := strings.Index(tail, "fatal error:"); i >= 0 {
		tail = tail[i:]
	}
	if len(tail) > 2500 {
		tail = tail[:2500]
	}
	witness["probe_output"] = tail
	first := tail
	if i := strings.Index(first, "\n"); i >= 0 {
		first = first[:i]
	}
	if step < 0 {
		c.Inconclusive(fmt.Sprintf("lifecycle probe died before its first operation (%v): %s", werr, first))
		return
	}
	c.Count("lifecycle_ops", int64(step))
	// The adapters run Write/Commit in goroutines with `defer wg.Done()`: when such a goroutine panics, the
	// deferred Done releases the caller, which keeps executing for a moment while the runtime is already
	// killing the process. So a death whose stack is inside Batch.Write/Commit belongs to the last write
	// operation at or before the recorded step, and the (racy) alternatives "the probe still saw the lost
	// batch" / "the process was gone first" are one class: the batch written there was not applied.
	full := out.String()
	if strings.Contains(full, "Batch).Write") || strings.Contains(full, "Batch).Commit") || strings.Contains(full, "Batch).WriteSync") {
		for j := step; j >= 0; j-- {
			if isWrite(sc.Ops[j].Op) {
				c.Violation(tag+"/batch-lifecycle/"+trail(sc.Ops, j)+"/batch-not-applied",
					fmt.Sprintf("the process died while writing the batch in operation %d (%s): %s (a panic in a goroutine started by the adapter cannot be recovered by the caller)", j, sc.Ops[j].Op, first), witness)
				return
			}
		}
	}
	c.Violation(tag+"/batch-lifecycle/"+trail(sc.Ops, step)+"/process-died",
		fmt.Sprintf("the process executing the script died in operation %d (%s) of the batch (%v): %s", step, sc.Ops[step].Op, werr, first), witness)
}
