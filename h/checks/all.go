// Package checks links every check into vcheck.
package checks

import (
	_ "verif/h/checks/c01"
	_ "verif/h/checks/c01t"
	_ "verif/h/checks/c02"
	_ "verif/h/checks/c03"
	_ "verif/h/checks/c04"
	_ "verif/h/checks/c05"
	_ "verif/h/checks/c06"
	_ "verif/h/checks/c07"
	_ "verif/h/checks/c08"
	_ "verif/h/checks/c09"
	_ "verif/h/checks/c10"
	_ "verif/h/checks/c11"
	_ "verif/h/checks/c12"
	_ "verif/h/checks/c12sim"
	_ "verif/h/checks/c13"
	_ "verif/h/checks/c14"
	_ "verif/h/checks/c15"
	_ "verif/h/checks/c16"
	_ "verif/h/checks/c17"
	_ "verif/h/checks/c17sim"
	_ "verif/h/checks/c18"
	_ "verif/h/checks/c19"
	_ "verif/h/checks/c20"
	_ "verif/h/checks/shimtest"
)
