// Package checks links every check into vcheck.
package checks

import (
	_ "verif/h/checks/c10"
)
