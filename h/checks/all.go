// Package checks links every check into vcheck.
package checks

import (
	_ "verif/h/checks/c01"
	_ "verif/h/checks/c02"
	_ "verif/h/checks/c10"
	_ "verif/h/checks/c16"
	_ "verif/h/checks/c17"
	_ "verif/h/checks/c17sim"
	_ "verif/h/checks/shimtest"
)
