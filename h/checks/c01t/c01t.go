// Package c01t is the threaded lane of C01 (id "C01T"): real goroutines, in-memory network, race detector.
package c01t

import (
	"fmt"
	"runtime"
	"time"

	"verif/h/internal/core"
	"verif/h/internal/detsim"
)

func init() {
	core.Register(&core.Check{
		ID:        "C01T",
		Level:     "exploration",
		Race:      true,
		Technique: "stress run of N real validators with their real goroutines (receiveRoutine, ticker, reactor gossip routines, WAL) over an in-memory network under the Go race detector; agreement + commit-justification oracle",
		Rule: "case = one run of 4 real validators (random powers, per-link jitter, GOMAXPROCS in {2,4,16}, SkipTimeoutCommit on/off) until every node committed 3 heights; " +
			"violations: two nodes commit different blocks at a height, a seen-commit without >2/3 correctly signed power, any data race reported in repository code; non-trivial = all nodes committed >= 3 heights; distinct by (config, messages delivered)",
		Assumptions: []string{"light application; no Byzantine validators in this lane (interleavings, not adversaries, are its subject)", "a run that does not reach 3 heights before the generous watchdog is inconclusive, never a violation"},
		Cases: func(tier string) int {
			if tier == "thorough" {
				return 400
			}
			return 16
		},
		RaceAllow: map[string]string{
			"metrics.(*prometheusMetric)": "process-global metrics singleton shared by the N nodes of one harness process; production runs one node per process",
		},
		Batch:    func(string) int { return 2 },
		Parallel: 4,
		Run:      run,
		Init:     core.QuietLogs,
		Floors: func(tier string) map[string]int64 {
			return map[string]int64{"commits_observed": 150, "messages_delivered": 5000}
		},
	})
}

func run(c *core.Ctx) {
	r := c.Rng
	old := runtime.GOMAXPROCS([]int{2, 4, 16}[r.Intn(3)])
	defer runtime.GOMAXPROCS(old)
	powers := []int64{int64(1 + r.Intn(9)), int64(1 + r.Intn(9)), int64(1 + r.Intn(9)), int64(1 + r.Intn(9))}
	net, err := detsim.NewMemNet(r.Split(), powers, c.Scratch)
	if err != nil {
		c.Inconclusive("setup: " + err.Error())
		return
	}
	target := uint64(3)
	deadline := time.Now().Add(120 * time.Second) // watchdog only
	for net.MinHeight() < target && time.Now().Before(deadline) {
		time.Sleep(20 * time.Millisecond)
	}
	reached := net.MinHeight()
	net.Stop()
	n := 0
	for _, m := range net.Commits {
		n += len(m)
	}
	c.Count("commits_observed", int64(n))
	c.Count("messages_delivered", net.Delivered)
	c.Count("receive_panics_recovered", int64(net.ReceivePanics))
	for _, v := range net.Violations {
		c.Violation(v.Key, v.Detail, map[string]interface{}{"powers": powers})
	}
	if reached < target {
		c.Inconclusive(fmt.Sprintf("watchdog: only %d heights committed by every node", reached))
		return
	}
	c.Nontrivial(fmt.Sprintf("%v-%d", powers, net.Delivered/50))
	if c.Index%4 == 0 {
		c.Sample(map[string]interface{}{"powers": powers, "heights": reached, "messages": net.Delivered})
	}
}
